(** C20 — triple store BEFORE the repair of C20-K1 (four separately locked updates): the torn-index schedule, its class K, and consistency of the three
    indexes with the primary set for every program outside K and every schedule. *)
From Coq Require Import ZArith List Bool Lia Permutation Arith.
From GV Require Import Conc.Ops Conc.ProofsSem Conc.ProofsRdf.
Import ListNotations.
Open Scope Z_scope.

Notation qthread := (@thread regs qop_pre out).

(** * the finding and its class *)
Lemma rdf_torn_pre_refuted_l :
  exists progs sched, progs = [[QInsertPre 7]; [QRemovePre 7]] /\ sched = [0; 0; 1; 1; 1; 1; 0; 0; 0]%nat /\
    k_rdf progs = true /\
    let c := qrun_pre sched (qinit_pre rdf0 progs) in
    finished c = true /\ zmem 7 (q_prim (sh c)) = false /\
    zmem 7 (q_s (sh c)) = true /\ zmem 7 (q_p (sh c)) = true /\ zmem 7 (q_o (sh c)) = true /\
    rdf_consistent_at (sh c) 7 = false.
Proof. eexists; eexists. vm_compute. repeat split; reflexivity. Qed.

(** * the per-triple invariant *)
Inductive role := RIns (pc : nat) | RRem (pc : nat).

Definition actor (t : Z) (th : qthread) : list role :=
  match t_op th with
  | Some (QInsertPre t', pc) => if (t' =? t) && (2 <=? pc)%nat then [RIns pc] else []
  | Some (QRemovePre t', pc) => if (t' =? t) && (1 <=? pc)%nat then [RRem pc] else []
  | None => []
  end.

Definition c01 (b : bool) : nat := if b then 1%nat else 0%nat.

Definition facts (t : Z) (q : rdf) (r : list role) : Prop :=
  match r with
  | [] => zcount t (q_s q) = c01 (zmem t (q_prim q)) /\ zcount t (q_p q) = c01 (zmem t (q_prim q)) /\
          zcount t (q_o q) = c01 (zmem t (q_prim q))
  | [RIns pc] => zmem t (q_prim q) = true /\ (pc <= 4)%nat /\
          zcount t (q_s q) = c01 (2 <? pc)%nat /\ zcount t (q_p q) = c01 (3 <? pc)%nat /\ zcount t (q_o q) = c01 (4 <? pc)%nat
  | [RRem pc] => zmem t (q_prim q) = false /\ (pc <= 3)%nat /\
          zcount t (q_s q) = c01 (pc <=? 1)%nat /\ zcount t (q_p q) = c01 (pc <=? 2)%nat /\ zcount t (q_o q) = c01 (pc <=? 3)%nat
  | _ => False
  end.

Definition same_on (t : Z) (q q' : rdf) : Prop :=
  zmem t (q_prim q') = zmem t (q_prim q) /\ zcount t (q_s q') = zcount t (q_s q) /\
  zcount t (q_p q') = zcount t (q_p q) /\ zcount t (q_o q') = zcount t (q_o q).

Lemma facts_frame : forall t q q' r, same_on t q q' -> facts t q r -> facts t q' r.
Proof.
  intros t q q' r (E1 & E2 & E3 & E4) F. destruct r as [|[pc|pc] [|]]; simpl in *; rewrite ?E1, ?E2, ?E3, ?E4; auto.
Qed.

Definition cur_op (th : qthread) : option qop_pre := match t_op th with Some (op, _) => Some op | None => None end.

Lemma actor_load : forall t l todo o, actor t (load l todo o) = [].
Proof. intros. destruct todo as [|[]]; unfold actor; simpl; rewrite ?andb_false_r; reflexivity. Qed.

Ltac qcrunch :=
  repeat match goal with
  | H : (_, _) = (_, _) |- _ => inversion H; subst; clear H
  end.

(** what a step of one thread means for triple t *)
Ltac qleaf NE :=
  qcrunch; rewrite ?actor_load; unfold actor, cur_op; simpl;
  rewrite ?Z.eqb_refl; simpl;
  repeat (match goal with E : (?a =? ?b) = false |- context [?a =? ?b] => rewrite E end); simpl;
  unfold facts, same_on; simpl;
  rewrite ?Z.eqb_refl, ?zcount_cons_same, ?zcount_zrem_same, ?zmem_zrem_same; simpl;
  try (rewrite ?(zcount_cons_other _ _ _ NE), ?(zcount_zrem_other _ _ _ NE), ?(zmem_zrem_other _ _ _ NE));
  repeat match goal with |- context [zmem ?t (q_prim ?s)] => let M := fresh "M" in destruct (zmem t (q_prim s)) eqn:M; simpl end;
  intuition (try congruence; try lia).

Lemma qstep_local : forall t s th s' th', step_thread qcode_pre qexec s th = (s', th') ->
  match actor t th, actor t th' with
  | [], [] => same_on t s s'
  | [], r' => (facts t s [] -> facts t s' r') /\
              ((zmem t (q_prim s) = false /\ cur_op th = Some (QInsertPre t)) \/
               (zmem t (q_prim s) = true /\ cur_op th = Some (QRemovePre t)))
  | r, r' => facts t s r -> facts t s' r'
  end.
Proof.
  intros t s [top tl ttodo tout] s' th' H. unfold step_thread in H. simpl in H.
  destruct top as [[op pc]|]; [|qleaf I].
  destruct op as [u|u]; unfold actor at 1; simpl t_op; cbv iota beta.
  - (* insert u *)
    destruct (Z.eq_dec u t) as [->|NE].
    + rewrite Z.eqb_refl. simpl andb.
      destruct pc as [|[|[|[|[|pc]]]]]; simpl in H |- *.
      * destruct (zmem t (q_prim s)) eqn:M0; qleaf I.
      * destruct (zmem t (q_prim s)) eqn:M0; qleaf I.
      * qleaf I.
      * qleaf I.
      * qleaf I.
      * destruct pc; simpl in H; qleaf I.
    + assert (E : (u =? t) = false) by (apply Z.eqb_neq; auto). rewrite E. simpl andb. cbv iota.
      assert (NE' : t <> u) by congruence.
      assert (E' : (t =? u) = false) by (apply Z.eqb_neq; auto).
      destruct pc as [|[|[|[|[|pc]]]]]; simpl in H.
      * destruct (zmem u (q_prim s)) eqn:M0; qleaf NE'.
      * destruct (zmem u (q_prim s)) eqn:M0; qleaf NE'.
      * qleaf NE'.
      * qleaf NE'.
      * qleaf NE'.
      * destruct pc; simpl in H; qleaf NE'.
  - (* remove u *)
    destruct (Z.eq_dec u t) as [->|NE].
    + rewrite Z.eqb_refl. simpl andb.
      destruct pc as [|[|[|[|pc]]]]; simpl in H |- *.
      * destruct (zmem t (q_prim s)) eqn:M0; qleaf I.
      * qleaf I.
      * qleaf I.
      * qleaf I.
      * destruct pc; simpl in H; qleaf I.
    + assert (E : (u =? t) = false) by (apply Z.eqb_neq; auto). rewrite E. simpl andb. cbv iota.
      assert (NE' : t <> u) by congruence.
      assert (E' : (t =? u) = false) by (apply Z.eqb_neq; auto).
      destruct pc as [|[|[|[|pc]]]]; simpl in H.
      * destruct (zmem u (q_prim s)) eqn:M0; qleaf NE'.
      * qleaf NE'.
      * qleaf NE'.
      * qleaf NE'.
      * destruct pc; simpl in H; qleaf NE'.
Qed.

(** * the pool-level invariant *)
Definition mentions (op : qop_pre) (th : qthread) : Prop := cur_op th = Some op \/ In op (t_todo th).
Definition noconf (p : list qthread) : Prop :=
  forall i j thi thj t, i <> j -> nth_error p i = Some thi -> nth_error p j = Some thj ->
    mentions (QInsertPre t) thi -> mentions (QRemovePre t) thj -> False.

Lemma mentions_load : forall op l todo o, mentions op (load l todo o) -> In op todo.
Proof.
  intros op l todo o [H|H]; destruct todo as [|x r]; simpl in *; try discriminate; auto.
  unfold cur_op in H. simpl in H. inversion H. auto.
Qed.

Lemma mentions_step : forall op s th s' th', step_thread qcode_pre qexec s th = (s', th') ->
  mentions op th' -> mentions op th.
Proof.
  intros op s [top tl ttodo tout] s' th' H M. unfold step_thread in H. simpl in H.
  destruct top as [[o pc]|]; [|qcrunch; auto].
  destruct (nth_error (qcode_pre o) pc) as [k|]; [|qcrunch; auto].
  destruct (qexec k s tl) as [[s1 l1] [| |r]]; qcrunch.
  - destruct M as [M|M]; [left|right]; auto.
  - destruct M as [M|M]; [left|right]; auto.
  - right. simpl. eapply mentions_load; eauto.
Qed.

Lemma noconf_step : forall c i, noconf (pool c) -> noconf (pool (step qcode_pre qexec c i)).
Proof.
  intros c i N.
  destruct (nth_error (pool c) i) as [th|] eqn:E; [|rewrite step_none; auto].
  rewrite (step_unfold _ _ _ _ _ qcode_pre qexec c i th E).
  destruct (step_thread qcode_pre qexec (sh c) th) as [s' th'] eqn:ST. simpl.
  pose proof (nth_error_lt _ _ _ _ E) as Li.
  intros a b tha thb t Hab Ha Hb Ma Mb.
  destruct (Nat.eq_dec a i) as [->|Na]; destruct (Nat.eq_dec b i) as [->|Nb]; try congruence.
  - rewrite nth_upd_same in Ha by auto. inversion Ha; subst. rewrite nth_upd_other in Hb by auto.
    eapply (N i b th thb t); eauto. eapply mentions_step; eauto.
  - rewrite nth_upd_same in Hb by auto. inversion Hb; subst. rewrite nth_upd_other in Ha by auto.
    eapply (N a i tha th t); eauto. eapply mentions_step; eauto.
  - rewrite nth_upd_other in Ha by auto. rewrite nth_upd_other in Hb by auto. eapply (N a b); eauto.
Qed.

Definition actors (t : Z) (p : list qthread) : list role := flat_map (actor t) p.

Lemma facts_two : forall t q a b l, facts t q (a :: b :: l) -> False.
Proof. intros t q [pc|pc] b l H; exact H. Qed.

Lemma facts_single_mid : forall t q A1 x A2, facts t q (A1 ++ [x] ++ A2) -> A1 = [] /\ A2 = [].
Proof.
  intros t q A1 x A2 H. destruct A1 as [|a A1].
  - destruct A2; [split; reflexivity|]. exfalso. eapply (facts_two t q x r A2). exact H.
  - exfalso. destruct A1 as [|a0 A1].
    + eapply (facts_two t q a x A2). exact H.
    + eapply (facts_two t q a a0 (A1 ++ [x] ++ A2)). exact H.
Qed.

Lemma actor_ins : forall t th pc, In (RIns pc) (actor t th) -> cur_op th = Some (QInsertPre t).
Proof.
  unfold actor, cur_op. intros t th pc. destruct (t_op th) as [[[u|u] p]|]; intros H; try contradiction.
  - destruct (u =? t) eqn:E; simpl in H; [|contradiction]. apply Z.eqb_eq in E. subst. auto.
  - destruct ((u =? t) && (1 <=? p)%nat); simpl in H; [|contradiction]. destruct H as [H|[]]. discriminate H.
Qed.
Lemma actor_rem : forall t th pc, In (RRem pc) (actor t th) -> cur_op th = Some (QRemovePre t).
Proof.
  unfold actor, cur_op. intros t th pc. destruct (t_op th) as [[[u|u] p]|]; intros H; try contradiction.
  - destruct ((u =? t) && (2 <=? p)%nat); simpl in H; [|contradiction]. destruct H as [H|[]]. discriminate H.
  - destruct (u =? t) eqn:E; simpl in H; [|contradiction]. apply Z.eqb_eq in E. subst. auto.
Qed.
Lemma actor_short : forall t th, actor t th = [] \/ exists x, actor t th = [x].
Proof.
  unfold actor. intros. destruct (t_op th) as [[[u|u] p]|]; auto.
  - destruct ((u =? t) && (2 <=? p)%nat); eauto.
  - destruct ((u =? t) && (1 <=? p)%nat); eauto.
Qed.

(** an actor found among the other threads sits at an index different from i *)
Lemma other_actor : forall t (l1 l2 : list qthread) th r,
  In r (flat_map (actor t) l1 ++ flat_map (actor t) l2) ->
  exists j thj, j <> length l1 /\ nth_error (l1 ++ th :: l2) j = Some thj /\ In r (actor t thj).
Proof.
  intros t l1 l2 th r H. apply in_app_or in H. destruct H as [H|H]; apply in_flat_map in H; destruct H as (thj & Hin & Hr).
  - destruct (In_nth_error _ _ Hin) as (j & Ej). exists j, thj.
    pose proof (nth_error_lt _ _ _ _ Ej). split; [lia|]. split; auto. rewrite nth_error_app1; auto.
  - destruct (In_nth_error _ _ Hin) as (k & Ek). exists (length l1 + S k)%nat, thj.
    split; [lia|]. split; auto. rewrite nth_error_app2 by lia.
    replace (length l1 + S k - length l1)%nat with (S k) by lia. auto.
Qed.

Definition rdf_inv (t : Z) (c : qcfg_pre) : Prop := noconf (pool c) /\ facts t (sh c) (actors t (pool c)).

Lemma rdf_inv_step : forall t c i, rdf_inv t c -> rdf_inv t (step qcode_pre qexec c i).
Proof.
  intros t c i [N F]. split; [apply noconf_step; auto|].
  destruct (nth_error (pool c) i) as [th|] eqn:E; [|rewrite step_none; auto].
  rewrite (step_unfold _ _ _ _ _ qcode_pre qexec c i th E).
  destruct (step_thread qcode_pre qexec (sh c) th) as [s' th'] eqn:ST. simpl.
  destruct (upd_nth_split _ i th' th (pool c) E) as (l1 & l2 & P1 & P2 & Len).
  unfold actors in *. rewrite P2. rewrite P1 in F. rewrite flat_map_app in *. simpl in *.
  pose proof (qstep_local t _ _ _ _ ST) as L.
  destruct (actor_short t th) as [A|(x & A)]; rewrite A in *.
  - destruct (actor_short t th') as [A'|(x' & A')]; rewrite A' in *.
    + simpl in *. eapply facts_frame; eauto.
    + destruct L as (L1 & L2). simpl in F.
      destruct (flat_map (actor t) l1 ++ flat_map (actor t) l2) as [|r0 rs] eqn:OA.
      * apply app_eq_nil in OA. destruct OA as [-> ->]. apply L1. exact F.
      * exfalso.
        assert (Hr0 : In r0 (flat_map (actor t) l1 ++ flat_map (actor t) l2)) by (rewrite OA; left; auto).
        destruct (other_actor t l1 l2 th r0 Hr0) as (j & thj & Nj & Ej & Aj).
        rewrite <- P1 in Ej.
        assert (Rs : rs = []) by (destruct rs; auto; apply facts_two in F; tauto). subst rs.
        destruct r0 as [pc0|pc0]; simpl in F.
        -- apply actor_ins in Aj. destruct F as (Fm & _).
           destruct L2 as [(Z0 & _)|(_ & C)]; [congruence|].
           apply (N j i thj th t); auto; try lia; left; auto.
        -- apply actor_rem in Aj. destruct F as (Fm & _).
           destruct L2 as [(_ & C)|(Z0 & _)]; [|congruence].
           apply (N i j th thj t); auto; try lia; left; auto.
  - apply facts_single_mid in F as F'. destruct F' as [E1 E2]. rewrite E1, E2 in *. simpl in *.
    rewrite app_nil_r. apply L. exact F.
Qed.

Lemma actors_init : forall t progs, actors t (pool (qinit_pre rdf0 progs)) = [].
Proof.
  intros. unfold actors, qinit_pre, init. simpl. induction progs; simpl; auto. rewrite actor_load. auto.
Qed.

Lemma ins_of_in : forall t p, In (QInsertPre t) p -> In t (ins_of p).
Proof. intros. unfold ins_of. apply in_flat_map. exists (QInsertPre t). simpl. auto. Qed.
Lemma rem_of_in : forall t p, In (QRemovePre t) p -> In t (rem_of p).
Proof. intros. unfold rem_of. apply in_flat_map. exists (QRemovePre t). simpl. auto. Qed.
Lemma zmem_in : forall t l, In t l -> zmem t l = true.
Proof. intros. unfold zmem. apply existsb_exists. exists t. split; auto. apply Z.eqb_refl. Qed.

Lemma noconf_init : forall q0 progs, k_rdf progs = false -> noconf (pool (qinit_pre q0 progs)).
Proof.
  intros q0 progs K i j thi thj t Hij Hi Hj Mi Mj.
  unfold qinit_pre, init in *. simpl in *.
  rewrite nth_error_map in Hi, Hj.
  destruct (nth_error progs i) as [pi|] eqn:Ei; [|discriminate].
  destruct (nth_error progs j) as [pj|] eqn:Ej; [|discriminate].
  simpl in Hi, Hj. inversion Hi; inversion Hj; subst.
  apply mentions_load in Mi. apply mentions_load in Mj.
  assert (K' : k_rdf progs = true); [|congruence].
  unfold k_rdf. apply existsb_exists. exists i. split; [apply in_seq; pose proof (nth_error_lt _ _ _ _ Ei); lia|].
  apply existsb_exists. exists j. split; [apply in_seq; pose proof (nth_error_lt _ _ _ _ Ej); lia|].
  apply andb_true_iff. split; [apply negb_true_iff; apply Nat.eqb_neq; auto|].
  apply existsb_exists. exists t. split.
  - rewrite (nth_error_nth _ _ _ Ei). apply ins_of_in. auto.
  - rewrite (nth_error_nth _ _ _ Ej). apply zmem_in. apply rem_of_in. auto.
Qed.

Lemma consistent_facts : forall t q, rdf_consistent_at q t = true <-> facts t q [].
Proof.
  intros. unfold rdf_consistent_at, idx_ok, facts, c01. rewrite !andb_true_iff, !Nat.eqb_eq.
  destruct (zmem t (q_prim q)); tauto.
Qed.

Lemma rdf_index_consistent_pre_outside_K_l : forall q0 progs sched,
  (forall t, rdf_consistent_at q0 t = true) -> k_rdf progs = false ->
  let c := qrun_pre sched (qinit_pre q0 progs) in
  finished c = true -> forall t, rdf_consistent_at (sh c) t = true.
Proof.
  intros q0 progs sched H0 K c Fin t.
  assert (I : rdf_inv t c).
  { apply (run_inv _ _ _ _ _ qcode_pre qexec (rdf_inv t)); [intros; apply rdf_inv_step; auto|].
    split; [apply noconf_init; auto|].
    replace (actors t (pool (qinit_pre q0 progs))) with (@nil role).
    - simpl. apply consistent_facts. auto.
    - symmetry. unfold actors, qinit_pre, init. simpl. clear. induction progs; simpl; auto. rewrite actor_load. auto. }
  destruct I as [_ F]. apply consistent_facts.
  replace (actors t (pool c)) with (@nil role) in F; auto.
  symmetry. unfold finished in Fin. unfold actors. clear - Fin.
  induction (pool c) as [|th l]; simpl in *; auto.
  apply andb_true_iff in Fin. destruct Fin as [I1 I2]. rewrite IHl; auto.
  unfold idle in I1. unfold actor. destruct (t_op th); [discriminate|reflexivity].
Qed.
