(** C18 — the property theorems in the form Props_C18 states them (bundled external pieces). *)
From Coq Require Import ZArith List Bool Lia Permutation Sorted.
From GV Require Import Vec.Hnsw Vec.Brute Vec.Kernel Vec.ProofsBase Vec.ProofsSearch Vec.ProofsMut Vec.ProofsBrute Vec.ProofsKernel.
Import ListNotations.
Open Scope Z_scope.

Definition sorted_by {D} (leb : D -> D -> bool) (r : list (Z * D)) : Prop :=
  StronglySorted (fun a b => leb (snd a) (snd b) = true) r.

Lemma search_sound_l : forall V D (X : ext V D) (s : state V) q k ef, ext_ok X ->
  let r := xsearch X s q k ef in
  zlen r <= Z.max 0 k /\
  NoDup (map fst r) /\
  (forall i d, In (i, d) r -> d = xdist X (nodes s) q i /\ (entry s = Some i \/ mentioned (nodes s) i)) /\
  sorted_by (x_leb X) r.
Proof.
  intros V D X s q k ef [Ho [_ Hr]]. apply search_sound_raw; assumption.
Qed.

Lemma search_live_l : forall V D (X : ext V D) (s : state V) q k ef, ext_ok X -> links_closed s ->
  forall i d, In (i, d) (xsearch X s q k ef) -> exists n, lookup (nodes s) i = Some n /\ d = x_dist X q (fst n).
Proof.
  intros V D X s q k ef [Ho [_ Hr]] Hc. apply search_present_raw; assumption.
Qed.

Lemma history_closed_l : forall V D (X : ext V D) c ops, links_closed (xrun X c ops).
Proof. intros. apply run_closed_raw. Qed.

Lemma history_search_sound_l : forall V D (X : ext V D) c ops q k ef, ext_ok X ->
  let s := xrun X c ops in
  let r := xsearch X s q k ef in
  zlen r <= Z.max 0 k /\ NoDup (map fst r) /\ sorted_by (x_leb X) r /\
  forall i d, In (i, d) r -> exists n, lookup (nodes s) i = Some n /\ d = x_dist X q (fst n).
Proof.
  intros V D X c ops q k ef Hx s r.
  destruct (search_sound_l V D X s q k ef Hx) as [H1 [H2 [_ H4]]].
  split; [exact H1|]. split; [exact H2|]. split; [exact H4|].
  apply search_live_l; [exact Hx|apply history_closed_l].
Qed.

Lemma remove_purges_l : forall V (s s' : state V) id pick, hnsw_remove s id pick = (s', true) ->
  has (nodes s') id = false /\ ~ mentioned (nodes s') id /\ entry s' <> Some id.
Proof. intros. eapply remove_purges_raw. eassumption. Qed.

Lemma removed_never_returned_l : forall V D (X : ext V D) (s s' : state V) id pick q k ef, ext_ok X ->
  hnsw_remove s id pick = (s', true) -> ~ In id (map fst (xsearch X s' q k ef)).
Proof.
  intros V D X s s' id pick q k ef Hx Hr Hi.
  destruct (remove_purges_l V s s' id pick Hr) as [_ [Hm He]].
  apply in_map_iff in Hi. destruct Hi as [[i d] [Hid Hin]]. cbn [fst] in Hid. subst i.
  destruct (search_sound_l V D X s' q k ef Hx) as [_ [_ [Ha _]]].
  destruct (Ha id d Hin) as [_ [H|H]]; [apply He; exact H|apply Hm; exact H].
Qed.

Lemma remove_absent_l : forall V (s : state V) id pick, has (nodes s) id = false -> hnsw_remove s id pick = (s, false).
Proof. intros V s id pick H. unfold hnsw_remove. rewrite H. reflexivity. Qed.

Lemma batch_is_map_l : forall V D (X : ext V D) s qs k ef,
  xbatch X s qs k ef = map (fun q => xsearch X s q k ef) qs.
Proof. reflexivity. Qed.

Lemma brute_exact_l : forall V D (dist : V -> V -> D) leb (xs : list (Z * V)) q k, order_ok leb ->
  let sc := scored dist xs q in
  let r := brute_force_knn dist leb xs q k in
  zlen r = Z.min (Z.max 0 k) (zlen xs) /\
  sorted_by leb r /\
  (exists rest, Permutation (r ++ rest) sc /\ forall a b, In a r -> In b rest -> leb (snd a) (snd b) = true) /\
  (forall P : Z * D -> bool,
     (forall a b, P a = true -> P b = true -> leb (snd a) (snd b) = true) ->
     exists rest', filter P sc = filter P r ++ rest').
Proof. intros V D dist leb xs q k Ho. apply brute_exact_raw. exact Ho. Qed.

Lemma kernel_lanes_l : forall (R : Type) (zero : R) (add : R -> R -> R) (A : Type) (term : A -> A -> R),
  (forall a b c, add a (add b c) = add (add a b) c) -> (forall a b, add a b = add b a) -> (forall a, add zero a = a) ->
  forall W a b, lanes zero add term W a b = plain zero add term a b.
Proof. intros. apply lanes_plain; assumption. Qed.

From GV Require Import Vec.ProofsComplete Vec.ProofsQuant Vec.Inst Vec.Quant.

Lemma search_complete_l' : forall V D (X : ext V D) (s : state V) q k ef a U, ext_ok X ->
  xstart X s q = Some a -> nodes s <> [] ->
  NoDup U -> (forall x, In x U -> reach0 (nodes s) a x) ->
  Z.min (Z.max 0 k) (zlen U) <= zlen (xsearch X s q k ef).
Proof. intros V D X s q k ef a U HX. apply search_complete_l. exact HX. Qed.

(** every live node reachable  =>  min(k, size) results *)
Lemma search_complete_all_l : forall V D (X : ext V D) (s : state V) q k ef a, ext_ok X ->
  xstart X s q = Some a -> NoDup (keys (nodes s)) ->
  (forall x, In x (keys (nodes s)) -> reach0 (nodes s) a x) ->
  Z.min (Z.max 0 k) (zlen (nodes s)) <= zlen (xsearch X s q k ef).
Proof.
  intros V D X s q k ef a HX Hs Hn Hr.
  destruct (nodes s) as [|kv t] eqn:Em.
  - rewrite zlen_nil. pose proof (zlen_nonneg _ (xsearch X s q k ef)). lia.
  - rewrite <- Em in *. replace (zlen (nodes s)) with (zlen (keys (nodes s))) by (unfold zlen, keys; rewrite map_length; reflexivity).
    apply (search_complete_l' V D X s q k ef a (keys (nodes s)) HX Hs); [rewrite Em; discriminate|exact Hn|exact Hr].
Qed.

(** HEAD: after a remove the graph is not repaired — finding C18-K1 *)
Definition k1_ops : list (op zvec) :=
  [OpInsert 1 [0] 0; OpInsert 2 [1] 0; OpInsert 3 [2] 0; OpInsert 4 [3] 0; OpRemove 3 None].
Lemma search_complete_refuted_l : exists (ops : list (op zvec)) q k ef,
  let s := xrun (zext Euclidean) (mk_config 16 32 128) ops in
  NoDup (keys (nodes s)) /\ 0 <= k <= zlen (nodes s) /\ k <= ef /\
  zlen (xsearch (zext Euclidean) s q k ef) < k.
Proof.
  exists k1_ops, [0], 3, 50. vm_compute. split; [|split; [split; discriminate|split; [discriminate|reflexivity]]].
  repeat constructor; cbn [In]; intuition discriminate.
Qed.

Lemma zext_list_ok : forall mt, ext_ok (zext_list mt).
Proof.
  intro mt. apply list_ext_ok. split.
  - intros a b. destruct (Z.leb_spec a b); [left; reflexivity|right; apply Z.leb_le; lia].
  - intros a b c H1 H2. apply Z.leb_le in H1, H2. apply Z.leb_le. lia.
Qed.
