(** C18 — models of the code AROUND the index and the exact search (no proofs in this file):

      QuantizedHnswIndex::search_with_ef  (quantized_hnsw.rs l.347-509): candidate count
            [k * rescore_factor] in usize arithmetic, HNSW search, optional pre-ranking by the
            quantised distance, [rescore_candidates] (exact distance, stable sort, truncate);
      (brute_force_knn's comparator on NaN distances: Vec/SmallSort.v)
      VectorScanOperator::next  (scan_vector.rs l.278): chunking of the cached result;
      VectorJoinOperator::next / advance_left  (vector_join.rs l.323-439): one search per left
            row, output in chunks of [chunk_capacity].

    The HNSW search itself is [xsearch] of Vec/Hnsw.v. *)
From Coq Require Import ZArith List Bool.
From GV Require Export Vec.Hnsw Vec.Brute.
Import ListNotations.
Open Scope Z_scope.

(** ---- usize arithmetic ---- *)
Definition usize_max : Z := 2 ^ 64 - 1.
(** [a.saturating_mul(b)] — the code as it is NOW (repair dc6fd9d) *)
Definition sat_mul_usize (a b : Z) : Z := Z.min (a * b) usize_max.
(** [a * b] of the dev/test profile (overflow checks on): [None] = panic — the code BEFORE dc6fd9d *)
Definition mul_usize_pre (a b : Z) : option Z := if a * b <=? usize_max then Some (a * b) else None.

Inductive qres (A : Type) := QOk (r : A) | QPanic.
Arguments QOk {A}. Arguments QPanic {A}.

Section Quantized.
  Context {V D : Type} (X : ext V D).
  (** the metric of [compute_distance(query, vec, metric)] used by the rescoring step (for the
      non-cosine metrics it is the index's own [vector_distance]) *)
  Variable dist2 : V -> V -> D.

  (** rescore_candidates: [filter_map(|(id,_)| hnsw.get(id).map(exact))], [sort_by_key(OrderedFloat)]
      (stable), [truncate(k)] *)
  Definition rescore (m : nodemap V) (q : V) (cands : list (Z * D)) (k : Z) : list (Z * D) :=
    takez k (sort_by (x_leb X)
      (flat_map (fun c => match lookup m (fst c) with Some n => [(fst c, dist2 q (fst n))] | None => [] end) cands)).

  (** the three quantised searches once the quantiser is trained.  [mult] = rescore_factor
      (scalar, product) or rescore_factor * 2 (binary; the code multiplies twice, both checked);
      [pre] = what happens to the HNSW candidates before rescoring: nothing (scalar), ranking by
      the hamming estimate (binary), ranking by the PQ table distance and [truncate(k)] (product). *)
  Definition num_candidates (k : Z) (mults : list Z) : Z := fold_left sat_mul_usize mults k.
  Definition qsearch (s : state V) (q : V) (k ef : Z) (mults : list Z) (do_rescore : bool)
             (pre : list (Z * D) -> list (Z * D)) : list (Z * D) :=
    if do_rescore then rescore (nodes s) q (pre (xsearch X s q (num_candidates k mults) ef)) k
    else takez k (pre (xsearch X s q k ef)).

  (** before dc6fd9d: k x rescore_factor (x 2 for binary) with checked multiplication *)
  Definition num_candidates_pre (k : Z) (mults : list Z) : option Z :=
    fold_left (fun acc m => match acc with Some a => mul_usize_pre a m | None => None end) mults (Some k).
  Definition qsearch_pre (s : state V) (q : V) (k ef : Z) (mults : list Z) (do_rescore : bool)
             (pre : list (Z * D) -> list (Z * D)) : qres (list (Z * D)) :=
    if do_rescore then
      match num_candidates_pre k mults with
      | None => QPanic
      | Some nc => QOk (rescore (nodes s) q (pre (xsearch X s q nc ef)) k)
      end
    else QOk (takez k (pre (xsearch X s q k ef))).
End Quantized.

(** what a pre-ranking stage may do with the candidates: reorder, drop, re-key — never invent or
    duplicate an id (premise of [qsearch_sound]; holds for the three stages below) *)
Definition pre_ok {D : Type} (pre : list (Z * D) -> list (Z * D)) : Prop :=
  forall l, NoDup (map fst l) -> NoDup (map fst (pre l)) /\ incl (map fst (pre l)) (map fst l).

(** the pre-ranking stages.  [key id] = the quantised distance of a stored vector ([None]: the id
    has no quantised form, [filter_map] drops it). *)
Section Pre.
  Context {D : Type} (leb : D -> D -> bool).
  Definition rekey (key : Z -> option D) (l : list (Z * D)) : list (Z * D) :=
    flat_map (fun c => match key (fst c) with Some d => [(fst c, d)] | None => [] end) l.
  Definition pre_none (l : list (Z * D)) : list (Z * D) := l.
  (** binary: [scored.sort_by_key; scored.truncate(num_candidates)] — the truncation is a no-op
      because [scored] has at most [num_candidates] entries *)
  Definition pre_rank (key : Z -> option D) (l : list (Z * D)) : list (Z * D) := sort_by leb (rekey key l).
  (** product: [scored.sort_by_key; scored.truncate(k)] *)
  Definition pre_rank_trunc (key : Z -> option D) (k : Z) (l : list (Z * D)) : list (Z * D) :=
    takez k (sort_by leb (rekey key l)).
End Pre.

(** ---- chunked output of a cached result (VectorScanOperator::next) ---- *)
Fixpoint chunks_fuel {A} (fuel : nat) (cap : nat) (l : list A) : list (list A) :=
  match fuel with
  | O => []
  | S f => match l with
           | [] => []
           | _ => firstn cap l :: chunks_fuel f cap (skipn cap l)
           end
  end.
(** position += min(cap, remaining) per call; a call with nothing left returns None *)
Definition scan_chunks {A} (cap : nat) (l : list A) : list (list A) := chunks_fuel (S (length l)) cap l.

(** ---- VectorJoinOperator ---- *)
(** The left input is abstracted to its rows in order (left chunk boundaries only matter for
    fetching); a row = (its left value, the filtered result of the search for it — [] when the
    row has no query vector).
      [rest]  : the rows from the current one on ([current_left_row] = its head)
      [cur]   : current_results[current_result_position..]
      [exhausted] : left_exhausted *)
Section Join.
  Variable L R : Type.
  Notation row := (L * list R)%type.
  Record jstate := mk_j { j_rest : list row; j_cur : list R; j_exhausted : bool }.

  (** advance_left: starting AT the current row, find the first row with a non-empty result *)
  Fixpoint advance_left (rest : list row) : option (list row * list R) :=
    match rest with
    | [] => None                                   (* left.next() = None: left_exhausted *)
    | (l, rs) :: t => match rs with
                      | [] => advance_left t       (* current_left_row += 1 *)
                      | _ => Some (rest, rs)
                      end
    end.

  (** the [while row_count < chunk_capacity] loop; [n] = chunk_capacity - row_count *)
  Fixpoint fill (n : nat) (rest : list row) (cur : list R) (exh : bool) (out : list (L * R))
    : list row * list R * bool * list (L * R) :=
    match n with
    | O => (rest, cur, exh, out)
    | S n' =>
      match cur with
      | c :: cur' =>
        match rest with
        | (l, _) :: _ => fill n' rest cur' exh (out ++ [(l, c)])
        | [] => (rest, cur, exh, out)              (* unreachable: a result always has its row *)
        end
      | [] =>
        (* current_left_row += 1; advance_left *)
        match advance_left (tl rest) with
        | None => ([], [], true, out)
        | Some (rest', c :: cur') =>
          match rest' with
          | (l, _) :: _ => fill n' rest' cur' exh (out ++ [(l, c)])
          | [] => (rest', [], exh, out)
          end
        | Some (rest', []) => (rest', [], exh, out)
        end
      end
    end.

  (** one call of next(): [None] = Ok(None).  [started] = current_left_chunk.is_some().
      The code as it is NOW (repair 5466afe):
        if current_result_position >= current_results.len() {
            if current_left_chunk.is_some() { current_left_row += 1 }
            if !advance_left() { return None } } *)
  Definition jnext (cap : nat) (st : jstate) (started : bool) : jstate * option (list (L * R)) :=
    if j_exhausted st && match j_cur st with [] => true | _ => false end then (st, None) else
    let pre := match j_cur st with
               | [] => advance_left (if started then tl (j_rest st) else j_rest st)
               | _ => Some (j_rest st, j_cur st)
               end in
    match pre with
    | None => (mk_j [] [] true, None)
    | Some (rest, cur) =>
      match fill cap rest cur (j_exhausted st) [] with
      | (rest', cur', exh', out) =>
        (mk_j rest' cur' exh', match out with [] => None | _ => Some out end)
      end
    end.
  (** drive the operator: the chunks produced by at most [fuel] calls, and whether it finished;
      after the first call a left chunk has been fetched *)
  Fixpoint jrun (fuel : nat) (cap : nat) (st : jstate) (started : bool) : list (list (L * R)) * bool :=
    match fuel with
    | O => ([], false)
    | S f => match jnext cap st started with
             | (_, None) => ([], true)
             | (st', Some ch) => let '(chs, fin) := jrun f cap st' true in (ch :: chs, fin)
             end
    end.

  (** before 5466afe: advance_left was called WITHOUT moving to the next row — after a chunk that
      ended exactly at the end of a row's results the same row was searched again *)
  Definition jnext_pre (cap : nat) (st : jstate) : jstate * option (list (L * R)) :=
    if j_exhausted st && match j_cur st with [] => true | _ => false end then (st, None) else
    let pre := match j_cur st with
               | [] => advance_left (j_rest st)
               | _ => Some (j_rest st, j_cur st)
               end in
    match pre with
    | None => (mk_j [] [] true, None)
    | Some (rest, cur) =>
      match fill cap rest cur (j_exhausted st) [] with
      | (rest', cur', exh', out) =>
        (mk_j rest' cur' exh', match out with [] => None | _ => Some out end)
      end
    end.
  Fixpoint jrun_pre (fuel : nat) (cap : nat) (st : jstate) : list (list (L * R)) * bool :=
    match fuel with
    | O => ([], false)
    | S f => match jnext_pre cap st with
             | (_, None) => ([], true)
             | (st', Some ch) => let '(chs, fin) := jrun_pre f cap st' in (ch :: chs, fin)
             end
    end.
  Definition jinit (rows : list row) : jstate := mk_j rows [] false.

  (** what a join is: every left row paired with each of its results, in order *)
  Definition join_spec (rows : list row) : list (L * R) :=
    flat_map (fun r => map (fun x => (fst r, x)) (snd r)) rows.

  (** class of the repaired defect C18-K4: the results of some left row end exactly where an output chunk ends,
      i.e. a prefix of the rows has a positive number of results that is a multiple of the
      chunk capacity *)
  Fixpoint prefix_hits (cap : nat) (acc : nat) (rows : list row) : bool :=
    match rows with
    | [] => false
    | (_, rs) :: t =>
      let acc' := (acc + length rs)%nat in
      (negb (Nat.eqb (length rs) 0) && Nat.eqb (Nat.modulo acc' cap) 0) || prefix_hits cap acc' t
    end.
  Definition k_join_boundary (cap : nat) (rows : list row) : bool := prefix_hits cap 0 rows.
End Join.
Arguments mk_j {L R}. Arguments j_rest {L R}. Arguments j_cur {L R}. Arguments j_exhausted {L R}.
Arguments advance_left {L R}. Arguments fill {L R}. Arguments jnext {L R}. Arguments jrun {L R}.
Arguments jnext_pre {L R}. Arguments jrun_pre {L R}.
Arguments jinit {L R}. Arguments join_spec {L R}. Arguments k_join_boundary {L R}. Arguments prefix_hits {L R}.
