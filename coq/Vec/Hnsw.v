(** C18 — model of crates/grafeo-core/src/index/vector/hnsw.rs (HnswIndex).

    State = nodes : id |-> (vector, neighbour lists per level), entry point, max level.
    Transcribed branch for branch from the Rust code that exists:

      search_layer_single  (greedy walk)                       hnsw.rs l.436
      search_layer         (beam search, candidate min-heap /
                            result max-heap, ef bound, visited) hnsw.rs l.471
      search_with_ef       (ef.max(k), take k)                  hnsw.rs l.334
      insert               (level is an INPUT: the RNG is outside the model),
                           select_neighbors_heuristic, back links, pruning to M / M0
                                                                hnsw.rs l.188, l.562, l.595
      hnsw_remove               (drops the node, purges every link, re-points the entry with
                            [nodes.keys().next()] — HashMap iteration order is outside the
                            model, so the picked key is an INPUT, validated to be a live key)
                                                                hnsw.rs l.383

    Everything that is external enters as a Section variable WITHOUT hypotheses in this file:
      [dist]   the metric ([vector_distance]) into a type [D]; [top] = the distance reported for a
               missing node (f32::MAX); [leb] = the total order of [OrderedFloat] used by the heaps
               and the sorts; [ltb] = the IEEE [<] used by the pruning tests (a separate variable:
               the soundness theorems hold for every [ltb], NaN behaviour included);
               [scale] = multiplication by [alpha];
      [cpush cpop] / [rpush rpop rpeek] the two [BinaryHeap]s over their underlying vectors
               (which element is popped among equal distances is a matter of std's heap layout;
               the theorems only use that push/pop preserve the contents).
    No proofs in this file. *)
From Coq Require Export ZArith List Bool Lia Permutation Sorted.
Export ListNotations.
Open Scope Z_scope.

Definition zlen {A} (l : list A) : Z := Z.of_nat (length l).

(** [iter.take(k)] for a [usize] k given as [Z] (no [nat] conversion of large numbers). *)
Fixpoint takez {A} (k : Z) (l : list A) : list A :=
  match l with
  | [] => []
  | x :: t => if k <=? 0 then [] else x :: takez (k - 1) t
  end.

Fixpoint memz (x : Z) (l : list Z) : bool :=
  match l with [] => false | y :: t => (x =? y) || memz x t end.

(** list-backed heaps used to RUN the model: contents in insertion order, pop extracts the first
    minimal / maximal element (stable).  std's BinaryHeap agrees with them whenever the
    distances involved are pairwise different. *)
Section ListHeap.
  Variable D : Type.
  Variable leb : D -> D -> bool.
  Definition elt := (Z * D)%type.
  Definition lpush (x : elt) (h : list elt) : list elt := h ++ [x].
  Fixpoint lpop_min (h : list elt) : option (elt * list elt) :=
    match h with
    | [] => None
    | x :: t => match lpop_min t with
                | None => Some (x, [])
                | Some (y, t') => if leb (snd x) (snd y) then Some (x, t) else Some (y, x :: t')
                end
    end.
  Fixpoint lpop_max (h : list elt) : option (elt * list elt) :=
    match h with
    | [] => None
    | x :: t => match lpop_max t with
                | None => Some (x, [])
                | Some (y, t') => if leb (snd y) (snd x) then Some (x, t) else Some (y, x :: t')
                end
    end.
  Definition lpeek_max (h : list elt) : option elt := option_map fst (lpop_max h).

  (** stable insertion sort by distance: [sort_by(|a,b| OrderedFloat(a.d).cmp(&OrderedFloat(b.d)))] *)
  Fixpoint ins_by (x : elt) (l : list elt) : list elt :=
    match l with
    | [] => [x]
    | y :: t => if leb (snd x) (snd y) then x :: y :: t else y :: ins_by x t
    end.
  Fixpoint sort_by (l : list elt) : list elt :=
    match l with [] => [] | x :: t => ins_by x (sort_by t) end.
End ListHeap.
Arguments lpush {D}.
Arguments lpop_min {D}.
Arguments lpop_max {D}.
Arguments lpeek_max {D}.
Arguments ins_by {D}.
Arguments sort_by {D}.

(** std::collections::BinaryHeap (alloc/src/collections/binary_heap/mod.rs, Rust 1.95), transcribed:
    the heap is its underlying Vec; [ole x y] is the element type's [x <= y].
      push  = Vec::push + sift_up(0, old_len)
      pop   = Vec::pop, swap with data[0], sift_down_to_bottom(0) (which ends with a sift_up)
      peek  = data.get(0);  into_iter = the Vec.
    Used to RUN the model so that ties between equal distances are resolved exactly as the
    implementation resolves them. *)
Section BinaryHeap.
  Variable E : Type.
  Variable ole : E -> E -> bool.
  Fixpoint set_at (l : list E) (i : nat) (x : E) : list E :=
    match l, i with
    | [], _ => []
    | _ :: t, O => x :: t
    | y :: t, S j => y :: set_at t j x
    end.
  (** the hole is at [pos], its element [x] is kept aside; parents move down while x > parent *)
  Fixpoint sift_up (fuel : nat) (l : list E) (pos : nat) (x : E) : list E :=
    match fuel with
    | O => set_at l pos x
    | S f =>
      match pos with
      | O => set_at l pos x
      | S _ =>
        let parent := Nat.div (pos - 1) 2 in
        match nth_error l parent with
        | Some p => if ole x p then set_at l pos x else sift_up f (set_at l pos p) parent x
        | None => set_at l pos x
        end
      end
    end.
  Definition bpush (x : E) (l : list E) : list E := sift_up (S (length l)) (l ++ [x]) (length l) x.
  (** sift_down_to_bottom: the hole walks down to a leaf along the greater children; returns the
      list (hole position still stale) and the hole position *)
  Fixpoint sift_down (fuel : nat) (l : list E) (hole child : nat) : list E * nat :=
    match fuel with
    | O => (l, hole)
    | S f =>
      if Nat.leb (child + 2) (length l) then
        match nth_error l child, nth_error l (child + 1) with
        | Some a, Some b =>
          let c := if ole a b then (child + 1)%nat else child in
          let v := if ole a b then b else a in
          sift_down f (set_at l hole v) c (2 * c + 1)%nat
        | _, _ => (l, hole)
        end
      else if Nat.eqb (child + 1) (length l) then
        match nth_error l child with
        | Some a => (set_at l hole a, child)
        | None => (l, hole)
        end
      else (l, hole)
    end.
  Definition bpop (l : list E) : option (E * list E) :=
    match rev l with
    | [] => None
    | item :: rinit =>
      match rev rinit with
      | [] => Some (item, [])
      | top :: rest =>
        let l1 := item :: rest in
        let '(l2, pos) := sift_down (length l1) l1 0 1 in
        Some (top, sift_up (S (length l2)) l2 pos item)
      end
    end.
  Definition bpeek (l : list E) : option E := hd_error l.
End BinaryHeap.
Arguments bpush {E}.
Arguments bpop {E}.
Arguments bpeek {E}.

Section Hnsw.
  Variable V D : Type.
  Variable dist : V -> V -> D.
  Variable top : D.
  Variable leb ltb : D -> D -> bool.
  Variable scale : D -> D.
  Notation elt := (Z * D)%type.
  Variable cpush : elt -> list elt -> list elt.
  Variable cpop : list elt -> option (elt * list elt).
  Variable rpush : elt -> list elt -> list elt.
  Variable rpop : list elt -> option (elt * list elt).
  Variable rpeek : list elt -> option elt.

  (** HnswNode: vector, neighbours[layer] *)
  Definition node := (V * list (list Z))%type.
  Definition nodemap := list (Z * node).

  Record state := mk_state { nodes : nodemap; entry : option Z; max_level : nat }.
  (** HnswConfig: m (layers > 0), m_max (layer 0), ef_construction *)
  Record config := mk_config { cfg_m : Z; cfg_m0 : Z; cfg_efc : Z }.

  Definition empty : state := mk_state [] None 0.

  Fixpoint lookup (m : nodemap) (id : Z) : option node :=
    match m with
    | [] => None
    | (k, n) :: t => if k =? id then Some n else lookup t id
    end.
  Definition has (m : nodemap) (id : Z) : bool := match lookup m id with Some _ => true | None => false end.
  Definition keys (m : nodemap) : list Z := map fst m.

  (** HashMap::insert: replace or add *)
  Definition put (m : nodemap) (id : Z) (n : node) : nodemap :=
    if has m id then map (fun kv => if fst kv =? id then (fst kv, n) else kv) m else m ++ [(id, n)].
  (** get_mut(&id).map(f) *)
  Definition upd (m : nodemap) (id : Z) (f : node -> node) : nodemap :=
    map (fun kv => if fst kv =? id then (fst kv, f (snd kv)) else kv) m.
  Definition del (m : nodemap) (id : Z) : nodemap := filter (fun kv => negb (fst kv =? id)) m.

  Fixpoint set_nth {A} (l : list A) (i : nat) (x : A) : list A :=
    match l, i with
    | [], _ => []
    | _ :: t, O => x :: t
    | y :: t, S j => y :: set_nth t j x
    end.

  (** node_distance: f32::MAX for a missing node *)
  Definition node_distance (m : nodemap) (q : V) (id : Z) : D :=
    match lookup m id with Some n => dist q (fst n) | None => top end.
  (** [if let Some(node) = nodes.get(&id) && layer < node.neighbors.len() { node.neighbors[layer] }] *)
  Definition nbrs (m : nodemap) (id : Z) (layer : nat) : list Z :=
    match lookup m id with Some n => nth layer (snd n) [] | None => [] end.

  (** number of ids mentioned anywhere: fuel for the loops *)
  Definition node_size (n : node) : nat := fold_right (fun l a => (length l + a)%nat) O (snd n).
  Definition fuel_of (m : nodemap) : nat :=
    S (S (fold_right (fun kv a => (S (node_size (snd kv)) + a)%nat) O m)).

  (** ---- search_layer_single ---- *)
  Fixpoint sls_inner (m : nodemap) (q : V) (ns : list Z) (cur : Z) (cd : D) (changed : bool) : Z * D * bool :=
    match ns with
    | [] => (cur, cd, changed)
    | n :: t => let d := node_distance m q n in
                if ltb d cd then sls_inner m q t n d true else sls_inner m q t cur cd changed
    end.
  Fixpoint sls_loop (fuel : nat) (m : nodemap) (q : V) (layer : nat) (cur : Z) (cd : D) : Z :=
    match fuel with
    | O => cur
    | S f => match sls_inner m q (nbrs m cur layer) cur cd false with
             | (c', d', ch) => if ch then sls_loop f m q layer c' d' else c'
             end
    end.
  Definition search_layer_single (m : nodemap) (q : V) (ep : Z) (layer : nat) : Z :=
    sls_loop (fuel_of m) m q layer ep (node_distance m q ep).

  (** ---- search_layer ---- *)
  (** [while results.len() > ef { results.pop(); }] *)
  Fixpoint trim (n : nat) (ef : Z) (R : list elt) : list elt :=
    match n with
    | O => R
    | S n' => if ef <? zlen R then match rpop R with Some (_, R') => trim n' ef R' | None => R end else R
    end.

  Definition sl_state := (list elt * list elt * list Z)%type.
  (** the body of [for &neighbor in &node.neighbors[layer]] *)
  Definition visit (m : nodemap) (q : V) (ef : Z) (st : sl_state) (n : Z) : sl_state :=
    match st with
    | (C, R, vis) =>
      if memz n vis then st else
      let vis' := n :: vis in
      let d := node_distance m q n in
      let should_add := (zlen R <? ef) || match rpeek R with None => true | Some f => ltb d (snd f) end in
      if should_add
      then (cpush (n, d) C, (let R1 := rpush (n, d) R in trim (length R1) ef R1), vis')
      else (C, R, vis')
    end.

  Fixpoint sl_loop (fuel : nat) (m : nodemap) (q : V) (ef : Z) (layer : nat) (C R : list elt) (vis : list Z) : list elt :=
    match fuel with
    | O => R
    | S f =>
      match cpop C with
      | None => R
      | Some (cur, C') =>
        if match rpeek R with
           | Some furthest => ltb (snd furthest) (snd cur) && (ef <=? zlen R)
           | None => false
           end
        then R
        else match fold_left (visit m q ef) (nbrs m (fst cur) layer) (C', R, vis) with
             | (C2, R2, vis2) => sl_loop f m q ef layer C2 R2 vis2
             end
      end
    end.

  Definition search_layer (m : nodemap) (q : V) (ep : Z) (ef : Z) (layer : nat) : list elt :=
    let d := node_distance m q ep in
    sort_by leb (sl_loop (fuel_of m) m q ef layer (cpush (ep, d) []) (rpush (ep, d) []) [ep]).

  (** greedy descent over the layers hi, hi-1, …, lo+1 *)
  Fixpoint descend (m : nodemap) (q : V) (hi lo : nat) (ep : Z) : Z :=
    match hi with
    | O => ep
    | S h => if Nat.ltb lo hi then descend m q h lo (search_layer_single m q ep hi) else ep
    end.

  (** ---- search_with_ef ---- *)
  Definition search_with_ef (s : state) (q : V) (k ef : Z) : list elt :=
    match entry s, nodes s with
    | None, _ => []
    | _, [] => []
    | Some ep, m =>
      let cur := descend m q (max_level s) 0 ep in
      takez k (search_layer m q cur (Z.max ef k) 0)
    end.
  (** batch_search / batch_search_with_ef: (par_)iter().map(search).collect() *)
  Definition batch_search (s : state) (qs : list V) (k ef : Z) : list (list elt) :=
    map (fun q => search_with_ef s q k ef) qs.

  (** ---- select_neighbors_heuristic ---- *)
  Fixpoint select_loop (m : nodemap) (cands : list elt) (mm : Z) (sel : list (Z * V)) : list (Z * V) :=
    match cands with
    | [] => sel
    | c :: t =>
      if mm <=? zlen sel then sel else
      match lookup m (fst c) with
      | None => select_loop m t mm sel
      | Some nd =>
        let cv := fst nd in
        if existsb (fun s => ltb (dist cv (snd s)) (scale (snd c))) sel
        then select_loop m t mm sel
        else select_loop m t mm (sel ++ [(fst c, cv)])
      end
    end.
  Definition select_neighbors (m : nodemap) (cands : list elt) (mm : Z) : list Z :=
    map fst (select_loop m cands mm []).

  (** ---- insert: one layer ---- *)
  Definition set_layer (n : node) (lc : nat) (l : list Z) : node := (fst n, set_nth (snd n) lc l).

  (** first pass: back links, who needs pruning *)
  Definition add_back (id : Z) (lc : nat) (mm : Z) (acc : nodemap * list Z) (nid : Z) : nodemap * list Z :=
    match lookup (fst acc) nid with
    | Some nd =>
      if Nat.ltb lc (length (snd nd)) then
        let l' := nth lc (snd nd) [] ++ [id] in
        (upd (fst acc) nid (fun n => set_layer n lc (nth lc (snd n) [] ++ [id])),
         if mm <? zlen l' then snd acc ++ [nid] else snd acc)
      else acc
    | None => acc
    end.
  (** second pass: distances from the neighbour's own vector *)
  Definition prune_entry (m : nodemap) (lc : nat) (nid : Z) : list (Z * list elt) :=
    match lookup m nid with
    | Some nd =>
      if Nat.ltb lc (length (snd nd))
      then [(nid, map (fun x => (x, node_distance m (fst nd) x)) (nth lc (snd nd) []))]
      else []
    | None => []
    end.
  (** prune_neighbors_with_distances *)
  Definition prune_list (l : list Z) (ds : list elt) (mm : Z) : list Z :=
    if zlen l <=? mm then l else map fst (takez mm (sort_by leb ds)).
  (** third pass *)
  Definition apply_prune (lc : nat) (mm : Z) (m : nodemap) (e : Z * list elt) : nodemap :=
    match lookup m (fst e) with
    | Some nd =>
      if Nat.ltb lc (length (snd nd))
      then upd m (fst e) (fun n => set_layer n lc (prune_list (nth lc (snd n) []) (snd e) mm))
      else m
    | None => m
    end.

  Definition ins_layer (c : config) (id : Z) (v : V) (m : nodemap) (cur_ep : Z) (lc : nat) : nodemap * Z :=
    let mm := match lc with O => cfg_m0 c | _ => cfg_m c end in
    let neighbors := search_layer m v cur_ep (cfg_efc c) lc in
    let selected := select_neighbors m neighbors mm in
    let m1 := upd m id (fun n => set_layer n lc selected) in
    let '(m2, need) := fold_left (add_back id lc mm) selected (m1, []) in
    let pdata := flat_map (prune_entry m2 lc) need in
    let m3 := fold_left (apply_prune lc mm) pdata m2 in
    (m3, match selected with [] => cur_ep | x :: _ => x end).

  (** layers cnt-1, …, 0 *)
  Fixpoint ins_layers (c : config) (id : Z) (v : V) (cnt : nat) (m : nodemap) (cur_ep : Z) : nodemap :=
    match cnt with
    | O => m
    | S lc => let '(m', ep') := ins_layer c id v m cur_ep lc in ins_layers c id v lc m' ep'
    end.

  (** HnswIndex::insert with the node's level as an input *)
  Definition insert (c : config) (s : state) (id : Z) (v : V) (level : nat) : state :=
    let nd : node := (v, repeat [] (S level)) in
    match entry s with
    | None => mk_state (put (nodes s) id nd) (Some id) level
    | Some ep =>
      let cur_max := max_level s in
      let m0 := put (nodes s) id nd in
      let cur := descend m0 v cur_max level ep in
      let m1 := ins_layers c id v (S (Nat.min level cur_max)) m0 cur in
      if Nat.ltb cur_max level then mk_state m1 (Some id) level else mk_state m1 (Some ep) cur_max
    end.

  (** HnswIndex::hnsw_remove.  [pick] = what [nodes.keys().next()] returned (an input; normalised to a
      live key so that the model is total). *)
  Definition purge (id : Z) (n : node) : node :=
    (fst n, map (filter (fun x => negb (x =? id))) (snd n)).
  Definition norm_pick (m : nodemap) (pick : option Z) : option Z :=
    match pick with
    | Some p => if has m p then Some p else hd_error (keys m)
    | None => hd_error (keys m)
    end.
  Definition hnsw_remove (s : state) (id : Z) (pick : option Z) : state * bool :=
    if has (nodes s) id then
      let m := map (fun kv => (fst kv, purge id (snd kv))) (del (nodes s) id) in
      let e := match entry s with
               | Some e => if e =? id then norm_pick m pick else Some e
               | None => None
               end in
      (mk_state m e (max_level s), true)
    else (s, false).

  (** histories *)
  Inductive op := OpInsert (id : Z) (v : V) (level : nat) | OpRemove (id : Z) (pick : option Z).
  Definition step (c : config) (s : state) (o : op) : state :=
    match o with
    | OpInsert id v level => insert c s id v level
    | OpRemove id pick => fst (hnsw_remove s id pick)
    end.
  Definition run (c : config) (ops : list op) : state := fold_left (step c) ops empty.

  (** every id that occurs in a neighbour list (any node, any layer) *)
  Definition mentioned (m : nodemap) (x : Z) : Prop :=
    exists k n l, In (k, n) m /\ In l (snd n) /\ In x l.
  (** no dangling link, entry point live: the invariant of every history (Proofs) *)
  Definition links_closed (s : state) : Prop :=
    (forall x, mentioned (nodes s) x -> has (nodes s) x = true) /\
    (forall e, entry s = Some e -> has (nodes s) e = true).

  (** layer-0 reachability from a start node through layer-0 links *)
  Inductive reach0 (m : nodemap) (a : Z) : Z -> Prop :=
  | reach0_refl : reach0 m a a
  | reach0_step : forall x y, reach0 m a x -> In y (nbrs m x 0) -> reach0 m a y.
End Hnsw.

Arguments mk_state {V}.
Arguments nodes {V}.
Arguments entry {V}.
Arguments max_level {V}.
Arguments empty {V}.
Arguments lookup {V}.
Arguments has {V}.
Arguments keys {V}.
Arguments put {V}.
Arguments upd {V}.
Arguments del {V}.
Arguments nbrs {V}.
Arguments fuel_of {V}.
Arguments purge {V}.
Arguments norm_pick {V}.
Arguments hnsw_remove {V}.
Arguments mentioned {V}.
Arguments links_closed {V}.
Arguments reach0 {V}.
Arguments OpInsert {V}.
Arguments OpRemove {V}.

(** specifications of the external pieces, used as premises of the theorems *)
Definition order_ok {D} (leb : D -> D -> bool) : Prop :=
  (forall a b, leb a b = true \/ leb b a = true) /\
  (forall a b c, leb a b = true -> leb b c = true -> leb a c = true).
(** a heap keeps exactly what was pushed and not yet popped (order inside is its own business) *)
Definition heap_ok {E} (push : E -> list E -> list E) (pop : list E -> option (E * list E)) : Prop :=
  (forall x h, Permutation (push x h) (x :: h)) /\
  (forall h x h', pop h = Some (x, h') -> Permutation h (x :: h')) /\
  (forall h, pop h = None -> h = []).

(** the external pieces bundled (so that statements stay readable) *)
Record ext (V D : Type) := mk_ext {
  x_dist : V -> V -> D; x_top : D; x_leb : D -> D -> bool; x_ltb : D -> D -> bool; x_scale : D -> D;
  x_cpush : (Z * D) -> list (Z * D) -> list (Z * D); x_cpop : list (Z * D) -> option ((Z * D) * list (Z * D));
  x_rpush : (Z * D) -> list (Z * D) -> list (Z * D); x_rpop : list (Z * D) -> option ((Z * D) * list (Z * D));
  x_rpeek : list (Z * D) -> option (Z * D) }.
Arguments x_dist {V D}. Arguments x_top {V D}. Arguments x_leb {V D}. Arguments x_ltb {V D}.
Arguments x_scale {V D}. Arguments x_cpush {V D}. Arguments x_cpop {V D}. Arguments x_rpush {V D}.
Arguments x_rpop {V D}. Arguments x_rpeek {V D}.

Section Bundled.
  Context {V D : Type} (X : ext V D).
  Definition xdist (m : nodemap V) (q : V) (id : Z) : D := node_distance V D (x_dist X) (x_top X) m q id.
  Definition xsearch_layer (m : nodemap V) (q : V) (ep ef : Z) (layer : nat) : list (Z * D) :=
    search_layer V D (x_dist X) (x_top X) (x_leb X) (x_ltb X) (x_cpush X) (x_cpop X) (x_rpush X) (x_rpop X) (x_rpeek X) m q ep ef layer.
  (** the node the layer-0 beam search of a query starts from (greedy descent from the entry) *)
  Definition xstart (s : state V) (q : V) : option Z :=
    option_map (descend V D (x_dist X) (x_top X) (x_ltb X) (nodes s) q (max_level s) 0%nat) (entry s).
  Definition xsearch (s : state V) (q : V) (k ef : Z) : list (Z * D) :=
    search_with_ef V D (x_dist X) (x_top X) (x_leb X) (x_ltb X) (x_cpush X) (x_cpop X) (x_rpush X) (x_rpop X) (x_rpeek X) s q k ef.
  Definition xbatch (s : state V) (qs : list V) (k ef : Z) : list (list (Z * D)) :=
    batch_search V D (x_dist X) (x_top X) (x_leb X) (x_ltb X) (x_cpush X) (x_cpop X) (x_rpush X) (x_rpop X) (x_rpeek X) s qs k ef.
  Definition xinsert (c : config) (s : state V) (id : Z) (v : V) (level : nat) : state V :=
    insert V D (x_dist X) (x_top X) (x_leb X) (x_ltb X) (x_scale X) (x_cpush X) (x_cpop X) (x_rpush X) (x_rpop X) (x_rpeek X) c s id v level.
  Definition xstep (c : config) (s : state V) (o : op V) : state V :=
    step V D (x_dist X) (x_top X) (x_leb X) (x_ltb X) (x_scale X) (x_cpush X) (x_cpop X) (x_rpush X) (x_rpop X) (x_rpeek X) c s o.
  Definition xrun (c : config) (ops : list (op V)) : state V :=
    run V D (x_dist X) (x_top X) (x_leb X) (x_ltb X) (x_scale X) (x_cpush X) (x_cpop X) (x_rpush X) (x_rpop X) (x_rpeek X) c ops.
  (** what the theorems need from the bundle: OrderedFloat is a total preorder, both heaps keep
      their contents *)
  Definition ext_ok : Prop :=
    order_ok (x_leb X) /\ heap_ok (x_cpush X) (x_cpop X) /\ heap_ok (x_rpush X) (x_rpop X).
End Bundled.

(** a bundle with list heaps (heap_ok proved in ProofsBase) *)
Definition list_ext {V D} (dist : V -> V -> D) (top : D) (leb ltb : D -> D -> bool) (scale : D -> D) : ext V D :=
  mk_ext V D dist top leb ltb scale lpush (lpop_min leb) lpush (lpop_max leb) (lpeek_max leb).

(** the bundle used to RUN the model: std's BinaryHeap with the element orders of hnsw.rs —
    Neighbor (candidates, min-heap):      a <= b  iff  OrderedFloat(b.d) <= OrderedFloat(a.d)
    FurthestCandidate (results, max-heap): a <= b  iff  OrderedFloat(a.d) <= OrderedFloat(b.d) *)
Definition std_ext {V D} (dist : V -> V -> D) (top : D) (leb ltb : D -> D -> bool) (scale : D -> D) : ext V D :=
  mk_ext V D dist top leb ltb scale
    (bpush (fun a b : Z * D => leb (snd b) (snd a))) (bpop (fun a b : Z * D => leb (snd b) (snd a)))
    (bpush (fun a b : Z * D => leb (snd a) (snd b))) (bpop (fun a b : Z * D => leb (snd a) (snd b)))
    bpeek.
