(** C18 — model of ScalarQuantizer (index/vector/quantization.rs l.161-330) in exact arithmetic.

      train / with_ranges : per dimension  range = max - min,  scale = 255 / range,
                            inv_scale = range / 255   (scale = inv_scale = 1 when |range| < EPSILON)
      quantize            : ((v - min) * scale).clamp(0, 255) as u8      — the cast TRUNCATES
      dequantize          : min + q * inv_scale

    Values live on a common fixed-point grid (integers); [range] is an integer > 0 on that grid.
    Float rounding of scale / inv_scale is runtime (DESIGN §4).  No proofs in this file. *)
From Coq Require Import ZArith List Bool.
Import ListNotations.
Open Scope Z_scope.

Definition clamp255 (x : Z) : Z := Z.max 0 (Z.min 255 x).

(** the u8 code of one coordinate: floor of (v - min) * 255 / range, clamped *)
Definition sq_code (mn range v : Z) : Z :=
  if range =? 0 then clamp255 (v - mn) else clamp255 ((v - mn) * 255 / range).
(** 255 * (dequantised value - min)  =  code * range   (kept scaled to stay in Z) *)
Definition sq_deq255 (range code : Z) : Z := if range =? 0 then 255 * code else code * range.

(** the exact grid used by the correspondence run: range = 255 * 2^e, so that the code's f32
    [scale] = 2^-e and [inv_scale] = 2^e are exact *)
Fixpoint sq_quantize_grid (mins es v : list Z) : list Z :=
  match mins, es, v with
  | mn :: mins', e :: es', x :: v' => sq_code mn (255 * 2 ^ e) x :: sq_quantize_grid mins' es' v'
  | _, _, _ => []
  end.
Fixpoint sq_dequantize_grid (mins es codes : list Z) : list Z :=
  match mins, es, codes with
  | mn :: mins', e :: es', c :: codes' => (mn + c * 2 ^ e) :: sq_dequantize_grid mins' es' codes'
  | _, _, _ => []
  end.
