(** C18 — VectorJoinOperator, the REPAIRED loop ([jnext]/[jrun] of Vec/Wrap.v, Section Join, with
    the [started] argument): for EVERY input — no hypothesis about [k_join_boundary] — the operator
    outputs exactly [join_spec] in chunks of 1..cap rows and terminates. *)
From Coq Require Import ZArith List Bool Lia Arith PeanoNat.
From GV Require Import Vec.Wrap Vec.ProofsJoin.
Import ListNotations.
Local Open Scope nat_scope.

Section JoinProofs2.
  Variable L R : Type.
  Notation row := (L * list R)%type.
  Notation jr := (jrem L R).

  Lemma jrem_nil_cur : forall (l : L) (rs : list R) (t : list row),
    jr ((l, rs) :: t) [] = join_spec t.
  Proof. reflexivity. Qed.

  Lemma jrem_cons_cur : forall (l : L) (rs : list R) (t : list row) c cur,
    jr ((l, rs) :: t) (c :: cur) = (l, c) :: jr ((l, rs) :: t) cur.
  Proof. reflexivity. Qed.

  (** ---- the fill loop, unconditionally: it emits the next [n] rows of what remains ---- *)
  Lemma fill_spec2 : forall n (l : L) (rs : list R) (t : list row) cur out rest' cur' exh' out',
    fill n ((l, rs) :: t) cur false out = (rest', cur', exh', out') ->
    out' = out ++ firstn n (jr ((l, rs) :: t) cur) /\
    jr rest' cur' = skipn n (jr ((l, rs) :: t) cur) /\
    ((exh' = true /\ rest' = [] /\ cur' = []) \/
     (exh' = false /\ exists l' rs' t', rest' = (l', rs') :: t')).
  Proof.
    induction n as [|n IH]; intros l rs t cur out rest' cur' exh' out' EF.
    - cbn [fill] in EF. inversion EF; subst rest' cur' exh' out'.
      cbn [firstn skipn]. rewrite app_nil_r.
      split; [reflexivity|]. split; [reflexivity|]. right. split; [reflexivity|].
      exists l, rs, t. reflexivity.
    - destruct cur as [|c cur0].
      + destruct (advance_left t) as [[rest1 cur1]|] eqn:EA.
        * destruct (advance_left_some L R 1 _ _ _ EA) as (l1 & t1 & E1 & E2 & E3 & _).
          destruct cur1 as [|c1 cur1']; [congruence|]. subst rest1.
          rewrite (fill_nil_some L R n l rs t false out _ _ _ _ _ EA) in EF.
          destruct (IH _ _ _ _ _ _ _ _ _ EF) as (Ho & Hr & Hd).
          rewrite jrem_nil_cur, E3, jrem_cons_cur. cbn [firstn skipn].
          split.
          { rewrite Ho, <- app_assoc. reflexivity. }
          split; assumption.
        * rewrite (fill_nil_none L R n l rs t false out EA) in EF.
          inversion EF; subst rest' cur' exh' out'.
          rewrite jrem_nil_cur, (advance_left_none L R _ EA).
          cbn [firstn skipn]. rewrite app_nil_r.
          split; [reflexivity|]. split; [reflexivity|]. left.
          split; [reflexivity|]. split; reflexivity.
      + rewrite fill_cons in EF.
        destruct (IH _ _ _ _ _ _ _ _ _ EF) as (Ho & Hr & Hd).
        rewrite jrem_cons_cur. cbn [firstn skipn].
        split.
        { rewrite Ho, <- app_assoc. reflexivity. }
        split; assumption.
  Qed.

  (** ---- one call of next() ---- *)
  Lemma jrun_S2 : forall f cap (st : jstate L R) started,
    jrun (S f) cap st started =
    match jnext cap st started with
    | (_, None) => ([], true)
    | (st', Some ch) => let '(chs, fin) := jrun f cap st' true in (ch :: chs, fin)
    end.
  Proof. reflexivity. Qed.

  (** after the first call, with a current row: a call is exactly one fill from the state as it is
      (the fill loop itself moves past a finished row) *)
  Lemma jnext_started : forall cap (l : L) (rs : list R) (t : list row) cur, 1 <= cap ->
    jnext cap (mk_j ((l, rs) :: t) cur false) true =
    match fill cap ((l, rs) :: t) cur false [] with
    | (rest', cur', exh', out) =>
      (mk_j rest' cur' exh', match out with [] => None | _ => Some out end)
    end.
  Proof.
    intros cap l rs t cur Hcap. unfold jnext. cbn [j_exhausted j_cur j_rest andb tl].
    destruct cur as [|c cur0]; [|reflexivity].
    destruct cap as [|n]; [lia|].
    destruct (advance_left t) as [[rest1 cur1]|] eqn:EA.
    - destruct (advance_left_some L R 1 _ _ _ EA) as (l1 & t1 & E1 & E2 & E3 & _).
      destruct cur1 as [|c1 cur1']; [congruence|]. subst rest1.
      rewrite (fill_nil_some L R n l rs t false [] _ _ _ _ _ EA).
      rewrite fill_cons. reflexivity.
    - rewrite (fill_nil_none L R n l rs t false [] EA). reflexivity.
  Qed.

  Lemma jnext_step : forall cap (l : L) (rs : list R) (t : list row) cur, 1 <= cap ->
    (jr ((l, rs) :: t) cur = [] /\
     exists st', jnext cap (mk_j ((l, rs) :: t) cur false) true = (st', None)) \/
    (exists rest' cur' exh' out',
       jnext cap (mk_j ((l, rs) :: t) cur false) true = (mk_j rest' cur' exh', Some out') /\
       out' = firstn cap (jr ((l, rs) :: t) cur) /\ out' <> [] /\
       jr rest' cur' = skipn cap (jr ((l, rs) :: t) cur) /\
       ((exh' = true /\ rest' = [] /\ cur' = []) \/
        (exh' = false /\ exists l' rs' t', rest' = (l', rs') :: t'))).
  Proof.
    intros cap l rs t cur Hcap. rewrite jnext_started by exact Hcap.
    destruct (fill cap ((l, rs) :: t) cur false []) as [[[rest' cur'] exh'] out'] eqn:EF.
    destruct (fill_spec2 _ _ _ _ _ _ _ _ _ _ EF) as (Ho & Hr & Hd). cbn [app] in Ho.
    destruct out' as [|o out0].
    - left. split.
      + destruct (jr ((l, rs) :: t) cur) as [|x xs]; [reflexivity|].
        destruct cap as [|n]; [lia|]. cbn [firstn] in Ho. discriminate Ho.
      + eexists. reflexivity.
    - right. exists rest', cur', exh', (o :: out0).
      split; [reflexivity|]. split; [exact Ho|]. split; [discriminate|]. split; assumption.
  Qed.

  Lemma jnext_done2 : forall cap started,
    jnext cap (mk_j (@nil row) (@nil R) true) started = (mk_j [] [] true, None).
  Proof. reflexivity. Qed.

  Lemma jnext_init_some2 : forall cap (rows rest' : list row) (cur' : list R),
    cur' <> [] -> advance_left rows = Some (rest', cur') ->
    jnext cap (jinit rows) false = jnext cap (mk_j rest' cur' false) true.
  Proof.
    intros cap rows rest' cur' Hc EA.
    unfold jnext, jinit. cbn [j_exhausted j_cur j_rest andb]. rewrite EA.
    destruct cur' as [|c cur0]; [congruence|]. reflexivity.
  Qed.

  Lemma jnext_init_none2 : forall cap (rows : list row),
    advance_left rows = None -> jnext cap (jinit rows) false = (mk_j [] [] true, None).
  Proof.
    intros cap rows EA. unfold jnext, jinit. cbn [j_exhausted j_cur j_rest andb].
    rewrite EA. reflexivity.
  Qed.

  (** ---- the whole run from a state between two calls (current row present, [cur] arbitrary) ---- *)
  Lemma jrun_from2 : forall cap, 1 <= cap ->
    forall m (l : L) (rs : list R) (t : list row) (cur : list R),
    length (jr ((l, rs) :: t) cur) <= m ->
    exists fuel chs, jrun fuel cap (mk_j ((l, rs) :: t) cur false) true = (chs, true) /\
      concat chs = jr ((l, rs) :: t) cur /\ Forall (fun ch => 1 <= length ch <= cap) chs.
  Proof.
    intros cap Hcap.
    induction m as [|m IH]; intros l rs t cur Hlen;
      destruct (jnext_step cap l rs t cur Hcap)
        as [(Ej & st' & EN) | (rest' & cur' & exh' & out' & EN & Ho & Hne & Hr & Hd)].
    - exists 1, []. split.
      + rewrite jrun_S2, EN. reflexivity.
      + split; [|constructor]. cbn [concat]. symmetry. exact Ej.
    - exfalso. destruct (jr ((l, rs) :: t) cur) as [|x xs].
      + rewrite firstn_nil in Ho. contradiction.
      + cbn [length] in Hlen. lia.
    - exists 1, []. split.
      + rewrite jrun_S2, EN. reflexivity.
      + split; [|constructor]. cbn [concat]. symmetry. exact Ej.
    - assert (Hlo : 1 <= length out' <= cap).
      { split.
        - destruct out' as [|o out0]; [congruence|]. cbn [length]. lia.
        - rewrite Ho, firstn_length. lia. }
      destruct Hd as [(Ee & Er & Ec) | (Ee & l' & rs' & t' & Er)].
      + (* last chunk *)
        subst exh' rest' cur'.
        assert (Hs : skipn cap (jr ((l, rs) :: t) cur) = []).
        { rewrite <- Hr. reflexivity. }
        exists 2, [out']. split.
        * rewrite jrun_S2, EN. cbv beta iota. rewrite jrun_S2, jnext_done2. reflexivity.
        * split.
          -- cbn [concat]. rewrite app_nil_r.
             pose proof (firstn_skipn cap (jr ((l, rs) :: t) cur)) as HFS.
             rewrite Hs, app_nil_r, <- Ho in HFS. exact HFS.
          -- constructor; [exact Hlo|constructor].
      + (* more to come *)
        subst exh' rest'.
        assert (Hlen' : length (jr ((l', rs') :: t') cur') <= m).
        { rewrite Hr, skipn_length. lia. }
        destruct (IH l' rs' t' cur' Hlen') as (fuel & chs & ER & EC & HF).
        exists (S fuel), (out' :: chs). split.
        * rewrite jrun_S2, EN. cbv beta iota. rewrite ER. reflexivity.
        * split.
          -- cbn [concat]. rewrite EC, Hr, Ho. apply firstn_skipn.
          -- constructor; [exact Hlo|exact HF].
  Qed.
End JoinProofs2.

Lemma join_is_row_by_row_l2 : forall (L R : Type) (cap : nat) (rows : list (L * list R)),
  (1 <= cap)%nat ->
  exists fuel chs, jrun fuel cap (jinit rows) false = (chs, true) /\ concat chs = join_spec rows /\
                   Forall (fun ch => (1 <= length ch <= cap)%nat) chs.
Proof.
  intros L R cap rows Hcap.
  destruct (advance_left rows) as [[rest1 cur1]|] eqn:EA.
  - destruct (advance_left_some L R 1 _ _ _ EA) as (l1 & t1 & E1 & E2 & E3 & _).
    subst rest1.
    destruct (jrun_from2 L R cap Hcap _ l1 cur1 t1 cur1 (le_n _)) as (fuel & chs & ER & EC & HF).
    destruct fuel as [|f]; [discriminate ER|].
    exists (S f), chs. split.
    + rewrite jrun_S2. rewrite (jnext_init_some2 L R cap rows _ cur1 E2 EA).
      rewrite <- jrun_S2. exact ER.
    + split; [|exact HF]. rewrite EC. symmetry. exact E3.
  - exists 1%nat, []. split.
    + rewrite jrun_S2. rewrite (jnext_init_none2 L R cap rows EA). reflexivity.
    + split; [|constructor]. cbn [concat]. symmetry. apply advance_left_none. exact EA.
Qed.
