(** C18 — list lemmas shared by the Vec proofs: takez, stable insertion sort, list heaps. *)
From Coq Require Import ZArith List Bool Lia Permutation Sorted.
From GV Require Import Vec.Hnsw.
Import ListNotations.
Open Scope Z_scope.

Lemma zlen_nil : forall A, zlen (@nil A) = 0.
Proof. reflexivity. Qed.
Lemma zlen_cons : forall A (x : A) l, zlen (x :: l) = 1 + zlen l.
Proof. intros. unfold zlen. cbn [length]. lia. Qed.
Lemma zlen_nonneg : forall A (l : list A), 0 <= zlen l.
Proof. intros. unfold zlen. lia. Qed.
Lemma zlen_app : forall A (l1 l2 : list A), zlen (l1 ++ l2) = zlen l1 + zlen l2.
Proof. intros. unfold zlen. rewrite app_length. lia. Qed.

Lemma memz_In : forall x l, memz x l = true <-> In x l.
Proof.
  induction l as [|y t IH]; cbn [memz In].
  - split; [discriminate|tauto].
  - rewrite orb_true_iff, IH, Z.eqb_eq. split; intros [H|H]; auto.
Qed.
Lemma memz_false : forall x l, memz x l = false <-> ~ In x l.
Proof.
  intros. rewrite <- memz_In. destruct (memz x l); split; intro H; try reflexivity; try discriminate.
  - exfalso. apply H. reflexivity.
Qed.

(** takez *)
Lemma takez_prefix : forall A k (l : list A), exists rest, l = takez k l ++ rest.
Proof.
  intros A k l. revert k. induction l as [|x t IH]; intro k; cbn [takez].
  - exists []. reflexivity.
  - destruct (k <=? 0).
    + exists (x :: t). reflexivity.
    + destruct (IH (k - 1)) as [r Hr]. exists r. cbn [app]. rewrite <- Hr. reflexivity.
Qed.
Lemma takez_len : forall A k (l : list A), zlen (takez k l) = Z.min (Z.max 0 k) (zlen l).
Proof.
  intros A k l. revert k. induction l as [|x t IH]; intro k; cbn [takez].
  - rewrite zlen_nil. lia.
  - destruct (k <=? 0) eqn:E.
    + apply Z.leb_le in E. rewrite zlen_nil. pose proof (zlen_nonneg _ (x :: t)). lia.
    + apply Z.leb_gt in E. rewrite !zlen_cons, IH. pose proof (zlen_nonneg _ t). lia.
Qed.
Lemma takez_In : forall A k (l : list A) x, In x (takez k l) -> In x l.
Proof.
  intros A k l x H. destruct (takez_prefix A k l) as [r Hr]. rewrite Hr. apply in_or_app. auto.
Qed.
Lemma takez_all : forall A k (l : list A), zlen l <= k -> takez k l = l.
Proof.
  intros A k l. revert k. induction l as [|x t IH]; intros k H; cbn [takez]; [reflexivity|].
  rewrite zlen_cons in H. pose proof (zlen_nonneg _ t).
  destruct (k <=? 0) eqn:E; [apply Z.leb_le in E; lia|]. f_equal. apply IH. lia.
Qed.
Lemma takez_firstn : forall A k (l : list A), takez k l = firstn (Z.to_nat k) l.
Proof.
  intros A k l. revert k. induction l as [|x t IH]; intro k; cbn [takez].
  - rewrite firstn_nil. reflexivity.
  - destruct (k <=? 0) eqn:E.
    + apply Z.leb_le in E. replace (Z.to_nat k) with O by lia. reflexivity.
    + apply Z.leb_gt in E. replace (Z.to_nat k) with (S (Z.to_nat (k - 1))) by lia.
      cbn [firstn]. f_equal. apply IH.
Qed.

Lemma NoDup_prefix : forall A (l r : list A), NoDup (l ++ r) -> NoDup l.
Proof.
  induction l as [|x t IH]; intros r H; [constructor|].
  cbn [app] in H. inversion H as [|? ? Hn Hd]; subst. constructor.
  - intro Hi. apply Hn. apply in_or_app. auto.
  - eapply IH. eassumption.
Qed.
Lemma NoDup_suffix : forall A (l r : list A), NoDup (l ++ r) -> NoDup r.
Proof.
  induction l as [|x t IH]; intros r H; [exact H|].
  cbn [app] in H. inversion H; subst. auto.
Qed.

Section Sorting.
  Variable D : Type.
  Variable leb : D -> D -> bool.
  Notation elt := (Z * D)%type.
  Definition le_elt (a b : elt) : Prop := leb (snd a) (snd b) = true.

  Lemma ins_by_perm : forall x l, Permutation (ins_by leb x l) (x :: l).
  Proof.
    induction l as [|y t IH]; cbn [ins_by]; [reflexivity|].
    destruct (leb (snd x) (snd y)); [reflexivity|].
    rewrite IH. apply perm_swap.
  Qed.
  Lemma sort_by_perm : forall l, Permutation (sort_by leb l) l.
  Proof.
    induction l as [|x t IH]; cbn [sort_by]; [reflexivity|].
    rewrite ins_by_perm. constructor. exact IH.
  Qed.
  Lemma sort_by_len : forall l, length (sort_by leb l) = length l.
  Proof. intro l. apply Permutation_length, sort_by_perm. Qed.

  Hypothesis Hord : order_ok leb.

  Lemma ins_by_sorted : forall x l, StronglySorted le_elt l -> StronglySorted le_elt (ins_by leb x l).
  Proof.
    destruct Hord as [Htot Htr].
    induction l as [|y t IH]; intro H; cbn [ins_by].
    - repeat constructor.
    - inversion H as [|? ? Hs Hf]; subst.
      destruct (leb (snd x) (snd y)) eqn:E.
      + constructor; [exact H|]. constructor; [exact E|].
        eapply Forall_impl; [|exact Hf]. intros a Ha. unfold le_elt in *. eapply Htr; eassumption.
      + constructor; [apply IH; exact Hs|].
        assert (Hyx : le_elt y x). { unfold le_elt. destruct (Htot (snd x) (snd y)); congruence. }
        eapply Permutation_Forall; [symmetry; apply ins_by_perm|]. constructor; assumption.
  Qed.
  Lemma sort_by_sorted : forall l, StronglySorted le_elt (sort_by leb l).
  Proof.
    induction l as [|x t IH]; cbn [sort_by]; [constructor|]. apply ins_by_sorted. exact IH.
  Qed.

  Lemma sorted_prefix : forall (l r : list elt), StronglySorted le_elt (l ++ r) -> StronglySorted le_elt l.
  Proof.
    induction l as [|x t IH]; intros r H; [constructor|].
    cbn [app] in H. inversion H as [|? ? Hs Hf]; subst. constructor.
    - eapply IH; eassumption.
    - apply Forall_app in Hf. tauto.
  Qed.
  Lemma sorted_split : forall (l r : list elt), StronglySorted le_elt (l ++ r) ->
    forall a b, In a l -> In b r -> le_elt a b.
  Proof.
    induction l as [|x t IH]; intros r H a b Ha Hb; [destruct Ha|].
    cbn [app] in H. inversion H as [|? ? Hs Hf]; subst. destruct Ha as [->|Ha].
    - rewrite Forall_forall in Hf. apply Hf. apply in_or_app. auto.
    - eapply IH; eassumption.
  Qed.
End Sorting.

(** stability: a stable sort does not reorder the elements of one distance class — stated with an
    arbitrary class predicate that is compatible with the order *)
Section Stable.
  Variable D : Type.
  Variable leb : D -> D -> bool.
  Notation elt := (Z * D)%type.
  Variable P : elt -> bool.
  (** P selects a class of mutually equivalent elements: two selected elements compare [<=] both ways *)
  Hypothesis Pcls : forall a b, P a = true -> P b = true -> leb (snd a) (snd b) = true.

  Lemma ins_by_filter_in : forall x l, P x = true -> filter P (ins_by leb x l) = x :: filter P l.
  Proof.
    intros x l Hx. induction l as [|y t IH]; cbn [ins_by filter].
    - rewrite Hx. reflexivity.
    - destruct (leb (snd x) (snd y)) eqn:E.
      + cbn [filter]. rewrite Hx. reflexivity.
      + cbn [filter]. destruct (P y) eqn:Hy.
        * rewrite (Pcls x y Hx Hy) in E. discriminate.
        * exact IH.
  Qed.
  Lemma ins_by_filter_out : forall x l, P x = false -> filter P (ins_by leb x l) = filter P l.
  Proof.
    intros x l Hx. induction l as [|y t IH]; cbn [ins_by filter].
    - rewrite Hx. reflexivity.
    - destruct (leb (snd x) (snd y)); cbn [filter]; [rewrite Hx; reflexivity|].
      destruct (P y); [f_equal|]; exact IH.
  Qed.
  Lemma sort_by_stable : forall l, filter P (sort_by leb l) = filter P l.
  Proof.
    induction l as [|x t IH]; cbn [sort_by filter]; [reflexivity|].
    destruct (P x) eqn:Hx.
    - rewrite ins_by_filter_in by exact Hx. f_equal. exact IH.
    - rewrite ins_by_filter_out by exact Hx. exact IH.
  Qed.
End Stable.

(** the list heaps satisfy the heap specification *)
Section ListHeapOk.
  Variable D : Type.
  Variable leb : D -> D -> bool.
  Notation elt := (Z * D)%type.

  Lemma lpush_perm : forall (x : elt) h, Permutation (lpush x h) (x :: h).
  Proof. intros. unfold lpush. symmetry. apply Permutation_cons_append. Qed.
  Lemma lpop_min_perm : forall (h : list elt) x h', lpop_min leb h = Some (x, h') -> Permutation h (x :: h').
  Proof.
    induction h as [|y t IH]; intros x h' H; cbn [lpop_min] in H; [discriminate|].
    destruct (lpop_min leb t) as [[z t']|] eqn:E.
    - destruct (leb (snd y) (snd z)); inversion H; subst; [reflexivity|].
      rewrite (IH _ _ eq_refl). apply perm_swap.
    - inversion H; subst. destruct t as [|a b]; [reflexivity|].
      cbn [lpop_min] in E. destruct (lpop_min leb b) as [[? ?]|]; [destruct (leb _ _)|]; discriminate.
  Qed.
  Lemma lpop_min_nil : forall (h : list elt), lpop_min leb h = None -> h = [].
  Proof.
    destruct h as [|y t]; [reflexivity|]. cbn [lpop_min].
    destruct (lpop_min leb t) as [[? ?]|]; [destruct (leb _ _)|]; discriminate.
  Qed.
  Lemma lpop_max_perm : forall (h : list elt) x h', lpop_max leb h = Some (x, h') -> Permutation h (x :: h').
  Proof.
    induction h as [|y t IH]; intros x h' H; cbn [lpop_max] in H; [discriminate|].
    destruct (lpop_max leb t) as [[z t']|] eqn:E.
    - destruct (leb (snd z) (snd y)); inversion H; subst; [reflexivity|].
      rewrite (IH _ _ eq_refl). apply perm_swap.
    - inversion H; subst. destruct t as [|a b]; [reflexivity|].
      cbn [lpop_max] in E. destruct (lpop_max leb b) as [[? ?]|]; [destruct (leb _ _)|]; discriminate.
  Qed.
  Lemma lpop_max_nil : forall (h : list elt), lpop_max leb h = None -> h = [].
  Proof.
    destruct h as [|y t]; [reflexivity|]. cbn [lpop_max].
    destruct (lpop_max leb t) as [[? ?]|]; [destruct (leb _ _)|]; discriminate.
  Qed.
  Lemma list_heap_min_ok : heap_ok lpush (lpop_min leb).
  Proof. repeat split; [apply lpush_perm|apply lpop_min_perm|apply lpop_min_nil]. Qed.
  Lemma list_heap_max_ok : heap_ok lpush (lpop_max leb).
  Proof. repeat split; [apply lpush_perm|apply lpop_max_perm|apply lpop_max_nil]. Qed.
End ListHeapOk.

Lemma list_ext_ok : forall V D (dist : V -> V -> D) top leb ltb scale,
  order_ok leb -> ext_ok (list_ext dist top leb ltb scale).
Proof.
  intros. split; [assumption|]. split; [apply list_heap_min_ok|apply list_heap_max_ok].
Qed.
