(** The transcription of std's BinaryHeap (Vec/Hnsw.v, Section BinaryHeap) keeps exactly what
    was pushed and not yet popped, for EVERY comparison function [ole] (no assumption on it). *)
From Coq Require Import ZArith List Bool Lia Arith PeanoNat Permutation.
From GV Require Import Vec.Hnsw Vec.ProofsBase.
Import ListNotations.
Local Open Scope nat_scope.

Section HeapPerm.
  Variable E : Type.
  Variable ole : E -> E -> bool.

  (** the list with position [i] removed *)
  Fixpoint remove_at (i : nat) (l : list E) : list E :=
    match l, i with
    | [], _ => []
    | _ :: t, O => t
    | y :: t, S j => y :: remove_at j t
    end.

  Lemma remove_at_firstn_skipn : forall (l : list E) (i : nat),
    remove_at i l = firstn i l ++ skipn (S i) l.
  Proof.
    induction l as [|y t IH]; intros [|j]; cbn [remove_at firstn skipn app]; try reflexivity.
    rewrite IH. reflexivity.
  Qed.

  Lemma set_at_length : forall (l : list E) (i : nat) (x : E), length (set_at E l i x) = length l.
  Proof.
    induction l as [|y t IH]; intros [|j] x; cbn [set_at length]; try reflexivity.
    rewrite IH. reflexivity.
  Qed.

  Lemma nth_error_set_at_eq : forall (l : list E) (i : nat) (x : E),
    i < length l -> nth_error (set_at E l i x) i = Some x.
  Proof.
    induction l as [|y t IH]; intros [|j] x Hi; cbn [set_at length nth_error] in *; try lia.
    - reflexivity.
    - apply IH. lia.
  Qed.

  Lemma nth_error_set_at_ne : forall (l : list E) (i j : nat) (x : E),
    i <> j -> nth_error (set_at E l i x) j = nth_error l j.
  Proof.
    induction l as [|y t IH]; intros [|i] [|j] x Hne; cbn [set_at nth_error]; try reflexivity; try lia.
    apply IH. lia.
  Qed.

  Lemma perm_remove_at : forall (l : list E) (i : nat) (a : E),
    nth_error l i = Some a -> Permutation l (a :: remove_at i l).
  Proof.
    induction l as [|y t IH]; intros [|j] a Hn; cbn [nth_error remove_at] in *; try discriminate.
    - inversion Hn; subst. apply Permutation_refl.
    - apply Permutation_trans with (y :: a :: remove_at j t).
      + apply perm_skip. apply IH. exact Hn.
      + apply perm_swap.
  Qed.

  Lemma remove_at_set_at : forall (l : list E) (i : nat) (x : E),
    remove_at i (set_at E l i x) = remove_at i l.
  Proof.
    induction l as [|y t IH]; intros [|j] x; cbn [set_at remove_at]; try reflexivity.
    rewrite IH. reflexivity.
  Qed.

  Lemma set_at_perm : forall (l : list E) (i : nat) (y : E),
    i < length l -> Permutation (set_at E l i y) (y :: remove_at i l).
  Proof.
    intros l i y Hi.
    rewrite <- (remove_at_set_at l i y).
    apply perm_remove_at. apply nth_error_set_at_eq. exact Hi.
  Qed.

  (** the element [p] moves from index [parent] to index [pos]; what was at [pos] is dropped *)
  Lemma remove_at_move : forall (l : list E) (parent pos : nat) (p : E),
    parent <> pos -> pos < length l -> nth_error l parent = Some p ->
    Permutation (remove_at parent (set_at E l pos p)) (remove_at pos l).
  Proof.
    induction l as [|y t IH]; intros [|k] [|j] p Hne Hpos Hn;
      cbn [set_at remove_at nth_error length] in *; try discriminate; try lia.
    - inversion Hn; subst. apply set_at_perm. lia.
    - apply Permutation_sym. apply perm_remove_at. exact Hn.
    - apply perm_skip. apply IH; [lia | lia | exact Hn].
  Qed.

  Lemma sift_up_S : forall (f : nat) (l : list E) (n : nat) (x : E),
    sift_up E ole (S f) l (S n) x =
    match nth_error l (Nat.div (S n - 1) 2) with
    | Some p => if ole x p then set_at E l (S n) x
                else sift_up E ole f (set_at E l (S n) p) (Nat.div (S n - 1) 2) x
    | None => set_at E l (S n) x
    end.
  Proof. reflexivity. Qed.

  Lemma sift_up_perm : forall (fuel : nat) (l : list E) (pos : nat) (x : E),
    pos < length l -> Permutation (sift_up E ole fuel l pos x) (x :: remove_at pos l).
  Proof.
    induction fuel as [|f IH]; intros l pos x Hpos.
    - cbn [sift_up]. apply set_at_perm. exact Hpos.
    - destruct pos as [|n].
      + cbn [sift_up]. apply set_at_perm. exact Hpos.
      + rewrite sift_up_S.
        assert (Hpar : Nat.div (S n - 1) 2 < S n).
        { apply Nat.div_lt_upper_bound; lia. }
        remember (Nat.div (S n - 1) 2) as parent eqn:Eparent.
        destruct (nth_error l parent) as [p|] eqn:Hp.
        * destruct (ole x p).
          -- apply set_at_perm. exact Hpos.
          -- apply Permutation_trans with (x :: remove_at parent (set_at E l (S n) p)).
             ++ apply IH. rewrite set_at_length. lia.
             ++ apply perm_skip. apply remove_at_move; [lia | exact Hpos | exact Hp].
        * apply set_at_perm. exact Hpos.
  Qed.

  Lemma remove_at_last : forall (h : list E) (x : E), remove_at (length h) (h ++ [x]) = h.
  Proof.
    induction h as [|y t IH]; intros x; cbn [length app remove_at]; try reflexivity.
    rewrite IH. reflexivity.
  Qed.

  Lemma bpush_perm_sec : forall (x : E) (h : list E), Permutation (bpush ole x h) (x :: h).
  Proof.
    intros x h. unfold bpush.
    apply Permutation_trans with (x :: remove_at (length h) (h ++ [x])).
    - apply sift_up_perm. rewrite app_length. cbn [length]. lia.
    - rewrite remove_at_last. apply Permutation_refl.
  Qed.

  Lemma sift_down_S : forall (f : nat) (l : list E) (hole child : nat),
    sift_down E ole (S f) l hole child =
    if Nat.leb (child + 2) (length l) then
      match nth_error l child, nth_error l (child + 1) with
      | Some a, Some b =>
        sift_down E ole f (set_at E l hole (if ole a b then b else a))
          (if ole a b then (child + 1)%nat else child)
          (2 * (if ole a b then (child + 1)%nat else child) + 1)%nat
      | _, _ => (l, hole)
      end
    else if Nat.eqb (child + 1) (length l) then
      match nth_error l child with
      | Some a => (set_at E l hole a, child)
      | None => (l, hole)
      end
    else (l, hole).
  Proof. reflexivity. Qed.

  Lemma sift_down_perm : forall (fuel : nat) (l : list E) (hole child : nat) (l' : list E) (hole' : nat),
    hole < child -> hole < length l ->
    sift_down E ole fuel l hole child = (l', hole') ->
    hole' < length l' /\ length l' = length l /\
    Permutation (remove_at hole' l') (remove_at hole l).
  Proof.
    induction fuel as [|f IH]; intros l hole child l' hole' Hhc Hhole Hsd.
    - cbn [sift_down] in Hsd. inversion Hsd; subst.
      split; [exact Hhole | split; [reflexivity | apply Permutation_refl]].
    - rewrite sift_down_S in Hsd.
      destruct (Nat.leb (child + 2) (length l)) eqn:Hle.
      + apply Nat.leb_le in Hle.
        destruct (nth_error l child) as [a|] eqn:Ha;
          [| inversion Hsd; subst;
             split; [exact Hhole | split; [reflexivity | apply Permutation_refl]]].
        destruct (nth_error l (child + 1)) as [b|] eqn:Hb;
          [| inversion Hsd; subst;
             split; [exact Hhole | split; [reflexivity | apply Permutation_refl]]].
        remember (if ole a b then (child + 1)%nat else child) as c eqn:Ec.
        remember (if ole a b then b else a) as v eqn:Ev.
        assert (Hc : nth_error l c = Some v /\ hole < c /\ c < length l).
        { subst c v. destruct (ole a b).
          - split; [exact Hb | lia].
          - split; [exact Ha | lia]. }
        destruct Hc as [Hcv [Hhc' Hcl]].
        apply IH in Hsd; [| lia | rewrite set_at_length; exact Hcl].
        destruct Hsd as [H1 [H2 H3]].
        rewrite set_at_length in H2.
        split; [exact H1 | split; [exact H2 |]].
        apply Permutation_trans with (remove_at c (set_at E l hole v)); [exact H3 |].
        apply remove_at_move; [lia | exact Hhole | exact Hcv].
      + destruct (Nat.eqb (child + 1) (length l)) eqn:Heq.
        * apply Nat.eqb_eq in Heq.
          destruct (nth_error l child) as [a|] eqn:Ha.
          -- inversion Hsd; subst l' hole'.
             rewrite set_at_length.
             split; [lia | split; [reflexivity |]].
             apply remove_at_move; [lia | exact Hhole | exact Ha].
          -- inversion Hsd; subst.
             split; [exact Hhole | split; [reflexivity | apply Permutation_refl]].
        * inversion Hsd; subst.
          split; [exact Hhole | split; [reflexivity | apply Permutation_refl]].
  Qed.

  Lemma rev_cons_eq : forall (l : list E) (a : E) (r : list E),
    rev l = a :: r -> l = rev r ++ [a].
  Proof.
    intros l a r Hr. rewrite <- (rev_involutive l). rewrite Hr. reflexivity.
  Qed.

  Lemma bpop_perm_sec : forall (h : list E) (x : E) (h' : list E),
    bpop ole h = Some (x, h') -> Permutation h (x :: h').
  Proof.
    intros h x h' Hpop. unfold bpop in Hpop.
    destruct (rev h) as [|item rinit] eqn:Hrev; [discriminate |].
    apply rev_cons_eq in Hrev.
    destruct (rev rinit) as [|top rest] eqn:Hinit.
    - inversion Hpop; subst. cbn [app]. apply Permutation_refl.
    - destruct (sift_down E ole (length (item :: rest)) (item :: rest) 0 1) as [l2 pos] eqn:Hsd.
      injection Hpop as Hx Hh'. subst x h'.
      apply sift_down_perm in Hsd; [| lia | cbn [length]; lia].
      destruct Hsd as [H1 [H2 H3]].
      cbn [remove_at] in H3.
      subst h. rewrite <- app_comm_cons. apply perm_skip.
      apply Permutation_trans with (item :: rest).
      + apply Permutation_sym. apply Permutation_cons_append.
      + apply Permutation_sym.
        apply Permutation_trans with (item :: remove_at pos l2).
        * exact (sift_up_perm (S (length l2)) l2 pos item H1).
        * apply perm_skip. exact H3.
  Qed.

  Lemma bpop_nil_sec : forall (h : list E), bpop ole h = None -> h = [].
  Proof.
    intros h Hpop. unfold bpop in Hpop.
    destruct (rev h) as [|item rinit] eqn:Hrev.
    - rewrite <- (rev_involutive h). rewrite Hrev. reflexivity.
    - destruct (rev rinit) as [|top rest]; [discriminate |].
      destruct (sift_down E ole (length (item :: rest)) (item :: rest) 0 1) as [l2 pos].
      discriminate.
  Qed.
End HeapPerm.

Lemma bpush_perm : forall (E : Type) (ole : E -> E -> bool) (x : E) (h : list E),
  Permutation (bpush ole x h) (x :: h).
Proof. intros E ole x h. apply bpush_perm_sec. Qed.

Lemma bpop_perm : forall (E : Type) (ole : E -> E -> bool) (h : list E) x h',
  bpop ole h = Some (x, h') -> Permutation h (x :: h').
Proof. intros E ole h x h' Hpop. apply (bpop_perm_sec E ole h x h' Hpop). Qed.

Lemma bpop_nil : forall (E : Type) (ole : E -> E -> bool) (h : list E),
  bpop ole h = None -> h = [].
Proof. intros E ole h Hpop. apply (bpop_nil_sec E ole h Hpop). Qed.

Lemma std_heap_ok : forall (E : Type) (ole : E -> E -> bool), heap_ok (bpush ole) (bpop ole).
Proof.
  intros E ole. unfold heap_ok. split; [| split].
  - intros x h. apply bpush_perm.
  - intros h x h' Hpop. apply (bpop_perm E ole h x h' Hpop).
  - intros h Hpop. apply (bpop_nil E ole h Hpop).
Qed.

Lemma std_ext_ok : forall V D (dist : V -> V -> D) top leb ltb scale,
  order_ok leb -> ext_ok (std_ext dist top leb ltb scale).
Proof.
  intros V D dist top leb ltb scale Hord.
  unfold ext_ok, std_ext.
  cbn [x_leb x_cpush x_cpop x_rpush x_rpop].
  split; [exact Hord | split; apply std_heap_ok].
Qed.
