(** C18 — the scalar quantiser: the dequantised value lies within one step BELOW the original
    (the cast truncates), for every value of the trained range. *)
From Coq Require Import ZArith List Bool Lia.
From GV Require Import Vec.Quant.
Open Scope Z_scope.

Lemma scalar_quant_error_l : forall mn range v, 0 < range -> mn <= v <= mn + range ->
  let c := sq_code mn range v in
  0 <= c <= 255 /\ 0 <= 255 * (v - mn) - sq_deq255 range c < range.
Proof.
  intros mn range v Hr Hv c. unfold c, sq_code, sq_deq255.
  destruct (range =? 0) eqn:E; [apply Z.eqb_eq in E; lia|].
  set (t := (v - mn) * 255 / range).
  assert (H0 : 0 <= t) by (apply Z.div_pos; nia).
  assert (H1 : t <= 255) by (apply Z.div_le_upper_bound; nia).
  unfold clamp255. rewrite Z.min_r by lia. rewrite Z.max_r by lia.
  split; [lia|]. unfold t. pose proof (Z.div_mod ((v - mn) * 255) range ltac:(lia)) as Hd.
  pose proof (Z.mod_pos_bound ((v - mn) * 255) range Hr) as Hm. nia.
Qed.

Lemma scalar_quant_clamp_l : forall mn range v, 0 < range ->
  (v <= mn -> sq_code mn range v = 0) /\ (mn + range <= v -> sq_code mn range v = 255).
Proof.
  intros mn range v Hr. unfold sq_code, clamp255.
  destruct (range =? 0) eqn:E; [apply Z.eqb_eq in E; lia|]. split; intro H.
  - assert ((v - mn) * 255 / range <= 0).
    { apply Z.div_le_upper_bound; nia. } lia.
  - assert (255 <= (v - mn) * 255 / range).
    { apply Z.div_le_lower_bound; nia. } lia.
Qed.

(** on the grid of the correspondence run (range = 255 * 2^e) the code is a plain shift *)
Lemma sq_code_grid_l : forall mn e v, 0 <= e -> sq_code mn (255 * 2 ^ e) v = clamp255 ((v - mn) / 2 ^ e).
Proof.
  intros mn e v He. unfold sq_code.
  assert (Hp : 0 < 2 ^ e) by (apply Z.pow_pos_nonneg; lia).
  destruct (255 * 2 ^ e =? 0) eqn:E; [apply Z.eqb_eq in E; lia|].
  f_equal. rewrite (Z.mul_comm (v - mn) 255). apply Z.div_mul_cancel_l; lia.
Qed.
