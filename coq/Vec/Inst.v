(** C18 — the instance of the HNSW model that runs: exact integer vectors and distances. *)
From GV Require Export Vec.Hnsw Vec.Brute Vec.Kernel.
Open Scope Z_scope.

Definition zvec := list Z.
Definition ztop : Z := 2 ^ 300.   (* f32::MAX of node_distance: larger than every real distance *)
(** exact distances in Z, alpha = 1.0, std's BinaryHeap *)
Definition zext (mt : metric) : ext zvec Z := std_ext (zdist mt) ztop Z.leb Z.ltb (fun d => d).
(** the same with the list heaps (equal results whenever no two distances tie) *)
Definition zext_list (mt : metric) : ext zvec Z := list_ext (zdist mt) ztop Z.leb Z.ltb (fun d => d).
