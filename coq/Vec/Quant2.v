(** C18 — more of index/vector/quantization.rs in exact arithmetic (no proofs in this file):

      ScalarQuantizer::asymmetric_distance_squared (l.366), distance_squared_u8 (l.312)
      BinaryQuantizer::quantize (l.420: sign bits packed into u64 words), hamming_distance (l.443)
      ProductQuantizer::quantize (l.751: nearest centroid per sub-vector, FIRST strict minimum),
            build_distance_table (l.805), distance_with_table (l.838), reconstruct (l.870)

    Float rounding is runtime (DESIGN §4); the tie uses integer inputs on which f32 is exact. *)
From Coq Require Import ZArith List Bool.
From GV Require Export Vec.Kernel Vec.Quant.
Import ListNotations.
Open Scope Z_scope.

(** ---- scalar quantiser: distances ---- *)
(** one dimension of a comparison: (min, range, query coordinate, stored coordinate), all on one
    fixed-point grid; everything below is scaled by 255 to stay in Z *)
Definition dim4 := (Z * Z * Z * Z)%type.
Definition d_code (d : dim4) : Z := let '(mn, range, _, v) := d in sq_code mn range v.
(** 255 * (query - dequantised) *)
Definition d_asym (d : dim4) : Z := let '(mn, range, q, v) := d in 255 * q - (255 * mn + sq_deq255 range (sq_code mn range v)).
(** 255 * (query - stored) *)
Definition d_exact (d : dim4) : Z := let '(_, _, q, v) := d in 255 * q - 255 * v.
(** 255 * (stored - dequantised): the quantisation error of the coordinate *)
Definition d_err (d : dim4) : Z := let '(mn, range, _, v) := d in 255 * (v - mn) - sq_deq255 range (sq_code mn range v).
Definition d_range (d : dim4) : Z := let '(_, range, _, _) := d in range.
Definition sumsq {A} (f : A -> Z) (l : list A) : Z := fold_right (fun d acc => f d * f d + acc) 0 l.
(** 255^2 * asymmetric_distance_squared(query, quantize(stored)) *)
Definition asym255 (l : list dim4) : Z := sumsq d_asym l.
(** 255^2 * squared Euclidean distance(query, stored) *)
Definition exact255 (l : list dim4) : Z := sumsq d_exact l.
Definition err255 (l : list dim4) : Z := sumsq d_err l.
Definition range2 (l : list dim4) : Z := sumsq d_range l.

(** the grid of the correspondence run (range = 255 * 2^e):
    asymmetric_distance_squared = sum (q - (min + c * 2^e))^2,
    distance_squared_u8 = sum (a - b)^2 * (2^e)^2 *)
Fixpoint sq_asym2_grid (mins es q codes : list Z) : Z :=
  match mins, es, q, codes with
  | mn :: mins', e :: es', x :: q', c :: codes' =>
      (x - (mn + c * 2 ^ e)) * (x - (mn + c * 2 ^ e)) + sq_asym2_grid mins' es' q' codes'
  | _, _, _, _ => 0
  end.
Fixpoint sq_dist2_u8_grid (es a b : list Z) : Z :=
  match es, a, b with
  | e :: es', x :: a', y :: b' => (x - y) * (x - y) * (2 ^ e) * (2 ^ e) + sq_dist2_u8_grid es' a' b'
  | _, _, _ => 0
  end.

(** ---- binary quantiser ---- *)
(** bit i of the code = (v[i] >= 0.0); 64 bits per word, bit i%64 of word i/64 *)
Definition sign_bits (v : list Z) : list bool := map (fun x => 0 <=? x) v.
Fixpoint word_of_bits (bs : list bool) : Z :=
  match bs with [] => 0 | b :: t => (if b then 1 else 0) + 2 * word_of_bits t end.
Fixpoint words_fuel (fuel : nat) (bs : list bool) : list Z :=
  match fuel with
  | O => []
  | S f => match bs with [] => [] | _ => word_of_bits (firstn 64 bs) :: words_fuel f (skipn 64 bs) end
  end.
Definition bq_quantize (v : list Z) : list Z := words_fuel (S (length v)) (sign_bits v).
(** hamming distance on the bits: the number of coordinates whose signs differ *)
Fixpoint hamming_bits (a b : list bool) : Z :=
  match a, b with
  | x :: a', y :: b' => (if xorb x y then 1 else 0) + hamming_bits a' b'
  | _, _ => 0
  end.
(** count_ones *)
Fixpoint popcount_pos (p : positive) : Z :=
  match p with xH => 1 | xO q => popcount_pos q | xI q => 1 + popcount_pos q end.
Definition popcount (z : Z) : Z := match z with Zpos p => popcount_pos p | _ => 0 end.
(** hamming_distance(a, b) = sum (x ^ y).count_ones() *)
Fixpoint hamming_words (a b : list Z) : Z :=
  match a, b with
  | x :: a', y :: b' => popcount (Z.lxor x y) + hamming_words a' b'
  | _, _ => 0
  end.

(** ---- product quantiser ---- *)
(** index of the FIRST strict minimum ([if dist < best_dist]); 0 for an empty list *)
Fixpoint argmin_go (ds : list Z) (idx : Z) (best : option Z) (best_k : Z) : Z :=
  match ds with
  | [] => best_k
  | d :: t => match best with
              | Some b => if d <? b then argmin_go t (idx + 1) (Some d) idx else argmin_go t (idx + 1) best best_k
              | None => argmin_go t (idx + 1) (Some d) idx      (* best_dist = INFINITY *)
              end
  end.
Definition argmin_first (ds : list Z) : Z := argmin_go ds 0 None 0.

(** a codebook: per partition m the list of its K centroids (each of length subvector_dim) *)
Definition codebook := list (list (list Z)).
Fixpoint split_sub (fuel : nat) (sd : nat) (v : list Z) : list (list Z) :=
  match fuel with
  | O => []
  | S f => firstn sd v :: split_sub f sd (skipn sd v)
  end.
(** the M sub-vectors of a vector *)
Definition subvectors (cb : codebook) (sd : nat) (v : list Z) : list (list Z) := split_sub (length cb) sd v.
Fixpoint map2 {A B C} (f : A -> B -> C) (a : list A) (b : list B) : list C :=
  match a, b with x :: a', y :: b' => f x y :: map2 f a' b' | _, _ => [] end.
Definition pq_quantize (cb : codebook) (sd : nat) (v : list Z) : list Z :=
  map2 (fun cents sub => argmin_first (map (fun c => eucl2 sub c) cents)) cb (subvectors cb sd v).
(** table[m][k] = squared distance(query sub-vector m, centroid k of partition m) *)
Definition pq_table (cb : codebook) (sd : nat) (q : list Z) : list (list Z) :=
  map2 (fun cents sub => map (fun c => eucl2 sub c) cents) cb (subvectors cb sd q).
Definition nthz {A} (l : list A) (i : Z) (d : A) : A := nth (Z.to_nat i) l d.
Definition pq_dist_table (table : list (list Z)) (codes : list Z) : Z :=
  fold_right Z.add 0 (map2 (fun row c => nthz row c 0) table codes).
Definition pq_reconstruct (cb : codebook) (codes : list Z) : list Z :=
  concat (map2 (fun cents c => nthz cents c []) cb codes).
