(** C18 — proofs about the quantisers (Vec/Quant2.v): the asymmetric distance of the scalar
    quantiser stays within the quantisation error of the exact one (triangle inequality, via
    Cauchy–Schwarz over Z), hamming distance on packed words = number of differing signs, the
    product quantiser picks a nearest centroid and its table distance is the distance to the
    reconstruction. *)
From Coq Require Import ZArith List Bool Lia.
From GV Require Import Vec.Hnsw Vec.Kernel Vec.Quant Vec.Quant2 Vec.ProofsBase Vec.ProofsQuant Vec.ProofsKernel.
Import ListNotations.
Open Scope Z_scope.

(** ---------------------------------------------------------------- Cauchy–Schwarz *)
Section CS.
  Context {A : Type} (f g : A -> Z).
  Definition dotf (l : list A) : Z := fold_right (fun d acc => f d * g d + acc) 0 l.

  Lemma sumsq_nonneg : forall (h : A -> Z) l, 0 <= sumsq h l.
  Proof. induction l as [|d t IH]; cbn [sumsq fold_right]; [lia|]. fold (sumsq h t). nia. Qed.

  Lemma cauchy_schwarz : forall l, dotf l * dotf l <= sumsq f l * sumsq g l.
  Proof.
    induction l as [|d t IH]; cbn [dotf sumsq fold_right]; [lia|].
    fold (dotf t). fold (sumsq f t). fold (sumsq g t).
    pose proof (sumsq_nonneg f t) as HA. pose proof (sumsq_nonneg g t) as HB.
    remember (f d) as x. remember (g d) as y. remember (dotf t) as P.
    remember (sumsq f t) as SA. remember (sumsq g t) as SB.
    (* 2xyP <= x^2 SB + y^2 SA *)
    assert (Hxx : 0 <= x * x) by apply Z.square_nonneg.
    assert (Hyy : 0 <= y * y) by apply Z.square_nonneg.
    assert (HT : 0 <= x * x * SB + y * y * SA).
    { apply Z.add_nonneg_nonneg; apply Z.mul_nonneg_nonneg; assumption. }
    assert (HQ : (2 * x * y * P) * (2 * x * y * P) <= (x * x * SB + y * y * SA) * (x * x * SB + y * y * SA)).
    { assert (H1 : (2 * x * y * P) * (2 * x * y * P) = 4 * (x * x) * (y * y) * (P * P)) by ring.
      assert (H2 : 4 * (x * x) * (y * y) * (P * P) <= 4 * (x * x) * (y * y) * (SA * SB)).
      { apply Z.mul_le_mono_nonneg_l; [|exact IH]. apply Z.mul_nonneg_nonneg; [lia|exact Hyy]. }
      assert (H3 : (x * x * SB + y * y * SA) * (x * x * SB + y * y * SA) - 4 * (x * x) * (y * y) * (SA * SB)
                   = (x * x * SB - y * y * SA) * (x * x * SB - y * y * SA)) by ring.
      assert (H4 : 0 <= (x * x * SB - y * y * SA) * (x * x * SB - y * y * SA)) by apply Z.square_nonneg.
      lia. }
    assert (HL : 2 * x * y * P <= x * x * SB + y * y * SA).
    { destruct (Z_le_gt_dec (2 * x * y * P) (x * x * SB + y * y * SA)) as [H|H]; [exact H|]. exfalso.
      assert (Hsq : (x * x * SB + y * y * SA) * (x * x * SB + y * y * SA) < (2 * x * y * P) * (2 * x * y * P)).
      { apply Z.mul_lt_mono_nonneg; lia. }
      lia. }
    replace ((x * y + P) * (x * y + P)) with (x * x * (y * y) + 2 * x * y * P + P * P) by ring.
    replace ((x * x + SA) * (y * y + SB)) with (x * x * (y * y) + (x * x * SB + y * y * SA) + SA * SB) by ring.
    lia.
  Qed.

  Lemma sumsq_sub : forall l, sumsq (fun d => f d - g d) l = sumsq f l + sumsq g l - 2 * dotf l.
  Proof.
    induction l as [|d t IH]; cbn [dotf sumsq fold_right]; [reflexivity|].
    fold (dotf t). fold (sumsq f t). fold (sumsq g t). fold (sumsq (fun d => f d - g d) t). rewrite IH. ring.
  Qed.

  (** | sqrt(sum f^2) - sqrt(sum g^2) | <= sqrt(sum (f-g)^2), without square roots *)
  Lemma triangle_sq : forall l,
    let F := sumsq f l in let G := sumsq g l in let E := sumsq (fun d => f d - g d) l in
    (F + G - E) * (F + G - E) <= 4 * F * G.
  Proof.
    intros l F G E. unfold E. rewrite sumsq_sub. fold F. fold G.
    replace (F + G - (F + G - 2 * dotf l)) with (2 * dotf l) by ring.
    pose proof (cauchy_schwarz l) as H. fold F in H. fold G in H. nia.
  Qed.
End CS.

(** ---------------------------------------------------------------- scalar quantiser *)
Lemma d_asym_exact_err : forall d, d_asym d - d_exact d = d_err d.
Proof. intros [[[mn range] q] v]. unfold d_asym, d_exact, d_err. ring. Qed.

Lemma err255_eq : forall l, err255 l = sumsq (fun d => d_asym d - d_exact d) l.
Proof.
  induction l as [|d t IH]; [reflexivity|]. unfold err255 in *. cbn [sumsq fold_right].
  fold (sumsq d_err t). fold (sumsq (fun d => d_asym d - d_exact d) t). rewrite IH, d_asym_exact_err. reflexivity.
Qed.

(** the asymmetric distance of the scalar quantiser: for stored vectors inside the trained range,
      | asymmetric_distance(q, quantize(v)) - euclidean(q, v) |  <=  sqrt(sum_i (range_i / 255)^2)
    stated over Z (everything scaled by 255, squares instead of roots):
      err <= sum range_i^2   and   (asym + exact - err)^2 <= 4 * asym * exact *)
Lemma asymmetric_bound_l : forall l : list dim4,
  (forall mn range q v, In (mn, range, q, v) l -> 0 < range /\ mn <= v <= mn + range) ->
  0 <= err255 l <= range2 l /\
  (asym255 l + exact255 l - err255 l) * (asym255 l + exact255 l - err255 l) <= 4 * asym255 l * exact255 l.
Proof.
  intros l Hl. split.
  - split; [apply sumsq_nonneg|].
    induction l as [|d t IH]; [cbn; lia|].
    unfold err255, range2 in *. cbn [sumsq fold_right]. fold (sumsq d_err t). fold (sumsq d_range t).
    assert (Ht : sumsq d_err t <= sumsq d_range t).
    { apply IH. intros mn range q v Hi. apply (Hl mn range q v). right. exact Hi. }
    destruct d as [[[mn range] q] v].
    destruct (Hl mn range q v (or_introl eq_refl)) as [Hr Hv].
    destruct (scalar_quant_error_l mn range v Hr Hv) as [_ He].
    set (T1 := sumsq d_err t) in *. set (T2 := sumsq d_range t) in *.
    cbv beta iota delta [d_err d_range]. cbn zeta in He.
    remember (255 * (v - mn) - sq_deq255 range (sq_code mn range v)) as e eqn:Ee.
    assert (Hee : e * e <= range * range) by (apply Z.mul_le_mono_nonneg; lia).
    lia.
  - rewrite err255_eq. unfold asym255, exact255. apply triangle_sq.
Qed.

(** ---------------------------------------------------------------- binary quantiser *)
Lemma word_nonneg : forall bs, 0 <= word_of_bits bs.
Proof. induction bs as [|b t IH]; cbn [word_of_bits]; [lia|]. destruct b; lia. Qed.

Lemma popcount_cons : forall (c : bool) w, 0 <= w -> popcount (Z.b2z c + 2 * w) = Z.b2z c + popcount w.
Proof.
  intros c w Hw. destruct w as [|p|p]; [destruct c; reflexivity| |lia].
  destruct c; cbn [Z.b2z]; reflexivity.
Qed.

Lemma lxor_cons : forall x y a b, Z.lxor (Z.b2z x + 2 * a) (Z.b2z y + 2 * b) = Z.b2z (xorb x y) + 2 * Z.lxor a b.
Proof.
  intros x y a b. apply Z.bits_inj'. intros n Hn.
  rewrite Z.lxor_spec.
  destruct (Z.eq_dec n 0) as [->|Hne].
  - rewrite !(Z.add_comm (Z.b2z _)). rewrite !Z.testbit_0_r. reflexivity.
  - replace n with (Z.succ (n - 1)) by lia.
    rewrite !(Z.add_comm (Z.b2z _)). rewrite !Z.testbit_succ_r by lia. rewrite Z.lxor_spec. reflexivity.
Qed.

Lemma b2z_if : forall b : bool, (if b then 1 else 0) = Z.b2z b.
Proof. destruct b; reflexivity. Qed.

Lemma popcount_words : forall a b, length a = length b ->
  popcount (Z.lxor (word_of_bits a) (word_of_bits b)) = hamming_bits a b.
Proof.
  induction a as [|x a IH]; intros [|y b] Hl; cbn [length] in Hl; try discriminate; [reflexivity|].
  cbn [word_of_bits hamming_bits]. rewrite !b2z_if. rewrite lxor_cons.
  rewrite popcount_cons by (apply Z.lxor_nonneg; split; intros; apply word_nonneg).
  rewrite IH by lia. reflexivity.
Qed.

Lemma hamming_bits_app : forall a1 b1 a2 b2, length a1 = length b1 ->
  hamming_bits (a1 ++ a2) (b1 ++ b2) = hamming_bits a1 b1 + hamming_bits a2 b2.
Proof.
  induction a1 as [|x a1 IH]; intros [|y b1] a2 b2 Hl; cbn [length] in Hl; try discriminate; [reflexivity|].
  cbn [app hamming_bits]. rewrite IH by lia. ring.
Qed.

Lemma hamming_words_fuel : forall fuel a b, length a = length b -> (length a < fuel)%nat ->
  hamming_words (words_fuel fuel a) (words_fuel fuel b) = hamming_bits a b.
Proof.
  induction fuel as [|f IH]; intros a b Hl Hf; [lia|].
  cbn [words_fuel]. destruct a as [|x a'], b as [|y b']; cbn [length] in Hl; try discriminate; [reflexivity|].
  remember (x :: a') as a. remember (y :: b') as b.
  assert (Hl' : length a = length b) by (subst a b; cbn [length]; lia).
  assert (Hpos : (1 <= length a)%nat) by (subst a; cbn [length]; lia).
  cbn [hamming_words].
  rewrite popcount_words by (rewrite !firstn_length; lia).
  rewrite IH; [| rewrite !skipn_length; lia | rewrite skipn_length; cbn [length] in Hf; lia].
  rewrite <- hamming_bits_app by (rewrite !firstn_length; lia).
  rewrite !firstn_skipn. reflexivity.
Qed.

(** hamming_distance(quantize(a), quantize(b)) = the number of coordinates whose signs differ *)
Lemma hamming_is_sign_disagreements_l : forall a b : list Z, length a = length b ->
  hamming_words (bq_quantize a) (bq_quantize b) = hamming_bits (sign_bits a) (sign_bits b).
Proof.
  intros a b Hl. unfold bq_quantize. rewrite <- Hl.
  apply hamming_words_fuel; unfold sign_bits; rewrite !map_length; lia.
Qed.

(** ---------------------------------------------------------------- product quantiser *)
Lemma argmin_go_spec : forall ds pre idx best best_k,
  idx = zlen pre ->
  match best with
  | None => pre = []
  | Some b => 0 <= best_k < zlen pre /\ nthz pre best_k 0 = b /\
              (forall j, 0 <= j < zlen pre -> b <= nthz pre j 0) /\
              (forall j, 0 <= j < best_k -> b < nthz pre j 0)
  end ->
  pre ++ ds <> [] ->
  let i := argmin_go ds idx best best_k in
  0 <= i < zlen (pre ++ ds) /\
  (forall j, 0 <= j < zlen (pre ++ ds) -> nthz (pre ++ ds) i 0 <= nthz (pre ++ ds) j 0) /\
  (forall j, 0 <= j < i -> nthz (pre ++ ds) i 0 < nthz (pre ++ ds) j 0).
Proof.
  assert (Hnth_app_l : forall (l r : list Z) j, 0 <= j < zlen l -> nthz (l ++ r) j 0 = nthz l j 0).
  { intros l r j Hj. unfold nthz, zlen in *. apply app_nth1. lia. }
  assert (Hnth_last : forall (l : list Z) d, nthz (l ++ [d]) (zlen l) 0 = d).
  { intros l d. unfold nthz, zlen. rewrite Nat2Z.id. rewrite app_nth2 by lia. rewrite Nat.sub_diag. reflexivity. }
  assert (Hlen_snoc : forall (l : list Z) d, zlen (l ++ [d]) = zlen l + 1).
  { intros l d. unfold zlen. rewrite app_length. cbn [length]. lia. }
  induction ds as [|d t IH]; intros pre idx best best_k Hidx Hinv Hne i.
  - unfold i. cbn [argmin_go]. rewrite app_nil_r in *.
    destruct best as [b|]; [|contradiction].
    destruct Hinv as [Hk [Hb [Hmin Hfirst]]]. rewrite Hb. split; [exact Hk|]. split; [exact Hmin|exact Hfirst].
  - unfold i. cbn [argmin_go].
    replace (pre ++ d :: t) with ((pre ++ [d]) ++ t) in * by (rewrite <- app_assoc; reflexivity).
    assert (Hidx' : idx + 1 = zlen (pre ++ [d])) by (rewrite Hlen_snoc; lia).
    destruct best as [b|].
    + destruct Hinv as [Hk [Hb [Hmin Hfirst]]].
      destruct (Z.ltb_spec d b) as [Hlt|Hge].
      * apply IH; [exact Hidx'| |exact Hne].
        rewrite Hlen_snoc. subst idx. split; [pose proof (zlen_nonneg _ pre); lia|].
        split; [apply Hnth_last|]. split.
        -- intros j Hj. destruct (Z.eq_dec j (zlen pre)) as [->|Hn]; [rewrite Hnth_last; lia|].
           rewrite Hnth_app_l by lia. specialize (Hmin j). lia.
        -- intros j Hj. rewrite Hnth_app_l by lia. specialize (Hmin j). lia.
      * apply IH; [exact Hidx'| |exact Hne].
        rewrite Hlen_snoc. split; [lia|]. split; [rewrite Hnth_app_l by lia; exact Hb|]. split.
        -- intros j Hj. destruct (Z.eq_dec j (zlen pre)) as [->|Hn]; [rewrite Hnth_last; lia|].
           rewrite Hnth_app_l by lia. apply Hmin. lia.
        -- intros j Hj. rewrite Hnth_app_l by lia. apply Hfirst. exact Hj.
    + subst pre. cbn [app] in *. cbn [zlen length] in Hidx. subst idx.
      apply (IH [d] (0 + 1) (Some d) 0); [reflexivity| |exact Hne].
      cbn. split; [lia|]. split; [reflexivity|]. split; [intros j Hj; replace j with 0 by lia; cbn; lia|intros j Hj; lia].
Qed.

Lemma eucl2_nil_r : forall a, eucl2 a [] = 0.
Proof. intro a. unfold eucl2, plain. destruct a; reflexivity. Qed.

Lemma nthz_map_eucl2 : forall (sub : list Z) (cents : list (list Z)) i,
  nthz (map (fun x => eucl2 sub x) cents) i 0 = eucl2 sub (nthz cents i []).
Proof.
  intros sub cents i. unfold nthz. rewrite <- (eucl2_nil_r sub) at 1.
  exact (map_nth (fun x => eucl2 sub x) cents [] (Z.to_nat i)).
Qed.

(** ProductQuantizer::quantize picks, per sub-vector, a nearest centroid — the first one among equals *)
Lemma pq_code_nearest_l : forall (cents : list (list Z)) (sub : list Z), cents <> [] ->
  let c := argmin_first (map (fun x => eucl2 sub x) cents) in
  0 <= c < zlen cents /\
  (forall k, 0 <= k < zlen cents -> eucl2 sub (nthz cents c []) <= eucl2 sub (nthz cents k [])) /\
  (forall k, 0 <= k < c -> eucl2 sub (nthz cents c []) < eucl2 sub (nthz cents k [])).
Proof.
  intros cents sub Hne c.
  assert (Hne' : [] ++ map (fun x => eucl2 sub x) cents <> []).
  { cbn [app]. destruct cents; [contradiction|discriminate]. }
  pose proof (argmin_go_spec (map (fun x => eucl2 sub x) cents) [] 0 None 0 eq_refl eq_refl Hne') as H.
  cbn [app] in H. fold (argmin_first (map (fun x => eucl2 sub x) cents)) in H. fold c in H.
  assert (Hlen : zlen (map (fun x => eucl2 sub x) cents) = zlen cents) by (unfold zlen; rewrite map_length; reflexivity).
  rewrite Hlen in H. destruct H as [H1 [H2 H3]].
  split; [exact H1|]. split.
  - intros k Hk. specialize (H2 k Hk). rewrite !nthz_map_eucl2 in H2. exact H2.
  - intros k Hk. specialize (H3 k Hk). rewrite !nthz_map_eucl2 in H3. exact H3.
Qed.

Lemma eucl2_app : forall a1 b1 a2 b2, length a1 = length b1 ->
  eucl2 (a1 ++ a2) (b1 ++ b2) = eucl2 a1 b1 + eucl2 a2 b2.
Proof.
  induction a1 as [|x a1 IH]; intros [|y b1] a2 b2 Hl; cbn [length] in Hl; try discriminate.
  - cbn [app]. change (eucl2 [] []) with 0. lia.
  - cbn [app]. rewrite !eucl2_cons. rewrite IH by lia. ring.
Qed.

(** the table distance (ADC) is the squared distance to the reconstructed vector *)
Lemma pq_adc_is_reconstruct_l : forall (cb : codebook) sd q codes,
  Forall2 (fun cents c => length (nthz cents c []) = sd) cb codes -> length q = (length cb * sd)%nat ->
  pq_dist_table (pq_table cb sd q) codes = eucl2 q (pq_reconstruct cb codes).
Proof.
  intros cb sd q codes HF. revert q. induction HF as [|cents c cb' codes' Hc HF IH]; intros q Hq.
  - cbn [length Nat.mul] in Hq. destruct q; [reflexivity|discriminate].
  - unfold pq_dist_table, pq_table, pq_reconstruct, subvectors in *.
    cbn [length split_sub map2 fold_right concat].
    rewrite nthz_map_eucl2.
    rewrite <- (firstn_skipn sd q) at 3.
    assert (Hlf : length (firstn sd q) = sd) by (rewrite firstn_length; cbn [length] in Hq; nia).
    rewrite eucl2_app by (rewrite Hlf, Hc; reflexivity).
    f_equal. apply IH. rewrite skipn_length. cbn [length] in Hq. nia.
Qed.
