(** C18 — hnsw_remove purges every link; "no dangling link, live entry point" is an invariant of
    every insert / re-insert / hnsw_remove history (whatever the heaps, the order and the metric do). *)
From Coq Require Import ZArith List Bool Lia Permutation Sorted.
From GV Require Import Vec.Hnsw Vec.ProofsBase Vec.ProofsSearch.
Import ListNotations.
Open Scope Z_scope.

Section MapFacts.
  Variable V : Type.
  Notation nodemap := (nodemap V).
  Notation node := (node V).

  Definition closed_map (m : nodemap) : Prop := forall x, mentioned m x -> In x (keys m).

  Lemma keys_upd : forall (m : nodemap) id f, keys (upd m id f) = keys m.
  Proof.
    intros. unfold keys, upd. rewrite map_map. apply map_ext. intros [k n]. cbn [fst].
    destruct (k =? id); reflexivity.
  Qed.
  Lemma In_upd : forall (m : nodemap) id f k n', In (k, n') (upd m id f) ->
    exists n, In (k, n) m /\ (n' = n \/ (k = id /\ n' = f n)).
  Proof.
    intros m id f k n' H. unfold upd in H. apply in_map_iff in H. destruct H as [[k0 n0] [He Hi]].
    cbn [fst snd] in He. destruct (k0 =? id) eqn:E.
    - apply Z.eqb_eq in E. inversion He; subst. exists n0. split; [exact Hi|right; split; reflexivity].
    - inversion He; subst. exists n'. split; [exact Hi|left; reflexivity].
  Qed.
  Lemma keys_put : forall (m : nodemap) id n x, In x (keys (put m id n)) <-> x = id \/ In x (keys m).
  Proof.
    intros m id n x. unfold put. destruct (has m id) eqn:E.
    - apply has_keys in E.
      assert (Hk : keys (map (fun kv : Z * node => if fst kv =? id then (fst kv, n) else kv) m) = keys m).
      { unfold keys. rewrite map_map. apply map_ext. intros [k a]. cbn [fst]. destruct (k =? id); reflexivity. }
      rewrite Hk. split; [auto|]. intros [ -> |H]; assumption.
    - unfold keys. rewrite map_app, in_app_iff. cbn [map fst In]. split.
      + intros [H|[H|[]]]; [right; exact H|left; symmetry; exact H].
      + intros [H|H]; [right; left; symmetry; exact H|left; exact H].
  Qed.
  Lemma In_put : forall (m : nodemap) id n k n', In (k, n') (put m id n) ->
    In (k, n') m \/ (k = id /\ n' = n).
  Proof.
    intros m id n k n' H. unfold put in H. destruct (has m id).
    - apply in_map_iff in H. destruct H as [[k0 n0] [He Hi]]. cbn [fst] in He.
      destruct (k0 =? id) eqn:E.
      + apply Z.eqb_eq in E. inversion He; subst. right. split; reflexivity.
      + inversion He; subst. left. exact Hi.
    - apply in_app_or in H. destruct H as [H|[H|[]]]; [left; exact H|].
      inversion H; subst. right. split; reflexivity.
  Qed.

  Lemma set_nth_In : forall A (l : list A) i x y, In y (set_nth l i x) -> In y l \/ y = x.
  Proof.
    induction l as [|a t IH]; intros i x y H; cbn [set_nth] in H; [destruct H|].
    destruct i as [|j].
    - destruct H as [H|H]; [right; symmetry; exact H|left; right; exact H].
    - destruct H as [H|H]; [left; left; exact H|].
      destruct (IH _ _ _ H) as [H1|H1]; [left; right; exact H1|right; exact H1].
  Qed.

  (** replacing one layer of one node by a list of live ids keeps the map closed *)
  Lemma closed_upd_layer : forall (m : nodemap) id lc (g : node -> list Z),
    closed_map m ->
    (forall n, In (id, n) m -> forall x, In x (g n) -> In x (keys m)) ->
    closed_map (upd m id (fun n => (fst n, set_nth (snd n) lc (g n)))).
  Proof.
    intros m id lc g Hc Hg x [k [n' [l [Hi [Hl Hx]]]]]. rewrite keys_upd.
    destruct (In_upd _ _ _ _ _ Hi) as [n [Hn [ -> | [ -> -> ]]]].
    - apply Hc. exists k, n, l. auto.
    - cbn [snd] in Hl. destruct (set_nth_In _ _ _ _ _ Hl) as [H| -> ].
      + apply Hc. exists id, n, l. auto.
      + eapply Hg; eassumption.
  Qed.

  Lemma closed_put_fresh : forall (m : nodemap) id (v : V) k, closed_map m ->
    closed_map (put m id (v, repeat [] k)).
  Proof.
    intros m id v k Hc x [kk [n' [l [Hi [Hl Hx]]]]]. apply keys_put.
    destruct (In_put _ _ _ _ _ Hi) as [H| [ -> -> ]].
    - right. apply Hc. exists kk, n', l. auto.
    - cbn [snd] in Hl. apply repeat_spec in Hl. subst l. destruct Hx.
  Qed.

  Lemma nth_mentioned : forall (m : nodemap) k n lc x, In (k, n) m -> (lc < length (snd n))%nat ->
    In x (nth lc (snd n) []) -> mentioned m x.
  Proof.
    intros m k n lc x Hi Hl Hx. exists k, n, (nth lc (snd n) []). split; [exact Hi|]. split; [|exact Hx].
    apply nth_In. exact Hl.
  Qed.

  (** ---- hnsw_remove ---- *)
  Lemma keys_del_purge : forall (m : nodemap) id x,
    In x (keys (map (fun kv : Z * node => (fst kv, purge id (snd kv))) (del m id))) <-> In x (keys m) /\ x <> id.
  Proof.
    intros m id x. unfold keys, del. rewrite map_map. cbn [fst].
    induction m as [|[k n] t IH]; cbn [filter map In fst].
    - tauto.
    - destruct (k =? id) eqn:E; cbn [negb].
      + apply Z.eqb_eq in E. rewrite IH. split; [tauto|]. intros [[H|H] Hx]; [congruence|tauto].
      + apply Z.eqb_neq in E. cbn [map In fst]. rewrite IH. split.
        * intros [H|[H Hx]]; [subst; auto|tauto].
        * intros [[H|H] Hx]; [left; exact H|right; tauto].
  Qed.
  Lemma mentioned_del_purge : forall (m : nodemap) id x,
    mentioned (map (fun kv : Z * node => (fst kv, purge id (snd kv))) (del m id)) x -> mentioned m x /\ x <> id.
  Proof.
    intros m id x [k [n' [l [Hi [Hl Hx]]]]].
    apply in_map_iff in Hi. destruct Hi as [[k0 n0] [He Hi]]. cbn [fst snd] in He. inversion He; subst.
    unfold del in Hi. apply filter_In in Hi. destruct Hi as [Hi _].
    unfold purge in Hl. cbn [snd] in Hl. apply in_map_iff in Hl. destruct Hl as [l0 [<- Hl0]].
    apply filter_In in Hx. destruct Hx as [Hx Hne]. split.
    - exists k, n0, l0. auto.
    - apply negb_true_iff, Z.eqb_neq in Hne. exact Hne.
  Qed.
  Lemma norm_pick_live : forall (m : nodemap) pick p, norm_pick m pick = Some p -> In p (keys m).
  Proof.
    intros m pick p H. unfold norm_pick in H.
    assert (Hh : forall p, hd_error (keys m) = Some p -> In p (keys m)).
    { intros p0 H0. destruct (keys m); [discriminate|]. inversion H0; subst. left. reflexivity. }
    destruct pick as [p0|]; [|apply Hh; exact H].
    destruct (has m p0) eqn:E; [|apply Hh; exact H].
    inversion H; subst. apply has_keys. exact E.
  Qed.

  Lemma remove_purges_raw : forall (s s' : state V) id pick, hnsw_remove s id pick = (s', true) ->
    has (nodes s') id = false /\ ~ mentioned (nodes s') id /\ entry s' <> Some id.
  Proof.
    intros s s' id pick H. unfold hnsw_remove in H. destruct (has (nodes s) id); [|inversion H].
    inversion H; subst; clear H. cbn [nodes entry]. split; [|split].
    - destruct (has _ id) eqn:E; [|reflexivity]. apply has_keys, keys_del_purge in E. tauto.
    - intro Hm. apply mentioned_del_purge in Hm. tauto.
    - destruct (entry s) as [e|]; [|discriminate]. destruct (e =? id) eqn:E.
      + intro Hp. apply norm_pick_live, keys_del_purge in Hp. tauto.
      + apply Z.eqb_neq in E. congruence.
  Qed.

  Lemma remove_closed_raw : forall (s : state V) id pick, links_closed s -> links_closed (fst (hnsw_remove s id pick)).
  Proof.
    intros s id pick [Hc He]. unfold hnsw_remove. destruct (has (nodes s) id) eqn:Eh; [|split; assumption].
    cbn [fst nodes entry]. split.
    - intros x Hx. apply mentioned_del_purge in Hx. destruct Hx as [Hx Hne].
      apply has_keys, keys_del_purge. split; [apply has_keys, Hc; exact Hx|exact Hne].
    - intros e Hee. destruct (entry s) as [e0|]; [|discriminate]. destruct (e0 =? id) eqn:E.
      + apply has_keys. eapply norm_pick_live. exact Hee.
      + inversion Hee; subst. apply Z.eqb_neq in E. apply has_keys, keys_del_purge.
        split; [apply has_keys, He; reflexivity|exact E].
  Qed.
End MapFacts.

Section Insert.
  Variable V D : Type.
  Variable dist : V -> V -> D.
  Variable top : D.
  Variable leb ltb : D -> D -> bool.
  Variable scale : D -> D.
  Notation elt := (Z * D)%type.
  Variable cpush : elt -> list elt -> list elt.
  Variable cpop : list elt -> option (elt * list elt).
  Variable rpush : elt -> list elt -> list elt.
  Variable rpop : list elt -> option (elt * list elt).
  Variable rpeek : list elt -> option elt.
  Notation nodemap := (nodemap V).
  Notation closed_map := (closed_map V).

  Notation select_loop := (select_loop V D dist ltb scale).
  Notation select_neighbors := (select_neighbors V D dist ltb scale).
  Notation add_back := (add_back V).
  Notation prune_entry := (prune_entry V D dist top).
  Notation apply_prune := (apply_prune V D leb).
  Notation ins_layer := (ins_layer V D dist top leb ltb scale cpush cpop rpush rpop rpeek).
  Notation ins_layers := (ins_layers V D dist top leb ltb scale cpush cpop rpush rpop rpeek).
  Notation insert := (insert V D dist top leb ltb scale cpush cpop rpush rpop rpeek).
  Notation step := (step V D dist top leb ltb scale cpush cpop rpush rpop rpeek).
  Notation run := (run V D dist top leb ltb scale cpush cpop rpush rpop rpeek).

  Lemma select_loop_live : forall (m : nodemap) cands mm sel,
    (forall p, In p sel -> In (fst p) (keys m)) ->
    forall p, In p (select_loop m cands mm sel) -> In (fst p) (keys m).
  Proof.
    intros m. induction cands as [|c t IH]; intros mm sel Hs p Hp; cbn [Hnsw.select_loop] in Hp; [auto|].
    destruct (mm <=? zlen sel); [auto|].
    destruct (lookup m (fst c)) as [nd|] eqn:E; [|eapply IH; eassumption].
    destruct (existsb _ sel); [eapply IH; eassumption|].
    eapply IH; [|exact Hp]. intros p0 H0. apply in_app_or in H0. destruct H0 as [H0|[<-|[]]]; [auto|].
    cbn [fst]. apply has_keys. unfold has. rewrite E. reflexivity.
  Qed.
  Lemma select_live : forall (m : nodemap) cands mm x, In x (select_neighbors m cands mm) -> In x (keys m).
  Proof.
    intros m cands mm x H. unfold Hnsw.select_neighbors in H. apply in_map_iff in H.
    destruct H as [p [<- Hp]]. eapply select_loop_live; [|exact Hp]. intros ? [].
  Qed.

  Lemma add_back_closed : forall id lc mm (m : nodemap) need nid,
    closed_map m -> In id (keys m) ->
    closed_map (fst (add_back id lc mm (m, need) nid)) /\ keys (fst (add_back id lc mm (m, need) nid)) = keys m.
  Proof.
    intros id lc mm m need nid Hc Hid. unfold Hnsw.add_back. cbn [fst snd].
    destruct (lookup m nid) as [nd|] eqn:E; [|split; [exact Hc|reflexivity]].
    destruct (Nat.ltb lc (length (snd nd))) eqn:El; [|split; [exact Hc|reflexivity]].
    cbn [fst]. split; [|apply keys_upd].
    unfold set_layer.
    apply (closed_upd_layer V m nid lc (fun n => nth lc (snd n) [] ++ [id])); [exact Hc|].
    intros n Hn x Hx. apply in_app_or in Hx. destruct Hx as [Hx|[<-|[]]]; [|exact Hid].
    apply Hc. exists nid, n, (nth lc (snd n) []). split; [exact Hn|]. split; [|exact Hx].
    destruct (nth_in_or_default lc (snd n) []) as [Hi|Hd]; [exact Hi|]. rewrite Hd in Hx. destruct Hx.
  Qed.
  Lemma fold_add_back_closed : forall id lc mm sel (m : nodemap) need,
    closed_map m -> In id (keys m) ->
    closed_map (fst (fold_left (add_back id lc mm) sel (m, need))) /\
    keys (fst (fold_left (add_back id lc mm) sel (m, need))) = keys m.
  Proof.
    intros id lc mm. induction sel as [|x t IH]; intros m need Hc Hid; cbn [fold_left].
    - split; [exact Hc|reflexivity].
    - destruct (add_back_closed id lc mm m need x Hc Hid) as [H1 H2].
      destruct (add_back id lc mm (m, need) x) as [m' need'] eqn:E. cbn [fst] in H1, H2.
      destruct (IH m' need' H1) as [H3 H4]; [rewrite H2; exact Hid|].
      split; [exact H3|]. rewrite H4. exact H2.
  Qed.

  Lemma prune_entry_live : forall (m : nodemap) lc nid e, closed_map m ->
    In e (prune_entry m lc nid) -> forall x, In x (map fst (snd e)) -> In x (keys m).
  Proof.
    intros m lc nid e Hc He x Hx. unfold Hnsw.prune_entry in He.
    destruct (lookup m nid) as [nd|] eqn:E; [|destruct He].
    destruct (Nat.ltb lc (length (snd nd))) eqn:El; [|destruct He].
    destruct He as [<-|[]]. cbn [snd] in Hx. rewrite map_map in Hx. cbn [fst] in Hx. rewrite map_id in Hx.
    apply Hc. eapply nth_mentioned; [apply find_In; exact E| |exact Hx].
    apply Nat.ltb_lt. exact El.
  Qed.

  Lemma prune_list_sub : forall l ds mm x, In x (prune_list D leb l ds mm) -> In x l \/ In x (map fst ds).
  Proof.
    intros l ds mm x H. unfold prune_list in H. destruct (zlen l <=? mm); [left; exact H|].
    right. apply in_map_iff in H. destruct H as [e [<- He]]. apply takez_In in He.
    apply in_map. eapply Permutation_in; [apply sort_by_perm|exact He].
  Qed.

  Lemma apply_prune_closed : forall lc mm (m : nodemap) e, closed_map m ->
    (forall x, In x (map fst (snd e)) -> In x (keys m)) ->
    closed_map (apply_prune lc mm m e) /\ keys (apply_prune lc mm m e) = keys m.
  Proof.
    intros lc mm m e Hc He. unfold Hnsw.apply_prune.
    destruct (lookup m (fst e)) as [nd|] eqn:E; [|split; [exact Hc|reflexivity]].
    destruct (Nat.ltb lc (length (snd nd))); [|split; [exact Hc|reflexivity]].
    split; [|apply keys_upd]. unfold set_layer.
    apply (closed_upd_layer V m (fst e) lc (fun n => prune_list D leb (nth lc (snd n) []) (snd e) mm)); [exact Hc|].
    intros n Hn x Hx. destruct (prune_list_sub _ _ _ _ Hx) as [H|H]; [|apply He; exact H].
    apply Hc. exists (fst e), n, (nth lc (snd n) []). split; [exact Hn|]. split; [|exact H].
    destruct (nth_in_or_default lc (snd n) []) as [Hi|Hd]; [exact Hi|]. rewrite Hd in H. destruct H.
  Qed.
  Lemma fold_apply_prune_closed : forall lc mm pdata (m : nodemap), closed_map m ->
    (forall e, In e pdata -> forall x, In x (map fst (snd e)) -> In x (keys m)) ->
    closed_map (fold_left (apply_prune lc mm) pdata m) /\ keys (fold_left (apply_prune lc mm) pdata m) = keys m.
  Proof.
    intros lc mm. induction pdata as [|e t IH]; intros m Hc Hp; cbn [fold_left].
    - split; [exact Hc|reflexivity].
    - destruct (apply_prune_closed lc mm m e Hc (Hp e (or_introl eq_refl))) as [H1 H2].
      destruct (IH _ H1) as [H3 H4].
      + intros e0 He0 x Hx. rewrite H2. eapply Hp; [right; exact He0|exact Hx].
      + split; [exact H3|]. rewrite H4. exact H2.
  Qed.

  Lemma ins_layer_closed : forall c id v (m : nodemap) cur_ep lc, closed_map m -> In id (keys m) ->
    closed_map (fst (ins_layer c id v m cur_ep lc)) /\ keys (fst (ins_layer c id v m cur_ep lc)) = keys m.
  Proof.
    intros c id v m cur_ep lc Hc Hid. unfold Hnsw.ins_layer.
    set (mm := match lc with O => cfg_m0 c | S _ => cfg_m c end).
    set (sel := select_neighbors m _ mm).
    set (m1 := upd m id (fun n => set_layer V n lc sel)).
    assert (H1 : closed_map m1).
    { unfold m1, set_layer. apply (closed_upd_layer V m id lc (fun _ => sel)); [exact Hc|].
      intros n Hn x Hx. eapply select_live. exact Hx. }
    assert (K1 : keys m1 = keys m) by apply keys_upd.
    destruct (fold_add_back_closed id lc mm sel m1 [] H1) as [H2 K2]; [rewrite K1; exact Hid|].
    destruct (fold_left (add_back id lc mm) sel (m1, [])) as [m2 need] eqn:E2. cbn [fst] in H2, K2.
    set (pdata := flat_map (prune_entry m2 lc) need).
    destruct (fold_apply_prune_closed lc mm pdata m2 H2) as [H3 K3].
    { intros e He x Hx. unfold pdata in He. apply in_flat_map in He. destruct He as [nid [_ He]].
      eapply prune_entry_live; eassumption. }
    cbn [fst]. split; [exact H3|]. rewrite K3, K2. exact K1.
  Qed.

  Lemma ins_layers_closed : forall c id v cnt (m : nodemap) cur_ep, closed_map m -> In id (keys m) ->
    closed_map (ins_layers c id v cnt m cur_ep) /\ keys (ins_layers c id v cnt m cur_ep) = keys m.
  Proof.
    intros c id v. induction cnt as [|lc IH]; intros m cur_ep Hc Hid; cbn [Hnsw.ins_layers].
    - split; [exact Hc|reflexivity].
    - destruct (ins_layer_closed c id v m cur_ep lc Hc Hid) as [H1 K1].
      destruct (ins_layer c id v m cur_ep lc) as [m' ep']. cbn [fst] in H1, K1.
      destruct (IH m' ep' H1) as [H2 K2]; [rewrite K1; exact Hid|].
      split; [exact H2|]. rewrite K2. exact K1.
  Qed.

  Lemma closed_map_links : forall (s : state V),
    links_closed s <-> closed_map (nodes s) /\ (forall e, entry s = Some e -> In e (keys (nodes s))).
  Proof.
    intro s. unfold links_closed, Vec.ProofsMut.closed_map. split; intros [H1 H2]; split; intros.
    - apply has_keys. auto.
    - apply has_keys. auto.
    - apply has_keys. auto.
    - apply has_keys. auto.
  Qed.

  Lemma insert_closed_raw : forall c (s : state V) id v level, links_closed s -> links_closed (insert c s id v level).
  Proof.
    intros c s id v level H. apply closed_map_links in H. destruct H as [Hc He]. apply closed_map_links.
    unfold Hnsw.insert. set (nd := (v, repeat [] (S level))).
    assert (H0 : closed_map (put (nodes s) id nd)) by (apply closed_put_fresh; exact Hc).
    assert (Hid : In id (keys (put (nodes s) id nd))) by (apply keys_put; left; reflexivity).
    destruct (entry s) as [ep|] eqn:Ee.
    - set (cur := descend V D dist top ltb (put (nodes s) id nd) v (max_level s) level ep).
      destruct (ins_layers_closed c id v (S (Nat.min level (max_level s))) _ cur H0 Hid) as [H1 K1].
      destruct (Nat.ltb (max_level s) level); cbn [nodes entry]; (split; [exact H1|]); intros e Hee;
        inversion Hee; subst; rewrite K1.
      + exact Hid.
      + apply keys_put. right. apply He. reflexivity.
    - cbn [nodes entry]. split; [exact H0|]. intros e Hee. inversion Hee; subst. exact Hid.
  Qed.

  Lemma empty_closed : links_closed (@empty V).
  Proof. split; [intros x [k [n [l [[] _]]]]|intros e H; discriminate]. Qed.

  Lemma step_closed_raw : forall c (s : state V) o, links_closed s -> links_closed (step c s o).
  Proof.
    intros c s [id v level|id pick] H; cbn [Hnsw.step].
    - apply insert_closed_raw. exact H.
    - apply remove_closed_raw. exact H.
  Qed.
  Lemma run_closed_raw : forall c ops, links_closed (run c ops).
  Proof.
    intros c ops. unfold Hnsw.run.
    assert (G : forall s, links_closed s -> links_closed (fold_left (step c) ops s)).
    { induction ops as [|o t IH]; intros s Hs; cbn [fold_left]; [exact Hs|]. apply IH, step_closed_raw, Hs. }
    apply G, empty_closed.
  Qed.
End Insert.
