(** C18 — comparison of implementation observations with the model (run by the check).
    Vectors are exact integer vectors (the harness feeds the implementation the same numbers as
    f32, scaled by a power of two where stated); an implementation distance arrives as its
    binary32 BIT PATTERN and is compared with the model's exact integer through Vec/F32.v. *)
From Coq Require Import ZArith List Bool.
From GV Require Export Vec.Hnsw Vec.Brute Vec.Kernel Vec.F32 Vec.Quant Vec.Inst Vec.Wrap Vec.SmallSort Vec.Quant2.
Import ListNotations.
Open Scope Z_scope.

Fixpoint list_eqb {A} (e : A -> A -> bool) (a b : list A) : bool :=
  match a, b with
  | [], [] => true
  | x :: a', y :: b' => e x y && list_eqb e a' b'
  | _, _ => false
  end.
Definition opt_eqb {A} (e : A -> A -> bool) (a b : option A) : bool :=
  match a, b with Some x, Some y => e x y | None, None => true | _, _ => false end.

(** is the implementation's f32 [bits] the value the code computes from the exact distance [d]?
    (Euclidean: the code returns sqrt of the squared distance; [j] = the inputs were scaled by 2^-j) *)
Definition obs_ok (mt : metric) (j : Z) (bits d : Z) : bool :=
  match mt with
  | Euclidean => if d =? 0 then bits =? 0 else f32_is_sqrt (bits + j * 2 ^ 23) d
  | DotProduct => f32_is_ratio bits d (4 ^ j)
  | Manhattan => f32_is_ratio bits d (2 ^ j)
  | CosineN s2 => f32_is_ratio bits d s2
  end.
Definition res_ok (mt : metric) (model : list (Z * Z)) (impl : list (Z * Z)) : bool :=
  list_eqb (fun a b => (fst a =? fst b) && obs_ok mt 0 (snd b) (snd a)) model impl.

(** ---- kernels ---- *)
(** compute_distance(a, b, metric) on exact inputs: the plain definition, and the 8- and 4-lane
    evaluations of the model give the same number (re-checked on the run's inputs) *)
Definition chk_kernel (mt : metric) (j : Z) (a b : zvec) (bits : Z) : bool :=
  obs_ok mt j bits (zdist mt a b) && (zdist_l 8 mt a b =? zdist mt a b) && (zdist_l 4 mt a b =? zdist mt a b)
  && (zdist_l 1 mt a b =? zdist mt a b).
(** dot_product / euclidean_distance_squared / l2_norm (of a) *)
Definition chk_aux (j : Z) (a b : zvec) (dot_bits sq_bits norm_bits : Z) : bool :=
  f32_is_ratio dot_bits (dot a b) (4 ^ j) && f32_is_ratio sq_bits (eucl2 a b) (4 ^ j)
  && obs_ok Euclidean j norm_bits (dot a a).

Definition zsqrt_exact (n : Z) : option Z := let s := Z.sqrt n in if s * s =? n then Some s else None.
Fixpoint is_pow2_fuel (f : nat) (n : Z) : bool :=
  match f with O => false | S f' => if n =? 1 then true else if Z.even n then is_pow2_fuel f' (n / 2) else false end.
Definition is_pow2 (n : Z) : bool := (0 <? n) && is_pow2_fuel 64 n.
(** cosine_distance(a, b) = 1 - dot / (sqrt(|a|^2) * sqrt(|b|^2) + EPSILON): exact when a norm is 0
    (=> 1.0) or when both norms are integers whose product is a power of two >= 2 (EPSILON is
    absorbed, the division is exact); [None] = outside the exact family *)
Definition cosine_exact (a b : zvec) : option (Z * Z) :=
  let '(d, na, nb) := cos_parts a b in
  if (na =? 0) || (nb =? 0) then Some (1, 1) else
  match zsqrt_exact na, zsqrt_exact nb with
  | Some sa, Some sb => if is_pow2 (sa * sb) && (2 <=? sa * sb) then Some (sa * sb - d, sa * sb) else None
  | _, _ => None
  end.
Definition chk_cosine (a b : zvec) (bits : Z) : bool :=
  let lanes_ok := let '(d, na, nb) := cos_parts a b in
                  let '(d8, na8, nb8) := cos_parts_l 8 a b in (d =? d8) && (na =? na8) && (nb =? nb8) in
  lanes_ok && match cosine_exact a b with Some (n, d) => f32_is_ratio bits n d | None => true end.
Definition cosine_applicable (a b : zvec) : bool := match cosine_exact a b with Some _ => true | None => false end.

(** ---- brute force ---- *)
Definition chk_brute (mt : metric) (xs : list (Z * zvec)) (q : zvec) (k : Z) (impl : list (Z * Z)) : bool :=
  res_ok mt (brute_force_knn (zdist mt) Z.leb xs q k) impl.
Definition chk_brute_filtered (mt : metric) (xs : list (Z * zvec)) (q : zvec) (k : Z) (keep : list Z) (impl : list (Z * Z)) : bool :=
  res_ok mt (brute_force_knn_filtered (zdist mt) Z.leb xs q k (fun i => memz i keep)) impl.

(** ---- HNSW histories ---- *)
(** what the cfg hook [HnswIndex::verif_dump] reports: entry point, max level, and per node (sorted
    by id) the neighbour lists per level *)
Inductive dump := Dump (entry : option Z) (max_level : Z) (adj : list (Z * list (list Z))).

Fixpoint insert_sorted (kv : Z * list (list Z)) (l : list (Z * list (list Z))) :=
  match l with
  | [] => [kv]
  | x :: t => if fst kv <=? fst x then kv :: l else x :: insert_sorted kv t
  end.
Definition adj_of (s : state zvec) : list (Z * list (list Z)) :=
  fold_right insert_sorted [] (map (fun kv => (fst kv, snd (snd kv))) (nodes s)).
Definition zll_eqb := list_eqb (list_eqb Z.eqb).
Definition dump_ok (s : state zvec) (d : dump) : bool :=
  match d with Dump e ml adj =>
    opt_eqb Z.eqb (entry s) e && (Z.of_nat (max_level s) =? ml)
    && list_eqb (fun a b => (fst a =? fst b) && zll_eqb (snd a) (snd b)) (adj_of s) adj
  end.
Definition odump_ok (s : state zvec) (d : option dump) : bool :=
  match d with Some d => dump_ok s d | None => true end.

(** ---- layer-0 reachability (the property promises k results for REACHABLE vectors) ---- *)
Fixpoint reach_fuel (f : nat) (m : nodemap zvec) (todo seen : list Z) : list Z :=
  match f with
  | O => seen
  | S f' => match todo with
            | [] => seen
            | x :: t => let seen' := if memz x seen then seen else seen ++ [x] in
                        let new := filter (fun y => negb (memz y seen') && negb (memz y t)) (nbrs m x 0) in
                        reach_fuel f' m (t ++ new) seen'
            end
  end.
Definition reachable_from (s : state zvec) (a : Z) : Z :=
  zlen (reach_fuel (fuel_of (nodes s)) (nodes s) [a] []).
(** the node the layer-0 beam search of [search_with_ef] starts from *)
Definition start0 (mt : metric) (s : state zvec) (q : zvec) : option Z :=
  match entry s with
  | Some ep => Some (descend zvec Z (zdist mt) ztop Z.ltb (nodes s) q (max_level s) 0 ep)
  | None => None
  end.
(** [search_complete] on the model's own result: at least min(k, number of nodes that layer-0
    links reach from the start) entries *)
Definition complete_ok (mt : metric) (s : state zvec) (q : zvec) (k : Z) (n : Z) : bool :=
  match nodes s, start0 mt s q with
  | _ :: _, Some a => Z.min (Z.max 0 k) (reachable_from s a) <=? n
  | _, _ => true
  end.
(** observation (not a property failure: the property speaks of reachable vectors): some live
    node is not reachable through layer-0 links from the search's start *)
Definition unreachable_state (mt : metric) (q : zvec) (s : state zvec) : bool :=
  match start0 mt s q with
  | Some a => reachable_from s a <? zlen (nodes s)
  | None => false
  end.

Inductive hop :=
| HInsert (id : Z) (v : zvec) (level : nat) (d : option dump)
    (** [pick]: Some p = the entry the implementation chose is known (hook) or forced;
        None = unknown (HashMap order): every live key is tried *)
| HRemove (id : Z) (pick : option (option Z)) (ret : bool) (d : option dump)
| HSearch (q : zvec) (k ef : Z) (impl : list (Z * Z))
| HBatch (qs : list zvec) (k ef : Z) (impl : list (list (Z * Z)))
| HLen (n : Z).

Definition removes_entry (s : state zvec) (id : Z) : bool :=
  has (nodes s) id && match entry s with Some e => e =? id | None => false end.

(** the candidate states: one per resolution of the unmodelled choice *)
Definition hstep (mt : metric) (c : config) (ss : list (state zvec)) (o : hop) : list (state zvec) :=
  match o with
  | HInsert id v level d =>
      filter (fun s => odump_ok s d) (map (fun s => xinsert (zext mt) c s id v level) ss)
  | HRemove id pick ret d =>
      filter (fun s => odump_ok s d)
        (flat_map (fun s =>
           if Bool.eqb (has (nodes s) id) ret then
             match pick with
             | Some p => [fst (hnsw_remove s id p)]
             | None => if removes_entry s id
                       then match filter (fun x => negb (x =? id)) (keys (nodes s)) with
                            | [] => [fst (hnsw_remove s id None)]
                            | ks => map (fun p => fst (hnsw_remove s id (Some p))) ks
                            end
                       else [fst (hnsw_remove s id None)]
             end
           else []) ss)
  | HSearch q k ef impl => filter (fun s => res_ok mt (xsearch (zext mt) s q k ef) impl && complete_ok mt s q k (zlen impl)) ss
  | HBatch qs k ef impl => filter (fun s => list_eqb (res_ok mt) (xbatch (zext mt) s qs k ef) impl) ss
  | HLen n => filter (fun s => zlen (nodes s) =? n) ss
  end.
(** number of operations that were consistent with the model (the whole history iff = length) *)
Fixpoint hrun (mt : metric) (c : config) (ss : list (state zvec)) (ops : list hop) (done : Z) : Z * list (state zvec) :=
  match ops with
  | [] => (done, ss)
  | o :: t => match hstep mt c ss o with
              | [] => (done, [])
              | ss' => hrun mt c ss' t (done + 1)
              end
  end.
Definition chk_history (mt : metric) (c : config) (ops : list hop) : bool :=
  match snd (hrun mt c [empty] ops 0) with [] => false | _ => true end.
(** diagnostics: index of the first operation the model cannot follow *)
Definition show_history (mt : metric) (c : config) (ops : list hop) : Z := fst (hrun mt c [empty] ops 0).

(** ---- the std BinaryHeap premise: the transcription against the real heap ---- *)
Definition chk_bheap (ops : list (option (Z * Z))) (final : list (Z * Z)) : bool :=
  let ole (a b : Z * Z) := snd a <=? snd b in
  let h := fold_left (fun h o => match o with
                                 | Some x => bpush ole x h
                                 | None => match bpop ole h with Some (_, h') => h' | None => h end
                                 end) ops [] in
  list_eqb (fun a b => (fst a =? fst b) && (snd a =? snd b)) h final.

(** ---- scalar quantiser ---- *)
(** ScalarQuantizer::with_ranges(min, max) on an exact grid: range = 255 * 2^e per dimension, so
    scale = 2^-e and inv_scale = 2^e are exact; values are integers.
    impl: quantize(v) (u8 codes), dequantize(codes) as f32 bits *)
Definition chk_squant (mins : zvec) (es : zvec) (v : zvec) (codes : zvec) (deq_bits : zvec) : bool :=
  let model := sq_quantize_grid mins es v in
  list_eqb Z.eqb model codes
  && list_eqb (fun p b => f32_is_int b p) (sq_dequantize_grid mins es codes) deq_bits.

(** ---- QuantizedHnswIndex (quantized_hnsw.rs) ---- *)
(** The inner HnswIndex is private; the harness drives a twin HnswIndex::with_seed with the same
    configuration, seed and operations (same RNG => same levels => same graph) and replays the
    twin's history [ops] in the model.  [pre]: 0 = none (scalar, and any untrained/None index with
    mults = [] ), 1 = ranking by [keys] (binary: id |-> hamming distance to the query).
    [impl] = None: the search panicked (never, since dc6fd9d). [cmp_dist] = false: ids only (binary without rescoring
    reports the hamming estimate, not a distance). *)
Definition key_of (keys : list (Z * Z)) (i : Z) : option Z :=
  match find (fun p => fst p =? i) keys with Some p => Some (snd p) | None => None end.
Definition chk_qsearch (mt : metric) (c : config) (ops : list hop) (q : zvec) (k ef : Z) (mults : list Z)
           (resc : bool) (pre : Z) (keys : list (Z * Z)) (cmp_dist : bool) (impl : option (list (Z * Z))) : bool :=
  match hrun mt c [empty] ops 0 with
  | (n, ss) =>
    (n =? zlen ops) &&
    existsb (fun s =>
      let p := if pre =? 0 then pre_none else pre_rank Z.leb (key_of keys) in
      match impl with
      | Some i => let r := qsearch (zext mt) (zdist mt) s q k ef mults resc p in
                  if cmp_dist then res_ok mt r i else list_eqb Z.eqb (map fst r) (map fst i)
      | None => false          (* a panic: the repaired code (dc6fd9d) never panics *)
      end) ss
  end.
(** class of the repaired defect C18-K3: before dc6fd9d the candidate count k x rescore_factor (x 2 for
    binary) did not fit a usize *)
Definition k_qoverflow_pre (k : Z) (mults : list Z) (resc : bool) : bool :=
  resc && match num_candidates_pre k mults with None => true | Some _ => false end.

(** ---- brute_force_knn on distances that may be NaN ([None]); keys are order-preserving
    integer images of the f32 distances ---- *)
Definition okey_eqb (a b : option Z) : bool := opt_eqb Z.eqb a b.
Definition chk_brute_keys (xs : list (Z * option Z)) (k : Z) (impl : list (Z * option Z)) : bool :=
  list_eqb (fun a b => (fst a =? fst b) && okey_eqb (snd a) (snd b)) (brute_small lt_of xs k) impl.
(** class of the repaired defect C18-K2 (before c04d862 the comparator was [lt_pc]): some distance is NaN *)
Definition k_nan_distance (xs : list (Z * option Z)) : bool := has_nan xs.

(** ---- VectorScanOperator / VectorJoinOperator output loops ---- *)
Definition zz_eqb (a b : Z * Z) : bool := (fst a =? fst b) && (snd a =? snd b).
Definition chk_scan (cap : nat) (res : list (Z * Z)) (impl : list (list (Z * Z))) : bool :=
  list_eqb (list_eqb zz_eqb) (scan_chunks cap res) impl.
Definition jrow_eqb (a b : Z * (Z * Z)) : bool := (fst a =? fst b) && zz_eqb (snd a) (snd b).
(** [calls] next() calls were made; [fin] = the last one returned None *)
Definition chk_join (cap calls : nat) (rows : list (Z * list (Z * Z))) (impl : list (list (Z * (Z * Z)))) (fin : bool) : bool :=
  match jrun calls cap (jinit rows) false with
  | (chs, f) => list_eqb (list_eqb jrow_eqb) chs impl && Bool.eqb f fin
  end.
(** class of the repaired defect C18-K4 *)
Definition k_join (cap : nat) (rows : list (Z * list (Z * Z))) : bool := k_join_boundary cap rows.

(** ---- scalar quantiser distances on the exact grid ---- *)
(** asymmetric_distance_squared(query, codes) and distance_squared_u8(a, b) as f32 bits *)
Definition chk_squant_dist (mins es q codes a b : zvec) (asym_bits u8_bits : Z) : bool :=
  f32_is_int asym_bits (sq_asym2_grid mins es q codes) && f32_is_int u8_bits (sq_dist2_u8_grid es a b).

(** ---- binary quantiser: quantize(v) words, hamming_distance, hamming_distance_simd ---- *)
Definition chk_bquant (a b : zvec) (wa wb : list Z) (ham ham_simd : Z) : bool :=
  list_eqb Z.eqb (bq_quantize a) wa && list_eqb Z.eqb (bq_quantize b) wb
  && (hamming_words wa wb =? ham) && (ham_simd =? ham)
  && (hamming_bits (sign_bits a) (sign_bits b) =? ham).

(** ---- product quantiser with explicit integer centroids ---- *)
(** quantize(v) codes, build_distance_table(q) (f32 bits, row-major M x K), asymmetric_distance_squared(q, codes),
    reconstruct(codes) *)
Definition chk_pquant (cb : codebook) (sd : nat) (v q : zvec) (codes : list Z) (table_bits : list Z) (adc_bits : Z)
           (recon_bits : list Z) : bool :=
  list_eqb Z.eqb (pq_quantize cb sd v) codes
  && list_eqb (fun m b => f32_is_int b m) (concat (pq_table cb sd q)) table_bits
  && f32_is_int adc_bits (pq_dist_table (pq_table cb sd q) codes)
  && list_eqb (fun m b => f32_is_int b m) (pq_reconstruct cb codes) recon_bits.
