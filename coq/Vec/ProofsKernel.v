(** C18 — the lane-structured evaluation of a kernel equals its plain definition, for every
    length and every lane width, over any commutative monoid (so over any commutative ring). *)
From Coq Require Import ZArith List Bool Lia Permutation.
From GV Require Import Vec.Kernel.
Import ListNotations.

Section LanesProof.
  Variable R : Type.
  Variable zero : R.
  Variable add : R -> R -> R.
  Hypothesis add_assoc : forall a b c, add a (add b c) = add (add a b) c.
  Hypothesis add_comm : forall a b, add a b = add b a.
  Hypothesis add_0_l : forall a, add zero a = a.
  Variable A : Type.
  Variable term : A -> A -> R.

  Notation tm := (fun p : A * A => term (fst p) (snd p)).
  Definition sum (l : list R) : R := fold_right add zero l.

  Lemma add_0_r : forall a, add a zero = a.
  Proof. intro a. rewrite add_comm. apply add_0_l. Qed.
  Lemma sum_app : forall l1 l2, sum (l1 ++ l2) = add (sum l1) (sum l2).
  Proof.
    induction l1 as [|x t IH]; intro l2; cbn [app sum fold_right].
    - symmetry. apply add_0_l.
    - fold (sum (t ++ l2)). fold (sum t). rewrite IH. apply add_assoc.
  Qed.
  Lemma sum_perm : forall l1 l2, Permutation l1 l2 -> sum l1 = sum l2.
  Proof.
    induction 1 as [|x l l' _ IH|x y l|l l' l'' _ IH1 _ IH2]; cbn [sum fold_right].
    - reflexivity.
    - fold (sum l). fold (sum l'). rewrite IH. reflexivity.
    - fold (sum l). rewrite !add_assoc. f_equal. apply add_comm.
    - congruence.
  Qed.
  Lemma fold_left_sum : forall (B : Type) (f : B -> R) l s0,
    fold_left (fun s p => add s (f p)) l s0 = add s0 (sum (map f l)).
  Proof.
    intros B f. induction l as [|x t IH]; intro s0; cbn [fold_left map sum fold_right].
    - symmetry. apply add_0_r.
    - fold (sum (map f t)). rewrite IH. symmetry. apply add_assoc.
  Qed.
  Lemma fold_left_add_sum : forall l s0, fold_left add l s0 = add s0 (sum l).
  Proof.
    intros l s0. rewrite <- (map_id l) at 2. apply (fold_left_sum R (fun x => x)).
  Qed.

  Lemma plain_sum : forall a b, plain zero add term a b = sum (map tm (combine a b)).
  Proof. intros. unfold plain. rewrite fold_left_sum. apply add_0_l. Qed.

  Lemma zip_add_sum : forall acc ts, length acc = length ts ->
    sum (zip_add R add acc ts) = add (sum acc) (sum ts) /\ length (zip_add R add acc ts) = length acc.
  Proof.
    induction acc as [|x t IH]; intros [|y ts] H; cbn [length] in H; try discriminate; cbn [zip_add sum fold_right length].
    - split; [symmetry; apply add_0_l|reflexivity].
    - fold (sum (zip_add R add t ts)). fold (sum t). fold (sum ts).
      destruct (IH ts) as [H1 H2]; [lia|]. rewrite H1, H2. split; [|reflexivity].
      rewrite !add_assoc. f_equal. rewrite <- !add_assoc. f_equal. apply add_comm.
  Qed.

  Lemma blocks_inv : forall fuel W ps acc, length acc = W ->
    let r := blocks R add A term fuel W ps acc in
    length (fst r) = W /\ add (sum (fst r)) (sum (map tm (snd r))) = add (sum acc) (sum (map tm ps)).
  Proof.
    induction fuel as [|f IH]; intros W ps acc Hl; cbn [blocks].
    - cbn [fst snd]. split; [exact Hl|reflexivity].
    - destruct (Nat.leb W (length ps)) eqn:E; [|cbn [fst snd]; split; [exact Hl|reflexivity]].
      apply Nat.leb_le in E.
      assert (Hf : length (map tm (firstn W ps)) = W) by (rewrite map_length, firstn_length; lia).
      destruct (zip_add_sum acc (map tm (firstn W ps))) as [H1 H2]; [lia|].
      destruct (IH W (skipn W ps) (zip_add R add acc (map tm (firstn W ps)))) as [H3 H4]; [lia|].
      split; [exact H3|]. rewrite H4, H1.
      rewrite <- (firstn_skipn W ps) at 3. rewrite map_app, sum_app. symmetry. apply add_assoc.
  Qed.

  Lemma hsum_sum : forall W acc, length acc = W -> hsum R zero add W acc = sum acc.
  Proof.
    intros W acc Hl.
    assert (Hgen : fold_left add acc zero = sum acc) by (rewrite fold_left_add_sum; apply add_0_l).
    unfold hsum.
    destruct W as [|[|[|[|[|[|[|[|[|W]]]]]]]]]; try exact Hgen.
    - (* 4 *) destruct acc as [|a [|b [|c [|d [|? ?]]]]]; cbn [length] in Hl; try discriminate.
      cbn [hsum4 sum fold_right]. rewrite add_0_r, <- !add_assoc. reflexivity.
    - (* 8 *) destruct acc as [|l0 [|l1 [|l2 [|l3 [|l4 [|l5 [|l6 [|l7 [|? ?]]]]]]]]]; cbn [length] in Hl; try discriminate.
      cbn [hsum8].
      transitivity (sum [l4; l0; l5; l1; l6; l2; l7; l3]).
      + cbn [sum fold_right]. rewrite add_0_r, <- !add_assoc. reflexivity.
      + apply sum_perm.
        apply (Permutation_cons_app [l0; l1; l2; l3] [l5; l6; l7]). cbn [app]. apply perm_skip.
        apply (Permutation_cons_app [l1; l2; l3] [l6; l7]). cbn [app]. apply perm_skip.
        apply (Permutation_cons_app [l2; l3] [l7]). cbn [app]. apply perm_skip.
        apply perm_swap.
  Qed.

  Lemma sum_repeat_zero : forall n, sum (repeat zero n) = zero.
  Proof.
    induction n as [|n IH]; cbn [repeat sum fold_right]; [reflexivity|]. fold (sum (repeat zero n)). rewrite IH. apply add_0_l.
  Qed.

  (** kernel_lanes, generic form *)
  Lemma lanes_plain : forall W a b, lanes zero add term W a b = plain zero add term a b.
  Proof.
    intros W a b. unfold lanes. rewrite plain_sum.
    pose proof (blocks_inv (length (combine a b)) W (combine a b) (repeat zero W) (repeat_length zero W)) as [H1 H2].
    destruct (blocks R add A term (length (combine a b)) W (combine a b) (repeat zero W)) as [acc tail].
    cbn [fst snd] in H1, H2.
    rewrite fold_left_sum, hsum_sum by exact H1. rewrite H2.
    rewrite sum_repeat_zero. apply add_0_l.
  Qed.
End LanesProof.

Open Scope Z_scope.
Lemma zlanes_plain : forall (A : Type) (term : A -> A -> Z) W a b, lanes 0 Z.add term W a b = plain 0 Z.add term a b.
Proof.
  intros. apply lanes_plain; intros; lia.
Qed.
Lemma zdist_lanes_l : forall W mt a b, zdist_l W mt a b = zdist mt a b.
Proof.
  intros W mt a b. destruct mt; cbn [zdist zdist_l]; unfold eucl2_l, eucl2, dot_l, dot, manh_l, manh;
    rewrite zlanes_plain; reflexivity.
Qed.
Lemma cos_parts_lanes_l : forall W a b, cos_parts_l W a b = cos_parts a b.
Proof. intros. unfold cos_parts_l, cos_parts, dot_l, dot. rewrite !zlanes_plain. reflexivity. Qed.

(** the plain definitions are the textbook sums *)
Lemma dot_cons : forall x y a b, dot (x :: a) (y :: b) = x * y + dot a b.
Proof.
  intros. unfold dot. rewrite !(plain_sum Z 0 Z.add) by (intros; lia). cbn [combine map sum fold_right fst snd]. reflexivity.
Qed.
Lemma eucl2_cons : forall x y a b, eucl2 (x :: a) (y :: b) = (x - y) * (x - y) + eucl2 a b.
Proof.
  intros. unfold eucl2. rewrite !(plain_sum Z 0 Z.add) by (intros; lia). cbn [combine map sum fold_right fst snd]. reflexivity.
Qed.
Lemma manh_cons : forall x y a b, manh (x :: a) (y :: b) = Z.abs (x - y) + manh a b.
Proof.
  intros. unfold manh. rewrite !(plain_sum Z 0 Z.add) by (intros; lia). cbn [combine map sum fold_right fst snd]. reflexivity.
Qed.

(** pre-normalising and taking [1 - dot] is the cosine distance [1 - dot / (|a| |b|)] *)
From Coq Require Import QArith.
Lemma dotq_scale : forall na nb a b, ~ na == 0 -> ~ nb == 0 ->
  (dotq (scaleq na a) (scaleq nb b) == dotq a b / (na * nb))%Q.
Proof.
  intros na nb a. induction a as [|x a IH]; intros b Ha Hb.
  - cbn [scaleq map dotq]. field. split; assumption.
  - destruct b as [|y b]; cbn [scaleq map dotq].
    + field. split; assumption.
    + fold (scaleq na a). fold (scaleq nb b). rewrite IH by assumption. field. split; assumption.
Qed.
Lemma cosine_prenorm_l : forall na nb a b, ~ na == 0 -> ~ nb == 0 ->
  (1 - dotq (scaleq na a) (scaleq nb b) == 1 - dotq a b / (na * nb))%Q.
Proof. intros. rewrite dotq_scale by assumption. reflexivity. Qed.
