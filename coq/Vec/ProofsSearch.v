(** C18 — soundness of the HNSW search for EVERY state (no invariant assumed). *)
From Coq Require Import ZArith List Bool Lia Permutation Sorted.
From GV Require Import Vec.Hnsw Vec.ProofsBase.
Import ListNotations.
Open Scope Z_scope.

Section FindFacts.
  Variable V : Type.
  Lemma find_In : forall (m : nodemap V) id n, lookup m id = Some n -> In (id, n) m.
  Proof.
    induction m as [|[k a] t IH]; intros id n H; cbn [lookup] in H; [discriminate|].
    destruct (k =? id) eqn:E.
    - apply Z.eqb_eq in E. inversion H; subst. left. reflexivity.
    - right. apply IH. exact H.
  Qed.
  Lemma has_keys : forall (m : nodemap V) id, has m id = true <-> In id (keys m).
  Proof.
    unfold has, keys. induction m as [|[k a] t IH]; intro id; cbn [lookup map In fst].
    - split; [discriminate|tauto].
    - destruct (k =? id) eqn:E.
      + apply Z.eqb_eq in E. split; auto.
      + apply Z.eqb_neq in E. rewrite IH. split; [auto|]. intros [H|H]; [congruence|exact H].
  Qed.
  Lemma nbrs_mentioned : forall (m : nodemap V) x layer n, In n (nbrs m x layer) -> mentioned m n.
  Proof.
    unfold nbrs. intros m x layer n H. destruct (lookup m x) as [nd|] eqn:E; [|destruct H].
    exists x, nd, (nth layer (snd nd) []). split; [apply find_In; exact E|]. split; [|exact H].
    destruct (nth_in_or_default layer (snd nd) []) as [Hi|Hd]; [exact Hi|]. rewrite Hd in H. destruct H.
  Qed.
End FindFacts.

Section Search.
  Variable V D : Type.
  Variable dist : V -> V -> D.
  Variable top : D.
  Variable leb ltb : D -> D -> bool.
  Notation elt := (Z * D)%type.
  Variable cpush : elt -> list elt -> list elt.
  Variable cpop : list elt -> option (elt * list elt).
  Variable rpush : elt -> list elt -> list elt.
  Variable rpop : list elt -> option (elt * list elt).
  Variable rpeek : list elt -> option elt.
  Hypothesis Hr : heap_ok rpush rpop.

  Notation nd := (node_distance V D dist top).
  Notation trim := (trim D rpop).
  Notation visit := (visit V D dist top ltb cpush rpush rpop rpeek).
  Notation sl_loop := (sl_loop V D dist top ltb cpush cpop rpush rpop rpeek).
  Notation search_layer := (search_layer V D dist top leb ltb cpush cpop rpush rpop rpeek).
  Notation sls := (search_layer_single V D dist top ltb).
  Notation descend := (descend V D dist top ltb).
  Notation search_with_ef := (search_with_ef V D dist top leb ltb cpush cpop rpush rpop rpeek).

  Definition sub (R' R : list elt) : Prop := exists d, Permutation R (d ++ R').
  Lemma sub_refl : forall R, sub R R.
  Proof. intro R. exists []. reflexivity. Qed.
  Lemma sub_In : forall R' R e, sub R' R -> In e R' -> In e R.
  Proof. intros R' R e [d H] Hi. eapply Permutation_in; [symmetry; exact H|]. apply in_or_app. auto. Qed.
  Lemma sub_NoDup : forall R' R, sub R' R -> NoDup (map fst R) -> NoDup (map fst R').
  Proof.
    intros R' R [d H] Hn. apply (Permutation_map fst) in H. rewrite map_app in H.
    eapply NoDup_suffix. eapply Permutation_NoDup; eassumption.
  Qed.
  Lemma sub_len : forall R' R, sub R' R -> zlen R' <= zlen R.
  Proof. intros R' R [d H]. apply Permutation_length in H. unfold zlen. rewrite H, app_length. lia. Qed.

  Lemma trim_sub : forall n ef R, sub (trim n ef R) R.
  Proof.
    destruct Hr as [_ [Hpop _]].
    induction n as [|n IH]; intros ef R; cbn [Hnsw.trim]; [apply sub_refl|].
    destruct (ef <? zlen R); [|apply sub_refl].
    destruct (rpop R) as [[x R']|] eqn:E; [|apply sub_refl].
    destruct (IH ef R') as [d Hd]. exists (x :: d). rewrite (Hpop _ _ _ E). cbn [app]. constructor. exact Hd.
  Qed.

  Section Layer.
    Variable m : nodemap V.
    Variable q : V.
    Variable ep : Z.

    Definition RI (R : list elt) (vis : list Z) : Prop :=
      NoDup (map fst R) /\
      forall e, In e R -> snd e = nd m q (fst e) /\ In (fst e) vis /\ (fst e = ep \/ mentioned m (fst e)).

    Lemma RI_sub : forall R R' vis, RI R vis -> sub R' R -> RI R' vis.
    Proof.
      intros R R' vis [Hn Ha] Hs. split; [eapply sub_NoDup; eassumption|].
      intros e He. apply Ha. eapply sub_In; eassumption.
    Qed.
    Lemma RI_vis : forall R vis n, RI R vis -> RI R (n :: vis).
    Proof.
      intros R vis n [Hn Ha]. split; [exact Hn|]. intros e He. destruct (Ha e He) as [H1 [H2 H3]].
      repeat split; [exact H1|right; exact H2|exact H3].
    Qed.

    Lemma visit_RI : forall ef C R vis n, RI R vis -> mentioned m n ->
      match visit m q ef (C, R, vis) n with (_, R', vis') => RI R' vis' end.
    Proof.
      destruct Hr as [Hpush _].
      intros ef C R vis n HI Hm. cbn [Hnsw.visit].
      destruct (memz n vis) eqn:Ev; [exact HI|].
      apply memz_false in Ev.
      match goal with |- context [if ?c then _ else _] => destruct c end.
      - eapply RI_sub; [|apply trim_sub].
        destruct HI as [Hn Ha]. split.
        + eapply Permutation_NoDup; [symmetry; apply Permutation_map; apply Hpush|].
          cbn [map fst]. constructor; [|exact Hn].
          intro Hi. apply in_map_iff in Hi. destruct Hi as [e [He1 He2]].
          destruct (Ha e He2) as [_ [Hv _]]. rewrite He1 in Hv. contradiction.
        + intros e He. apply (Permutation_in _ (Hpush _ _)) in He. destruct He as [<-|He].
          * cbn [fst snd]. repeat split; [left; reflexivity|right; exact Hm].
          * destruct (Ha e He) as [H1 [H2 H3]]. repeat split; [exact H1|right; exact H2|exact H3].
      - apply RI_vis. exact HI.
    Qed.

    Lemma fold_visit_RI : forall ef ns C R vis, RI R vis -> (forall n, In n ns -> mentioned m n) ->
      match fold_left (visit m q ef) ns (C, R, vis) with (_, R', vis') => RI R' vis' end.
    Proof.
      intros ef. induction ns as [|n t IH]; intros C R vis HI Hm; cbn [fold_left]; [exact HI|].
      pose proof (visit_RI ef C R vis n HI (Hm n (or_introl eq_refl))) as H1.
      destruct (visit m q ef (C, R, vis) n) as [[C1 R1] vis1].
      apply IH; [exact H1|]. intros x Hx. apply Hm. right. exact Hx.
    Qed.

    Lemma sl_loop_RI : forall fuel ef layer C R vis, RI R vis ->
      exists vis', RI (sl_loop fuel m q ef layer C R vis) vis'.
    Proof.
      induction fuel as [|f IH]; intros ef layer C R vis HI; cbn [Hnsw.sl_loop]; [exists vis; exact HI|].
      destruct (cpop C) as [[cur C']|]; [|exists vis; exact HI].
      match goal with |- context [if ?c then _ else _] => destruct c end; [exists vis; exact HI|].
      pose proof (fold_visit_RI ef (nbrs m (fst cur) layer) C' R vis HI
                    (fun n Hn => nbrs_mentioned V m (fst cur) layer n Hn)) as H1.
      destruct (fold_left (visit m q ef) (nbrs m (fst cur) layer) (C', R, vis)) as [[C2 R2] vis2].
      apply IH. exact H1.
    Qed.

    (** what a beam search returns, whatever the graph looks like *)
    Lemma search_layer_spec : order_ok leb -> forall ef layer,
      let L := search_layer m q ep ef layer in
      NoDup (map fst L) /\
      (forall e, In e L -> snd e = nd m q (fst e) /\ (fst e = ep \/ mentioned m (fst e))) /\
      StronglySorted (le_elt D leb) L.
    Proof.
      intros Hord ef layer L. unfold L, Hnsw.search_layer.
      destruct Hr as [Hpush _].
      set (d := nd m q ep).
      assert (H0 : RI (rpush (ep, d) []) [ep]).
      { split.
        - eapply Permutation_NoDup; [symmetry; apply Permutation_map; apply Hpush|].
          cbn [map fst]. constructor; [intros []|constructor].
        - intros e He. apply (Permutation_in _ (Hpush _ _)) in He. destruct He as [<-|[]].
          cbn [fst snd]. repeat split; [left; reflexivity|left; reflexivity]. }
      destruct (sl_loop_RI (fuel_of m) ef layer (cpush (ep, d) []) _ _ H0) as [vis' [Hn Ha]].
      set (R := sl_loop (fuel_of m) m q ef layer (cpush (ep, d) []) (rpush (ep, d) []) [ep]) in *.
      split; [|split].
      - eapply Permutation_NoDup; [symmetry; apply Permutation_map; apply sort_by_perm|exact Hn].
      - intros e He. apply (Permutation_in _ (sort_by_perm D leb R)) in He.
        destruct (Ha e He) as [H1 [_ H3]]. split; assumption.
      - apply sort_by_sorted. exact Hord.
    Qed.
  End Layer.

  (** the greedy walk ends on its start node or on some mentioned id *)
  Lemma sls_inner_spec : forall m q ns cur cd ch,
    let r := sls_inner V D dist top ltb m q ns cur cd ch in
    fst (fst r) = cur \/ In (fst (fst r)) ns.
  Proof.
    intros m q. induction ns as [|n t IH]; intros cur cd ch; cbn [Hnsw.sls_inner]; [left; reflexivity|].
    destruct (ltb (nd m q n) cd).
    - destruct (IH n (nd m q n) true) as [H|H]; [right; left; symmetry; exact H|right; right; exact H].
    - destruct (IH cur cd ch) as [H|H]; [left; exact H|right; right; exact H].
  Qed.
  Lemma sls_loop_spec : forall fuel m q layer cur cd,
    let r := sls_loop V D dist top ltb fuel m q layer cur cd in r = cur \/ mentioned m r.
  Proof.
    induction fuel as [|f IH]; intros m q layer cur cd; cbn [Hnsw.sls_loop]; [left; reflexivity|].
    pose proof (sls_inner_spec m q (nbrs m cur layer) cur cd false) as H1.
    destruct (sls_inner V D dist top ltb m q (nbrs m cur layer) cur cd false) as [[c' d'] ch].
    cbn [fst] in H1.
    assert (Hc : c' = cur \/ mentioned m c').
    { destruct H1 as [H1|H1]; [left; exact H1|right; eapply nbrs_mentioned; exact H1]. }
    destruct ch; [|exact Hc].
    destruct (IH m q layer c' d') as [H|H]; [rewrite H; exact Hc|right; exact H].
  Qed.
  Lemma descend_spec : forall m q hi lo ep,
    let r := descend m q hi lo ep in r = ep \/ mentioned m r.
  Proof.
    intros m q. induction hi as [|h IH]; intros lo ep; cbn [Hnsw.descend]; [left; reflexivity|].
    destruct (Nat.ltb lo (S h)); [|left; reflexivity].
    destruct (IH lo (sls m q ep (S h))) as [H|H]; [|right; exact H].
    rewrite H. apply sls_loop_spec.
  Qed.

  (** search_sound, raw form *)
  Lemma search_sound_raw : order_ok leb -> forall (s : state V) q k ef,
    let r := search_with_ef s q k ef in
    zlen r <= Z.max 0 k /\
    NoDup (map fst r) /\
    (forall i d, In (i, d) r ->
       d = nd (nodes s) q i /\ (entry s = Some i \/ mentioned (nodes s) i)) /\
    StronglySorted (le_elt D leb) r.
  Proof.
    intros Hord s q k ef r. unfold r, Hnsw.search_with_ef.
    destruct (entry s) as [ep|] eqn:Ee.
    2:{ rewrite zlen_nil. cbn [map]. split; [lia|split; [apply NoDup_nil|split; [intros ? ? []|apply SSorted_nil]]]. }
    destruct (nodes s) as [|kv t] eqn:Em.
    { rewrite zlen_nil. cbn [map]. split; [lia|split; [apply NoDup_nil|split; [intros ? ? []|apply SSorted_nil]]]. }
    rewrite <- Em.
    set (cur := descend (nodes s) q (max_level s) 0%nat ep).
    pose proof (search_layer_spec (nodes s) q cur Hord (Z.max ef k) 0%nat) as [Hn [Ha Hs]].
    set (L := search_layer (nodes s) q cur (Z.max ef k) 0%nat) in *.
    destruct (takez_prefix _ k L) as [rest Hrest].
    split; [rewrite takez_len; lia|]. split; [|split].
    - rewrite Hrest, map_app in Hn. eapply NoDup_prefix. exact Hn.
    - intros i d Hi. apply takez_In in Hi. destruct (Ha _ Hi) as [H1 H2]. cbn [fst snd] in *.
      split; [exact H1|]. destruct H2 as [H2|H2]; [|right; exact H2].
      destruct (descend_spec (nodes s) q (max_level s) 0%nat ep) as [H|H]; fold cur in H.
      + left. congruence.
      + right. rewrite H2. exact H.
    - rewrite Hrest in Hs. eapply sorted_prefix. exact Hs.
  Qed.

  (** with no dangling link every returned id is live and carries its true distance *)
  Lemma search_present_raw : order_ok leb -> forall (s : state V) q k ef, links_closed s ->
    forall i d, In (i, d) (search_with_ef s q k ef) ->
    exists n, lookup (nodes s) i = Some n /\ d = dist q (fst n).
  Proof.
    intros Hord s q k ef [Hc1 Hc2] i d Hi.
    destruct (search_sound_raw Hord s q k ef) as [_ [_ [Ha _]]].
    destruct (Ha i d Hi) as [H1 H2].
    assert (Hh : has (nodes s) i = true) by (destruct H2; auto).
    unfold has in Hh. unfold Hnsw.node_distance in H1.
    destruct (lookup (nodes s) i) as [n|]; [|discriminate]. exists n. split; [reflexivity|exact H1].
  Qed.
End Search.
