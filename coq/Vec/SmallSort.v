(** C18 — Rust's stable [sort_by] on slices of at most 20 elements
    (core::slice::sort::stable: [insertion_sort_shift_left(v, 1, is_less)]), transcribed, and
    [brute_force_knn] with the comparator of mod.rs on distances that may be NaN ([None]):

        NOW (c04d862):     results.sort_by(|a, b| cmp_distance(a.1, b.1))      -- NaN last, total: [lt_of]
        BEFORE (`_pre`):   results.sort_by(|a, b| a.1.partial_cmp(&b.1).unwrap_or(Equal))       : [lt_pc]

    With a comparator that is not a total order the outcome depends on the algorithm, hence the
    transcription.  No proofs in this file.

      for i in 1..len:  insert_tail(v[..=i]):
          tmp = v[i];  j = i;  while j > 0 && is_less(tmp, v[j-1]) { v[j] = v[j-1]; j -= 1 };  v[j] = tmp

    On the REVERSED sorted prefix (last element first) insert_tail is "walk past the elements y
    with is_less(x, y), put x there" — which is [ins_by] for the relation [not is_less]. *)
From Coq Require Import ZArith List Bool.
From GV Require Export Vec.Hnsw Vec.Brute.
Import ListNotations.
Open Scope Z_scope.

Section SmallSort.
  Context {D : Type} (is_less : D -> D -> bool).
  Definition not_less (a b : D) : bool := negb (is_less a b).
  (** the sorted prefix is kept reversed; elements are taken from the left *)
  Definition isort (l : list (Z * D)) : list (Z * D) :=
    rev (fold_left (fun rp x => ins_by not_less x rp) l []).
End SmallSort.

(** a distance is [None] when it is NaN, otherwise an order-preserving integer image of the f32 *)
(** BEFORE c04d862: [compare(a,b) == Less] for compare = partial_cmp(..).unwrap_or(Equal) *)
Definition lt_pc (a b : option Z) : bool :=
  match a, b with Some x, Some y => x <? y | _, _ => false end.
(** NOW: [cmp_distance(a,b) == Less] — increasing, NaN after every number (OrderedFloat's order) *)
Definition lt_of (a b : option Z) : bool :=
  match a, b with Some x, Some y => x <? y | Some _, None => true | None, _ => false end.
Definition leb_of (a b : option Z) : bool := negb (lt_of b a).
Definition is_nan (d : option Z) : bool := match d with None => true | Some _ => false end.

(** brute_force_knn over already computed distances (the kernels are tied separately), at most
    20 vectors: sort, truncate *)
Definition brute_small (is_less : option Z -> option Z -> bool) (xs : list (Z * option Z)) (k : Z) : list (Z * option Z) :=
  takez k (isort is_less xs).
Definition has_nan (xs : list (Z * option Z)) : bool := existsb (fun p => is_nan (snd p)) xs.
