(** C18 — completeness of the beam search relative to layer reachability: the search only stops
    early when the result heap already holds [ef] entries, and the fuel of the model suffices. *)
From Coq Require Import ZArith List Bool Lia Permutation Sorted.
From GV Require Import Vec.Hnsw Vec.ProofsBase Vec.ProofsSearch.
Import ListNotations.
Open Scope Z_scope.

Section Entries.
  Variable V : Type.
  Definition entries (m : nodemap V) : list Z := flat_map (fun kv => concat (snd (snd kv))) m.
  Lemma mentioned_entries : forall (m : nodemap V) x, mentioned m x -> In x (entries m).
  Proof.
    intros m x [k [n [l [Hi [Hl Hx]]]]]. unfold entries. apply in_flat_map. exists (k, n). split; [exact Hi|].
    cbn [snd]. apply in_concat. exists l. split; assumption.
  Qed.
  Lemma node_size_concat : forall (n : node V), node_size V n = length (concat (snd n)).
  Proof.
    intros [v ls]. unfold node_size. cbn [snd]. induction ls as [|l t IH]; cbn [fold_right concat]; [reflexivity|].
    rewrite app_length, IH. reflexivity.
  Qed.
  Lemma fuel_entries : forall (m : nodemap V), (length (entries m) + 2 <= fuel_of m)%nat.
  Proof.
    intro m. unfold fuel_of, entries.
    assert (H : (length (flat_map (fun kv : Z * node V => concat (snd (snd kv))) m)
                 <= fold_right (fun kv a => (S (node_size V (snd kv)) + a)%nat) O m)%nat).
    { induction m as [|kv t IH]; cbn [flat_map fold_right length]; [lia|].
      rewrite app_length, node_size_concat. lia. }
    unfold node in *. lia.
  Qed.
End Entries.

Section Complete.
  Variable V D : Type.
  Variable dist : V -> V -> D.
  Variable top : D.
  Variable leb ltb : D -> D -> bool.
  Notation elt := (Z * D)%type.
  Variable cpush : elt -> list elt -> list elt.
  Variable cpop : list elt -> option (elt * list elt).
  Variable rpush : elt -> list elt -> list elt.
  Variable rpop : list elt -> option (elt * list elt).
  Variable rpeek : list elt -> option elt.
  Hypothesis Hc : heap_ok cpush cpop.
  Hypothesis Hr : heap_ok rpush rpop.

  Notation trim := (trim D rpop).
  Notation visit := (visit V D dist top ltb cpush rpush rpop rpeek).
  Notation sl_loop := (sl_loop V D dist top ltb cpush cpop rpush rpop rpeek).
  Notation search_layer := (search_layer V D dist top leb ltb cpush cpop rpush rpop rpeek).
  Notation descend := (descend V D dist top ltb).
  Notation search_with_ef := (search_with_ef V D dist top leb ltb cpush cpop rpush rpop rpeek).

  Variable m : nodemap V.
  Variable q : V.
  Variable ep : Z.
  Variable ef : Z.
  Variable layer : nat.

  Inductive reachL (a : Z) : Z -> Prop :=
  | reachL_refl : reachL a a
  | reachL_step : forall x y, reachL a x -> In y (nbrs m x layer) -> reachL a y.

  Definition Univ : list Z := ep :: entries V m.
  Definition expanded (vis : list Z) (x : Z) : Prop := forall y, In y (nbrs m x layer) -> In y vis.

  (** the loop invariant; [exc] = the node whose neighbours are being visited *)
  Definition INV (exc : Z -> Prop) (C R : list elt) (vis : list Z) : Prop :=
    In ep vis /\ NoDup vis /\ incl vis Univ /\
    (zlen R < ef -> forall x, In x vis -> In x (map fst R)) /\
    (zlen R < ef -> forall x, In x vis -> In x (map fst C) \/ exc x \/ expanded vis x).

  Lemma trim_noop : forall n R, zlen R <= ef -> trim n ef R = R.
  Proof.
    intros [|n] R H; cbn [Hnsw.trim]; [reflexivity|].
    destruct (ef <? zlen R) eqn:E; [apply Z.ltb_lt in E; lia|reflexivity].
  Qed.
  Lemma trim_ge : forall n R, ef <= zlen R -> ef <= zlen (trim n ef R).
  Proof.
    destruct Hr as [_ [Hpop _]].
    induction n as [|n IH]; intros R H; cbn [Hnsw.trim]; [exact H|].
    destruct (ef <? zlen R) eqn:E; [|exact H]. apply Z.ltb_lt in E.
    destruct (rpop R) as [[x R']|] eqn:Ep; [|exact H].
    apply IH. apply Hpop in Ep. apply Permutation_length in Ep. unfold zlen in *. cbn [length] in Ep. lia.
  Qed.

  Lemma nbrs_Univ : forall x y, In y (nbrs m x layer) -> In y Univ.
  Proof. intros x y H. right. apply mentioned_entries. eapply nbrs_mentioned. exact H. Qed.

  Lemma visit_INV : forall exc C R vis n, INV exc C R vis -> In n Univ ->
    match visit m q ef (C, R, vis) n with
    | (C', R', vis') =>
        INV exc C' R' vis' /\ In n vis' /\ incl vis vis' /\
        (length C' + length vis <= length C + length vis')%nat /\
        (ef <= zlen R -> ef <= zlen R')
    end.
  Proof.
    destruct Hc as [Hcpush _]. destruct Hr as [Hrpush _].
    intros exc C R vis n [Ha [Hn [Hi [Hd He]]]] Hu. cbn [Hnsw.visit].
    destruct (memz n vis) eqn:Ev.
    { apply memz_In in Ev. repeat split; try assumption; try (apply incl_refl); try lia; auto. }
    apply memz_false in Ev.
    assert (Hn' : NoDup (n :: vis)) by (constructor; assumption).
    assert (Hi' : incl (n :: vis) Univ) by (intros x [<-|Hx]; [exact Hu|apply Hi; exact Hx]).
    assert (Hexp : forall x, expanded vis x -> expanded (n :: vis) x) by (intros x Hx y Hy; right; apply Hx; exact Hy).
    set (d := node_distance V D dist top m q n).
    destruct (zlen R <? ef) eqn:Elt; cbn [orb].
    - (* room in the result heap: pushed, nothing evicted *)
      apply Z.ltb_lt in Elt.
      assert (Hl1 : zlen (rpush (n, d) R) = zlen R + 1).
      { pose proof (Permutation_length (Hrpush (n, d) R)) as Hp. unfold zlen. rewrite Hp. cbn [length]. lia. }
      rewrite trim_noop by lia.
      split; [|split; [left; reflexivity|split; [apply incl_tl, incl_refl|split]]].
      + split; [right; exact Ha|]. split; [exact Hn'|]. split; [exact Hi'|]. split.
        * intros _ x Hx. eapply Permutation_in; [symmetry; apply Permutation_map, Hrpush|].
          cbn [map fst]. destruct Hx as [<-|Hx]; [left; reflexivity|right; apply Hd; assumption].
        * intros _ x Hx. destruct Hx as [<-|Hx].
          -- left. eapply Permutation_in; [symmetry; apply Permutation_map, Hcpush|]. left. reflexivity.
          -- destruct (He Elt x Hx) as [H|[H|H]].
             ++ left. eapply Permutation_in; [symmetry; apply Permutation_map, Hcpush|]. right. exact H.
             ++ right. left. exact H.
             ++ right. right. apply Hexp. exact H.
      + pose proof (Permutation_length (Hcpush (n, d) C)) as Hp. rewrite Hp. cbn [length]. lia.
      + intro H. lia.
    - (* the result heap is full *)
      apply Z.ltb_ge in Elt.
      match goal with |- context [if ?c then _ else _] => destruct c end.
      + assert (Hge : ef <= zlen (trim (length (rpush (n, d) R)) ef (rpush (n, d) R))).
        { apply trim_ge. pose proof (Permutation_length (Hrpush (n, d) R)) as Hp. unfold zlen in *. rewrite Hp. cbn [length]. lia. }
        split; [|split; [left; reflexivity|split; [apply incl_tl, incl_refl|split]]].
        * split; [right; exact Ha|]. split; [exact Hn'|]. split; [exact Hi'|]. split; intro; lia.
        * pose proof (Permutation_length (Hcpush (n, d) C)) as Hp. rewrite Hp. cbn [length]. lia.
        * intro. exact Hge.
      + split; [|split; [left; reflexivity|split; [apply incl_tl, incl_refl|split]]].
        * split; [right; exact Ha|]. split; [exact Hn'|]. split; [exact Hi'|]. split; intro; lia.
        * cbn [length]. lia.
        * auto.
  Qed.

  Lemma fold_visit_INV : forall exc ns C R vis, INV exc C R vis -> incl ns Univ ->
    match fold_left (visit m q ef) ns (C, R, vis) with
    | (C', R', vis') =>
        INV exc C' R' vis' /\ incl ns vis' /\ incl vis vis' /\
        (length C' + length vis <= length C + length vis')%nat /\
        (ef <= zlen R -> ef <= zlen R')
    end.
  Proof.
    intros exc. induction ns as [|n t IH]; intros C R vis HI Hu; cbn [fold_left].
    - split; [exact HI|]. split; [intros ? []|]. split; [apply incl_refl|]. split; [lia|auto].
    - pose proof (visit_INV exc C R vis n HI (Hu n (or_introl eq_refl))) as H1.
      destruct (visit m q ef (C, R, vis) n) as [[C1 R1] vis1]. destruct H1 as [I1 [N1 [S1 [L1 G1]]]].
      pose proof (IH C1 R1 vis1 I1 (fun x Hx => Hu x (or_intror Hx))) as H2.
      destruct (fold_left (visit m q ef) t (C1, R1, vis1)) as [[C2 R2] vis2]. destruct H2 as [I2 [N2 [S2 [L2 G2]]]].
      split; [exact I2|]. split; [|split; [|split]].
      + intros x [<-|Hx]; [apply S2; exact N1|apply N2; exact Hx].
      + intros x Hx. apply S2, S1, Hx.
      + lia.
      + auto.
  Qed.

  Definition GOAL (R : list elt) : Prop := ef <= zlen R \/ forall x, reachL ep x -> In x (map fst R).

  Lemma closed_reach : forall R vis, INV (fun _ => False) [] R vis -> zlen R < ef ->
    forall x, reachL ep x -> In x vis.
  Proof.
    intros R vis [Ha [_ [_ [_ He]]]] Hlt x Hx. induction Hx as [|x y _ IH Hy]; [exact Ha|].
    destruct (He Hlt x IH) as [[]|[[]|H]]. apply H. exact Hy.
  Qed.

  Lemma sl_loop_GOAL : forall fuel C R vis, INV (fun _ => False) C R vis ->
    (length C + length Univ < fuel + length vis)%nat ->
    GOAL (sl_loop fuel m q ef layer C R vis).
  Proof.
    destruct Hc as [_ [Hcpop Hcnil]].
    induction fuel as [|f IH]; intros C R vis HI Hb.
    - exfalso. destruct HI as [_ [Hn [Hi _]]]. pose proof (NoDup_incl_length Hn Hi). lia.
    - cbn [Hnsw.sl_loop]. destruct (cpop C) as [[cur C']|] eqn:Ep.
      + match goal with |- context [if ?c then _ else _] => destruct c eqn:Eb end.
        { left. destruct (rpeek R); [|discriminate]. apply andb_true_iff in Eb. destruct Eb as [_ Eb].
          apply Z.leb_le in Eb. exact Eb. }
        pose proof (Hcpop _ _ _ Ep) as Hperm.
        assert (HI' : INV (fun x => x = fst cur) C' R vis).
        { destruct HI as [Ha [Hn [Hi [Hd He]]]]. repeat split; try assumption.
          intros Hlt x Hx. destruct (He Hlt x Hx) as [H|[[]|H]]; [|right; right; exact H].
          apply (Permutation_in _ (Permutation_map fst Hperm)) in H. cbn [map] in H.
          destruct H as [H|H]; [right; left; symmetry; exact H|left; exact H]. }
        pose proof (fold_visit_INV _ (nbrs m (fst cur) layer) C' R vis HI' (fun y Hy => nbrs_Univ (fst cur) y Hy)) as H1.
        destruct (fold_left (visit m q ef) (nbrs m (fst cur) layer) (C', R, vis)) as [[C2 R2] vis2].
        destruct H1 as [[Ha2 [Hn2 [Hi2 [Hd2 He2]]]] [N2 [S2 [L2 G2]]]].
        apply IH.
        * repeat split; try assumption. intros Hlt x Hx.
          destruct (He2 Hlt x Hx) as [H|[H|H]]; [left; exact H| |right; right; exact H].
          right. right. subst x. intros y Hy. apply N2. exact Hy.
        * apply Permutation_length in Hperm. cbn [length] in Hperm. lia.
      + apply Hcnil in Ep. subst C. destruct (Z_lt_le_dec (zlen R) ef) as [Hlt|Hge]; [|left; exact Hge].
        right. intros x Hx. destruct HI as [Ha [Hn [Hi [Hd He]]]]. apply Hd; [exact Hlt|].
        eapply closed_reach; [|exact Hlt|exact Hx]. repeat split; assumption.
  Qed.

  (** the beam search returns [ef] entries or every node reachable from its start *)
  Lemma search_layer_complete : forall U, NoDup U -> (forall x, In x U -> reachL ep x) ->
    Z.min ef (zlen U) <= zlen (search_layer m q ep ef layer).
  Proof.
    destruct Hc as [Hcpush _]. destruct Hr as [Hrpush _].
    intros U Hn Hu. unfold Hnsw.search_layer. cbv zeta.
    set (d := node_distance V D dist top m q ep).
    assert (H0 : INV (fun _ => False) (cpush (ep, d) []) (rpush (ep, d) []) [ep]).
    { split; [left; reflexivity|]. split; [constructor; [intros []|constructor]|]. split.
      - intros x [<-|[]]. left. reflexivity.
      - split; intros _ x [<-|[]].
        + eapply Permutation_in; [symmetry; apply Permutation_map, Hrpush|]. left. reflexivity.
        + left. eapply Permutation_in; [symmetry; apply Permutation_map, Hcpush|]. left. reflexivity. }
    assert (Hb : (length (cpush (ep, d) []) + length Univ < fuel_of m + length [ep])%nat).
    { rewrite (Permutation_length (Hcpush (ep, d) [])). unfold Univ. cbn [length].
      pose proof (fuel_entries V m). lia. }
    pose proof (sl_loop_GOAL _ _ _ _ H0 Hb) as HG.
    set (R := sl_loop (fuel_of m) m q ef layer (cpush (ep, d) []) (rpush (ep, d) []) [ep]) in *.
    pose proof (sort_by_len D leb R) as Hlen.
    destruct HG as [HG|HG]; unfold zlen in *; unfold Hnsw.elt in *; rewrite Hlen; [lia|].
    assert (Hincl : incl U (map fst R)) by (intros x Hx; apply HG, Hu, Hx).
    pose proof (NoDup_incl_length Hn Hincl) as Hl. rewrite map_length in Hl. lia.
  Qed.
End Complete.

(** search_with_ef: [min k r] results, r = number of nodes layer-0-reachable from the start *)
Section CompleteTop.
  Variable V D : Type.
  Variable X : ext V D.
  Hypothesis HX : ext_ok X.

  Lemma reach0_reachL : forall (m : nodemap V) a x, reach0 m a x -> reachL V m 0%nat a x.
  Proof.
    intros m a x H. induction H as [|x y _ IH Hy]; [constructor|]. econstructor; eassumption.
  Qed.

  Lemma search_complete_l : forall (s : state V) q k ef a U,
    xstart X s q = Some a -> nodes s <> [] ->
    NoDup U -> (forall x, In x U -> reach0 (nodes s) a x) ->
    Z.min (Z.max 0 k) (zlen U) <= zlen (xsearch X s q k ef).
  Proof.
    destruct HX as [_ [Hc Hr]].
    intros s q k ef a U Hs Hne Hn Hu. unfold xsearch, Hnsw.search_with_ef. unfold xstart in Hs.
    destruct (entry s) as [ep|]; [|discriminate]. cbn [option_map] in Hs. inversion Hs as [Ha]; clear Hs.
    destruct (nodes s) as [|kv t] eqn:Em; [congruence|]. rewrite <- Em in *.
    rewrite takez_len.
    pose proof (search_layer_complete V D (x_dist X) (x_top X) (x_leb X) (x_ltb X) (x_cpush X) (x_cpop X)
                  (x_rpush X) (x_rpop X) (x_rpeek X) Hc Hr (nodes s) q a (Z.max ef k) 0%nat U Hn
                  (fun x Hx => reach0_reachL _ _ _ (Hu x Hx))) as H.
    rewrite Ha. pose proof (zlen_nonneg _ U).
    match type of H with _ <= zlen ?L => pose proof (zlen_nonneg _ L) end. lia.
  Qed.
End CompleteTop.
