(** C18 — model of [brute_force_knn] (index/vector/mod.rs): map every vector to its distance,
    stable sort by [partial_cmp(..).unwrap_or(Equal)], truncate to k.  Ties therefore stay in
    input order.  No proofs in this file. *)
From Coq Require Import ZArith List Bool.
From GV Require Export Vec.Hnsw.
Import ListNotations.
Open Scope Z_scope.

Section Brute.
  Variable V D : Type.
  Variable dist : V -> V -> D.
  (** [leb a b] = "[a.partial_cmp(b)] is not Greater" (IEEE [<=] on non-NaN distances) *)
  Variable leb : D -> D -> bool.

  Definition scored (xs : list (Z * V)) (q : V) : list (Z * D) :=
    map (fun p => (fst p, dist q (snd p))) xs.
  Definition brute_force_knn (xs : list (Z * V)) (q : V) (k : Z) : list (Z * D) :=
    takez k (sort_by leb (scored xs q)).
  (** brute_force_knn_filtered: the same after [filter(predicate)] *)
  Definition brute_force_knn_filtered (xs : list (Z * V)) (q : V) (k : Z) (p : Z -> bool) : list (Z * D) :=
    brute_force_knn (filter (fun e => p (fst e)) xs) q k.
End Brute.
Arguments scored {V D}.
Arguments brute_force_knn {V D}.
Arguments brute_force_knn_filtered {V D}.
