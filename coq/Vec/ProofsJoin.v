(** C18 — VectorJoinOperator (model in Vec/Wrap.v, Section Join): outside the finding class
    [k_join_boundary] the operator outputs exactly [join_spec] in chunks of 1..cap rows and
    terminates; inside the class it can repeat the same chunk for ever. *)
From Coq Require Import ZArith List Bool Lia Arith PeanoNat.
From GV Require Import Vec.Wrap.
Import ListNotations.
Local Open Scope nat_scope.

Section JoinProofs.
  Variable L R : Type.
  Notation row := (L * list R)%type.

  (** what is still to be output from the state (rest, cur) *)
  Definition jrem (rest : list row) (cur : list R) : list (L * R) :=
    match rest with
    | (l, _) :: t => map (fun x => (l, x)) cur ++ join_spec t
    | [] => []
    end.

  Lemma join_spec_cons : forall (l : L) (rs : list R) (t : list row),
    join_spec ((l, rs) :: t) = map (fun x => (l, x)) rs ++ join_spec t.
  Proof. reflexivity. Qed.

  Lemma prefix_hits_cons : forall (cap acc : nat) (l : L) (rs : list R) (t : list row),
    prefix_hits cap acc ((l, rs) :: t) =
    (negb (Nat.eqb (length rs) 0) && Nat.eqb ((acc + length rs) mod cap) 0)
    || prefix_hits cap (acc + length rs) t.
  Proof. reflexivity. Qed.

  Lemma prefix_hits_nil_row : forall (cap acc : nat) (l : L) (t : list row),
    prefix_hits cap acc ((l, @nil R) :: t) = prefix_hits cap acc t.
  Proof.
    intros cap acc l t. rewrite prefix_hits_cons.
    cbn [length Nat.eqb negb andb orb]. rewrite Nat.add_0_r. reflexivity.
  Qed.

  Lemma prefix_hits_shift : forall (cap : nat) (rows : list row) (acc : nat),
    cap <> 0 -> prefix_hits cap (acc + cap) rows = prefix_hits cap acc rows.
  Proof.
    intros cap rows. induction rows as [|[l rs] t IH]; intros acc Hcap.
    - reflexivity.
    - rewrite !prefix_hits_cons.
      replace (acc + cap + length rs) with ((acc + length rs) + 1 * cap) by lia.
      rewrite Nat.mod_add by exact Hcap.
      replace (acc + length rs + 1 * cap) with ((acc + length rs) + cap) by lia.
      rewrite IH by exact Hcap. reflexivity.
  Qed.

  (** ---- advance_left ---- *)
  Lemma advance_left_none : forall rest : list row,
    advance_left rest = None -> join_spec rest = [].
  Proof.
    induction rest as [|[l rs] t IH]; intros H.
    - reflexivity.
    - cbn [advance_left] in H. destruct rs as [|r rs'].
      + rewrite join_spec_cons. cbn [map app]. apply IH. exact H.
      + discriminate H.
  Qed.

  Lemma advance_left_some : forall (cap : nat) (rest rest' : list row) (cur' : list R),
    advance_left rest = Some (rest', cur') ->
    exists l' t', rest' = (l', cur') :: t' /\ cur' <> [] /\
      join_spec rest = jrem rest' cur' /\
      forall acc, prefix_hits cap acc rest = prefix_hits cap acc rest'.
  Proof.
    intros cap. induction rest as [|[l rs] t IH]; intros rest' cur' H.
    - discriminate H.
    - cbn [advance_left] in H. destruct rs as [|r rs'].
      + destruct (IH _ _ H) as (l' & t' & E1 & E2 & E3 & E4).
        exists l', t'. split; [exact E1|]. split; [exact E2|]. split.
        * rewrite join_spec_cons. cbn [map app]. exact E3.
        * intros acc. rewrite prefix_hits_nil_row. apply E4.
      + inversion H; subst rest' cur'. exists l, t.
        split; [reflexivity|]. split; [discriminate|]. split.
        * reflexivity.
        * intros acc. reflexivity.
  Qed.

  (** ---- unfolding of fill ---- *)
  Lemma fill_cons : forall n (l : L) (rs : list R) (t : list row) c cur exh out,
    fill (S n) ((l, rs) :: t) (c :: cur) exh out = fill n ((l, rs) :: t) cur exh (out ++ [(l, c)]).
  Proof. reflexivity. Qed.

  Lemma fill_nil_none : forall n (l : L) (rs : list R) (t : list row) exh out,
    advance_left t = None ->
    fill (S n) ((l, rs) :: t) [] exh out = ([], [], true, out).
  Proof. intros n l rs t exh out H. cbn [fill tl]. rewrite H. reflexivity. Qed.

  Lemma fill_nil_some : forall n (l : L) (rs : list R) (t : list row) exh out l1 rs1 t1 c1 cur1,
    advance_left t = Some ((l1, rs1) :: t1, c1 :: cur1) ->
    fill (S n) ((l, rs) :: t) [] exh out = fill n ((l1, rs1) :: t1) cur1 exh (out ++ [(l1, c1)]).
  Proof. intros n l rs t exh out l1 rs1 t1 c1 cur1 H. cbn [fill tl]. rewrite H. reflexivity. Qed.

  (** ---- the invariant of the fill loop: [acc] rows are already in the chunk ---- *)
  Definition J (cap acc : nat) (rest : list row) (cur : list R) : Prop :=
    match rest with
    | (l, _) :: t => prefix_hits cap acc ((l, cur) :: t) = false /\ (cur = [] -> acc mod cap <> 0)
    | [] => False
    end.

  Lemma J_step : forall cap acc (l : L) (rs : list R) c cur' (t : list row),
    prefix_hits cap acc ((l, c :: cur') :: t) = false ->
    J cap (S acc) ((l, rs) :: t) cur'.
  Proof.
    intros cap acc l rs c cur' t H.
    rewrite prefix_hits_cons in H. apply orb_false_elim in H. destruct H as [H1 H2].
    cbn [length Nat.eqb negb andb] in H1. apply Nat.eqb_neq in H1.
    unfold J. split.
    - rewrite prefix_hits_cons.
      replace (S acc + length cur') with (acc + S (length cur')) by lia.
      apply orb_false_intro; [|exact H2].
      destruct cur' as [|r cur''].
      + reflexivity.
      + cbn [length Nat.eqb negb andb]. apply Nat.eqb_neq. exact H1.
    - intros E. subst cur'. cbn [length] in H1.
      replace (S acc) with (acc + 1) by lia. exact H1.
  Qed.

  Lemma fill_spec : forall cap n acc rest cur out,
    J cap acc rest cur ->
    exists rest' cur' exh' out',
      fill n rest cur false out = (rest', cur', exh', out') /\
      ((exh' = true /\ rest' = [] /\ cur' = [] /\ out' = out ++ jrem rest cur /\
        length (jrem rest cur) < n) \/
       (exh' = false /\ J cap (acc + n) rest' cur' /\ out' = out ++ firstn n (jrem rest cur) /\
        jrem rest' cur' = skipn n (jrem rest cur) /\ n <= length (jrem rest cur))).
  Proof.
    intros cap. induction n as [|n IH]; intros acc rest cur out HJ.
    - exists rest, cur, false, out. split; [reflexivity|]. right.
      rewrite Nat.add_0_r. cbn [firstn skipn]. rewrite app_nil_r.
      split; [reflexivity|]. split; [exact HJ|]. split; [reflexivity|]. split; [reflexivity|]. lia.
    - destruct rest as [|[l rs] t]; [destruct HJ|]. destruct HJ as [HP HN].
      destruct cur as [|c cur0].
      + (* the current row is finished *)
        rewrite prefix_hits_nil_row in HP.
        destruct (advance_left t) as [[rest1 cur1]|] eqn:EA.
        * destruct (advance_left_some cap _ _ _ EA) as (l1 & t1 & E1 & E2 & E3 & E4).
          destruct cur1 as [|c1 cur1']; [congruence|]. subst rest1.
          rewrite (fill_nil_some n l rs t false out _ _ _ _ _ EA).
          assert (HJ' : J cap (S acc) ((l1, c1 :: cur1') :: t1) cur1').
          { apply J_step with (c := c1). rewrite <- E4. exact HP. }
          destruct (IH (S acc) _ _ (out ++ [(l1, c1)]) HJ') as (rest' & cur' & exh' & out' & EF & HR).
          exists rest', cur', exh', out'. split; [exact EF|].
          assert (ER : jrem ((l, rs) :: t) [] = (l1, c1) :: jrem ((l1, c1 :: cur1') :: t1) cur1').
          { unfold jrem at 1. cbn [map app]. rewrite E3. reflexivity. }
          rewrite ER.
          destruct HR as [(Ee & Er & Ec & Eo & HL) | (Ee & HJ2 & Eo & ER2 & HL)].
          -- left. split; [exact Ee|]. split; [exact Er|]. split; [exact Ec|]. split.
             ++ rewrite Eo. rewrite <- app_assoc. reflexivity.
             ++ cbn [length]. lia.
          -- right. split; [exact Ee|]. split.
             ++ replace (acc + S n) with (S acc + n) by lia. exact HJ2.
             ++ split.
                ** rewrite Eo. rewrite <- app_assoc. reflexivity.
                ** split; [exact ER2|]. cbn [length]. lia.
        * rewrite (fill_nil_none n l rs t false out EA).
          exists [], [], true, out. split; [reflexivity|]. left.
          assert (ER : jrem ((l, rs) :: t) [] = []).
          { unfold jrem. cbn [map app]. apply advance_left_none. exact EA. }
          rewrite ER. rewrite app_nil_r.
          split; [reflexivity|]. split; [reflexivity|]. split; [reflexivity|]. split; [reflexivity|].
          cbn [length]. lia.
      + (* one more result of the current row *)
        rewrite fill_cons.
        assert (HJ' : J cap (S acc) ((l, rs) :: t) cur0).
        { apply J_step with (c := c). exact HP. }
        destruct (IH (S acc) _ _ (out ++ [(l, c)]) HJ') as (rest' & cur' & exh' & out' & EF & HR).
        exists rest', cur', exh', out'. split; [exact EF|].
        assert (ER : jrem ((l, rs) :: t) (c :: cur0) = (l, c) :: jrem ((l, rs) :: t) cur0).
        { reflexivity. }
        rewrite ER.
        destruct HR as [(Ee & Er & Ec & Eo & HL) | (Ee & HJ2 & Eo & ER2 & HL)].
        * left. split; [exact Ee|]. split; [exact Er|]. split; [exact Ec|]. split.
          -- rewrite Eo. rewrite <- app_assoc. reflexivity.
          -- cbn [length]. lia.
        * right. split; [exact Ee|]. split.
          -- replace (acc + S n) with (S acc + n) by lia. exact HJ2.
          -- split.
             ++ rewrite Eo. rewrite <- app_assoc. reflexivity.
             ++ split; [exact ER2|]. cbn [length]. lia.
  Qed.

  (** ---- one call of next() ---- *)
  Lemma jrun_S : forall f cap (st : jstate L R),
    jrun_pre (S f) cap st =
    match jnext_pre cap st with
    | (_, None) => ([], true)
    | (st', Some ch) => let '(chs, fin) := jrun_pre f cap st' in (ch :: chs, fin)
    end.
  Proof. reflexivity. Qed.

  Lemma jnext_cur : forall cap (rest : list row) (cur : list R) rest' cur' exh' out,
    cur <> [] -> out <> [] ->
    fill cap rest cur false [] = (rest', cur', exh', out) ->
    jnext_pre cap (mk_j rest cur false) = (mk_j rest' cur' exh', Some out).
  Proof.
    intros cap rest cur rest' cur' exh' out Hc Ho EF.
    unfold jnext_pre. cbn [j_exhausted j_cur j_rest andb].
    destruct cur as [|c cur0]; [congruence|].
    rewrite EF. destruct out as [|o out0]; [congruence|]. reflexivity.
  Qed.

  Lemma jnext_done : forall cap, jnext_pre cap (mk_j (@nil row) (@nil R) true) = (mk_j [] [] true, None).
  Proof. reflexivity. Qed.

  Lemma jnext_init_some : forall cap (rows rest' : list row) (cur' : list R),
    cur' <> [] -> advance_left rows = Some (rest', cur') ->
    jnext_pre cap (jinit rows) = jnext_pre cap (mk_j rest' cur' false).
  Proof.
    intros cap rows rest' cur' Hc EA.
    unfold jnext_pre, jinit. cbn [j_exhausted j_cur j_rest andb]. rewrite EA.
    destruct cur' as [|c cur0]; [congruence|]. reflexivity.
  Qed.

  Lemma jnext_init_none : forall cap (rows : list row),
    advance_left rows = None -> jnext_pre cap (jinit rows) = (mk_j [] [] true, None).
  Proof.
    intros cap rows EA. unfold jnext_pre, jinit. cbn [j_exhausted j_cur j_rest andb].
    rewrite EA. reflexivity.
  Qed.

  (** ---- the whole run from a state at the start of a call ---- *)
  Lemma jrun_from : forall cap, 1 <= cap -> forall m (rest : list row) (cur : list R),
    length (jrem rest cur) <= m -> J cap 0 rest cur ->
    exists fuel chs, jrun_pre fuel cap (mk_j rest cur false) = (chs, true) /\
      concat chs = jrem rest cur /\ Forall (fun ch => 1 <= length ch <= cap) chs.
  Proof.
    intros cap Hcap. assert (Hc0 : cap <> 0) by lia.
    induction m as [|m IH]; intros rest cur Hlen HJ.
    - exfalso. destruct rest as [|[l rs] t]; [exact HJ|]. destruct HJ as [_ HN].
      destruct cur as [|c cur0].
      + apply HN; [reflexivity|]. apply Nat.mod_0_l. exact Hc0.
      + cbn [jrem map app length] in Hlen. lia.
    - assert (Hcur : cur <> []).
      { destruct rest as [|[l rs] t]; [destruct HJ|]. destruct HJ as [_ HN].
        intros E. apply HN; [exact E|]. apply Nat.mod_0_l. exact Hc0. }
      assert (Hpos : 1 <= length (jrem rest cur)).
      { destruct rest as [|[l rs] t]; [destruct HJ|]. destruct cur as [|c cur0]; [congruence|].
        cbn [jrem map app length]. lia. }
      destruct (fill_spec cap cap 0 rest cur [] HJ) as (rest' & cur' & exh' & out' & EF & HR).
      destruct HR as [(Ee & Er & Ec & Eo & HL) | (Ee & HJ2 & Eo & ER2 & HL)].
      + (* last chunk *)
        subst exh' rest' cur'. cbn [app] in Eo.
        assert (Ho : out' <> []).
        { rewrite Eo. intros E. rewrite E in Hpos. cbn [length] in Hpos. lia. }
        exists 2, [out']. split.
        * rewrite jrun_S. rewrite (jnext_cur cap rest cur _ _ _ _ Hcur Ho EF).
          rewrite jrun_S. rewrite jnext_done. reflexivity.
        * split.
          -- cbn [concat]. rewrite app_nil_r. exact Eo.
          -- constructor; [|constructor]. rewrite Eo. lia.
      + (* a full chunk, more to come *)
        subst exh'. cbn [app] in Eo. cbn [Nat.add] in HJ2.
        assert (Hlo : length out' = cap).
        { rewrite Eo. apply firstn_length_le. exact HL. }
        assert (Ho : out' <> []).
        { intros E. rewrite E in Hlo. cbn [length] in Hlo. lia. }
        assert (HJ3 : J cap 0 rest' cur').
        { destruct rest' as [|[l' rs'] t']; [exact HJ2|]. destruct HJ2 as [HP2 HN2].
          assert (Hc' : cur' <> []).
          { intros E. apply (HN2 E). apply Nat.mod_same. exact Hc0. }
          split.
          - rewrite <- (prefix_hits_shift cap _ 0 Hc0). cbn [Nat.add]. exact HP2.
          - intros E. contradiction. }
        assert (Hlen' : length (jrem rest' cur') <= m).
        { rewrite ER2. rewrite skipn_length. lia. }
        destruct (IH rest' cur' Hlen' HJ3) as (fuel & chs & ERun & EC & HF).
        exists (S fuel), (out' :: chs). split.
        * rewrite jrun_S. rewrite (jnext_cur cap rest cur _ _ _ _ Hcur Ho EF).
          rewrite ERun. reflexivity.
        * split.
          -- cbn [concat]. rewrite EC, ER2, Eo. apply firstn_skipn.
          -- constructor; [|exact HF]. lia.
  Qed.
End JoinProofs.

Lemma join_is_row_by_row_l : forall (L R : Type) (cap : nat) (rows : list (L * list R)),
  (1 <= cap)%nat -> k_join_boundary cap rows = false ->
  exists fuel chs, jrun_pre fuel cap (jinit rows) = (chs, true) /\ concat chs = join_spec rows /\
                   Forall (fun ch => (1 <= length ch <= cap)%nat) chs.
Proof.
  intros L R cap rows Hcap HK. unfold k_join_boundary in HK.
  destruct (advance_left rows) as [[rest' cur']|] eqn:EA.
  - destruct (advance_left_some L R cap _ _ _ EA) as (l' & t' & E1 & E2 & E3 & E4).
    assert (HJ : J L R cap 0 rest' cur').
    { subst rest'. split.
      - rewrite <- E4. exact HK.
      - intros E. contradiction. }
    destruct (jrun_from L R cap Hcap _ rest' cur' (le_n _) HJ) as (fuel & chs & ERun & EC & HF).
    destruct fuel as [|f]; [discriminate ERun|].
    exists (S f), chs. split.
    + rewrite jrun_S. rewrite (jnext_init_some L R cap rows rest' cur' E2 EA).
      rewrite <- jrun_S. exact ERun.
    + split; [|exact HF]. rewrite EC. symmetry. exact E3.
  - exists 1%nat, []. split.
    + rewrite jrun_S. rewrite (jnext_init_none L R cap rows EA). reflexivity.
    + split; [|constructor]. cbn [concat]. symmetry. apply advance_left_none. exact EA.
Qed.

Lemma join_refuted_l : exists (cap : nat) (rows : list (Z * list Z)),
  (1 <= cap)%nat /\ k_join_boundary cap rows = true /\
  forall fuel, exists ch, jrun_pre fuel cap (jinit rows) = (repeat ch fuel, false).
Proof.
  exists 2%nat, [(0%Z, [10%Z; 11%Z]); (1%Z, [20%Z; 21%Z])].
  split; [lia|]. split; [vm_compute; reflexivity|].
  intros fuel. exists [(0%Z, 10%Z); (0%Z, 11%Z)].
  assert (Hstep : jnext_pre 2 (jinit [(0%Z, [10%Z; 11%Z]); (1%Z, [20%Z; 21%Z])]) =
                  (jinit [(0%Z, [10%Z; 11%Z]); (1%Z, [20%Z; 21%Z])],
                   Some [(0%Z, 10%Z); (0%Z, 11%Z)])).
  { vm_compute. reflexivity. }
  induction fuel as [|f IH].
  - reflexivity.
  - rewrite jrun_S. rewrite Hstep. rewrite IH. reflexivity.
Qed.
