(** C18 — binary32 values as bit patterns (DESIGN §4): decoding to a dyadic rational and the
    exact tests used to compare an implementation result with the exact model value.
    No float arithmetic is modelled. *)
From Coq Require Import ZArith List Bool.
Open Scope Z_scope.

(** [Some (m, e)]: the finite value m * 2^e;  [None]: infinity or NaN *)
Definition f32_decode (bits : Z) : option (Z * Z) :=
  let sign := bits / 2 ^ 31 in
  let ex := (bits / 2 ^ 23) mod 256 in
  let fr := bits mod 2 ^ 23 in
  let sg (m : Z) := if sign =? 0 then m else - m in
  if ex =? 255 then None
  else if ex =? 0 then Some (sg fr, -149)
  else Some (sg (2 ^ 23 + fr), ex - 150).

(** value = num / den   (den > 0) *)
Definition f32_is_ratio (bits num den : Z) : bool :=
  match f32_decode bits with
  | None => false
  | Some (m, e) => if 0 <=? e then m * 2 ^ e * den =? num else m * den =? num * 2 ^ (- e)
  end.
Definition f32_is_int (bits z : Z) : bool := f32_is_ratio bits z 1.

(** value = the binary32 nearest to sqrt n (what IEEE [sqrt] returns), n >= 0 an integer < 2^24 *)
Definition f32_is_sqrt (bits n : Z) : bool :=
  if n =? 0 then bits =? 0 else
  match f32_decode bits with
  | None => false
  | Some (m, e) =>
      (0 <? m) &&
      (let g := if m =? 2 ^ 23 then 1 else 2 in
       let lo := (4 * m - g) * (4 * m - g) in
       let hi := (4 * m + 2) * (4 * m + 2) in
       if 0 <=? e then (lo * 4 ^ e <? 16 * n) && (16 * n <? hi * 4 ^ e)
       else (lo <? 16 * n * 4 ^ (- e)) && (16 * n * 4 ^ (- e) <? hi))
  end.
