(** C18 — the distance kernels of index/vector/{distance,simd}.rs over an exact ring.

    Every kernel of simd.rs has the same shape (dot_product_avx2 l.265, euclidean_squared_avx2
    l.295, cosine_distance_avx2 l.324 (three accumulators), manhattan_distance_avx2 l.362, the
    _sse variants l.417-539 with W = 4, the _neon variants with W = 4, the scalar loops with no
    vector part):

        acc = [0; W]
        while i + W <= n { acc[j] += term(a[i+j], b[i+j])  for j in 0..W ;  i += W }
        result = horizontal_sum(acc)
        while i < n { result += term(a[i], b[i]) ; i += 1 }

    [lanes] is that evaluation, [plain] is the definition (the scalar loop).  The per-index term
    is a parameter ([x*y], [(x-y)^2], [|x-y|]), the accumulation is over any type with an
    addition: a kernel that skipped or repeated an index would not satisfy [kernel_lanes] for an
    uninterpreted [term].  Float rounding is NOT modelled (DESIGN §4): the tie to the code uses
    inputs on which f32 arithmetic is exact.  No proofs in this file. *)
From Coq Require Import ZArith List Bool.
Import ListNotations.
Open Scope Z_scope.

Section Lanes.
  Variable R : Type.
  Variable zero : R.
  Variable add : R -> R -> R.
  Variable A : Type.
  Variable term : A -> A -> R.

  (** the definition: the scalar loop [for i in 0..n { sum += term(a[i], b[i]) }] *)
  Definition plain (a b : list A) : R :=
    fold_left (fun s p => add s (term (fst p) (snd p))) (combine a b) zero.

  (** acc[j] += t[j] *)
  Fixpoint zip_add (acc ts : list R) : list R :=
    match acc, ts with
    | x :: acc', y :: ts' => add x y :: zip_add acc' ts'
    | _, _ => acc
    end.

  (** the vector loop: consumes whole blocks of W pairs, returns the accumulators and the tail *)
  Fixpoint blocks (fuel : nat) (W : nat) (ps : list (A * A)) (acc : list R) : list R * list (A * A) :=
    match fuel with
    | O => (acc, ps)
    | S f =>
      if Nat.leb W (length ps)
      then blocks f W (skipn W ps) (zip_add acc (map (fun p => term (fst p) (snd p)) (firstn W ps)))
      else (acc, ps)
    end.

  (** horizontal_sum_avx2: (hi + lo) lane-wise, then movehdup/add, then movehl/add_ss *)
  Definition hsum8 (l : list R) : R :=
    match l with
    | [l0; l1; l2; l3; l4; l5; l6; l7] =>
        let s0 := add l4 l0 in let s1 := add l5 l1 in let s2 := add l6 l2 in let s3 := add l7 l3 in
        add (add s0 s1) (add s2 s3)
    | _ => fold_left add l zero
    end.
  (** horizontal_sum_sse: shuffle [b,a,d,c], add, movehl, add_ss *)
  Definition hsum4 (l : list R) : R :=
    match l with
    | [a; b; c; d] => add (add a b) (add c d)
    | _ => fold_left add l zero
    end.
  Definition hsum (W : nat) (l : list R) : R :=
    match W with
    | 8%nat => hsum8 l
    | 4%nat => hsum4 l
    | _ => fold_left add l zero
    end.

  Definition lanes (W : nat) (a b : list A) : R :=
    let ps := combine a b in
    let '(acc, tail) := blocks (length ps) W ps (repeat zero W) in
    fold_left (fun s p => add s (term (fst p) (snd p))) tail (hsum W acc).
End Lanes.
Arguments plain {R} zero add {A}.
Arguments lanes {R} zero add {A}.

(** the four metrics over Z *)
Definition t_dot (x y : Z) : Z := x * y.
Definition t_sq (x y : Z) : Z := (x - y) * (x - y).
Definition t_abs (x y : Z) : Z := Z.abs (x - y).

Definition dot (a b : list Z) : Z := plain 0 Z.add t_dot a b.
Definition eucl2 (a b : list Z) : Z := plain 0 Z.add t_sq a b.
Definition manh (a b : list Z) : Z := plain 0 Z.add t_abs a b.
(** cosine_distance_*: three sums (dot, |a|^2, |b|^2); the final [1 - dot / (sqrt*sqrt + EPSILON)]
    is float arithmetic (runtime) *)
Definition cos_parts (a b : list Z) : Z * Z * Z := (dot a b, dot a a, dot b b).

Definition dot_l (W : nat) (a b : list Z) : Z := lanes 0 Z.add t_dot W a b.
Definition eucl2_l (W : nat) (a b : list Z) : Z := lanes 0 Z.add t_sq W a b.
Definition manh_l (W : nat) (a b : list Z) : Z := lanes 0 Z.add t_abs W a b.
Definition cos_parts_l (W : nat) (a b : list Z) : Z * Z * Z := (dot_l W a b, dot_l W a a, dot_l W b b).

(** DistanceMetric, with the distance as an exact integer:
      Euclidean  -> the SQUARED distance (the code returns its square root)
      DotProduct -> minus the dot product
      Manhattan  -> the L1 distance
      CosineN s2 -> s2 - dot: the pre-normalised cosine distance [1 - dot(a/s, b/s)] of HnswIndex
                    scaled by s2 = s^2, for vectors of one common squared norm s2 (or zero) *)
Inductive metric := Euclidean | DotProduct | Manhattan | CosineN (s2 : Z).
Definition zdist (mt : metric) (a b : list Z) : Z :=
  match mt with
  | Euclidean => eucl2 a b
  | DotProduct => - dot a b
  | Manhattan => manh a b
  | CosineN s2 => s2 - dot a b
  end.
Definition zdist_l (W : nat) (mt : metric) (a b : list Z) : Z :=
  match mt with
  | Euclidean => eucl2_l W a b
  | DotProduct => - dot_l W a b
  | Manhattan => manh_l W a b
  | CosineN s2 => s2 - dot_l W a b
  end.

(** cosine over the rationals: HnswIndex stores [v / |v|] and evaluates [1 - dot] *)
From Coq Require Export QArith.
Fixpoint dotq (a b : list Q) : Q :=
  match a, b with
  | x :: a', y :: b' => (x * y + dotq a' b')%Q
  | _, _ => 0%Q
  end.
(** [normalize]: divide every coordinate by the norm *)
Definition scaleq (n : Q) (a : list Q) : list Q := map (fun x => (x / n)%Q) a.
Open Scope Z_scope.
