(** C18 — proofs about the code around the index: Rust's small stable sort with a total and with
    the partial_cmp comparator (finding C18-K2), the QuantizedHnswIndex wrapper (finding C18-K3),
    the chunking of VectorScanOperator. *)
From Coq Require Import ZArith List Bool Lia Permutation Sorted.
From GV Require Import Vec.Hnsw Vec.Brute Vec.Wrap Vec.SmallSort Vec.ProofsBase Vec.Proofs.
Import ListNotations.
Open Scope Z_scope.

(** ---------------------------------------------------------------- small stable sort *)
Section SmallSortProofs.
  Context {D : Type} (is_less : D -> D -> bool).
  Notation elt := (Z * D)%type.
  (** a <= b  iff  not (b < a) *)
  Definition le_of_less (a b : D) : bool := negb (is_less b a).
  Notation geb := (not_less is_less).

  Lemma sort_by_fold : forall (g : D -> D -> bool) (m : list elt),
    sort_by g m = fold_right (fun x acc => ins_by g x acc) [] m.
  Proof. induction m as [|x t IH]; cbn [sort_by fold_right]; [reflexivity|]. rewrite IH. reflexivity. Qed.

  Lemma isort_eq : forall l : list elt, isort is_less l = rev (sort_by geb (rev l)).
  Proof.
    intro l. unfold isort. f_equal. rewrite sort_by_fold.
    symmetry. exact (fold_left_rev_right (fun (x : elt) (acc : list elt) => ins_by geb x acc) l []).
  Qed.

  Lemma isort_perm : forall l : list elt, Permutation (isort is_less l) l.
  Proof.
    intro l. rewrite isort_eq. rewrite <- Permutation_rev. rewrite sort_by_perm. symmetry. apply Permutation_rev.
  Qed.

  Lemma filter_rev' : forall (A : Type) (P : A -> bool) (l : list A), filter P (rev l) = rev (filter P l).
  Proof.
    induction l as [|x t IH]; [reflexivity|]. cbn [rev filter]. rewrite filter_app, IH. cbn [filter].
    destruct (P x); cbn [rev]; [reflexivity|]. rewrite app_nil_r. reflexivity.
  Qed.

  (** stability: the elements of one class keep their input order *)
  Lemma isort_stable : forall (P : elt -> bool),
    (forall a b, P a = true -> P b = true -> le_of_less (snd a) (snd b) = true) ->
    forall l, filter P (isort is_less l) = filter P l.
  Proof.
    intros P HP l. rewrite isort_eq, filter_rev'.
    rewrite (sort_by_stable D geb P).
    - rewrite filter_rev'. apply rev_involutive.
    - intros a b Ha Hb. unfold not_less. exact (HP b a Hb Ha).
  Qed.

  Hypothesis Hord : order_ok le_of_less.

  Lemma geb_ok : order_ok geb.
  Proof.
    destruct Hord as [Htot Htr]. unfold le_of_less in *. unfold not_less. split.
    - intros a b. destruct (Htot a b); auto.
    - intros a b c H1 H2. exact (Htr c b a H2 H1).
  Qed.

  Lemma ss_snoc : forall (R : elt -> elt -> Prop) (l : list elt) a,
    StronglySorted R l -> Forall (fun y => R y a) l -> StronglySorted R (l ++ [a]).
  Proof.
    induction l as [|x t IH]; intros a Hs Hf; cbn [app]; [repeat constructor|].
    inversion Hs as [|? ? Hs' Hx]; subst. inversion Hf as [|? ? Hxa Hf']; subst.
    constructor; [apply IH; assumption|]. apply Forall_app. split; [exact Hx|repeat constructor; exact Hxa].
  Qed.
  Lemma ss_rev : forall (R : elt -> elt -> Prop) (l : list elt),
    StronglySorted R l -> StronglySorted (fun a b => R b a) (rev l).
  Proof.
    induction l as [|x t IH]; intro Hs; cbn [rev]; [constructor|].
    inversion Hs as [|? ? Hs' Hx]; subst. apply ss_snoc; [apply IH; exact Hs'|].
    apply Forall_rev. exact Hx.
  Qed.

  Lemma isort_sorted : forall l : list elt,
    StronglySorted (fun a b => le_of_less (snd a) (snd b) = true) (isort is_less l).
  Proof.
    intro l. rewrite isort_eq.
    pose proof (sort_by_sorted D geb geb_ok (rev l)) as Hs.
    apply ss_rev in Hs. unfold le_elt in Hs. unfold not_less in Hs. exact Hs.
  Qed.

  (** brute_force_knn on at most 20 vectors with a comparator that IS a total preorder: the k
      smallest, sorted, ties in input order *)
  Lemma small_exact : forall (xs : list elt) k,
    let r := takez k (isort is_less xs) in
    zlen r = Z.min (Z.max 0 k) (zlen xs) /\
    StronglySorted (fun a b => le_of_less (snd a) (snd b) = true) r /\
    (exists rest, Permutation (r ++ rest) xs /\ forall a b, In a r -> In b rest -> le_of_less (snd a) (snd b) = true) /\
    (forall P : elt -> bool,
       (forall a b, P a = true -> P b = true -> le_of_less (snd a) (snd b) = true) ->
       exists rest', filter P xs = filter P r ++ rest').
  Proof.
    intros xs k r. unfold r.
    destruct (takez_prefix _ k (isort is_less xs)) as [rest Hrest].
    pose proof (isort_sorted xs) as Hs.
    split; [|split; [|split]].
    - rewrite takez_len. unfold zlen. rewrite (Permutation_length (isort_perm xs)). reflexivity.
    - rewrite Hrest in Hs. eapply (sorted_prefix D le_of_less). exact Hs.
    - exists rest. split.
      + pose proof (isort_perm xs) as Hp. rewrite Hrest in Hp. exact Hp.
      + rewrite Hrest in Hs. intros a b Ha Hb. eapply (sorted_split D le_of_less); eassumption.
    - intros P HP. exists (filter P rest).
      pose proof (isort_stable P HP xs) as Hp. rewrite Hrest in Hp. rewrite <- Hp. apply filter_app.
  Qed.
End SmallSortProofs.

(** extensionality: the sort only compares elements of its input *)
Lemma ins_by_ext : forall (D : Type) (g1 g2 : D -> D -> bool) (Q : Z * D -> Prop) x l,
  (forall a b, Q a -> Q b -> g1 (snd a) (snd b) = g2 (snd a) (snd b)) ->
  Q x -> Forall Q l -> ins_by g1 x l = ins_by g2 x l.
Proof.
  intros D g1 g2 Q x l Hg Hx. induction l as [|y t IH]; intro Hf; cbn [ins_by]; [reflexivity|].
  inversion Hf as [|? ? Hy Hf']; subst. rewrite (Hg x y Hx Hy). destruct (g2 (snd x) (snd y)); [reflexivity|].
  f_equal. apply IH. exact Hf'.
Qed.
Lemma isort_ext : forall (D : Type) (l1 l2 : D -> D -> bool) (Q : Z * D -> Prop) l,
  (forall a b, Q a -> Q b -> l1 (snd a) (snd b) = l2 (snd a) (snd b)) ->
  Forall Q l -> isort l1 l = isort l2 l.
Proof.
  intros D l1 l2 Q l Hg Hf. unfold isort. f_equal.
  assert (G : forall rp, Forall Q rp ->
            fold_left (fun rp x => ins_by (not_less l1) x rp) l rp = fold_left (fun rp x => ins_by (not_less l2) x rp) l rp
         ).
  { induction l as [|x t IH]; intros rp Hrp; cbn [fold_left]; [reflexivity|].
    inversion Hf as [|? ? Hx Hf']; subst.
    rewrite (ins_by_ext D (not_less l1) (not_less l2) Q x rp); [|intros a b Ha Hb; unfold not_less; rewrite (Hg a b Ha Hb); reflexivity|exact Hx|exact Hrp].
    apply IH; [exact Hf'|].
    eapply Permutation_Forall; [symmetry; apply ins_by_perm|]. constructor; assumption. }
  apply G. constructor.
Qed.

(** OrderedFloat's order on distances-or-NaN is a total preorder *)
Lemma leb_of_ok : order_ok (le_of_less lt_of).
Proof.
  unfold le_of_less. split.
  - intros [a|] [b|]; cbn [lt_of negb]; auto.
    destruct (Z.ltb_spec b a), (Z.ltb_spec a b); cbn [negb]; auto; lia.
  - intros [a|] [b|] [c|]; cbn [lt_of negb]; intros H1 H2; try reflexivity; try discriminate.
    apply negb_true_iff in H1, H2. apply negb_true_iff. apply Z.ltb_ge in H1, H2. apply Z.ltb_ge. lia.
Qed.
Lemma leb_of_eq : forall a b, leb_of a b = le_of_less lt_of a b.
Proof. reflexivity. Qed.

(** without a NaN distance the partial_cmp comparator sorts exactly like the total order *)
Lemma brute_nan_free_l : forall xs k, has_nan xs = false -> brute_small lt_pc xs k = brute_small lt_of xs k.
Proof.
  intros xs k H. unfold brute_small. f_equal.
  apply (isort_ext (option Z) lt_pc lt_of (fun e => is_nan (snd e) = false)).
  - intros [i [a|]] [j [b|]]; cbn [snd is_nan]; intros Ha Hb; try discriminate. reflexivity.
  - unfold has_nan in H. apply Forall_forall. intros e He.
    destruct (is_nan (snd e)) eqn:E; [|reflexivity].
    assert (existsb (fun p => is_nan (snd p)) xs = true) by (apply existsb_exists; exists e; auto). congruence.
Qed.

Lemma brute_small_exact_l : forall (xs : list (Z * option Z)) k,
  let r := brute_small lt_of xs k in
  zlen r = Z.min (Z.max 0 k) (zlen xs) /\
  StronglySorted (fun a b => leb_of (snd a) (snd b) = true) r /\
  (exists rest, Permutation (r ++ rest) xs /\ forall a b, In a r -> In b rest -> leb_of (snd a) (snd b) = true) /\
  (forall P : Z * option Z -> bool,
     (forall a b, P a = true -> P b = true -> leb_of (snd a) (snd b) = true) ->
     exists rest', filter P xs = filter P r ++ rest').
Proof. intros xs k. exact (small_exact lt_of leb_of_ok xs k). Qed.

(** before c04d862 (finding C18-K2, repaired; [lt_pc] = the old comparator): one NaN distance and the
    exact search returned a vector although a strictly nearer one was held *)
Lemma brute_nan_pre_refuted_l : exists (xs : list (Z * option Z)) k i d j e,
  In (i, Some d) (brute_small lt_pc xs k) /\ In (j, Some e) xs /\
  ~ In j (map fst (brute_small lt_pc xs k)) /\ e < d.
Proof.
  exists [(1, Some (-2)); (2, None); (3, Some (-4))], 1, 1, (-2), 3, (-4). vm_compute.
  split; [left; reflexivity|]. split; [right; right; left; reflexivity|].
  split; [intros [H|[]]; discriminate|reflexivity].
Qed.

(** ---------------------------------------------------------------- QuantizedHnswIndex wrapper *)
Section QuantizedProofs.
  Context {V D : Type} (X : ext V D) (dist2 : V -> V -> D).
  Hypothesis HX : ext_ok X.
  Notation elt := (Z * D)%type.

  Definition rescored (m : nodemap V) (q : V) (cands : list elt) : list elt :=
    flat_map (fun c => match lookup m (fst c) with Some n => [(fst c, dist2 q (fst n))] | None => [] end) cands.

  Lemma rescored_in : forall m q cands i d, In (i, d) (rescored m q cands) ->
    In i (map fst cands) /\ exists n, lookup m i = Some n /\ d = dist2 q (fst n).
  Proof.
    intros m q cands i d H. unfold rescored in H. apply in_flat_map in H. destruct H as [c [Hc Hi]].
    destruct (lookup m (fst c)) as [n|] eqn:E; [|destruct Hi].
    destruct Hi as [Hi|[]]. inversion Hi; subst. split; [apply in_map; exact Hc|]. exists n. auto.
  Qed.
  Lemma rescored_nodup : forall m q cands, NoDup (map fst cands) -> NoDup (map fst (rescored m q cands)).
  Proof.
    intros m q. induction cands as [|c t IH]; intro Hn; cbn [rescored flat_map map]; [constructor|].
    cbn [map] in Hn. inversion Hn as [|? ? Hni Hn']; subst. fold (rescored m q t).
    destruct (lookup m (fst c)) as [n|]; cbn [app map fst]; [|apply IH; exact Hn'].
    constructor; [|apply IH; exact Hn'].
    intro Hi. apply in_map_iff in Hi. destruct Hi as [[i d] [Hid Hin]]. cbn [fst] in Hid. subst i.
    apply rescored_in in Hin. destruct Hin as [Hin _]. contradiction.
  Qed.

  Lemma rescore_sound : forall m q cands k, NoDup (map fst cands) ->
    let r := rescore X dist2 m q cands k in
    zlen r <= Z.max 0 k /\ NoDup (map fst r) /\
    StronglySorted (fun a b => x_leb X (snd a) (snd b) = true) r /\
    forall i d, In (i, d) r -> In i (map fst cands) /\ exists n, lookup m i = Some n /\ d = dist2 q (fst n).
  Proof.
    intros m q cands k Hn r. unfold r, rescore. fold (rescored m q cands).
    destruct HX as [Ho _].
    destruct (takez_prefix _ k (sort_by (x_leb X) (rescored m q cands))) as [rest Hrest].
    pose proof (sort_by_perm D (x_leb X) (rescored m q cands)) as Hp.
    split; [|split; [|split]].
    - rewrite takez_len. pose proof (zlen_nonneg _ (sort_by (x_leb X) (rescored m q cands))). lia.
    - assert (Hnd : NoDup (map fst (sort_by (x_leb X) (rescored m q cands)))).
      { eapply Permutation_NoDup; [apply Permutation_map; symmetry; exact Hp|]. apply rescored_nodup. exact Hn. }
      rewrite Hrest in Hnd. rewrite map_app in Hnd. eapply NoDup_prefix. exact Hnd.
    - pose proof (sort_by_sorted D (x_leb X) Ho (rescored m q cands)) as Hs.
      rewrite Hrest in Hs. eapply (sorted_prefix D (x_leb X)). exact Hs.
    - intros i d Hi. apply takez_In in Hi. apply (Permutation_in _ Hp) in Hi. apply rescored_in. exact Hi.
  Qed.

  (** rescoring on: the result is sound for EVERY state and every k — liveness comes from the
      [hnsw.get(id)] filter of rescore_candidates, distances are recomputed *)
  Lemma qsearch_sound_l : forall (s : state V) q k ef mults pre, pre_ok pre ->
    let r := qsearch X dist2 s q k ef mults true pre in
    zlen r <= Z.max 0 k /\ NoDup (map fst r) /\
    StronglySorted (fun a b => x_leb X (snd a) (snd b) = true) r /\
    forall i d, In (i, d) r -> exists n, lookup (nodes s) i = Some n /\ d = dist2 q (fst n).
  Proof.
    intros s q k ef mults pre Hpre r. unfold r, qsearch.
    destruct (search_sound_l V D X s q (num_candidates k mults) ef HX) as [_ [Hnd _]].
    destruct (Hpre _ Hnd) as [Hnd' _].
    destruct (rescore_sound (nodes s) q (pre (xsearch X s q (num_candidates k mults) ef)) k Hnd') as [H1 [H2 [H3 H4]]].
    split; [exact H1|]. split; [exact H2|]. split; [exact H3|].
    intros i d Hi. destruct (H4 i d Hi) as [_ Hx]. exact Hx.
  Qed.

  (** ... and loses nothing: with no pre-ranking it has min(k, number of live candidates) entries *)
  Lemma qsearch_count_l : forall (s : state V) q k ef mults, links_closed s ->
    zlen (qsearch X dist2 s q k ef mults true pre_none)
    = Z.min (Z.max 0 k) (zlen (xsearch X s q (num_candidates k mults) ef)).
  Proof.
    intros s q k ef mults Hc. unfold qsearch. set (nc := num_candidates k mults).
    unfold rescore, pre_none. rewrite takez_len. f_equal.
    unfold zlen. rewrite sort_by_len. f_equal.
    assert (G : forall l : list (Z * D), (forall i d, In (i, d) l -> exists n, lookup (nodes s) i = Some n) ->
                length (flat_map (fun c => match lookup (nodes s) (fst c) with Some n => [(fst c, dist2 q (fst n))] | None => [] end) l) = length l).
    { induction l as [|c t IH]; intro Hl; [reflexivity|]. cbn [flat_map].
      destruct c as [i d]. destruct (Hl i d (or_introl eq_refl)) as [n Hn']. cbn [fst]. rewrite Hn'.
      cbn [app length]. f_equal. apply IH. intros i' d' H'. apply (Hl i' d'). right. exact H'. }
    apply G. intros i d Hi. destruct (search_live_l V D X s q nc ef HX Hc i d Hi) as [n [Hn' _]]. exists n. exact Hn'.
  Qed.

  (** rescoring off, no pre-ranking (scalar / product / untrained / None): the plain search *)
  Lemma qsearch_plain_l : forall (s : state V) q k ef mults,
    qsearch X dist2 s q k ef mults false pre_none = xsearch X s q k ef.
  Proof.
    intros s q k ef mults. unfold qsearch, pre_none.
    destruct (search_sound_l V D X s q k ef HX) as [Hl _].
    destruct (Z.leb_spec k 0) as [Hk|Hk].
    - destruct (xsearch X s q k ef) as [|x t] eqn:E; [reflexivity|].
      rewrite zlen_cons in Hl. pose proof (zlen_nonneg _ t). lia.
    - apply takez_all. lia.
  Qed.

  (** the code before dc6fd9d: the only way to panic was an overflowing candidate count ... *)
  Lemma qsearch_pre_panic_iff_l : forall (s : state V) q k ef mults resc pre,
    qsearch_pre X dist2 s q k ef mults resc pre = QPanic <-> resc = true /\ num_candidates_pre k mults = None.
  Proof.
    intros s q k ef mults resc pre. unfold qsearch_pre. destruct resc.
    - destruct (num_candidates_pre k mults); split; intro H; try discriminate; auto. destruct H as [_ H]. discriminate.
    - split; [discriminate|intros [H _]; discriminate].
  Qed.
  (** ... and whenever it did not panic it returned what the repaired code returns *)
  Lemma num_candidates_pre_some : forall mults k nc, num_candidates_pre k mults = Some nc -> num_candidates k mults = nc.
  Proof.
    unfold num_candidates_pre, num_candidates.
    assert (Hnone : forall mults, fold_left (fun acc m => match acc with Some a => mul_usize_pre a m | None => None end) mults None = None).
    { induction mults as [|m t IH]; [reflexivity|]. cbn [fold_left]. exact IH. }
    induction mults as [|m t IH]; intros k nc H; cbn [fold_left] in *.
    - inversion H. reflexivity.
    - unfold mul_usize_pre in H at 2. unfold sat_mul_usize at 2.
      destruct (Z.leb_spec (k * m) usize_max) as [Hle|Hgt].
      + rewrite Z.min_l by exact Hle. apply IH. exact H.
      + rewrite Hnone in H. discriminate.
  Qed.
  Lemma qsearch_pre_agrees_l : forall (s : state V) q k ef mults resc pre,
    qsearch_pre X dist2 s q k ef mults resc pre <> QPanic ->
    qsearch_pre X dist2 s q k ef mults resc pre = QOk (qsearch X dist2 s q k ef mults resc pre).
  Proof.
    intros s q k ef mults resc pre H. unfold qsearch_pre, qsearch in *. destruct resc; [|reflexivity].
    destruct (num_candidates_pre k mults) as [nc|] eqn:E; [|contradiction].
    rewrite (num_candidates_pre_some mults k nc E). reflexivity.
  Qed.
End QuantizedProofs.

Lemma pre_none_ok : forall D, pre_ok (D := D) pre_none.
Proof. intros D l H. split; [exact H|apply incl_refl]. Qed.

Lemma rekey_fst : forall D (key : Z -> option D) (l : list (Z * D)),
  incl (map fst (rekey key l)) (map fst l) /\ (NoDup (map fst l) -> NoDup (map fst (rekey key l))).
Proof.
  intros D key. induction l as [|c t [IH1 IH2]]; [split; [apply incl_refl|auto]|].
  cbn [rekey flat_map map]. fold (rekey key t).
  destruct (key (fst c)) as [d|]; cbn [app map fst].
  - split.
    + intros x [Hx|Hx]; [left; exact Hx|right; apply IH1; exact Hx].
    + intro Hn. inversion Hn as [|? ? Hni Hn']; subst. constructor; [|apply IH2; exact Hn'].
      intro Hi. apply Hni. apply IH1. exact Hi.
  - split.
    + intros x Hx. right. apply IH1. exact Hx.
    + intro Hn. inversion Hn; subst. apply IH2. assumption.
Qed.
Lemma pre_rank_ok : forall D (leb : D -> D -> bool) key, pre_ok (pre_rank leb key).
Proof.
  intros D leb key l Hn. unfold pre_rank.
  destruct (rekey_fst D key l) as [Hi Hd].
  pose proof (sort_by_perm D leb (rekey key l)) as Hp.
  split.
  - eapply Permutation_NoDup; [apply Permutation_map; symmetry; exact Hp|]. apply Hd. exact Hn.
  - intros x Hx. apply Hi. eapply Permutation_in; [apply Permutation_map; exact Hp|]. exact Hx.
Qed.
Lemma pre_rank_trunc_ok : forall D (leb : D -> D -> bool) key k, pre_ok (pre_rank_trunc leb key k).
Proof.
  intros D leb key k l Hn. unfold pre_rank_trunc.
  destruct (pre_rank_ok D leb key l Hn) as [H1 H2]. unfold pre_rank in H1, H2.
  destruct (takez_prefix _ k (sort_by leb (rekey key l))) as [rest Hrest].
  split.
  - rewrite Hrest in H1. rewrite map_app in H1. eapply NoDup_prefix. exact H1.
  - intros x Hx. apply H2. rewrite Hrest. rewrite map_app. apply in_or_app. left. exact Hx.
Qed.

(** the candidate count of the repaired code never shrinks below k (factors >= 1) *)
Lemma num_candidates_ge_l : forall mults k, 0 <= k <= usize_max -> Forall (fun m => 1 <= m) mults ->
  k <= num_candidates k mults <= usize_max.
Proof.
  unfold num_candidates. induction mults as [|m t IH]; intros k Hk Hf; cbn [fold_left]; [lia|].
  inversion Hf as [|? ? Hm Hf']; subst.
  assert (Hs : k <= sat_mul_usize k m <= usize_max).
  { unfold sat_mul_usize. split; [apply Z.min_glb; nia|apply Z.le_min_r]. }
  specialize (IH (sat_mul_usize k m)). assert (0 <= sat_mul_usize k m <= usize_max) by lia.
  specialize (IH H Hf'). lia.
Qed.

(** before dc6fd9d (finding C18-K3, repaired): k = usize::MAX, rescore_factor = 2 panicked *)
Lemma qsearch_overflow_pre_refuted_l : exists (k : Z) (mults : list Z), 0 <= k <= usize_max /\
  forall V D (X : ext V D) d2 s q ef pre, qsearch_pre X d2 s q k ef mults true pre = QPanic.
Proof.
  exists usize_max, [2]. split; [unfold usize_max; lia|]. intros. reflexivity.
Qed.

(** ---------------------------------------------------------------- VectorScanOperator chunks *)
Lemma chunks_fuel_ok : forall (A : Type) (cap : nat) (fuel : nat) (l : list A), (1 <= cap)%nat -> (length l < fuel)%nat ->
  concat (chunks_fuel fuel cap l) = l /\ Forall (fun ch => (1 <= length ch <= cap)%nat) (chunks_fuel fuel cap l).
Proof.
  intros A cap. induction fuel as [|f IH]; intros l Hc Hl; [lia|].
  cbn [chunks_fuel]. destruct l as [|x t]; [split; [reflexivity|constructor]|].
  remember (x :: t) as l eqn:El.
  assert (Hlen : (1 <= length l)%nat) by (subst l; cbn [length]; lia).
  assert (Hs : (length (skipn cap l) < f)%nat) by (rewrite skipn_length; lia).
  destruct (IH (skipn cap l) Hc Hs) as [H1 H2]. split.
  - cbn [concat]. rewrite H1. apply firstn_skipn.
  - constructor; [|exact H2]. rewrite firstn_length. lia.
Qed.
Lemma scan_chunks_ok_l : forall (A : Type) (cap : nat) (l : list A), (1 <= cap)%nat ->
  concat (scan_chunks cap l) = l /\ Forall (fun ch => (1 <= length ch <= cap)%nat) (scan_chunks cap l).
Proof. intros A cap l Hc. unfold scan_chunks. apply chunks_fuel_ok; [exact Hc|lia]. Qed.

(** ---------------------------------------------------------------- the instance that RUNS *)
From GV Require Import Vec.ProofsHeap Vec.Inst Vec.Kernel.
Lemma z_order_ok : order_ok Z.leb.
Proof.
  split.
  - intros a b. destruct (Z.leb_spec a b); [left; reflexivity|right; apply Z.leb_le; lia].
  - intros a b c H1 H2. apply Z.leb_le in H1, H2. apply Z.leb_le. lia.
Qed.
(** the model instance evaluated by the check (std's BinaryHeap transcribed, exact integer
    distances) satisfies the premise of every search theorem *)
Lemma zext_ok_l : forall mt, ext_ok (zext mt).
Proof. intro mt. unfold zext. apply std_ext_ok. exact z_order_ok. Qed.
