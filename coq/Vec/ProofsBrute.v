(** C18 — brute_force_knn returns the k smallest by distance, sorted, ties in input order. *)
From Coq Require Import ZArith List Bool Lia Permutation Sorted.
From GV Require Import Vec.Hnsw Vec.Brute Vec.ProofsBase.
Import ListNotations.
Open Scope Z_scope.

Section BruteProof.
  Variable V D : Type.
  Variable dist : V -> V -> D.
  Variable leb : D -> D -> bool.
  Hypothesis Hord : order_ok leb.

  Lemma brute_exact_raw : forall (xs : list (Z * V)) q k,
    let sc := scored dist xs q in
    let r := brute_force_knn dist leb xs q k in
    zlen r = Z.min (Z.max 0 k) (zlen xs) /\
    StronglySorted (le_elt D leb) r /\
    (exists rest, Permutation (r ++ rest) sc /\ forall a b, In a r -> In b rest -> le_elt D leb a b) /\
    (forall P : Z * D -> bool,
       (forall a b, P a = true -> P b = true -> leb (snd a) (snd b) = true) ->
       exists rest', filter P sc = filter P r ++ rest').
  Proof.
    intros xs q k sc r. unfold r, brute_force_knn. fold sc.
    destruct (takez_prefix _ k (sort_by leb sc)) as [rest Hrest].
    pose proof (sort_by_sorted D leb Hord sc) as Hs.
    split; [|split; [|split]].
    - rewrite takez_len. unfold zlen. rewrite sort_by_len. unfold sc, scored. rewrite map_length. reflexivity.
    - rewrite Hrest in Hs. eapply sorted_prefix. exact Hs.
    - exists rest. split.
      + pose proof (sort_by_perm D leb sc) as Hp. rewrite Hrest in Hp. exact Hp.
      + rewrite Hrest in Hs. intros a b Ha Hb. eapply sorted_split; eassumption.
    - intros P HP. exists (filter P rest).
      pose proof (sort_by_stable D leb P HP sc) as Hp. rewrite Hrest in Hp. rewrite <- Hp. apply filter_app.
  Qed.
End BruteProof.
