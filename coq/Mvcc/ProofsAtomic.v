(** C02 — atomic_outside_K: transactions made of node creations without labels and properties, triple
    operations and reads, with other sessions only reading meanwhile.

    Rollback: every read of every session, through every access path (including the raw label index and
    property column), returns after the rollback exactly what it returned before the begin.
    Commit: every created node is visible to every reader that begins afterwards (and, when the
    transaction began at epoch 0, through the store-epoch paths too), the committed triples are the old
    ones with the buffer applied in order, and nothing else has changed. *)
From Coq Require Import ZArith List Bool Lia.
Import ListNotations.
From GV Require Import Mvcc.Model Mvcc.ProofsVis Mvcc.ProofsInv Mvcc.ProofsThm.
Open Scope Z_scope.

(** ** the label index only mentions ids that have been handed out *)
Definition lidx_ok (st : state) : Prop := forall l n, In n (l_index st l) -> n < n_next st.

Lemma remz_in : forall x y l, In y (remz x l) -> In y l.
Proof. intros x y l H. unfold remz in H. apply filter_In in H. tauto. Qed.
Lemma fold_upd_addz_in : forall id ls li l0 n,
  In n (fold_left (fun li l => upd li l (addz id (li l))) ls li l0) -> n = id \/ In n (li l0).
Proof.
  intros id ls. induction ls as [|x r IH]; intros li l0 n H; [right; exact H|]. cbn [fold_left] in H.
  apply IH in H. destruct H as [H|H]; [left; exact H|]. unfold upd in H.
  destruct (Z.eqb_spec l0 x); [subst; apply addz_in in H; exact H|right; exact H].
Qed.
Lemma fold_upd_remz_in : forall id ls li l0 n,
  In n (fold_left (fun li l => upd li l (remz id (li l))) ls li l0) -> In n (li l0).
Proof.
  intros id ls. induction ls as [|x r IH]; intros li l0 n H; [exact H|]. cbn [fold_left] in H.
  apply IH in H. unfold upd in H. destruct (Z.eqb_spec l0 x); [subst; apply remz_in in H; exact H|exact H].
Qed.

Lemma chain_nonempty_lt : forall st n, inv st -> n_chain st n <> [] -> n < n_next st.
Proof.
  intros st n Hi H. destruct (Z.lt_ge_cases n (n_next st)) as [L|L]; [exact L|].
  exfalso. apply H. apply (proj2 (i_nnext st Hi)). exact L.
Qed.
Lemma visible_nonempty : forall c e, c_visible_at c e = true -> c <> [].
Proof. intros [|v r] e H; [discriminate|discriminate]. Qed.

Lemma lidx_set_node_property : forall st id k v, lidx_ok st -> lidx_ok (set_node_property st id k v).
Proof. intros st id k v H. exact H. Qed.
Lemma lidx_delete_node_at_epoch : forall st id e, lidx_ok st -> lidx_ok (fst (delete_node_at_epoch st id e)).
Proof.
  intros st id e H. unfold delete_node_at_epoch. destruct (c_visible_at _ _); [|exact H].
  intros l n Hn. cbn in Hn. apply fold_upd_remz_in in Hn. cbn. apply (H l n Hn).
Qed.
Lemma lidx_add_label : forall st id l, inv st -> lidx_ok st -> lidx_ok (fst (add_label st id l)).
Proof.
  intros st id l Hi H. unfold add_label. destruct (c_visible_at _ _) eqn:E; [|exact H].
  destruct (memz _ _); [exact H|]. intros l0 n Hn. cbn in Hn. cbn. unfold upd in Hn.
  destruct (Z.eqb_spec l0 l); [subst l0|apply (H l0 n Hn)]. apply addz_in in Hn. destruct Hn as [->|Hn]; [|apply (H l n Hn)].
  apply chain_nonempty_lt; [exact Hi|]. eapply visible_nonempty; exact E.
Qed.
Lemma lidx_remove_label : forall st id l, lidx_ok st -> lidx_ok (fst (remove_label st id l)).
Proof.
  intros st id l H. unfold remove_label. destruct (c_visible_at _ _); [|exact H].
  destruct (memz _ _); [|exact H]. intros l0 n Hn. cbn in Hn. cbn. unfold upd in Hn.
  destruct (Z.eqb_spec l0 l); [subst l0; apply remz_in in Hn; apply (H l n Hn)|apply (H l0 n Hn)].
Qed.
Lemma lidx_delete_edge_at_epoch : forall st id e, lidx_ok st -> lidx_ok (fst (delete_edge_at_epoch st id e)).
Proof.
  intros st id e H. unfold delete_edge_at_epoch. destruct (c_visible_at _ _); [|exact H].
  destruct (e_rec st id) as [[a b] ty]. exact H.
Qed.
Lemma lidx_delete_node_edges : forall st n, lidx_ok st -> lidx_ok (delete_node_edges st n).
Proof.
  intros st n. unfold delete_node_edges. generalize (edges_from st n Out ++ edges_from st n Inc). intros l.
  revert st. induction l as [|p r IH]; intros st H; [exact H|]. cbn [fold_left]. apply IH. apply lidx_delete_edge_at_epoch. exact H.
Qed.
Lemma lidx_create_node_with_props : forall st labels props e t, lidx_ok st ->
  lidx_ok (fst (create_node_with_props st labels props e t)).
Proof.
  intros st labels props e t H. unfold create_node_with_props.
  destruct (create_node_versioned st labels e t) as [st1 id] eqn:E. cbn [fst].
  assert (H1 : lidx_ok st1).
  { unfold create_node_versioned in E. injection E as <- <-. intros l n Hn. cbn in Hn. cbn.
    apply fold_upd_addz_in in Hn. destruct Hn as [->|Hn]; [lia|]. pose proof (H l n Hn). lia. }
  clear E. revert st1 H1. induction props as [|kv r IH]; intros st1 H1; [exact H1|]. cbn [fold_left]. apply IH. exact H1.
Qed.

Lemma fold_inv2 : forall {A} (f : state -> A -> state),
  (forall st x, pres st (f st x)) -> (forall st x, inv st -> lidx_ok st -> lidx_ok (f st x)) ->
  forall l st, inv st -> lidx_ok st -> lidx_ok (fold_left f l st).
Proof.
  intros A f Hp Hl l. induction l as [|x r IH]; intros st Hi H; [exact H|]. cbn [fold_left].
  apply IH; [eapply inv_pres; [exact Hi|apply Hp]|apply Hl; assumption].
Qed.

Lemma lidx_step : forall st o, inv st -> lidx_ok st -> lidx_ok (fst (step st o)).
Proof.
  intros st o Hi H. destruct o; cbn [step].
  - destruct (sess st s); exact H.
  - destruct (sess st s) as [t|]; [|exact H]. unfold tm_commit. cbn. destruct (tm_state st t) as [[]|]; exact H.
  - destruct (sess st s) as [t|]; [|exact H]. unfold tm_abort. cbn. destruct (tm_state st t) as [[]|]; exact H.
  - destruct (sess st s) as [t|]; [|exact H]. unfold tm_abort. cbn. destruct (tm_state st t) as [[]|]; exact H.
  - destruct (ctx st s) as [e t]. pose proof (lidx_create_node_with_props st labels props e t H) as H1.
    destruct (create_node_with_props st labels props e t). exact H1.
  - destruct (ctx st s) as [e t]. cbn [fst].
    apply (fold_inv2 (fun st' n => fst (delete_node_at_epoch (if detach then delete_node_edges st' n else st') n e))); try assumption.
    + intros st' n. destruct detach; [eapply pres_trans; [apply pres_delete_node_edges|apply pres_delete_node_at_epoch]|apply pres_delete_node_at_epoch].
    + intros st' n _ H'. apply lidx_delete_node_at_epoch. destruct detach; [apply lidx_delete_node_edges|]; exact H'.
  - destruct (ctx st s) as [e t]. exact H.
  - destruct (ctx st s) as [e t]. destruct (matched st ma src e t); [exact H|]. destruct (matched st mb dst e t); exact H.
  - pose proof (lidx_delete_edge_at_epoch st e (st_epoch st) H) as H1. destruct (delete_edge_at_epoch st e (st_epoch st)). exact H1.
  - destruct (ctx st s) as [e t]. cbn [fst].
    apply (fold_inv2 (fun st' n => set_node_property st' n k v)); try assumption; intros; [apply pres_set_node_property|assumption].
  - destruct (ctx st s) as [e t]. cbn [fst].
    apply (fold_inv2 (fun st' n => set_node_property st' n k None)); try assumption; intros; [apply pres_set_node_property|assumption].
  - destruct (ctx st s) as [e t]. cbn [fst].
    apply (fold_inv2 (fun st' n => fst (add_label st' n l))); try assumption; intros; [apply pres_add_label|apply lidx_add_label; assumption].
  - destruct (ctx st s) as [e t]. cbn [fst].
    apply (fold_inv2 (fun st' n => fst (remove_label st' n l))); try assumption; intros; [apply pres_remove_label|apply lidx_remove_label; assumption].
  - destruct (sess st s); exact H.
  - destruct (sess st s); exact H.
  - assert (H0 : lidx_ok (db_detach st n)).
    { unfold db_detach. destruct (c_visible_at _ _); [apply lidx_delete_node_edges|]; exact H. }
    set (st1 := db_detach st n) in *.
    pose proof (lidx_delete_node_at_epoch st1 n (st_epoch st1) H0) as H1. destruct (delete_node_at_epoch st1 n (st_epoch st1)). exact H1.
  - exact H.
  - exact H.
  - pose proof (lidx_add_label st n l Hi H) as H1. destruct (add_label st n l). exact H1.
  - pose proof (lidx_remove_label st n l H) as H1. destruct (remove_label st n l). exact H1.
  - exact H.
Qed.
Lemma lidx_reach : forall st, reach st -> lidx_ok st.
Proof.
  induction 1; [intros l n H; contradiction|]. apply lidx_step; [apply inv_reach|]; assumption.
Qed.

(** ** observational equality: what the reads of every session depend on *)
Record oeq (a b : state) : Prop := mkOeq {
  o_epoch : tm_epoch b = tm_epoch a;
  o_store : st_epoch b = st_epoch a;
  o_sess : forall s, sess b s = sess a s;
  o_start : forall s t, sess a s = Some t -> tm_start b t = tm_start a t;
  o_nchain : forall n, n_chain b n = n_chain a n;
  o_echain : forall x, e_chain b x = e_chain a x;
  o_erec : forall x, e_rec b x = e_rec a x;
  o_nn : n_next a <= n_next b;
  o_en : e_next b = e_next a;
  o_labels : forall n, n_chain a n <> [] -> n_labels b n = n_labels a n;
  o_lidx : forall l, l_index b l = l_index a l;
  o_props : forall n, n_props b n = n_props a n;
  o_fwd : forall n, fwd b n = fwd a n /\ fwd_del b n = fwd_del a n /\ bwd b n = bwd a n /\ bwd_del b n = bwd_del a n;
  o_rdf : rdf b = rdf a;
  o_buf : forall s t, sess a s = Some t -> rdf_buf b t = rdf_buf a t
}.

Lemma filter_range_extend : forall (f g : Z -> bool) n0 n1, n0 <= n1 ->
  (forall n, 0 <= n < n0 -> f n = g n) -> (forall n, n0 <= n < n1 -> f n = false) ->
  filter f (range n1) = filter g (range n0).
Proof.
  intros f g n0 n1 Hle Hsame Hfalse.
  destruct (Z.le_gt_cases 0 n0) as [H0|H0].
  - unfold range. replace (Z.to_nat n1) with (Z.to_nat n0 + Z.to_nat (n1 - n0))%nat by lia.
    rewrite seq_app, map_app, filter_app.
    assert (E2 : filter f (map Z.of_nat (seq (0 + Z.to_nat n0) (Z.to_nat (n1 - n0)))) = []).
    { apply nil_of_no_elements. intros x Hx. apply filter_In in Hx. destruct Hx as [Hx Hf].
      apply in_map_iff in Hx. destruct Hx as [k [<- Hk]]. apply in_seq in Hk. rewrite Hfalse in Hf; [discriminate|lia]. }
    rewrite E2, app_nil_r. apply filter_ext_in. intros x Hx. apply in_map_iff in Hx. destruct Hx as [k [<- Hk]].
    apply in_seq in Hk. apply Hsame. lia.
  - assert (E0 : range n0 = []) by (unfold range; replace (Z.to_nat n0) with 0%nat by lia; reflexivity).
    rewrite E0. cbn. apply nil_of_no_elements. intros x Hx. apply filter_In in Hx. destruct Hx as [Hx Hf].
    apply in_range in Hx. rewrite Hfalse in Hf; [discriminate|lia].
Qed.

Lemma oeq_ctx : forall a b s, oeq a b -> ctx b s = ctx a s.
Proof.
  intros a b s H. unfold ctx. rewrite (o_sess _ _ H s). destruct (sess a s) as [t|] eqn:E.
  - rewrite (o_start _ _ H s t E), (o_epoch _ _ H). reflexivity.
  - rewrite (o_epoch _ _ H). reflexivity.
Qed.

Lemma oeq_node_ids : forall a b, inv a -> oeq a b -> node_ids b = node_ids a.
Proof.
  intros a b Hi H. unfold node_ids. apply filter_range_extend; [apply H| |].
  - intros n _. rewrite (o_nchain _ _ H), (o_store _ _ H). reflexivity.
  - intros n Hn. rewrite (o_nchain _ _ H), (proj2 (i_nnext a Hi) n); [reflexivity|lia].
Qed.
Lemma oeq_nodes_by_label : forall a b l, lidx_ok a -> oeq a b -> nodes_by_label b l = nodes_by_label a l.
Proof.
  intros a b l Hl H. unfold nodes_by_label. apply filter_range_extend; [apply H| |].
  - intros n _. rewrite (o_lidx _ _ H). reflexivity.
  - intros n Hn. rewrite (o_lidx _ _ H). destruct (memz n (l_index a l)) eqn:E; [|reflexivity].
    apply memz_iff in E. apply Hl in E. lia.
Qed.
Lemma oeq_scan : forall a b m e t, inv a -> lidx_ok a -> oeq a b -> scan b m e t = scan a m e t.
Proof.
  intros a b m e t Hi Hl H. unfold scan.
  assert (E : (match m with SelLabel l => nodes_by_label b l | SelAny => node_ids b end)
              = (match m with SelLabel l => nodes_by_label a l | SelAny => node_ids a end)).
  { destruct m; [apply oeq_nodes_by_label|apply oeq_node_ids]; assumption. }
  rewrite E. apply filter_ext. intros n. rewrite (o_nchain _ _ H). reflexivity.
Qed.
Lemma oeq_edges_from : forall a b n d, oeq a b -> edges_from b n d = edges_from a n d.
Proof.
  intros a b n d H. destruct (o_fwd _ _ H n) as [F1 [F2 [F3 F4]]]. unfold edges_from. rewrite F1, F2, F3, F4. reflexivity.
Qed.
Lemma oeq_expand_row : forall a b x d ty e t, oeq a b -> expand_row b x d ty e t = expand_row a x d ty e t.
Proof.
  intros a b x d ty e t H. unfold expand_row. rewrite (oeq_edges_from a b x d H). f_equal.
  apply filter_ext. intros p. rewrite (o_echain _ _ H), (o_nchain _ _ H). unfold edge_type.
  rewrite (o_echain _ _ H), (o_store _ _ H), (o_erec _ _ H). reflexivity.
Qed.
Lemma oeq_get_node_versioned : forall a b n e t, oeq a b -> get_node_versioned b n e t = get_node_versioned a n e t.
Proof.
  intros a b n e t H. unfold get_node_versioned. rewrite (o_nchain _ _ H).
  destruct (c_visible_to (n_chain a n) e t) eqn:E; [|reflexivity].
  rewrite (o_props _ _ H), (o_labels _ _ H); [reflexivity|]. intros C. rewrite C in E. discriminate.
Qed.
Lemma oeq_get_node : forall a b n, oeq a b -> get_node b n = get_node a n.
Proof.
  intros a b n H. unfold get_node. rewrite (o_nchain _ _ H), (o_store _ _ H).
  destruct (c_visible_at (n_chain a n) (st_epoch a)) eqn:E; [|reflexivity].
  rewrite (o_props _ _ H), (o_labels _ _ H); [reflexivity|]. intros C. rewrite C in E. discriminate.
Qed.

Lemma read_oeq : forall a b s k, inv a -> lidx_ok a -> oeq a b -> read b s k = read a s k.
Proof.
  intros a b s k Hi Hl H. unfold read. rewrite (oeq_ctx a b s H). destruct (ctx a s) as [e t].
  destruct k.
  - rewrite (oeq_scan a b _ e t Hi Hl H). reflexivity.
  - rewrite (oeq_scan a b _ e t Hi Hl H). reflexivity.
  - rewrite (oeq_scan a b _ e t Hi Hl H). reflexivity.
  - rewrite (oeq_scan a b _ e t Hi Hl H). reflexivity.
  - rewrite (oeq_scan a b _ e t Hi Hl H). f_equal. apply map_ext. intros n. rewrite (oeq_get_node a b n H). reflexivity.
  - rewrite (oeq_scan a b _ e t Hi Hl H). f_equal. apply flat_map_ext. intros x. apply oeq_expand_row. exact H.
  - rewrite (oeq_get_node_versioned a b n e t H). reflexivity.
  - unfold get_edge_versioned. rewrite (o_echain _ _ H), (o_erec _ _ H). reflexivity.
  - rewrite (oeq_get_node_versioned a b n e t H). reflexivity.
  - rewrite (oeq_edges_from a b n d H). reflexivity.
  - rewrite !(oeq_edges_from a b n _ H). reflexivity.
  - rewrite (o_rdf _ _ H). reflexivity.
  - rewrite (o_sess _ _ H). unfold find_with_pending. rewrite (o_rdf _ _ H).
    destruct (sess a s) as [tx|] eqn:E; [|reflexivity]. rewrite (o_buf _ _ H s tx E). reflexivity.
  - unfold node_count, edge_count. rewrite (oeq_node_ids a b Hi H), (o_en _ _ H). f_equal. f_equal. f_equal.
    apply filter_ext. intros x. rewrite (o_echain _ _ H), (o_store _ _ H). reflexivity.
  - rewrite (oeq_nodes_by_label a b l Hl H). reflexivity.
  - rewrite (o_props _ _ H). reflexivity.
  - rewrite (o_epoch _ _ H), (oeq_scan a b _ (tm_epoch a) SYSTEM Hi Hl H). reflexivity.
Qed.

(** ** the state inside a transaction of the fragment *)
Definition frag (s : Z) (o : op) : bool :=
  match o with
  | CreateNode s' [] [] => s' =? s
  | InsertTriple s' _ | DeleteTriple s' _ => s' =? s
  | Read _ _ => true
  | _ => false
  end.

Record txrel (st0 : state) (s t : Z) (st : state) : Prop := mkTx {
  x_epoch : tm_epoch st = tm_epoch st0;
  x_store : st_epoch st = st_epoch st0;
  x_start : forall t', t' <> t -> tm_start st t' = tm_start st0 t';
  x_start_t : tm_start st t = Some (tm_epoch st0);
  x_state : forall t', t' <> t -> tm_state st t' = tm_state st0 t';
  x_state_t : tm_state st t = Some Active;
  x_sess : forall s', sess st s' = if s' =? s then Some t else sess st0 s';
  x_nn : n_next st0 <= n_next st;
  x_chain_old : forall n, n < n_next st0 -> n_chain st n = n_chain st0 n;
  x_chain_new : forall n, n_next st0 <= n < n_next st ->
                  n_chain st n = [mkV (tm_epoch st0) None t] /\ n_labels st n = [];
  x_chain_lt : forall n, n_next st <= n -> n_chain st n = [];
  x_labels : forall n, n < n_next st0 -> n_labels st n = n_labels st0 n;
  x_lidx : forall l, l_index st l = l_index st0 l;
  x_props : forall n, n_props st n = n_props st0 n;
  x_en : e_next st = e_next st0;
  x_echain : forall x, e_chain st x = e_chain st0 x;
  x_erec : forall x, e_rec st x = e_rec st0 x;
  x_fwd : forall n, fwd st n = fwd st0 n /\ fwd_del st n = fwd_del st0 n /\ bwd st n = bwd st0 n /\ bwd_del st n = bwd_del st0 n;
  x_rdf : rdf st = rdf st0;
  x_buf : forall t', t' <> t -> rdf_buf st t' = rdf_buf st0 t'
}.

Lemma txrel_begin : forall st0 s, inv st0 -> sess st0 s = None ->
  txrel st0 s (tm_next st0) (fst (step st0 (Begin s))).
Proof.
  intros st0 s Hi Hs. cbn [step]. rewrite Hs. cbn. constructor; cbn; try reflexivity.
  - intros t' H. unfold upd. destruct (Z.eqb_spec t' (tm_next st0)); [contradiction|reflexivity].
  - unfold upd. rewrite Z.eqb_refl. reflexivity.
  - intros t' H. unfold upd. destruct (Z.eqb_spec t' (tm_next st0)); [contradiction|reflexivity].
  - unfold upd. rewrite Z.eqb_refl. reflexivity.
  - intros n Hn. lia.
  - intros n Hn. apply (proj2 (i_nnext st0 Hi)). exact Hn.
  - intros n. repeat split.
Qed.

Lemma txrel_step : forall st0 s t st o, txrel st0 s t st -> frag s o = true -> txrel st0 s t (fst (step st o)).
Proof.
  intros st0 s t st o X Hf. destruct o; try discriminate; cbn [frag] in Hf.
  - (* CreateNode s [] [] *)
    destruct labels; [|discriminate]. destruct props; [|discriminate]. apply Z.eqb_eq in Hf. subst s0.
    cbn [step]. unfold ctx. rewrite (x_sess _ _ _ _ X s), Z.eqb_refl, (x_start_t _ _ _ _ X). cbn.
    destruct X. constructor; cbn; try assumption.
    + lia.
    + intros n Hn. unfold upd. destruct (Z.eqb_spec n (n_next st)); [lia|apply x_chain_old0; exact Hn].
    + intros n Hn. unfold upd. destruct (Z.eqb_spec n (n_next st)); [split; reflexivity|apply x_chain_new0; lia].
    + intros n Hn. unfold upd. destruct (Z.eqb_spec n (n_next st)); [lia|apply x_chain_lt0; lia].
    + intros n Hn. unfold upd. destruct (Z.eqb_spec n (n_next st)); [lia|apply x_labels0; exact Hn].
  - (* InsertTriple *)
    apply Z.eqb_eq in Hf. subst s0. cbn [step]. rewrite (x_sess _ _ _ _ X s), Z.eqb_refl. cbn.
    destruct X. constructor; cbn; try assumption.
    intros t' Ht. unfold upd. destruct (Z.eqb_spec t' t); [contradiction|apply x_buf0; exact Ht].
  - (* DeleteTriple *)
    apply Z.eqb_eq in Hf. subst s0. cbn [step]. rewrite (x_sess _ _ _ _ X s), Z.eqb_refl. cbn.
    destruct X. constructor; cbn; try assumption.
    intros t' Ht. unfold upd. destruct (Z.eqb_spec t' t); [contradiction|apply x_buf0; exact Ht].
  - (* Read *) exact X.
Qed.

Lemma txrel_run : forall seg st0 s t st, txrel st0 s t st -> forallb (frag s) seg = true ->
  txrel st0 s t (fst (run_from st seg)).
Proof.
  induction seg as [|o r IH]; intros st0 s t st X Hf; [exact X|].
  cbn [forallb] in Hf. apply andb_true_iff in Hf. destruct Hf as [H1 H2].
  rewrite run_from_cons. cbn [fst]. apply IH; [apply txrel_step; assumption|exact H2].
Qed.

Lemma c_remove_by_none : forall c t, (forall v, In v c -> v_by v <> t) -> c_remove_by c t = c.
Proof.
  intros c t H. unfold c_remove_by. induction c as [|v r IH]; [reflexivity|]. cbn [filter].
  destruct (Z.eqb_spec (v_by v) t) as [E|E]; [exfalso; apply (H v (or_introl eq_refl) E)|].
  cbn [negb]. f_equal. apply IH. intros v' Hv'. apply H. right. exact Hv'.
Qed.

(** a fresh transaction id has created nothing *)
Lemma fresh_tx_no_versions : forall st, inv st ->
  (forall n v, In v (n_chain st n) -> v_by v <> tm_next st) /\ (forall x v, In v (e_chain st x) -> v_by v <> tm_next st)
  /\ rdf_buf st (tm_next st) = [].
Proof.
  intros st Hi.
  assert (Hn : tm_state st (tm_next st) = None).
  { destruct (tm_state st (tm_next st)) eqn:E; [|reflexivity].
    assert (H : tm_state st (tm_next st) <> None) by congruence. apply (i_dom_state st Hi) in H. lia. }
  assert (Hs : tm_start st (tm_next st) = None).
  { destruct (tm_start st (tm_next st)) eqn:E; [|reflexivity].
    assert (H : tm_start st (tm_next st) <> None) by congruence. apply (i_dom_start st Hi) in H. lia. }
  assert (G : forall v, ver_ok st v -> v_by v <> tm_next st).
  { intros v [[H1 _]|[H1 _]] C.
    - pose proof (i_next st Hi). unfold SYSTEM in H1. lia.
    - rewrite C, Hs in H1. discriminate. }
  split; [|split].
  - intros n v H. apply G. eapply i_nver; eauto.
  - intros x v H. apply G. eapply i_ever; eauto.
  - destruct (rdf_buf st (tm_next st)) eqn:E; [reflexivity|].
    assert (Hne : rdf_buf st (tm_next st) <> []) by congruence. pose proof (i_buf st Hi _ Hne). congruence.
Qed.

(** ** rollback *)
Lemma atomic_rollback_oeq : forall st0 s seg, inv st0 -> sess st0 s = None -> forallb (frag s) seg = true ->
  oeq st0 (fst (run_from st0 (Begin s :: seg ++ [Rollback s]))).
Proof.
  intros st0 s seg Hi Hs Hf.
  rewrite run_from_cons. cbn [fst].
  pose proof (txrel_run seg st0 s (tm_next st0) _ (txrel_begin st0 s Hi Hs) Hf) as X.
  assert (E : fst (run_from (fst (step st0 (Begin s))) (seg ++ [Rollback s]))
              = fst (step (fst (run_from (fst (step st0 (Begin s))) seg)) (Rollback s))).
  { generalize (fst (step st0 (Begin s))). clear. induction seg as [|o r IH]; intros st.
    - cbn [app]. rewrite run_from_cons. reflexivity.
    - cbn [app]. rewrite !run_from_cons. cbn [fst]. apply IH. }
  rewrite E. clear E. set (st := fst (run_from (fst (step st0 (Begin s))) seg)) in *.
  destruct (fresh_tx_no_versions st0 Hi) as [Fn [Fe Fb]].
  cbn [step]. rewrite (x_sess _ _ _ _ X s), Z.eqb_refl. unfold tm_abort. cbn. rewrite (x_state_t _ _ _ _ X). cbn.
  destruct X. constructor; cbn; try assumption; try reflexivity.
  - intros s'. unfold upd. rewrite x_sess0. destruct (Z.eqb_spec s' s); [subst; symmetry; exact Hs|reflexivity].
  - intros s' t' H. apply x_start0. intros C. subst t'.
    pose proof (i_sess st0 Hi s' _ H) as Ha.
    assert (Hd : tm_state st0 (tm_next st0) <> None) by congruence. apply (i_dom_state st0 Hi) in Hd. lia.
  - intros n. destruct (Z.lt_ge_cases n (n_next st0)) as [L|L].
    + rewrite (x_chain_old0 n L). apply c_remove_by_none. apply Fn.
    + rewrite (proj2 (i_nnext st0 Hi) n L). destruct (Z.lt_ge_cases n (n_next st)) as [L2|L2].
      * destruct (x_chain_new0 n (conj L L2)) as [C _]. rewrite C. cbn. rewrite Z.eqb_refl. reflexivity.
      * rewrite (x_chain_lt0 n L2). reflexivity.
  - intros x. rewrite x_echain0. apply c_remove_by_none. apply Fe.
  - intros n Hn. apply x_labels0. apply chain_nonempty_lt; assumption.
  - intros s' t' H. unfold upd. destruct (Z.eqb_spec t' (tm_next st0)).
    + subst t'. pose proof (i_sess st0 Hi s' _ H) as Ha.
      assert (Hd : tm_state st0 (tm_next st0) <> None) by congruence. apply (i_dom_state st0 Hi) in Hd. lia.
    + apply x_buf0. exact n.
Qed.

Lemma atomic_rollback_outside_K_l : forall ops0 s seg,
  sess (final ops0) s = None -> forallb (frag s) seg = true ->
  forall s' k, read (fst (run_from (final ops0) (Begin s :: seg ++ [Rollback s]))) s' k = read (final ops0) s' k.
Proof.
  intros ops0 s seg Hs Hf s' k. apply read_oeq.
  - apply inv_final.
  - apply lidx_reach. apply reach_final.
  - apply atomic_rollback_oeq; [apply inv_final|assumption|assumption].
Qed.

(** ** commit *)
Fixpoint seg_pend (seg : list op) : list pend :=
  match seg with
  | [] => []
  | InsertTriple _ t :: r => PIns t :: seg_pend r
  | DeleteTriple _ t :: r => PDel t :: seg_pend r
  | _ :: r => seg_pend r
  end.

Lemma txrel_buf : forall seg st0 s t st, txrel st0 s t st -> forallb (frag s) seg = true ->
  rdf_buf (fst (run_from st seg)) t = rdf_buf st t ++ seg_pend seg.
Proof.
  induction seg as [|o r IH]; intros st0 s t st X Hf; [cbn; rewrite app_nil_r; reflexivity|].
  cbn [forallb] in Hf. apply andb_true_iff in Hf. destruct Hf as [H1 H2].
  rewrite run_from_cons. cbn [fst]. rewrite (IH st0 s t _ (txrel_step st0 s t st o X H1) H2).
  destruct o; try discriminate; cbn [frag] in H1; cbn [seg_pend].
  - destruct labels; [|discriminate]. destruct props; [|discriminate].
    cbn [step]. destruct (ctx st s0) as [e0 t0]. reflexivity.
  - apply Z.eqb_eq in H1. subst s0. cbn [step]. rewrite (x_sess _ _ _ _ X s), Z.eqb_refl. cbn.
    unfold upd. rewrite Z.eqb_refl, <- app_assoc. reflexivity.
  - apply Z.eqb_eq in H1. subst s0. cbn [step]. rewrite (x_sess _ _ _ _ X s), Z.eqb_refl. cbn.
    unfold upd. rewrite Z.eqb_refl, <- app_assoc. reflexivity.
  - reflexivity.
Qed.

Lemma atomic_commit_outside_K_l : forall ops0 s seg,
  let st0 := final ops0 in
  sess st0 s = None -> forallb (frag s) seg = true ->
  let st1 := fst (run_from st0 (Begin s :: seg ++ [Commit s])) in
  (* the triples: the buffer applied in order *)
  rdf st1 = fold_left apply_pend (seg_pend seg) (rdf st0)
  (* every node the transaction created is visible to everybody who begins afterwards, with no labels *)
  /\ (forall n, n_next st0 <= n < n_next st1 ->
        n_labels st1 n = [] /\
        (forall e' t', tm_epoch st1 <= e' -> c_visible_to (n_chain st1 n) e' t' = true) /\
        (tm_epoch st0 = 0 -> c_visible_at (n_chain st1 n) (st_epoch st1) = true))
  (* nothing else has changed *)
  /\ tm_epoch st1 = tm_epoch st0 + 1
  /\ (forall n, n < n_next st0 -> n_chain st1 n = n_chain st0 n /\ n_labels st1 n = n_labels st0 n)
  /\ (forall n, n_props st1 n = n_props st0 n) /\ (forall l, l_index st1 l = l_index st0 l)
  /\ e_next st1 = e_next st0 /\ (forall x, e_chain st1 x = e_chain st0 x /\ e_rec st1 x = e_rec st0 x)
  /\ (forall n, fwd st1 n = fwd st0 n /\ fwd_del st1 n = fwd_del st0 n /\ bwd st1 n = bwd st0 n /\ bwd_del st1 n = bwd_del st0 n)
  /\ (forall s', sess st1 s' = sess st0 s').
Proof.
  intros ops0 s seg st0 Hs Hf st1. pose proof (inv_final ops0) as Hi. fold st0 in Hi.
  unfold st1. rewrite run_from_cons. cbn [fst].
  pose proof (txrel_begin st0 s Hi Hs) as X0.
  pose proof (txrel_run seg st0 s (tm_next st0) _ X0 Hf) as X.
  pose proof (txrel_buf seg st0 s (tm_next st0) _ X0 Hf) as B.
  assert (E : fst (run_from (fst (step st0 (Begin s))) (seg ++ [Commit s]))
              = fst (step (fst (run_from (fst (step st0 (Begin s))) seg)) (Commit s))).
  { generalize (fst (step st0 (Begin s))). clear. induction seg as [|o r IH]; intros st.
    - cbn [app]. rewrite run_from_cons. reflexivity.
    - cbn [app]. rewrite !run_from_cons. cbn [fst]. apply IH. }
  rewrite E. clear E.
  assert (B0 : rdf_buf (fst (step st0 (Begin s))) (tm_next st0) = []).
  { cbn [step]. rewrite Hs. cbn. apply (fresh_tx_no_versions st0 Hi). }
  rewrite B0 in B. cbn [app] in B.
  set (st := fst (run_from (fst (step st0 (Begin s))) seg)) in *.
  cbn [step]. rewrite (x_sess _ _ _ _ X s), Z.eqb_refl. unfold tm_commit. cbn. rewrite (x_state_t _ _ _ _ X). cbn.
  pose proof (i_store st0 Hi) as Hst. pose proof (i_epoch st0 Hi) as Hep.
  destruct X. split; [rewrite B, x_rdf0; reflexivity|]. split; [|split; [lia|]].
  - intros n Hn. destruct (x_chain_new0 n Hn) as [C L]. split; [exact L|]. rewrite C. split.
    + intros e' t' He'. cbn. unfold v_visible_to, v_visible_at. cbn.
      destruct (tm_next st0 =? t'); [reflexivity|]. destruct (Z.leb_spec (tm_epoch st0) e'); [reflexivity|lia].
    + intros E0. cbn. unfold v_visible_at. cbn. rewrite x_store0, Hst, E0. reflexivity.
  - split; [intros n Hn; split; [apply x_chain_old0|apply x_labels0]; exact Hn|].
    split; [exact x_props0|]. split; [exact x_lidx0|]. split; [exact x_en0|].
    split; [intros x; split; [apply x_echain0|apply x_erec0]|]. split; [exact x_fwd0|].
    intros s'. unfold upd. rewrite x_sess0. destruct (Z.eqb_spec s' s); [subst; symmetry; exact Hs|reflexivity].
Qed.

(** ** latent: a commit that reported an error would not be all-or-nothing.
    [Session::commit] takes the transaction out of the session, applies the triple buffer
    ([rdf_store.commit_tx]) and only then asks the manager; a refusal (possible only for a transaction that is
    not Active — by [commit_never_fails] no history of sessions reaches such a state) would come after the
    triples have been applied, and nothing removes the transaction's node / edge versions or in-place writes. *)
Lemma failed_commit_would_leak_l : forall st s t, sess st s = Some t -> tm_state st t <> Some Active ->
  let st' := fst (step st (Commit s)) in
  snd (step st (Commit s)) = OErr
  /\ rdf st' = fold_left apply_pend (rdf_buf st t) (rdf st)
  /\ sess st' s = None
  /\ n_chain st' = n_chain st /\ e_chain st' = e_chain st /\ n_props st' = n_props st
  /\ n_labels st' = n_labels st /\ l_index st' = l_index st /\ tm_state st' = tm_state st.
Proof.
  intros st s t Hs Hna. cbn [step]. rewrite Hs. unfold tm_commit. cbn.
  destruct (tm_state st t) as [[]|] eqn:E; try (exfalso; apply Hna; reflexivity); cbn;
    unfold upd; rewrite Z.eqb_refl; repeat split; reflexivity.
Qed.

(** ** dropping a session (3eb02b5, repair of C02-K4): its open transaction is rolled back *)
Lemma drop_rolls_back_l : forall ops s t, sess (final ops) s = Some t ->
  let st' := fst (step (final ops) (DropSession s)) in
  st' = fst (step (final ops) (Rollback s))
  /\ snd (step (final ops) (DropSession s)) = OUnit
  /\ tm_state st' t = Some Aborted
  /\ (forall n v, In v (n_chain st' n) \/ In v (e_chain st' n) -> v_by v <> t)
  /\ rdf st' = rdf (final ops) /\ rdf_buf st' t = [] /\ sess st' s = None.
Proof.
  intros ops s t Hs. cbn zeta. rewrite drop_state, drop_out.
  destruct (rollback_ok_l (final ops) s t (inv_final ops) Hs) as [_ [H2 [H3 [H4 [H5 [H6 H7]]]]]].
  repeat split; try assumption.
  intros n v [H|H]; [apply (H3 n v H)|apply (H4 n v H)].
Qed.
Lemma drop_idle_l : forall st s, sess st s = None -> step st (DropSession s) = (st, OUnit).
Proof. intros st s H. cbn [step]. rewrite H. reflexivity. Qed.
