(** C01 / C02 — theorems about the model that hold for all histories (they follow from the invariant
    of ProofsInv.v and from the visibility characterisation of ProofsVis.v). *)
From Coq Require Import ZArith List Bool Lia.
Import ListNotations.
From GV Require Import Mvcc.Model Mvcc.ProofsVis Mvcc.ProofsInv.
Open Scope Z_scope.

(** ** the store's own epoch *)
Lemma store_epoch_never_advances_l : forall ops, st_epoch (final ops) = 0.
Proof. intros. apply (i_store _ (inv_final ops)). Qed.

(** ** stamping: a version carries the START epoch of the transaction that created it *)
Lemma stamped_with_start_epoch_l : forall ops n v,
  In v (n_chain (final ops) n) \/ In v (e_chain (final ops) n) ->
  v_by v <> SYSTEM -> tm_start (final ops) (v_by v) = Some (v_created v).
Proof.
  intros ops n v H Hs. pose proof (inv_final ops) as Hi.
  assert (Hv : ver_ok (final ops) v) by (destruct H; [eapply i_nver|eapply i_ever]; eauto).
  destruct Hv as [[H1 _]|[H1 _]]; [contradiction|exact H1].
Qed.

(** ** later starters are invisible *)
Definition later_starter (st : state) (e t : Z) (v : version) : Prop :=
  v_by v <> SYSTEM /\ v_by v <> t /\ exists e', tm_start st (v_by v) = Some e' /\ e < e'.

Lemma later_version_invisible : forall st e t v, inv st ->
  (exists n, In v (n_chain st n) \/ In v (e_chain st n)) -> later_starter st e t v -> v_visible_to v e t = false.
Proof.
  intros st e t v Hi [n Hin] [Hs [Ht [e' [He' Hlt]]]].
  assert (Hv : ver_ok st v) by (destruct Hin; [eapply i_nver|eapply i_ever]; eauto).
  destruct Hv as [[H1 _]|[H1 _]]; [contradiction|].
  rewrite He' in H1. injection H1 as H1.
  unfold v_visible_to. destruct (Z.eqb_spec (v_by v) t); [contradiction|].
  unfold v_visible_at. destruct (Z.leb_spec (v_created v) e); [lia|reflexivity].
Qed.

Lemma existsb_false : forall {A} (f : A -> bool) l, (forall x, In x l -> f x = false) -> existsb f l = false.
Proof.
  intros A f l H. induction l as [|a r IH]; [reflexivity|]. cbn [existsb].
  rewrite (H a (or_introl eq_refl)). cbn. apply IH. intros x Hx. apply H. right. exact Hx.
Qed.

Lemma later_starters_invisible_node_l : forall ops s n,
  let st := final ops in
  let e := fst (ctx st s) in let t := snd (ctx st s) in
  (forall v, In v (n_chain st n) -> later_starter st e t v) ->
  get_node_versioned st n e t = None /\ (forall m, ~ In n (scan st m e t)).
Proof.
  intros ops s n st e t H. pose proof (inv_final ops) as Hi. fold st in Hi.
  assert (Hc : c_visible_to (n_chain st n) e t = false).
  { unfold c_visible_to. apply existsb_false. intros v Hv.
    apply (later_version_invisible st e t v Hi); [exists n; left; exact Hv|apply H; exact Hv]. }
  split.
  - unfold get_node_versioned. rewrite Hc. reflexivity.
  - intros m Hin. unfold scan in Hin. apply filter_In in Hin. destruct Hin as [_ Hin]. congruence.
Qed.

Lemma later_starters_invisible_edge_l : forall ops s x,
  let st := final ops in
  let e := fst (ctx st s) in let t := snd (ctx st s) in
  (forall v, In v (e_chain st x) -> later_starter st e t v) ->
  get_edge_versioned st x e t = None
  /\ (forall a d ty b, ~ In (a, x, b) (expand_row st a d ty e t)).
Proof.
  intros ops s x st e t H. pose proof (inv_final ops) as Hi. fold st in Hi.
  assert (Hc : c_visible_to (e_chain st x) e t = false).
  { unfold c_visible_to. apply existsb_false. intros v Hv.
    apply (later_version_invisible st e t v Hi); [exists x; right; exact Hv|apply H; exact Hv]. }
  split.
  - unfold get_edge_versioned. rewrite Hc. reflexivity.
  - intros a d ty b Hin. apply expand_row_iff in Hin.
    destruct Hin as [b' [x' [Hr [_ [_ [Hx _]]]]]]. inversion Hr; subst x'.
    apply c_visible_to_iff in Hx. congruence.
Qed.

(** ** own writes are visible through the versioned paths *)
Lemma addz_in : forall x y l, In y (addz x l) <-> y = x \/ In y l.
Proof.
  intros x y l. unfold addz. destruct (memz x l) eqn:E.
  - apply memz_iff in E. split; [auto|intros [->|H]; assumption].
  - rewrite in_app_iff. cbn. split.
    + intros [H|[H|[]]]; [right; exact H|left; symmetry; exact H].
    + intros [H|H]; [right; left; symmetry; exact H|left; exact H].
Qed.
Lemma dedupz_in_gen : forall l acc y, In y (fold_left (fun a x => addz x a) l acc) <-> In y l \/ In y acc.
Proof.
  induction l as [|x r IH]; intros acc y; cbn [fold_left].
  - cbn. tauto.
  - rewrite IH, addz_in. cbn. split; intros H; intuition.
Qed.
Lemma dedupz_in : forall l y, In y (dedupz l) <-> In y l.
Proof. intros. unfold dedupz. rewrite dedupz_in_gen. cbn. tauto. Qed.

Lemma label_index_after_create : forall id ls li l,
  In l ls -> In id (fold_left (fun li l => upd li l (addz id (li l))) ls li l).
Proof.
  intros id ls. induction ls as [|x r IH]; intros li l H; [contradiction|]. cbn [fold_left].
  destruct (in_dec Z.eq_dec l r) as [Hr|Hr].
  - apply IH. exact Hr.
  - destruct H as [->|H]; [|contradiction].
    assert (G : forall r li, ~ In l r -> In id (li l) -> In id (fold_left (fun li l => upd li l (addz id (li l))) r li l)).
    { clear. induction r as [|y r IH]; intros li Hn H; [exact H|]. cbn [fold_left]. apply IH.
      - intros C. apply Hn. right. exact C.
      - unfold upd. destruct (Z.eqb_spec l y); [exfalso; apply Hn; left; congruence|exact H]. }
    apply G; [exact Hr|]. unfold upd. rewrite Z.eqb_refl. apply addz_in. left. reflexivity.
Qed.

Lemma fold_set_prop_frame : forall props st id,
  let st' := fold_left (fun s kv => set_node_property s id (fst kv) (snd kv)) props st in
  n_chain st' = n_chain st /\ n_labels st' = n_labels st /\ l_index st' = l_index st /\ n_next st' = n_next st
  /\ sess st' = sess st /\ tm_start st' = tm_start st /\ tm_epoch st' = tm_epoch st.
Proof.
  induction props as [|kv r IH]; intros st id; cbn [fold_left]; [repeat split|].
  specialize (IH (set_node_property st id (fst kv) (snd kv)) id). cbn in IH. exact IH.
Qed.

Lemma own_node_visible_l : forall st s labels props st' id,
  reach st -> step st (CreateNode s labels props) = (st', OId id) ->
  let e := fst (ctx st s) in let t := snd (ctx st s) in
  ctx st' s = ctx st s
  /\ (exists ps, get_node_versioned st' id e t = Some (dedupz labels, ps))
  /\ (forall l, In l labels -> In id (scan st' (SelLabel l) e t)).
Proof.
  intros st s labels props st' id Hr Hstep e t. pose proof (inv_reach st Hr) as Hi.
  cbn [step] in Hstep. unfold e, t. destruct (ctx st s) as [e0 t0] eqn:Hc. cbn [fst snd].
  unfold create_node_with_props in Hstep.
  destruct (create_node_versioned st labels e0 t0) as [st1 id1] eqn:E.
  injection Hstep as <- <-.
  pose proof (fold_set_prop_frame props st1 id1) as Hf.
  cbn zeta in Hf. destruct Hf as [F1 [F2 [F3 [F4 [F5 [F6 F7]]]]]].
  unfold create_node_versioned in E. injection E as <- <-.
  cbn in F1, F2, F3, F4, F5, F6, F7.
  split; [|split].
  - unfold ctx. rewrite F5, F6, F7. exact Hc.
  - unfold get_node_versioned. rewrite F1, F2. unfold upd at 1. rewrite Z.eqb_refl.
    assert (Hv : c_visible_to [mkV e0 None t0] e0 t0 = true).
    { cbn. unfold v_visible_to. cbn. rewrite Z.eqb_refl. reflexivity. }
    rewrite Hv. unfold upd at 1. rewrite Z.eqb_refl. eexists. reflexivity.
  - intros l Hl. apply scan_iff. rewrite F4, F1, F3. cbn.
    pose proof (proj1 (i_nnext st Hi)). split; [lia|]. split.
    + exists (mkV e0 None t0). unfold upd. rewrite Z.eqb_refl. split; [left; reflexivity|].
      left. split; reflexivity.
    + apply label_index_after_create. apply dedupz_in. exact Hl.
Qed.

Lemma own_edge_visible_l : forall st s a b ty st' id,
  step st (CreateEdge s a b ty) = (st', OId id) ->
  let e := fst (ctx st s) in let t := snd (ctx st s) in
  ctx st' s = ctx st s /\ get_edge_versioned st' id e t = Some (a, b, ty).
Proof.
  intros st s a b ty st' id Hstep e t. cbn [step] in Hstep. unfold e, t.
  destruct (ctx st s) as [e0 t0] eqn:Hc. cbn [fst snd].
  unfold create_edge_versioned in Hstep. injection Hstep as <- <-. split.
  - unfold ctx. cbn. exact Hc.
  - unfold get_edge_versioned. cbn. unfold upd. rewrite Z.eqb_refl. cbn.
    unfold v_visible_to. cbn. rewrite Z.eqb_refl. reflexivity.
Qed.

(** ** commit: every creation of the transaction is visible to everybody who begins afterwards *)
Lemma epoch_monotone_l : forall st o, tm_epoch st <= tm_epoch (fst (step st o)).
Proof.
  intros st o. destruct o; cbn [step]; try lia;
    repeat match goal with
           | |- context [ctx ?st ?s] => destruct (ctx st s)
           | |- context [sess ?st ?s] => destruct (sess st s)
           end; cbn; try lia.
  all: try (apply Z.eq_le_incl; symmetry;
            match goal with
            | |- tm_epoch (fold_left ?f ?l ?st) = _ => apply (p_epoch _ _ (fold_pres f ltac:(intros; first [apply pres_set_node_property|apply pres_add_label|apply pres_remove_label]) l st))
            end).
  all: try (unfold tm_commit, tm_abort; cbn; destruct (tm_state _ _) as [[]|]; cbn; lia).
Abort.

Lemma commit_ok_l : forall st s t, inv st -> sess st s = Some t ->
  snd (step st (Commit s)) = OUnit
  /\ tm_state (fst (step st (Commit s))) t = Some Committed
  /\ tm_epoch (fst (step st (Commit s))) = tm_epoch st + 1
  /\ n_chain (fst (step st (Commit s))) = n_chain st
  /\ e_chain (fst (step st (Commit s))) = e_chain st
  /\ sess (fst (step st (Commit s))) s = None.
Proof.
  intros st s t Hi Hs. pose proof (i_sess st Hi s t Hs) as Ha.
  cbn [step]. rewrite Hs. unfold tm_commit. cbn. rewrite Ha. cbn.
  unfold upd. rewrite !Z.eqb_refl. repeat split; reflexivity.
Qed.

Lemma commit_visible_later_l : forall ops s t,
  sess (final ops) s = Some t ->
  let st' := fst (step (final ops) (Commit s)) in
  snd (step (final ops) (Commit s)) = OUnit
  /\ forall n v, (In v (n_chain st' n) \/ In v (e_chain st' n)) -> v_by v = t -> v_deleted v = None ->
       forall e' t', tm_epoch st' <= e' -> v_visible_to v e' t' = true.
Proof.
  intros ops s t Hs st'. pose proof (inv_final ops) as Hi.
  destruct (commit_ok_l (final ops) s t Hi Hs) as [H1 [H2 [H3 [H4 [H5 H6]]]]].
  split; [exact H1|]. intros n v Hin Hb Hd e' t' He'. unfold st' in *. rewrite H4, H5 in Hin. rewrite H3 in He'.
  assert (Hv : ver_ok (final ops) v) by (destruct Hin; [eapply i_nver|eapply i_ever]; eauto).
  assert (Ht : t <> SYSTEM).
  { pose proof (i_sess _ Hi s t Hs) as Ha. assert (Hn : tm_state (final ops) t <> None) by congruence.
    apply (i_dom_state _ Hi) in Hn. unfold SYSTEM. lia. }
  destruct Hv as [[Hv _]|[Hv _]]; [congruence|].
  rewrite Hb in Hv. pose proof (i_start _ Hi t _ Hv) as Hle.
  unfold v_visible_to. rewrite Hd. destruct (v_by v =? t'); [reflexivity|].
  unfold v_visible_at. rewrite Hd. destruct (Z.leb_spec (v_created v) e'); [reflexivity|lia].
Qed.

(** ** rollback: the transaction's versions are gone, for ever *)
Lemma rollback_ok_l : forall st s t, inv st -> sess st s = Some t ->
  let st' := fst (step st (Rollback s)) in
  snd (step st (Rollback s)) = OUnit
  /\ tm_state st' t = Some Aborted
  /\ (forall n v, In v (n_chain st' n) -> In v (n_chain st n) /\ v_by v <> t)
  /\ (forall x v, In v (e_chain st' x) -> In v (e_chain st x) /\ v_by v <> t)
  /\ rdf st' = rdf st /\ rdf_buf st' t = [] /\ sess st' s = None.
Proof.
  intros st s t Hi Hs st'. pose proof (i_sess st Hi s t Hs) as Ha. unfold st'.
  cbn [step]. rewrite Hs. unfold tm_abort. cbn. rewrite Ha. cbn.
  unfold upd. rewrite !Z.eqb_refl. repeat split; try reflexivity.
  - apply c_remove_by_in in H. tauto.
  - apply c_remove_by_in in H. tauto.
  - apply c_remove_by_in in H. tauto.
  - apply c_remove_by_in in H. tauto.
Qed.

Lemma no_aborted_versions_l : forall ops n v,
  In v (n_chain (final ops) n) \/ In v (e_chain (final ops) n) ->
  tm_state (final ops) (v_by v) <> Some Aborted.
Proof.
  intros ops n v H. pose proof (inv_final ops) as Hi.
  assert (Hv : ver_ok (final ops) v) by (destruct H; [eapply i_nver|eapply i_ever]; eauto).
  destruct Hv as [[H1 _]|[_ [H2|H2]]]; try congruence.
  rewrite H1. intros C. assert (Hn : tm_state (final ops) SYSTEM <> None) by congruence.
  apply (i_dom_state _ Hi) in Hn. unfold SYSTEM in Hn. lia.
Qed.

Lemma rollback_versions_l : forall ops s t,
  sess (final ops) s = Some t ->
  let st' := fst (step (final ops) (Rollback s)) in
  snd (step (final ops) (Rollback s)) = OUnit
  /\ tm_state st' t = Some Aborted
  /\ (forall n v, In v (n_chain st' n) \/ In v (e_chain st' n) -> v_by v <> t)
  /\ (forall n e' t', (forall v, In v (n_chain (final ops) n) -> v_by v = t) -> get_node_versioned st' n e' t' = None)
  /\ (forall x e' t', (forall v, In v (e_chain (final ops) x) -> v_by v = t) -> get_edge_versioned st' x e' t' = None).
Proof.
  intros ops s t Hs st'. pose proof (inv_final ops) as Hi.
  destruct (rollback_ok_l (final ops) s t Hi Hs) as [H1 [H2 [H3 [H4 _]]]]. fold st' in H2, H3, H4.
  split; [exact H1|]. split; [exact H2|]. split; [|split].
  - intros n v [H|H]; [apply (H3 n v H)|apply (H4 n v H)].
  - intros n e' t' Hall. unfold get_node_versioned.
    assert (Hc : c_visible_to (n_chain st' n) e' t' = false).
    { unfold c_visible_to. apply existsb_false. intros v Hv. destruct (H3 n v Hv) as [Hin Hb].
      exfalso. apply Hb. apply Hall. exact Hin. }
    rewrite Hc. reflexivity.
  - intros x e' t' Hall. unfold get_edge_versioned.
    assert (Hc : c_visible_to (e_chain st' x) e' t' = false).
    { unfold c_visible_to. apply existsb_false. intros v Hv. destruct (H4 x v Hv) as [Hin Hb].
      exfalso. apply Hb. apply Hall. exact Hin. }
    rewrite Hc. reflexivity.
Qed.

(** ** the transaction state machine *)
Lemma pres_state_fold : forall {A} (f : state -> A -> state), (forall st x, pres st (f st x)) ->
  forall l st, tm_state (fold_left f l st) = tm_state st.
Proof. intros A f Hf l st. apply (p_state _ _ (fold_pres f Hf l st)). Qed.

Lemma final_states_absorb_l : forall st o t, inv st ->
  (tm_state st t = Some Committed \/ tm_state st t = Some Aborted) ->
  tm_state (fst (step st o)) t = tm_state st t.
Proof.
  intros st o t Hi Ht.
  assert (Hlt : 2 <= t < tm_next st).
  { apply (i_dom_state st Hi). destruct Ht as [Ht|Ht]; congruence. }
  destruct o; cbn [step].
  - destruct (sess st s); [reflexivity|]. cbn. unfold upd. destruct (Z.eqb_spec t (tm_next st)); [lia|reflexivity].
  - destruct (sess st s) as [t0|] eqn:Hs; [|reflexivity]. pose proof (i_sess st Hi s t0 Hs) as Ha.
    unfold tm_commit. cbn. rewrite Ha. cbn. unfold upd.
    destruct (Z.eqb_spec t t0); [subst; destruct Ht; congruence|reflexivity].
  - destruct (sess st s) as [t0|] eqn:Hs; [|reflexivity]. pose proof (i_sess st Hi s t0 Hs) as Ha.
    unfold tm_abort. cbn. rewrite Ha. cbn. unfold upd.
    destruct (Z.eqb_spec t t0); [subst; destruct Ht; congruence|reflexivity].
  - (* DropSession: as Rollback *)
    destruct (sess st s) as [t0|] eqn:Hs; [|reflexivity]. pose proof (i_sess st Hi s t0 Hs) as Ha.
    unfold tm_abort. cbn. rewrite Ha. cbn. unfold upd.
    destruct (Z.eqb_spec t t0); [subst; destruct Ht; congruence|reflexivity].
  - destruct (ctx st s) as [e0 t0].
    pose proof (fold_set_prop_frame props (fst (create_node_versioned st labels e0 t0)) (snd (create_node_versioned st labels e0 t0))) as _.
    unfold create_node_with_props. destruct (create_node_versioned st labels e0 t0) as [st1 id] eqn:E. cbn [fst].
    rewrite (pres_state_fold _ (fun s kv => pres_set_node_property s id (fst kv) (snd kv))).
    unfold create_node_versioned in E. injection E as <- _. reflexivity.
  - destruct (ctx st s) as [e0 t0]. cbn [fst].
    rewrite (pres_state_fold (fun st' n => fst (delete_node_at_epoch (if detach then delete_node_edges st' n else st') n e0))); [reflexivity|].
    intros st' n. destruct detach.
    + eapply pres_trans; [apply pres_delete_node_edges|apply pres_delete_node_at_epoch].
    + apply pres_delete_node_at_epoch.
  - destruct (ctx st s) as [e0 t0]. reflexivity.
  - destruct (ctx st s) as [e0 t0]. destruct (matched st ma src e0 t0); [reflexivity|].
    destruct (matched st mb dst e0 t0); reflexivity.
  - pose proof (pres_delete_edge_at_epoch st e (st_epoch st)) as H.
    destruct (delete_edge_at_epoch st e (st_epoch st)) as [st1 b]. cbn [fst] in *. rewrite (p_state _ _ H). reflexivity.
  - destruct (ctx st s) as [e0 t0]. cbn [fst].
    rewrite (pres_state_fold (fun st' n => set_node_property st' n k v)); [reflexivity|]. intros. apply pres_set_node_property.
  - destruct (ctx st s) as [e0 t0]. cbn [fst].
    rewrite (pres_state_fold (fun st' n => set_node_property st' n k None)); [reflexivity|]. intros. apply pres_set_node_property.
  - destruct (ctx st s) as [e0 t0]. cbn [fst].
    rewrite (pres_state_fold (fun st' n => fst (add_label st' n l))); [reflexivity|]. intros. apply pres_add_label.
  - destruct (ctx st s) as [e0 t0]. cbn [fst].
    rewrite (pres_state_fold (fun st' n => fst (remove_label st' n l))); [reflexivity|]. intros. apply pres_remove_label.
  - destruct (sess st s); reflexivity.
  - destruct (sess st s); reflexivity.
  - exact (f_equal (fun f => f t) (p_state _ _ (pres_db_delete_node st n))).
  - reflexivity.
  - reflexivity.
  - pose proof (pres_add_label st n l) as H.
    destruct (add_label st n l) as [st1 b]. cbn [fst] in *. rewrite (p_state _ _ H). reflexivity.
  - pose proof (pres_remove_label st n l) as H.
    destruct (remove_label st n l) as [st1 b]. cbn [fst] in *. rewrite (p_state _ _ H). reflexivity.
  - reflexivity.
Qed.

Lemma second_end_is_error_l : forall st s, sess st s = None ->
  step st (Commit s) = (st, OErr) /\ step st (Rollback s) = (st, OErr).
Proof. intros st s H. cbn [step]. rewrite H. split; reflexivity. Qed.

Lemma end_closes_session_l : forall st s,
  sess (fst (step st (Commit s))) s = None /\ sess (fst (step st (Rollback s))) s = None.
Proof.
  intros st s. cbn [step]. destruct (sess st s) as [t|] eqn:Hs; cbn [fst]; [|split; exact Hs].
  split.
  - unfold tm_commit. cbn. destruct (tm_state st t) as [[]|]; cbn; unfold upd; rewrite Z.eqb_refl; reflexivity.
  - unfold tm_abort. cbn. destruct (tm_state st t) as [[]|]; cbn; unfold upd; rewrite Z.eqb_refl; reflexivity.
Qed.

(** ** triples: isolation of pending operations, atomic application *)
Lemma rdf_pending_invisible_l : forall st s t tr, sess st s = Some t ->
  let st1 := fst (step st (InsertTriple s tr)) in
  let st2 := fst (step st (DeleteTriple s tr)) in
  rdf st1 = rdf st /\ rdf st2 = rdf st
  /\ (forall s' p, read st1 s' (TripleQ p) = read st s' (TripleQ p) /\ read st2 s' (TripleQ p) = read st s' (TripleQ p))
  /\ (forall t', t' <> t -> rdf_buf st1 t' = rdf_buf st t' /\ rdf_buf st2 t' = rdf_buf st t').
Proof.
  intros st s t tr Hs st1 st2. unfold st1, st2. cbn [step]. rewrite Hs. cbn [fst].
  split; [reflexivity|]. split; [reflexivity|]. split.
  - intros s' p. unfold read. cbn. destruct (sess st s') as [t0|].
    + destruct (tm_start st t0); split; reflexivity.
    + split; reflexivity.
  - intros t' Ht. cbn. unfold upd. destruct (Z.eqb_spec t' t); [contradiction|split; reflexivity].
Qed.

Lemma rdf_commit_applies_buffer_l : forall st s t, sess st s = Some t ->
  let st' := fst (step st (Commit s)) in
  rdf st' = fold_left apply_pend (rdf_buf st t) (rdf st) /\ rdf_buf st' t = [].
Proof.
  intros st s t Hs st'. unfold st'. cbn [step]. rewrite Hs. unfold tm_commit. cbn.
  destruct (tm_state st t) as [[]|]; cbn; unfold upd; rewrite Z.eqb_refl; split; reflexivity.
Qed.

Lemma rdf_rollback_drops_buffer_l : forall st s t, sess st s = Some t ->
  let st' := fst (step st (Rollback s)) in rdf st' = rdf st /\ rdf_buf st' t = [].
Proof.
  intros st s t Hs st'. unfold st'. cbn [step]. rewrite Hs. unfold tm_abort. cbn.
  destruct (tm_state st t) as [[]|]; cbn; unfold upd; rewrite Z.eqb_refl; split; reflexivity.
Qed.

(** a read outside a transaction returns the committed triples *)
Lemma rdf_read_committed_l : forall st s p,
  read st s (TripleQ p) = OTriples (rdf_find (rdf st) p)
  /\ (sess st s = None -> read st s (TripleApi p) = OTriples (rdf_find (rdf st) p)).
Proof.
  intros st s p. split.
  - unfold read. destruct (ctx st s). reflexivity.
  - intros H. unfold read. destruct (ctx st s). rewrite H. reflexivity.
Qed.

(** operations that are not triple operations or transaction ends (commit, rollback, dropping the session)
    leave the committed triples and all buffers alone *)
Definition rdf_neutral (o : op) : bool :=
  match o with
  | InsertTriple _ _ | DeleteTriple _ _ | Commit _ | Rollback _ | DropSession _ => false
  | _ => true
  end.
Lemma rdf_frame_l : forall st o, rdf_neutral o = true ->
  rdf (fst (step st o)) = rdf st /\ rdf_buf (fst (step st o)) = rdf_buf st.
Proof.
  intros st o Hn. destruct o; try discriminate; cbn [step].
  - destruct (sess st s); split; reflexivity.
  - destruct (ctx st s) as [e0 t0]. unfold create_node_with_props.
    destruct (create_node_versioned st labels e0 t0) as [st1 id] eqn:E. cbn [fst].
    pose proof (fold_pres (fun s kv => set_node_property s id (fst kv) (snd kv))
                          (fun s kv => pres_set_node_property s id (fst kv) (snd kv)) props st1) as H.
    rewrite (p_rdf _ _ H), (p_buf _ _ H). unfold create_node_versioned in E. injection E as <- _. split; reflexivity.
  - destruct (ctx st s) as [e0 t0]. cbn [fst].
    assert (H : pres st (fold_left (fun st' n => fst (delete_node_at_epoch (if detach then delete_node_edges st' n else st') n e0))
                                   (matched st m id e0 t0) st)).
    { apply fold_pres. intros st' n. destruct detach.
      - eapply pres_trans; [apply pres_delete_node_edges|apply pres_delete_node_at_epoch].
      - apply pres_delete_node_at_epoch. }
    rewrite (p_rdf _ _ H), (p_buf _ _ H). split; reflexivity.
  - destruct (ctx st s) as [e0 t0]. split; reflexivity.
  - destruct (ctx st s) as [e0 t0]. destruct (matched st ma src e0 t0); [split; reflexivity|].
    destruct (matched st mb dst e0 t0); split; reflexivity.
  - pose proof (pres_delete_edge_at_epoch st e (st_epoch st)) as H.
    destruct (delete_edge_at_epoch st e (st_epoch st)) as [st1 b]. cbn [fst] in *.
    rewrite (p_rdf _ _ H), (p_buf _ _ H). split; reflexivity.
  - destruct (ctx st s) as [e0 t0]. cbn [fst].
    pose proof (fold_pres (fun st' n => set_node_property st' n k v) (fun st' n => pres_set_node_property st' n k v) (matched st m id e0 t0) st) as H.
    rewrite (p_rdf _ _ H), (p_buf _ _ H). split; reflexivity.
  - destruct (ctx st s) as [e0 t0]. cbn [fst].
    pose proof (fold_pres (fun st' n => set_node_property st' n k None) (fun st' n => pres_set_node_property st' n k None) (matched st m id e0 t0) st) as H.
    rewrite (p_rdf _ _ H), (p_buf _ _ H). split; reflexivity.
  - destruct (ctx st s) as [e0 t0]. cbn [fst].
    pose proof (fold_pres (fun st' n => fst (add_label st' n l)) (fun st' n => pres_add_label st' n l) (matched st m id e0 t0) st) as H.
    rewrite (p_rdf _ _ H), (p_buf _ _ H). split; reflexivity.
  - destruct (ctx st s) as [e0 t0]. cbn [fst].
    pose proof (fold_pres (fun st' n => fst (remove_label st' n l)) (fun st' n => pres_remove_label st' n l) (matched st m id e0 t0) st) as H.
    rewrite (p_rdf _ _ H), (p_buf _ _ H). split; reflexivity.
  - split; [exact (p_rdf _ _ (pres_db_delete_node st n))|exact (p_buf _ _ (pres_db_delete_node st n))].
  - split; reflexivity.
  - split; reflexivity.
  - pose proof (pres_add_label st n l) as H.
    destruct (add_label st n l) as [st1 b]. cbn [fst] in *. rewrite (p_rdf _ _ H), (p_buf _ _ H). split; reflexivity.
  - pose proof (pres_remove_label st n l) as H.
    destruct (remove_label st n l) as [st1 b]. cbn [fst] in *. rewrite (p_rdf _ _ H), (p_buf _ _ H). split; reflexivity.
  - split; reflexivity.
Qed.
