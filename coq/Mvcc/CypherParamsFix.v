(** C01-K7 — PREPARED, NOT ACTIVE.  The model of [FreshLabelScan] after the proposed repair
    /verif/proposed-fixes/C01-cypher-params-manager.diff (GrafeoDB::execute_cypher_with_params builds its
    QueryProcessor on the database's own transaction manager, [for_lpg_with_tx], as Session does for the other
    languages).  Nothing in Props_C0x.v, Run.v or the checks refers to this file.

    To activate once the repair is committed to /repo:
      1. Model.v [read]: [FreshLabelScan l => OIds (scan st (SelLabel l) (tm_epoch st) SYSTEM)]; keep the old branch
         for a [k7_pre_refuted] theorem;
      2. Run.v [classify_read]: [FreshLabelScan l] is classified like [LabelScan l] read by a session without
         transaction (class 7 disappears; the statements of Props_C01.v go back to [1 <= c <= 6]);
      3. known.d/C01.json: C01-K7 -> "status": "fixed" with the commit id; the witness corpus:K7-fresh-manager must pass. *)
From Coq Require Import ZArith List Bool.
Import ListNotations.
From GV Require Import Mvcc.Model.
Open Scope Z_scope.

Definition fresh_label_scan_fixed (st : state) (l : Z) : out := OIds (scan st (SelLabel l) (tm_epoch st) SYSTEM).

(** after the repair the call answers exactly like [MATCH (n:l) RETURN n] issued by a session that has no open
    transaction *)
Lemma fresh_fixed_is_label_scan : forall st s l, sess st s = None ->
  fresh_label_scan_fixed st l = read st s (LabelScan l).
Proof. intros st s l H. unfold fresh_label_scan_fixed, read, ctx. rewrite H. reflexivity. Qed.

(** the witness of [k7_refuted]: today [] , after the repair [0] *)
Example fresh_fixed_witness :
  let st := final [Begin 0; Commit 0; Begin 0; CreateNode 0 [0] [(0, Some 1)]; Commit 0] in
  read st 9 (FreshLabelScan 0) = OIds [] /\ fresh_label_scan_fixed st 0 = OIds [0].
Proof. vm_compute. split; reflexivity. Qed.
