(** C01 / C02 — executable model of the session / MVCC layer of grafeo, transcribed from the code
    that exists (defects included):

      crates/grafeo-common/src/mvcc.rs          VersionInfo::{is_visible_at,is_visible_to},
                                                VersionChain::{visible_at,visible_to,mark_deleted,remove_versions_by}
      crates/grafeo-core/src/graph/lpg/store.rs create_node_versioned, create_node_with_props_versioned,
                                                get_node_at_epoch, get_node_versioned, delete_node_at_epoch,
                                                delete_node_edges, set_node_property, remove_node_property,
                                                add_label, remove_label, node_count, node_ids,
                                                create_edge_versioned, get_edge_versioned, delete_edge_at_epoch,
                                                edge_count, discard_uncommitted_versions, edges_from,
                                                out_degree, in_degree, edge_type, nodes_by_label
      crates/grafeo-core/src/index/adjacency.rs ChunkedAdjacency::{add_edge,mark_deleted,edges_from,out_degree}
                                                (insertion-ordered list + tombstone set; compaction is not observable)
      crates/grafeo-core/src/execution/operators/{scan,expand,mutation,project}.rs
      crates/grafeo-core/src/graph/rdf/store.rs insert, remove, find, insert_in_tx, remove_in_tx, commit_tx,
                                                rollback_tx, find_with_pending
      crates/grafeo-engine/src/query/planner_rdf.rs  RdfInsertTripleOperator / RdfDeleteTripleOperator /
                                                RdfTripleScanOperator (scan = [find], never [find_with_pending])
      crates/grafeo-engine/src/transaction/manager.rs begin, commit, abort, start_epoch, current_epoch (core only:
                                                nothing on the session path calls record_write/record_read, so the
                                                validation loops of [commit] range over empty sets; the manager is
                                                modelled in depth in Tm/Model.v)
      crates/grafeo-engine/src/session.rs       begin_tx, commit, rollback, get_transaction_context, create_node*,
                                                create_edge, get_node, get_node_property, get_edge,
                                                get_neighbors_*, get_degree, execute (GQL templates), execute_sparql
      crates/grafeo-engine/src/database.rs      node_count, edge_count, delete_node, delete_edge, set_node_property,
                                                remove_node_property, add_node_label, remove_node_label,
                                                execute_cypher_with_params (+ query/processor.rs QueryProcessor::for_lpg)

    Finite maps are total functions ([Z -> _]) with a default; ids are allocated from counters, so every
    enumeration ranges over [0 .. counter).  Hash-map iteration order is never observable: every list
    output is compared after sorting.  Labels, property keys, edge types and RDF terms are small integers
    (the harness renders them as "L3", "k1", "T0", <http://e/s1>); property values are [option Z]
    ([None] = [Value::Null], which the store keeps as an ordinary value).
    Not modelled: property indexes, statistics, zone maps, edge properties, the WAL, u64 wrap-around of
    counters, tiered storage (feature off in every build of this repository), the [FLAG_DELETED] bit of
    [NodeRecord]/[EdgeRecord] (nothing sets it).
    No proofs in this file. *)
From Coq Require Import ZArith List Bool.
Import ListNotations.
Open Scope Z_scope.

(** ** small helpers *)
Definition upd {A} (f : Z -> A) (k : Z) (v : A) : Z -> A := fun x => if x =? k then v else f x.
Definition memz (x : Z) (l : list Z) : bool := existsb (Z.eqb x) l.
Definition addz (x : Z) (l : list Z) : list Z := if memz x l then l else l ++ [x].
Definition remz (x : Z) (l : list Z) : list Z := filter (fun y => negb (y =? x)) l.
Definition dedupz (l : list Z) : list Z := fold_left (fun acc x => addz x acc) l [].
(** [0; 1; ...; n-1] *)
Definition range (n : Z) : list Z := map Z.of_nat (seq 0 (Z.to_nat n)).

Definition val := option Z.                     (* None = Value::Null *)
Definition val_eqb (a b : val) : bool :=
  match a, b with Some x, Some y => x =? y | None, None => true | _, _ => false end.
Fixpoint pget (k : Z) (l : list (Z * val)) : option val :=
  match l with [] => None | (k', v) :: r => if k' =? k then Some v else pget k r end.
Fixpoint pdel (k : Z) (l : list (Z * val)) : list (Z * val) :=
  match l with [] => [] | (k', v) :: r => if k' =? k then pdel k r else (k', v) :: pdel k r end.
Definition pset (k : Z) (v : val) (l : list (Z * val)) : list (Z * val) := pdel k l ++ [(k, v)].

(** ** mvcc.rs *)
Definition SYSTEM : Z := 1.                     (* TxId::SYSTEM; user transactions start at 2 *)

Record version := mkV { v_created : Z; v_deleted : option Z; v_by : Z }.

(** [VersionInfo::is_visible_at]: created <= epoch, and not (deleted <= epoch) *)
Definition v_visible_at (v : version) (e : Z) : bool :=
  if v_created v <=? e
  then match v_deleted v with Some d => e <? d | None => true end
  else false.
(** [VersionInfo::is_visible_to]: own versions are visible iff not deleted, whatever the epoch *)
Definition v_visible_to (v : version) (e t : Z) : bool :=
  if v_by v =? t
  then match v_deleted v with None => true | Some _ => false end
  else v_visible_at v e.

Definition chain := list version.               (* newest first *)
(** [VersionChain::visible_at(e).is_some()] / [visible_to(e,t).is_some()]: the record data of all
    versions of one entity is identical (records are immutable), so only existence matters *)
Definition c_visible_at (c : chain) (e : Z) : bool := existsb (fun v => v_visible_at v e) c.
Definition c_visible_to (c : chain) (e t : Z) : bool := existsb (fun v => v_visible_to v e t) c.
(** [VersionChain::mark_deleted]: marks the first version that has no deletion epoch yet, whoever calls *)
Fixpoint c_mark_deleted (c : chain) (d : Z) : chain :=
  match c with
  | [] => []
  | v :: r => match v_deleted v with
              | None => mkV (v_created v) (Some d) (v_by v) :: r
              | Some _ => v :: c_mark_deleted r d
              end
  end.
(** [VersionChain::remove_versions_by] *)
Definition c_remove_by (c : chain) (t : Z) : chain := filter (fun v => negb (v_by v =? t)) c.

(** ** state *)
Inductive tstate := Active | Committed | Aborted.
Definition triple := (Z * Z * Z)%type.
Inductive pend := PIns (t : triple) | PDel (t : triple).

Record state := mkState {
  (* TransactionManager *)
  tm_epoch : Z;                      (* current_epoch: +1 per successful commit *)
  tm_next : Z;                       (* next_tx_id, starts at 2 *)
  tm_start : Z -> option Z;          (* TxInfo.start_epoch *)
  tm_state : Z -> option tstate;     (* TxInfo.state *)
  (* LpgStore *)
  st_epoch : Z;                      (* LpgStore.current_epoch: nothing on any modelled path advances it *)
  n_next : Z;
  e_next : Z;
  n_chain : Z -> chain;              (* nodes: empty chain = no entry *)
  e_chain : Z -> chain;
  e_rec : Z -> Z * Z * Z;            (* EdgeRecord: src, dst, type *)
  n_labels : Z -> list Z;            (* node_labels (unversioned) *)
  l_index : Z -> list Z;             (* label_index: label -> node ids (unversioned) *)
  n_props : Z -> list (Z * val);     (* node_properties (unversioned) *)
  fwd : Z -> list (Z * Z);           (* forward_adj: src -> (dst, edge), insertion order *)
  fwd_del : Z -> list Z;             (* tombstones of the forward list of a node *)
  bwd : Z -> list (Z * Z);           (* backward_adj: dst -> (src, edge) *)
  bwd_del : Z -> list Z;
  (* RdfStore *)
  rdf : list triple;                 (* committed triples, duplicate free *)
  rdf_buf : Z -> list pend;          (* TransactionBuffer: tx -> pending operations in order *)
  (* sessions *)
  sess : Z -> option Z               (* Session.current_tx *)
}.

Definition init : state :=
  mkState 0 2 (fun _ => None) (fun _ => None)
          0 0 0 (fun _ => []) (fun _ => []) (fun _ => (0, 0, 0)) (fun _ => []) (fun _ => [])
          (fun _ => []) (fun _ => []) (fun _ => []) (fun _ => []) (fun _ => [])
          [] (fun _ => []) (fun _ => None).

(** record updates *)
Definition set_tm (st : state) (ep nx : Z) (sta : Z -> option Z) (sts : Z -> option tstate) : state :=
  mkState ep nx sta sts (st_epoch st) (n_next st) (e_next st) (n_chain st) (e_chain st) (e_rec st)
          (n_labels st) (l_index st) (n_props st) (fwd st) (fwd_del st) (bwd st) (bwd_del st)
          (rdf st) (rdf_buf st) (sess st).
Definition set_nodes (st : state) (nx : Z) (nc : Z -> chain) (nl li : Z -> list Z) (np : Z -> list (Z * val)) : state :=
  mkState (tm_epoch st) (tm_next st) (tm_start st) (tm_state st) (st_epoch st) nx (e_next st) nc (e_chain st) (e_rec st)
          nl li np (fwd st) (fwd_del st) (bwd st) (bwd_del st) (rdf st) (rdf_buf st) (sess st).
Definition set_edges (st : state) (nx : Z) (ec : Z -> chain) (er : Z -> Z * Z * Z)
           (f : Z -> list (Z * Z)) (fd : Z -> list Z) (b : Z -> list (Z * Z)) (bd : Z -> list Z) : state :=
  mkState (tm_epoch st) (tm_next st) (tm_start st) (tm_state st) (st_epoch st) (n_next st) nx (n_chain st) ec er
          (n_labels st) (l_index st) (n_props st) f fd b bd (rdf st) (rdf_buf st) (sess st).
Definition set_rdf (st : state) (r : list triple) (bf : Z -> list pend) : state :=
  mkState (tm_epoch st) (tm_next st) (tm_start st) (tm_state st) (st_epoch st) (n_next st) (e_next st) (n_chain st)
          (e_chain st) (e_rec st) (n_labels st) (l_index st) (n_props st) (fwd st) (fwd_del st) (bwd st) (bwd_del st)
          r bf (sess st).
Definition set_sess (st : state) (ss : Z -> option Z) : state :=
  mkState (tm_epoch st) (tm_next st) (tm_start st) (tm_state st) (st_epoch st) (n_next st) (e_next st) (n_chain st)
          (e_chain st) (e_rec st) (n_labels st) (l_index st) (n_props st) (fwd st) (fwd_del st) (bwd st) (bwd_del st)
          (rdf st) (rdf_buf st) ss.

(** ** TransactionManager (core) *)
Definition tm_begin (st : state) : state * Z :=
  let t := tm_next st in
  (set_tm st (tm_epoch st) (t + 1) (upd (tm_start st) t (Some (tm_epoch st))) (upd (tm_state st) t (Some Active)), t).
(** [commit]: Err(InvalidState) unless Active; the write/read sets are empty on every session path, so
    no conflict can be reported; then epoch + 1 and state := Committed *)
Definition tm_commit (st : state) (t : Z) : state * bool :=
  match tm_state st t with
  | Some Active => (set_tm st (tm_epoch st + 1) (tm_next st) (tm_start st) (upd (tm_state st) t (Some Committed)), true)
  | _ => (st, false)
  end.
Definition tm_abort (st : state) (t : Z) : state * bool :=
  match tm_state st t with
  | Some Active => (set_tm st (tm_epoch st) (tm_next st) (tm_start st) (upd (tm_state st) t (Some Aborted)), true)
  | _ => (st, false)
  end.

(** [Session::get_transaction_context]: (viewing epoch, tx) *)
Definition ctx (st : state) (s : Z) : Z * Z :=
  match sess st s with
  | Some t => (match tm_start st t with Some e => e | None => tm_epoch st end, t)
  | None => (tm_epoch st, SYSTEM)
  end.

(** ** LpgStore: nodes *)
Definition create_node_versioned (st : state) (labels : list Z) (e t : Z) : state * Z :=
  let id := n_next st in
  let ls := dedupz labels in
  let li := fold_left (fun li l => upd li l (addz id (li l))) ls (l_index st) in
  (set_nodes st (id + 1) (upd (n_chain st) id [mkV e None t]) (upd (n_labels st) id ls) li (n_props st), id).

(** [set_node_property]: no existence check at all *)
Definition set_node_property (st : state) (id k : Z) (v : val) : state :=
  set_nodes st (n_next st) (n_chain st) (n_labels st) (l_index st) (upd (n_props st) id (pset k v (n_props st id))).
(** [remove_node_property] -> was there a value? *)
Definition remove_node_property (st : state) (id k : Z) : state * bool :=
  (set_nodes st (n_next st) (n_chain st) (n_labels st) (l_index st) (upd (n_props st) id (pdel k (n_props st id))),
   match pget k (n_props st id) with Some _ => true | None => false end).

Definition create_node_with_props (st : state) (labels : list Z) (props : list (Z * val)) (e t : Z) : state * Z :=
  let '(st1, id) := create_node_versioned st labels e t in
  (fold_left (fun s kv => set_node_property s id (fst kv) (snd kv)) props st1, id).

(** [get_node_versioned] -> (labels, properties) from the unversioned side tables *)
Definition get_node_versioned (st : state) (id e t : Z) : option (list Z * list (Z * val)) :=
  if c_visible_to (n_chain st id) e t then Some (n_labels st id, n_props st id) else None.
(** [get_node] = [get_node_at_epoch(id, store.current_epoch())] *)
Definition get_node (st : state) (id : Z) : option (list Z * list (Z * val)) :=
  if c_visible_at (n_chain st id) (st_epoch st) then Some (n_labels st id, n_props st id) else None.

(** [delete_node_at_epoch]: visibility by epoch only; then in place: deletion mark, label index,
    node_labels, properties *)
Definition delete_node_at_epoch (st : state) (id e : Z) : state * bool :=
  if c_visible_at (n_chain st id) e then
    let li := fold_left (fun li l => upd li l (remz id (li l))) (n_labels st id) (l_index st) in
    (set_nodes st (n_next st) (upd (n_chain st) id (c_mark_deleted (n_chain st id) e))
               (upd (n_labels st) id []) li (upd (n_props st) id []), true)
  else (st, false).

(** [add_label] / [remove_label]: existence is checked at the store's own epoch *)
Definition add_label (st : state) (id l : Z) : state * bool :=
  if c_visible_at (n_chain st id) (st_epoch st) then
    if memz l (n_labels st id) then (st, false)
    else (set_nodes st (n_next st) (n_chain st) (upd (n_labels st) id (n_labels st id ++ [l]))
                    (upd (l_index st) l (addz id (l_index st l))) (n_props st), true)
  else (st, false).
Definition remove_label (st : state) (id l : Z) : state * bool :=
  if c_visible_at (n_chain st id) (st_epoch st) then
    if memz l (n_labels st id)
    then (set_nodes st (n_next st) (n_chain st) (upd (n_labels st) id (remz l (n_labels st id)))
                    (upd (l_index st) l (remz id (l_index st l))) (n_props st), true)
    else (st, false)
  else (st, false).

(** [node_ids] (sorted) and [node_count]: visible at the store's own epoch *)
Definition node_ids (st : state) : list Z :=
  filter (fun n => c_visible_at (n_chain st n) (st_epoch st)) (range (n_next st)).
Definition node_count (st : state) : Z := Z.of_nat (length (node_ids st)).
(** [nodes_by_label] (sorted): the raw label index *)
Definition nodes_by_label (st : state) (l : Z) : list Z :=
  filter (fun n => memz n (l_index st l)) (range (n_next st)).

(** ** LpgStore: edges and adjacency *)
Definition create_edge_versioned (st : state) (src dst ty e t : Z) : state * Z :=
  let id := e_next st in
  (set_edges st (id + 1) (upd (e_chain st) id [mkV e None t]) (upd (e_rec st) id (src, dst, ty))
             (upd (fwd st) src (fwd st src ++ [(dst, id)])) (fwd_del st)
             (upd (bwd st) dst (bwd st dst ++ [(src, id)])) (bwd_del st), id).

Definition get_edge_versioned (st : state) (id e t : Z) : option (Z * Z * Z) :=
  if c_visible_to (e_chain st id) e t then Some (e_rec st id) else None.
(** [edge_type]: visible at the store's own epoch *)
Definition edge_type (st : state) (id : Z) : option Z :=
  if c_visible_at (e_chain st id) (st_epoch st) then Some (snd (e_rec st id)) else None.

Definition delete_edge_at_epoch (st : state) (id e : Z) : state * bool :=
  if c_visible_at (e_chain st id) e then
    let '(src, dst, _) := e_rec st id in
    (set_edges st (e_next st) (upd (e_chain st) id (c_mark_deleted (e_chain st id) e)) (e_rec st)
               (fwd st) (upd (fwd_del st) src (addz id (fwd_del st src)))
               (bwd st) (upd (bwd_del st) dst (addz id (bwd_del st dst))), true)
  else (st, false).

Inductive dir := Out | Inc | Both.
Definition adj_live (l : list (Z * Z)) (del : list Z) : list (Z * Z) :=
  filter (fun p => negb (memz (snd p) del)) l.
(** [edges_from(node, direction)]: forward entries, then backward entries; tombstones filtered *)
Definition edges_from (st : state) (n : Z) (d : dir) : list (Z * Z) :=
  match d with
  | Out => adj_live (fwd st n) (fwd_del st n)
  | Inc => adj_live (bwd st n) (bwd_del st n)
  | Both => adj_live (fwd st n) (fwd_del st n) ++ adj_live (bwd st n) (bwd_del st n)
  end.

(** [delete_node_edges] (DETACH): every adjacent edge through [delete_edge] = at the store's own epoch *)
Definition delete_node_edges (st : state) (n : Z) : state :=
  fold_left (fun s p => fst (delete_edge_at_epoch s (snd p) (st_epoch s)))
            (edges_from st n Out ++ edges_from st n Inc) st.

Definition edge_count (st : state) : Z :=
  Z.of_nat (length (filter (fun e => c_visible_at (e_chain st e) (st_epoch st)) (range (e_next st)))).

(** [GrafeoDB::delete_node] since 109e5bf, first part: if [store.get_node(id)] (store epoch) sees the node, every
    incident edge (forward list, then backward list, collected first) goes through [GrafeoDB::delete_edge] =
    [store.delete_edge] at the store's own epoch — the same loop as [delete_node_edges] *)
Definition db_detach (st : state) (n : Z) : state :=
  if c_visible_at (n_chain st n) (st_epoch st) then delete_node_edges st n else st.

(** [discard_uncommitted_versions] *)
Definition discard_uncommitted_versions (st : state) (t : Z) : state :=
  let st1 := set_nodes st (n_next st) (fun n => c_remove_by (n_chain st n) t) (n_labels st) (l_index st) (n_props st) in
  set_edges st1 (e_next st1) (fun e => c_remove_by (e_chain st e) t) (e_rec st1) (fwd st1) (fwd_del st1) (bwd st1) (bwd_del st1).

(** ** RdfStore *)
Definition triple_eqb (a b : triple) : bool :=
  let '(a1, a2, a3) := a in let '(b1, b2, b3) := b in (a1 =? b1) && (a2 =? b2) && (a3 =? b3).
Definition memt (t : triple) (l : list triple) : bool := existsb (triple_eqb t) l.
Definition rdf_insert (l : list triple) (t : triple) : list triple := if memt t l then l else l ++ [t].
Definition rdf_remove (l : list triple) (t : triple) : list triple := filter (fun x => negb (triple_eqb x t)) l.
Definition pattern := (option Z * option Z * option Z)%type.
Definition omatch (o : option Z) (x : Z) : bool := match o with Some y => y =? x | None => true end.
Definition pmatch (p : pattern) (t : triple) : bool :=
  let '(ps, pp, po) := p in let '(s, q, o) := t in omatch ps s && omatch pp q && omatch po o.
Definition rdf_find (l : list triple) (p : pattern) : list triple := filter (pmatch p) l.
Definition apply_pend (l : list triple) (o : pend) : list triple :=
  match o with PIns t => rdf_insert l t | PDel t => rdf_remove l t end.
(** [find_with_pending]: committed matches minus pending deletes, then every matching pending insert
    appended (also one that is committed already, or deleted again later in the buffer) *)
Definition find_with_pending (st : state) (p : pattern) (tx : option Z) : list triple :=
  let res := rdf_find (rdf st) p in
  match tx with
  | None => res
  | Some t =>
      let ops := rdf_buf st t in
      let dels := flat_map (fun o => match o with PDel x => [x] | _ => [] end) ops in
      filter (fun x => negb (memt x dels)) res
      ++ flat_map (fun o => match o with PIns x => if pmatch p x then [x] else [] | _ => [] end) ops
  end.

(** ** operations and observations *)
Inductive sel := SelLabel (l : Z) | SelAny.      (* MATCH (n:l) / MATCH (n) *)

Inductive kind :=
| LabelScan (l : Z)                 (* MATCH (n:l) RETURN n *)
| AllScan                           (* MATCH (n) RETURN n *)
| CountAll                          (* MATCH (n) RETURN count(n) *)
| CountLabel (l : Z)                (* MATCH (n:l) RETURN count(n) *)
| ProjProp (l k : Z)                (* MATCH (n:l) RETURN n, n.k *)
| Expand (src : sel) (d : dir) (ty : option Z)  (* MATCH (a..)-[r(:ty)]->(b) RETURN a, r, b *)
| GetNode (n : Z)                   (* Session::get_node *)
| GetEdge (e : Z)                   (* Session::get_edge *)
| GetProp (n k : Z)                 (* Session::get_node_property *)
| Neigh (n : Z) (d : dir)           (* Session::get_neighbors_outgoing / incoming (d = Out | Inc) *)
| Degree (n : Z)                    (* Session::get_degree *)
| TripleQ (p : pattern)             (* SPARQL SELECT over one triple pattern *)
| TripleApi (p : pattern)           (* RdfStore::find_with_pending(p, the session's transaction) *)
| DbCounts                          (* GrafeoDB::node_count, edge_count *)
| StoreLabel (l : Z)                (* LpgStore::nodes_by_label (raw index) *)
| StoreProp (n k : Z)               (* LpgStore::get_node_property (raw column) *)
| FreshLabelScan (l : Z).           (* GrafeoDB::execute_cypher_with_params("MATCH (n:l) RETURN n"): since 752d5ee the
                                       QueryProcessor is built on the database's own TransactionManager (for_lpg_with_tx),
                                       so the planner gets the current epoch and no transaction; before, a private manager
                                       (epoch 0 for ever): [read_pre] *)

Inductive op :=
| Begin (s : Z) | Commit (s : Z) | Rollback (s : Z)
| DropSession (s : Z)                                   (* the Session value is dropped and replaced by a fresh one *)
| CreateNode (s : Z) (labels : list Z) (props : list (Z * val))   (* create_node_with_props / GQL INSERT *)
| DeleteNode (s : Z) (m : sel) (id : Z) (detach : bool) (* MATCH m WHERE id(n) = id [DETACH] DELETE n *)
| CreateEdge (s src dst ty : Z)                         (* Session::create_edge *)
| CreateEdgeQ (s : Z) (ma mb : sel) (src dst ty : Z)    (* MATCH ma, mb WHERE id(a)=src AND id(b)=dst CREATE (a)-[r:ty]->(b) RETURN id(r) *)
| DeleteEdge (e : Z)                                    (* GrafeoDB::delete_edge (no query language deletes edges) *)
| SetProp (s : Z) (m : sel) (id k : Z) (v : val)        (* MATCH m WHERE id(n) = id SET n.k = v *)
| RemoveProp (s : Z) (m : sel) (id k : Z)               (* ... REMOVE n.k  (translated to SET n.k = NULL) *)
| AddLabel (s : Z) (m : sel) (id l : Z)                 (* ... SET n:l *)
| RemoveLabel (s : Z) (m : sel) (id l : Z)              (* ... REMOVE n:l *)
| InsertTriple (s : Z) (t : triple)                     (* SPARQL INSERT DATA *)
| DeleteTriple (s : Z) (t : triple)                     (* SPARQL DELETE DATA *)
| DbDeleteNode (n : Z)                                  (* GrafeoDB::delete_node (detaches the node first: 109e5bf) *)
| DbSetProp (n k : Z) (v : val)                         (* GrafeoDB::set_node_property *)
| DbRemoveProp (n k : Z)                                (* GrafeoDB::remove_node_property *)
| DbAddLabel (n l : Z) | DbRemoveLabel (n l : Z)        (* GrafeoDB::add_node_label / remove_node_label *)
| Read (s : Z) (k : kind).

Inductive out :=
| OUnit                                   (* Ok(()) / statement executed *)
| OErr                                    (* Err(Transaction(InvalidState)) *)
| OBool (b : bool)
| OId (z : Z)
| OIds (l : list Z)
| OCount (z : Z)
| OVals (l : list (Z * val))
| ORows (l : list (Z * Z * Z))
| ONode (o : option (list Z * list (Z * val)))
| OEdge (o : option (Z * Z * Z))
| OVal (o : option val)
| OPairs (l : list (Z * Z))
| ODeg (a b : Z)
| OTriples (l : list triple)
| OCounts (n e : Z).

(** ** operators *)
(** [ScanOperator::load_batch] with the session's context: candidates from the raw label index or from
    [node_ids()] (store epoch), each filtered through [get_node_versioned] *)
Definition scan (st : state) (m : sel) (e t : Z) : list Z :=
  filter (fun n => c_visible_to (n_chain st n) e t)
         (match m with SelLabel l => nodes_by_label st l | SelAny => node_ids st end).
(** scan + [WHERE id(n) = id] *)
Definition matched (st : state) (m : sel) (id e t : Z) : list Z := filter (Z.eqb id) (scan st m e t).

(** [ExpandOperator::load_edges_for_current_row] *)
Definition expand_row (st : state) (a : Z) (d : dir) (ty : option Z) (e t : Z) : list (Z * Z * Z) :=
  map (fun p => (a, snd p, fst p))
      (filter (fun p =>
                 (match ty with
                  | Some want => match edge_type st (snd p) with Some have => have =? want | None => false end
                  | None => true
                  end)
                 && c_visible_to (e_chain st (snd p)) e t && c_visible_to (n_chain st (fst p)) e t)
              (edges_from st a d)).

Definition read (st : state) (s : Z) (k : kind) : out :=
  let '(e, t) := ctx st s in
  match k with
  | LabelScan l => OIds (scan st (SelLabel l) e t)
  | AllScan => OIds (scan st SelAny e t)
  | CountAll => OCount (Z.of_nat (length (scan st SelAny e t)))
  | CountLabel l => OCount (Z.of_nat (length (scan st (SelLabel l) e t)))
  | ProjProp l k =>   (* ProjectExpr::PropertyAccess: store.get_node(id) at the store's own epoch *)
      OVals (map (fun n => (n, match get_node st n with
                               | Some (_, ps) => match pget k ps with Some v => v | None => None end
                               | None => None
                               end))
                 (scan st (SelLabel l) e t))
  | Expand m d ty => ORows (flat_map (fun a => expand_row st a d ty e t) (scan st m e t))
  | GetNode n => ONode (get_node_versioned st n e t)
  | GetEdge x => OEdge (get_edge_versioned st x e t)
  | GetProp n k => OVal (match get_node_versioned st n e t with Some (_, ps) => pget k ps | None => None end)
  | Neigh n d => OPairs (edges_from st n d)       (* raw adjacency, no visibility check *)
  | Degree n => ODeg (Z.of_nat (length (edges_from st n Out))) (Z.of_nat (length (edges_from st n Inc)))
  | TripleQ p => OTriples (rdf_find (rdf st) p)   (* RdfTripleScanOperator: store.find, pending ops ignored *)
  | TripleApi p => OTriples (find_with_pending st p (sess st s))
  | DbCounts => OCounts (node_count st) (edge_count st)
  | StoreLabel l => OIds (nodes_by_label st l)
  | StoreProp n k => OVal (pget k (n_props st n))
  | FreshLabelScan l => OIds (scan st (SelLabel l) (tm_epoch st) SYSTEM)
  end.

(** ** step *)
Definition step (st : state) (o : op) : state * out :=
  match o with
  | Begin s =>
      match sess st s with
      | Some _ => (st, OErr)
      | None => let '(st1, t) := tm_begin st in (set_sess st1 (upd (sess st1) s (Some t)), OUnit)
      end
  | Commit s =>
      match sess st s with
      | None => (st, OErr)
      | Some t =>
          let st1 := set_sess st (upd (sess st) s None) in
          (* rdf_store.commit_tx first, then tx_manager.commit *)
          let st2 := set_rdf st1 (fold_left apply_pend (rdf_buf st1 t) (rdf st1)) (upd (rdf_buf st1) t []) in
          let '(st3, ok) := tm_commit st2 t in
          (st3, if ok then OUnit else OErr)
      end
  | Rollback s =>
      match sess st s with
      | None => (st, OErr)
      | Some t =>
          let st1 := set_sess st (upd (sess st) s None) in
          let st2 := discard_uncommitted_versions st1 t in
          let st3 := set_rdf st2 (rdf st2) (upd (rdf_buf st2) t []) in
          let '(st4, ok) := tm_abort st3 t in
          (st4, if ok then OUnit else OErr)
      end
  | DropSession s =>
      (* impl Drop for Session (3eb02b5): if self.current_tx.is_some() { let _ = self.rollback(); } *)
      match sess st s with
      | None => (st, OUnit)
      | Some t =>
          let st1 := set_sess st (upd (sess st) s None) in
          let st2 := discard_uncommitted_versions st1 t in
          let st3 := set_rdf st2 (rdf st2) (upd (rdf_buf st2) t []) in
          (fst (tm_abort st3 t), OUnit)
      end
  | CreateNode s labels props =>
      let '(e, t) := ctx st s in
      let '(st1, id) := create_node_with_props st labels props e t in (st1, OId id)
  | DeleteNode s m id detach =>
      let '(e, t) := ctx st s in
      (fold_left (fun st' n => let st'' := if detach then delete_node_edges st' n else st' in
                               fst (delete_node_at_epoch st'' n e))
                 (matched st m id e t) st, OUnit)
  | CreateEdge s src dst ty =>
      let '(e, t) := ctx st s in
      let '(st1, id) := create_edge_versioned st src dst ty e t in (st1, OId id)
  | CreateEdgeQ s ma mb src dst ty =>
      let '(e, t) := ctx st s in
      match matched st ma src e t, matched st mb dst e t with
      | _ :: _, _ :: _ => let '(st1, id) := create_edge_versioned st src dst ty e t in (st1, OIds [id])
      | _, _ => (st, OIds [])
      end
  | DeleteEdge x => let '(st1, b) := delete_edge_at_epoch st x (st_epoch st) in (st1, OBool b)
  | SetProp s m id k v =>
      let '(e, t) := ctx st s in
      (fold_left (fun st' n => set_node_property st' n k v) (matched st m id e t) st, OUnit)
  | RemoveProp s m id k =>
      let '(e, t) := ctx st s in
      (fold_left (fun st' n => set_node_property st' n k None) (matched st m id e t) st, OUnit)
  | AddLabel s m id l =>
      let '(e, t) := ctx st s in
      (fold_left (fun st' n => fst (add_label st' n l)) (matched st m id e t) st, OUnit)
  | RemoveLabel s m id l =>
      let '(e, t) := ctx st s in
      (fold_left (fun st' n => fst (remove_label st' n l)) (matched st m id e t) st, OUnit)
  | InsertTriple s tr =>
      match sess st s with
      | Some t => (set_rdf st (rdf st) (upd (rdf_buf st) t (rdf_buf st t ++ [PIns tr])), OUnit)
      | None => (set_rdf st (rdf_insert (rdf st) tr) (rdf_buf st), OUnit)
      end
  | DeleteTriple s tr =>
      match sess st s with
      | Some t => (set_rdf st (rdf st) (upd (rdf_buf st) t (rdf_buf st t ++ [PDel tr])), OUnit)
      | None => (set_rdf st (rdf_remove (rdf st) tr) (rdf_buf st), OUnit)
      end
  | DbDeleteNode n =>
      (* 109e5bf: GrafeoDB::delete_node detaches first ([db_detach]), then store.delete_node *)
      let st1 := db_detach st n in
      let '(st2, b) := delete_node_at_epoch st1 n (st_epoch st1) in (st2, OBool b)
  | DbSetProp n k v => (set_node_property st n k v, OUnit)
  | DbRemoveProp n k => let '(st1, b) := remove_node_property st n k in (st1, OBool b)
  | DbAddLabel n l => let '(st1, b) := add_label st n l in (st1, OBool b)
  | DbRemoveLabel n l => let '(st1, b) := remove_label st n l in (st1, OBool b)
  | Read s k => (st, read st s k)
  end.

Fixpoint run_from (st : state) (ops : list op) : state * list out :=
  match ops with
  | [] => (st, [])
  | o :: r => let '(st1, x) := step st o in let '(st2, xs) := run_from st1 r in (st2, x :: xs)
  end.
Definition run (ops : list op) : list out := snd (run_from init ops).
Definition final (ops : list op) : state := fst (run_from init ops).

(** ** the code before the repairs 752d5ee (C01-K7), 3eb02b5 (C02-K4) and 109e5bf (GrafeoDB::delete_node detaches),
    kept for the [_pre_refuted] theorems *)
(** [GrafeoDB::execute_cypher_with_params] planned with a private TransactionManager: viewing epoch 0 *)
Definition read_pre (st : state) (s : Z) (k : kind) : out :=
  match k with
  | FreshLabelScan l => OIds (scan st (SelLabel l) 0 SYSTEM)
  | _ => read st s k
  end.
(** [Session] had no [Drop]: a dropped session's transaction stayed Active with all its writes *)
Definition step_pre (st : state) (o : op) : state * out :=
  match o with
  | DropSession s => (set_sess st (upd (sess st) s None), OUnit)
  | Read s k => (st, read_pre st s k)
  | DbDeleteNode n => let '(st1, b) := delete_node_at_epoch st n (st_epoch st) in (st1, OBool b)   (* before 109e5bf *)
  | _ => step st o
  end.
Fixpoint run_from_pre (st : state) (ops : list op) : state * list out :=
  match ops with
  | [] => (st, [])
  | o :: r => let '(st1, x) := step_pre st o in let '(st2, xs) := run_from_pre st1 r in (st2, x :: xs)
  end.
Definition run_pre (ops : list op) : list out := snd (run_from_pre init ops).
