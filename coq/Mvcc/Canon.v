(** C01 / C02 — canonical form and equality of observations (sorting of everything that comes out of a
    hash map).  Shared by the specification (Spec.v) and the runner (Run.v).  No proofs in this file. *)
From Coq Require Import ZArith List Bool.
Import ListNotations.
From GV Require Export Mvcc.Model.
Open Scope Z_scope.

(** ** sorting (insertion sort; lists are tiny) *)
Section Sort.
  Context {A : Type} (leb : A -> A -> bool).
  Fixpoint insert_sorted (x : A) (l : list A) : list A :=
    match l with
    | [] => [x]
    | y :: r => if leb x y then x :: l else y :: insert_sorted x r
    end.
  Definition isort (l : list A) : list A := fold_right insert_sorted [] l.
End Sort.

Definition leb2 (a b : Z * Z) : bool :=
  (fst a <? fst b) || ((fst a =? fst b) && (snd a <=? snd b)).
Definition leb3 (a b : Z * Z * Z) : bool :=
  let '(a1, a2, a3) := a in let '(b1, b2, b3) := b in
  (a1 <? b1) || ((a1 =? b1) && ((a2 <? b2) || ((a2 =? b2) && (a3 <=? b3)))).
Definition lebkv (a b : Z * val) : bool := fst a <=? fst b.

Definition canon (o : out) : out :=
  match o with
  | OIds l => OIds (isort Z.leb l)
  | OVals l => OVals (isort lebkv l)
  | ORows l => ORows (isort leb3 l)
  | ONode (Some (ls, ps)) => ONode (Some (isort Z.leb ls, isort lebkv ps))
  | OPairs l => OPairs (isort leb2 l)
  | OTriples l => OTriples (isort leb3 l)
  | x => x
  end.

(** ** equality of observations *)
Fixpoint list_eqb {A} (eqb : A -> A -> bool) (a b : list A) : bool :=
  match a, b with
  | [], [] => true
  | x :: r, y :: s => eqb x y && list_eqb eqb r s
  | _, _ => false
  end.
Definition opt_eqb {A} (eqb : A -> A -> bool) (a b : option A) : bool :=
  match a, b with Some x, Some y => eqb x y | None, None => true | _, _ => false end.
Definition eqb2 (a b : Z * Z) : bool := (fst a =? fst b) && (snd a =? snd b).
Definition eqb3 (a b : Z * Z * Z) : bool := triple_eqb a b.
Definition eqbkv (a b : Z * val) : bool := (fst a =? fst b) && val_eqb (snd a) (snd b).
Definition node_eqb (a b : list Z * list (Z * val)) : bool :=
  list_eqb Z.eqb (fst a) (fst b) && list_eqb eqbkv (snd a) (snd b).

Definition out_eqb (a b : out) : bool :=
  match a, b with
  | OUnit, OUnit | OErr, OErr => true
  | OBool x, OBool y => Bool.eqb x y
  | OId x, OId y => x =? y
  | OIds x, OIds y => list_eqb Z.eqb x y
  | OCount x, OCount y => x =? y
  | OVals x, OVals y => list_eqb eqbkv x y
  | ORows x, ORows y => list_eqb eqb3 x y
  | ONode x, ONode y => opt_eqb node_eqb x y
  | OEdge x, OEdge y => opt_eqb eqb3 x y
  | OVal x, OVal y => opt_eqb val_eqb x y
  | OPairs x, OPairs y => list_eqb eqb2 x y
  | ODeg a b, ODeg c d => (a =? c) && (b =? d)
  | OTriples x, OTriples y => list_eqb eqb3 x y
  | OCounts a b, OCounts c d => (a =? c) && (b =? d)
  | _, _ => false
  end.

