(** C01 — the Expand read kind: the finding classes cover every deviation of
    [MATCH (a..)-[r(:ty)]->(b) RETURN a, r, b] too, hence [snapshot_outside_K] for all read kinds.

    Two more invariants over all histories are needed:
      [adj_inv]  the adjacency lists hold exactly the endpoints of the edge records, in id order
                 (fwd a = [(dst x, x) | x <- 0 .. e_next-1, src x = a], likewise bwd);
      [epaired]  every edge of every database of the specification state (committed, every session's view,
                 every write log) is an edge record of the model with the same endpoints and type.
    With them [expand_row] is a [flat_map] over edge ids of the one-edge contribution [m_slot], the
    specification's rows are a [flat_map] of [i_slot] over the same ids, and [slot_class] = 0 forces the two
    contributions to be equal. *)
From Coq Require Import ZArith List Bool Lia.
Import ListNotations.
From GV Require Import Mvcc.Model Mvcc.Canon Mvcc.Spec Mvcc.Run Mvcc.ProofsVis Mvcc.ProofsInv Mvcc.ProofsThm Mvcc.ProofsSpec.
Open Scope Z_scope.

(** ** lists *)
Lemma range_succ : forall n, 0 <= n -> range (n + 1) = range n ++ [n].
Proof.
  intros n H. unfold range. replace (Z.to_nat (n + 1)) with (S (Z.to_nat n)) by lia.
  rewrite seq_S, map_app. cbn [map Nat.add]. rewrite Z2Nat.id by lia. reflexivity.
Qed.
Lemma flat_map_ext_in' : forall {A B} (f g : A -> list B) l, (forall x, In x l -> f x = g x) -> flat_map f l = flat_map g l.
Proof.
  intros A B f g l. induction l as [|a r IH]; intros H; cbn [flat_map]; [reflexivity|].
  rewrite (H a (or_introl eq_refl)), IH; [reflexivity|]. intros x Hx. apply H. right. exact Hx.
Qed.
Lemma filter_flat_map : forall {A B} (g : B -> bool) (h : A -> list B) l,
  filter g (flat_map h l) = flat_map (fun x => filter g (h x)) l.
Proof. intros A B g h l. induction l as [|a r IH]; cbn [flat_map]; [reflexivity|]. rewrite filter_app, IH. reflexivity. Qed.
Lemma map_flat_map : forall {A B C} (f : B -> C) (h : A -> list B) l,
  map f (flat_map h l) = flat_map (fun x => map f (h x)) l.
Proof. intros A B C f h l. induction l as [|a r IH]; cbn [flat_map]; [reflexivity|]. rewrite map_app, IH. reflexivity. Qed.

(** ** operations that leave edge records and adjacency lists alone: [epres] *)
Record epres (st st' : state) : Prop := mkEpres {
  ep_next : e_next st' = e_next st;
  ep_rec : e_rec st' = e_rec st;
  ep_fwd : fwd st' = fwd st;
  ep_bwd : bwd st' = bwd st
}.
Lemma epres_refl : forall st, epres st st.
Proof. intros st. constructor; reflexivity. Qed.
Lemma epres_trans : forall a b c, epres a b -> epres b c -> epres a c.
Proof. intros a b c [] []. constructor; congruence. Qed.
Lemma fold_epres : forall {A} (f : state -> A -> state), (forall st x, epres st (f st x)) ->
  forall l st, epres st (fold_left f l st).
Proof.
  intros A f Hf l. induction l as [|x r IH]; intros st; cbn [fold_left]; [apply epres_refl|].
  eapply epres_trans; [apply Hf|apply IH].
Qed.

Lemma epres_set_node_property : forall st id k v, epres st (set_node_property st id k v).
Proof. intros. constructor; reflexivity. Qed.
Lemma epres_remove_node_property : forall st id k, epres st (fst (remove_node_property st id k)).
Proof. intros. constructor; reflexivity. Qed.
Lemma epres_add_label : forall st id l, epres st (fst (add_label st id l)).
Proof.
  intros. unfold add_label. destruct (c_visible_at _ _); [|apply epres_refl].
  destruct (memz l (n_labels st id)); [apply epres_refl|constructor; reflexivity].
Qed.
Lemma epres_remove_label : forall st id l, epres st (fst (remove_label st id l)).
Proof.
  intros. unfold remove_label. destruct (c_visible_at _ _); [|apply epres_refl].
  destruct (memz l (n_labels st id)); [constructor; reflexivity|apply epres_refl].
Qed.
Lemma epres_delete_node_at_epoch : forall st id e, epres st (fst (delete_node_at_epoch st id e)).
Proof. intros. unfold delete_node_at_epoch. destruct (c_visible_at _ _); [constructor; reflexivity|apply epres_refl]. Qed.
Lemma epres_delete_edge_at_epoch : forall st id e, epres st (fst (delete_edge_at_epoch st id e)).
Proof.
  intros. unfold delete_edge_at_epoch. destruct (c_visible_at _ _); [|apply epres_refl].
  destruct (e_rec st id) as [[src dst] ty]. constructor; reflexivity.
Qed.
Lemma epres_delete_node_edges : forall st n, epres st (delete_node_edges st n).
Proof.
  intros. unfold delete_node_edges.
  apply (fold_epres (fun s p => fst (delete_edge_at_epoch s (snd p) (st_epoch s)))).
  intros s p. apply epres_delete_edge_at_epoch.
Qed.
Lemma epres_create_node_with_props : forall st labels props e t, epres st (fst (create_node_with_props st labels props e t)).
Proof.
  intros. unfold create_node_with_props. destruct (create_node_versioned st labels e t) as [st1 id] eqn:E. cbn [fst].
  eapply epres_trans; [|apply (fold_epres (fun s kv => set_node_property s id (fst kv) (snd kv)));
                        intros s kv; apply epres_set_node_property].
  unfold create_node_versioned in E. injection E as <- _. constructor; reflexivity.
Qed.
Lemma epres_discard : forall st t, epres st (discard_uncommitted_versions st t).
Proof. intros. constructor; reflexivity. Qed.

(** ** what a step does to edge records and adjacency lists *)
Definition created_edge (st : state) (o : op) : option (Z * Z * Z) :=
  match o with
  | CreateEdge _ a b ty => Some (a, b, ty)
  | CreateEdgeQ s ma mb a b ty =>
      let '(e, t) := ctx st s in
      match matched st ma a e t, matched st mb b e t with
      | _ :: _, _ :: _ => Some (a, b, ty)
      | _, _ => None
      end
  | _ => None
  end.

Definition edge_created (st st' : state) (a b ty : Z) : Prop :=
  e_next st' = e_next st + 1
  /\ e_rec st' = upd (e_rec st) (e_next st) (a, b, ty)
  /\ fwd st' = upd (fwd st) a (fwd st a ++ [(b, e_next st)])
  /\ bwd st' = upd (bwd st) b (bwd st b ++ [(a, e_next st)]).

Lemma step_edges : forall st o,
  match created_edge st o with
  | None => epres st (fst (step st o))
  | Some (a, b, ty) => edge_created st (fst (step st o)) a b ty
  end.
Proof.
  intros st o. destruct o; cbn [created_edge step].
  - (* Begin *) destruct (sess st s); [apply epres_refl|]. cbn. constructor; reflexivity.
  - (* Commit *) destruct (sess st s) as [t|]; [|apply epres_refl]. unfold tm_commit. cbn.
    destruct (tm_state st t) as [[]|]; constructor; reflexivity.
  - (* Rollback *) destruct (sess st s) as [t|]; [|apply epres_refl]. unfold tm_abort. cbn.
    destruct (tm_state st t) as [[]|]; constructor; reflexivity.
  - (* DropSession *) destruct (sess st s) as [t|]; [|apply epres_refl]. unfold tm_abort. cbn.
    destruct (tm_state st t) as [[]|]; constructor; reflexivity.
  - (* CreateNode *) destruct (ctx st s) as [e0 t0].
    pose proof (epres_create_node_with_props st labels props e0 t0) as H.
    destruct (create_node_with_props st labels props e0 t0) as [st1 id]. exact H.
  - (* DeleteNode *) destruct (ctx st s) as [e0 t0]. cbn [fst].
    apply (fold_epres (fun st' n => fst (delete_node_at_epoch (if detach then delete_node_edges st' n else st') n e0))).
    intros st' n. destruct detach; [eapply epres_trans; [apply epres_delete_node_edges|]|]; apply epres_delete_node_at_epoch.
  - (* CreateEdge *) destruct (ctx st s) as [e0 t0]. cbn. repeat split; reflexivity.
  - (* CreateEdgeQ *) destruct (ctx st s) as [e0 t0].
    destruct (matched st ma src e0 t0); [apply epres_refl|].
    destruct (matched st mb dst e0 t0); [apply epres_refl|]. cbn. repeat split; reflexivity.
  - (* DeleteEdge *) pose proof (epres_delete_edge_at_epoch st e (st_epoch st)) as H.
    destruct (delete_edge_at_epoch st e (st_epoch st)) as [st1 b]. exact H.
  - (* SetProp *) destruct (ctx st s) as [e0 t0]. cbn [fst].
    apply (fold_epres (fun st' n => set_node_property st' n k v)). intros; apply epres_set_node_property.
  - (* RemoveProp *) destruct (ctx st s) as [e0 t0]. cbn [fst].
    apply (fold_epres (fun st' n => set_node_property st' n k None)). intros; apply epres_set_node_property.
  - (* AddLabel *) destruct (ctx st s) as [e0 t0]. cbn [fst].
    apply (fold_epres (fun st' n => fst (add_label st' n l))). intros; apply epres_add_label.
  - (* RemoveLabel *) destruct (ctx st s) as [e0 t0]. cbn [fst].
    apply (fold_epres (fun st' n => fst (remove_label st' n l))). intros; apply epres_remove_label.
  - (* InsertTriple *) destruct (sess st s); constructor; reflexivity.
  - (* DeleteTriple *) destruct (sess st s); constructor; reflexivity.
  - (* DbDeleteNode *)
    assert (H1 : epres st (db_detach st n)).
    { unfold db_detach. destruct (c_visible_at _ _); [apply epres_delete_node_edges|apply epres_refl]. }
    set (st1 := db_detach st n) in *.
    pose proof (epres_delete_node_at_epoch st1 n (st_epoch st1)) as H2.
    destruct (delete_node_at_epoch st1 n (st_epoch st1)) as [st2 b]. cbn [fst] in *. eapply epres_trans; eassumption.
  - (* DbSetProp *) apply epres_set_node_property.
  - (* DbRemoveProp *) pose proof (epres_remove_node_property st n k) as H.
    destruct (remove_node_property st n k) as [st1 b]. exact H.
  - (* DbAddLabel *) pose proof (epres_add_label st n l) as H. destruct (add_label st n l) as [st1 b]. exact H.
  - (* DbRemoveLabel *) pose proof (epres_remove_label st n l) as H. destruct (remove_label st n l) as [st1 b]. exact H.
  - (* Read *) apply epres_refl.
Qed.

(** ** [adj_inv] *)
Definition fwd_of (st : state) (a x : Z) : list (Z * Z) :=
  let '(s0, t0, _) := e_rec st x in if s0 =? a then [(t0, x)] else [].
Definition bwd_of (st : state) (b x : Z) : list (Z * Z) :=
  let '(s0, t0, _) := e_rec st x in if t0 =? b then [(s0, x)] else [].

Record adj_inv (st : state) : Prop := mkAdj {
  a_next : 0 <= e_next st;
  a_fwd : forall a, fwd st a = flat_map (fwd_of st a) (range (e_next st));
  a_bwd : forall b, bwd st b = flat_map (bwd_of st b) (range (e_next st))
}.

Lemma adj_init : adj_inv init.
Proof. constructor; cbn; [lia|reflexivity|reflexivity]. Qed.

Lemma adj_epres : forall st st', adj_inv st -> epres st st' -> adj_inv st'.
Proof.
  intros st st' [H0 H1 H2] [E1 E2 E3 E4]. constructor.
  - rewrite E1. exact H0.
  - intros a. rewrite E3, E1, H1. apply flat_map_ext_in'. intros x _. unfold fwd_of. rewrite E2. reflexivity.
  - intros b. rewrite E4, E1, H2. apply flat_map_ext_in'. intros x _. unfold bwd_of. rewrite E2. reflexivity.
Qed.

Lemma adj_created : forall st st' a b ty, adj_inv st -> edge_created st st' a b ty -> adj_inv st'.
Proof.
  intros st st' a b ty [H0 H1 H2] [E1 [E2 [E3 E4]]]. constructor.
  - lia.
  - intros a0. rewrite E3, E1, (range_succ _ H0), flat_map_app. cbn [flat_map]. rewrite app_nil_r.
    assert (F : flat_map (fwd_of st' a0) (range (e_next st)) = flat_map (fwd_of st a0) (range (e_next st))).
    { apply flat_map_ext_in'. intros x Hx. apply in_range in Hx. unfold fwd_of. rewrite E2. unfold upd.
      destruct (Z.eqb_spec x (e_next st)); [lia|reflexivity]. }
    rewrite F, <- H1. unfold fwd_of at 1. rewrite E2. unfold upd at 2. rewrite Z.eqb_refl.
    unfold upd. rewrite (Z.eqb_sym a a0). destruct (a0 =? a) eqn:Ea.
    + apply Z.eqb_eq in Ea. subst. reflexivity.
    + rewrite app_nil_r. reflexivity.
  - intros b0. rewrite E4, E1, (range_succ _ H0), flat_map_app. cbn [flat_map]. rewrite app_nil_r.
    assert (F : flat_map (bwd_of st' b0) (range (e_next st)) = flat_map (bwd_of st b0) (range (e_next st))).
    { apply flat_map_ext_in'. intros x Hx. apply in_range in Hx. unfold bwd_of. rewrite E2. unfold upd.
      destruct (Z.eqb_spec x (e_next st)); [lia|reflexivity]. }
    rewrite F, <- H2. unfold bwd_of at 1. rewrite E2. unfold upd at 2. rewrite Z.eqb_refl.
    unfold upd. rewrite (Z.eqb_sym b b0). destruct (b0 =? b) eqn:Eb.
    + apply Z.eqb_eq in Eb. subst. reflexivity.
    + rewrite app_nil_r. reflexivity.
Qed.

Lemma adj_step : forall st o, adj_inv st -> adj_inv (fst (step st o)).
Proof.
  intros st o H. pose proof (step_edges st o) as S. destruct (created_edge st o) as [[[a b] ty]|].
  - eapply adj_created; eassumption.
  - eapply adj_epres; eassumption.
Qed.

(** ** [epaired]: the specification's edges are the model's edge records *)
Definition eok (st : state) (d : db) : Prop :=
  forall x r, d_edge d x = Some r -> 0 <= x < e_next st /\ r = e_rec st x.
Definition wok (st : state) (ws : list wop) : Prop :=
  forall id a b ty, In (WEdge id a b ty) ws -> 0 <= id < e_next st /\ e_rec st id = (a, b, ty).

Record epaired (st : state) (sp : sstate) : Prop := mkEp {
  ep_comm : eok st (s_comm sp);
  ep_view : forall s d log, s_view sp s = Some (d, log) -> eok st d /\ wok st log
}.

Lemma epaired_init : epaired init sinit.
Proof. constructor; [intros x r H; discriminate|intros s d log H; discriminate]. Qed.

(** the model's edge records only grow *)
Definition egrow (st st' : state) : Prop :=
  e_next st <= e_next st' /\ forall x, 0 <= x < e_next st -> e_rec st' x = e_rec st x.
Lemma egrow_step : forall st o, egrow st (fst (step st o)).
Proof.
  intros st o. pose proof (step_edges st o) as S. destruct (created_edge st o) as [[[a b] ty]|].
  - destruct S as [E1 [E2 _]]. split; [lia|]. intros x Hx. rewrite E2. unfold upd.
    destruct (Z.eqb_spec x (e_next st)); [lia|reflexivity].
  - destruct S as [E1 E2 _ _]. split; [lia|]. intros x _. rewrite E2. reflexivity.
Qed.
Lemma eok_grow : forall st st' d, egrow st st' -> eok st d -> eok st' d.
Proof.
  intros st st' d [G1 G2] H x r Hx. destruct (H x r Hx) as [H1 H2]. split; [lia|]. rewrite G2; assumption.
Qed.
Lemma wok_grow : forall st st' ws, egrow st st' -> wok st ws -> wok st' ws.
Proof.
  intros st st' ws [G1 G2] H id a b ty Hin. destruct (H id a b ty Hin) as [H1 H2]. split; [lia|]. rewrite G2; assumption.
Qed.
Lemma wok_app : forall st a b, wok st a -> wok st b -> wok st (a ++ b).
Proof. intros st a b Ha Hb id x y ty Hin. apply in_app_or in Hin. destruct Hin; [eapply Ha|eapply Hb]; eassumption. Qed.
Lemma wok_nil : forall st, wok st [].
Proof. intros st id a b ty []. Qed.

Lemma eok_apply_w : forall st d w, eok st d -> wok st [w] -> eok st (apply_w d w).
Proof.
  intros st d w Hd Hw. destruct w; cbn [apply_w].
  - (* WNode *) intros x r Hx. apply Hd. exact Hx.
  - (* WDelNode *) intros x r Hx. cbn [d_edge] in Hx. destruct detach; [|apply Hd; exact Hx].
    destruct (d_edge d x) as [[[s0 t0] y]|] eqn:E; [|discriminate].
    destruct ((s0 =? id) || (t0 =? id)); [discriminate|]. injection Hx as <-. apply Hd. exact E.
  - (* WEdge *) intros x r Hx. cbn [d_edge] in Hx. unfold upd in Hx. destruct (Z.eqb_spec x id).
    + subst. injection Hx as <-. destruct (Hw id src dst ty (or_introl eq_refl)) as [H1 H2]. split; [exact H1|congruence].
    + apply Hd. exact Hx.
  - (* WDelEdge *) intros x r Hx. cbn [d_edge] in Hx. unfold upd in Hx. destruct (x =? id); [discriminate|apply Hd; exact Hx].
  - destruct (d_node d id) as [[ls ps]|]; [|exact Hd]. intros x r Hx. apply Hd. exact Hx.
  - destruct (d_node d id) as [[ls ps]|]; [|exact Hd]. intros x r Hx. apply Hd. exact Hx.
  - destruct (d_node d id) as [[ls ps]|]; [|exact Hd]. intros x r Hx. apply Hd. exact Hx.
  - destruct (d_node d id) as [[ls ps]|]; [|exact Hd]. intros x r Hx. apply Hd. exact Hx.
  - intros x r Hx. apply Hd. exact Hx.
  - intros x r Hx. apply Hd. exact Hx.
Qed.
Lemma eok_apply_ws : forall st ws d, eok st d -> wok st ws -> eok st (apply_ws d ws).
Proof.
  intros st ws. induction ws as [|w r IH]; intros d Hd Hw; [exact Hd|]. unfold apply_ws in *. cbn [fold_left].
  apply IH.
  - apply eok_apply_w; [exact Hd|]. intros id a b ty [H|[]]. apply (Hw id a b ty). left. exact H.
  - intros id a b ty H. apply (Hw id a b ty). right. exact H.
Qed.

(** the writes an operation resolves to name only the edge the step has just created *)
Lemma wok_single_other : forall st w, (forall id a b ty, w <> WEdge id a b ty) -> wok st [w].
Proof. intros st w H id a b ty [E|[]]. exfalso. exact (H id a b ty E). Qed.

Lemma wok_resolve : forall st o d, adj_inv st -> wok (fst (step st o)) (resolve d o (canon (snd (step st o)))).
Proof.
  intros st o d Ha. pose proof (a_next st Ha) as H0.
  destruct o; cbn [resolve]; try apply wok_nil.
  - (* CreateNode *) destruct (canon _); try apply wok_nil. apply wok_single_other. discriminate.
  - (* DeleteNode *) destruct (sp_match d m id); [|apply wok_nil]. apply wok_single_other. discriminate.
  - (* CreateEdge *) cbn [step]. destruct (ctx st s) as [e0 t0]. cbn.
    intros i a1 b1 ty1 [H|[]]. injection H as <- <- <- <-. cbn. split; [lia|].
    unfold upd. rewrite Z.eqb_refl. reflexivity.
  - (* CreateEdgeQ *) cbn [step]. destruct (ctx st s) as [e0 t0].
    destruct (matched st ma src e0 t0); [cbn; apply wok_nil|].
    destruct (matched st mb dst e0 t0); [cbn; apply wok_nil|]. cbn.
    destruct (sp_match d ma src && sp_match d mb dst); [|apply wok_nil].
    intros i a1 b1 ty1 [H|[]]. injection H as <- <- <- <-. cbn. split; [lia|].
    unfold upd. rewrite Z.eqb_refl. reflexivity.
  - (* DeleteEdge *) apply wok_single_other. discriminate.
  - (* SetProp *) destruct (sp_match d m id); [|apply wok_nil]. apply wok_single_other. discriminate.
  - (* RemoveProp *) destruct (sp_match d m id); [|apply wok_nil]. apply wok_single_other. discriminate.
  - (* AddLabel *) destruct (sp_match d m id); [|apply wok_nil]. apply wok_single_other. discriminate.
  - (* RemoveLabel *) destruct (sp_match d m id); [|apply wok_nil]. apply wok_single_other. discriminate.
  - (* InsertTriple *) apply wok_single_other. discriminate.
  - (* DeleteTriple *) apply wok_single_other. discriminate.
  - (* DbDeleteNode *) apply wok_single_other. discriminate.
  - (* DbSetProp *) apply wok_single_other. discriminate.
  - (* DbRemoveProp *) apply wok_single_other. discriminate.
  - (* DbAddLabel *) apply wok_single_other. discriminate.
  - (* DbRemoveLabel *) apply wok_single_other. discriminate.
Qed.

Definition write_op (o : op) : bool :=
  match o with Begin _ | Commit _ | Rollback _ | DropSession _ | Read _ _ => false | _ => true end.

Lemma spec_step_write : forall sp o x, write_op o = true ->
  (exists s d log, s_view sp s = Some (d, log)
      /\ s_comm (spec_step sp o x) = s_comm sp
      /\ s_view (spec_step sp o x) = upd (s_view sp) s (Some (apply_ws d (resolve d o x), log ++ resolve d o x)))
  \/ (s_comm (spec_step sp o x) = apply_ws (s_comm sp) (resolve (s_comm sp) o x)
      /\ s_view (spec_step sp o x) = s_view sp).
Proof.
  intros sp o x H. destruct o; try discriminate; cbn [spec_step op_session];
    try (destruct (s_view sp s) as [[d log]|] eqn:E;
         [left; exists s, d, log; split; [exact E|split; reflexivity]|right; split; reflexivity]);
    right; split; reflexivity.
Qed.

Lemma epaired_step : forall st sp o, adj_inv st -> epaired st sp ->
  epaired (fst (step st o)) (spec_step sp o (canon (snd (step st o)))).
Proof.
  intros st sp o Ha [Hc Hv].
  pose proof (egrow_step st o) as G.
  pose proof (fun d => wok_resolve st o d Ha) as W.
  set (st' := fst (step st o)) in *. set (x := canon (snd (step st o))) in *.
  assert (Hc' : eok st' (s_comm sp)) by (eapply eok_grow; eassumption).
  assert (Hv' : forall s d log, s_view sp s = Some (d, log) -> eok st' d /\ wok st' log).
  { intros s d log E. destruct (Hv s d log E). split; [eapply eok_grow|eapply wok_grow]; eassumption. }
  clearbody st' x. clear Hc Hv G.
  destruct (write_op o) eqn:Wo.
  - destruct (spec_step_write sp o x Wo) as [[s [d [log [E [C V]]]]]|[C V]].
    + constructor.
      * rewrite C. exact Hc'.
      * intros s1 d1 log1. rewrite V. unfold upd. destruct (Z.eqb_spec s1 s).
        -- intros H. injection H as <- <-. destruct (Hv' s d log E) as [H1 H2].
           split; [apply eok_apply_ws; [exact H1|apply W]|apply wok_app; [exact H2|apply W]].
        -- apply Hv'.
    + constructor.
      * rewrite C. apply eok_apply_ws; [exact Hc'|apply W].
      * intros s1 d1 log1. rewrite V. apply Hv'.
  - destruct o; try discriminate; cbn [spec_step].
    + (* Begin *) destruct (s_view sp s) eqn:E.
      * constructor; assumption.
      * constructor; cbn [s_comm s_view]; [exact Hc'|]. intros s1 d1 log1. unfold upd.
        destruct (Z.eqb_spec s1 s); [|apply Hv']. intros H. injection H as <- <-. split; [exact Hc'|apply wok_nil].
    + (* Commit *) destruct (s_view sp s) as [[d log]|] eqn:E.
      * constructor; cbn [s_comm s_view].
        -- destruct (Hv' s d log E). apply eok_apply_ws; assumption.
        -- intros s1 d1 log1. unfold upd. destruct (Z.eqb_spec s1 s); [discriminate|apply Hv'].
      * constructor; assumption.
    + (* Rollback *) constructor; cbn [s_comm s_view]; [exact Hc'|]. intros s1 d1 log1. unfold upd.
      destruct (s1 =? s); [discriminate|apply Hv'].
    + (* DropSession *) constructor; cbn [s_comm s_view]; [exact Hc'|]. intros s1 d1 log1. unfold upd.
      destruct (s1 =? s); [discriminate|apply Hv'].
    + (* Read *) constructor; assumption.
Qed.

Lemma epaired_run : forall ops st sp, adj_inv st -> epaired st sp ->
  adj_inv (fst (run_from st ops))
  /\ epaired (fst (run_from st ops)) (fold_left (fun sp ox => spec_step sp (fst ox) (snd ox))
                                                (combine ops (map canon (snd (run_from st ops)))) sp).
Proof.
  induction ops as [|o r IH]; intros st sp Ha Hp; [split; assumption|].
  rewrite run_from_cons. cbn [fst snd map combine fold_left].
  apply IH; [apply adj_step; exact Ha|apply epaired_step; assumption].
Qed.
Lemma adj_final : forall ops, adj_inv (final ops).
Proof. intros ops. apply (proj1 (epaired_run ops init sinit adj_init epaired_init)). Qed.
Lemma epaired_final : forall ops, epaired (final ops) (spec_final ops).
Proof. intros ops. apply (proj2 (epaired_run ops init sinit adj_init epaired_init)). Qed.

(** ** the model's expand as a [flat_map] over edge ids *)
Lemma expand_row_out : forall st a ty e t, adj_inv st ->
  expand_row st a Out ty e t = flat_map (m_slot st e t ty true a) (range (e_next st)).
Proof.
  intros st a ty e t Ha. unfold expand_row. cbn [edges_from]. unfold adj_live.
  rewrite (a_fwd st Ha a), !filter_flat_map, map_flat_map.
  apply flat_map_ext_in'. intros x _. unfold fwd_of, m_slot, ty_model, MEv, Mv.
  destruct (e_rec st x) as [[s0 t0] y0]. destruct (s0 =? a); cbn [filter map fst snd andb negb]; [|reflexivity].
  destruct (memz x (fwd_del st a)); cbn [filter map fst snd andb negb]; [reflexivity|].
  match goal with |- map _ (if ?c then _ else _) = _ => destruct c end; reflexivity.
Qed.
Lemma expand_row_inc : forall st a ty e t, adj_inv st ->
  expand_row st a Inc ty e t = flat_map (m_slot st e t ty false a) (range (e_next st)).
Proof.
  intros st a ty e t Ha. unfold expand_row. cbn [edges_from]. unfold adj_live.
  rewrite (a_bwd st Ha a), !filter_flat_map, map_flat_map.
  apply flat_map_ext_in'. intros x _. unfold bwd_of, m_slot, ty_model, MEv, Mv.
  destruct (e_rec st x) as [[s0 t0] y0]. destruct (t0 =? a); cbn [filter map fst snd andb negb]; [|reflexivity].
  destruct (memz x (bwd_del st a)); cbn [filter map fst snd andb negb]; [reflexivity|].
  match goal with |- map _ (if ?c then _ else _) = _ => destruct c end; reflexivity.
Qed.
Lemma expand_row_both : forall st a ty e t,
  expand_row st a Both ty e t = expand_row st a Out ty e t ++ expand_row st a Inc ty e t.
Proof. intros. unfold expand_row. cbn [edges_from]. rewrite filter_app, map_app. reflexivity. Qed.

(** the specification's rows likewise *)
Lemma out_rows_slots : forall d eb a ty, out_rows d eb a ty = flat_map (i_slot d ty true a) (range eb).
Proof.
  intros. unfold out_rows. apply flat_map_ext_in'. intros x _. unfold i_slot.
  destruct (d_edge d x) as [[[s t] y]|]; reflexivity.
Qed.
Lemma in_rows_slots : forall d eb a ty, in_rows d eb a ty = flat_map (i_slot d ty false a) (range eb).
Proof.
  intros. unfold in_rows. apply flat_map_ext_in'. intros x _. unfold i_slot.
  destruct (d_edge d x) as [[[s t] y]|]; reflexivity.
Qed.

(** ** a slot of class 0 contributes the same row on both sides *)
Lemma slot_class_zero : forall st d e t ty o a x, eok st d ->
  slot_class st d e t ty o a x = 0 -> m_slot st e t ty o a x = i_slot d ty o a x.
Proof.
  intros st d e t ty o a x Hd H. unfold slot_class in H.
  destruct (list_eqb eqb3 (m_slot st e t ty o a x) (i_slot d ty o a x)) eqn:E.
  { apply (list_eqb_eq eqb3 eqb3_eq). exact E. }
  clear E. unfold m_slot, i_slot, ty_model, MEs, edge_type in *.
  destruct (e_rec st x) as [[s0 t0] y0] eqn:Er.
  destruct (d_edge d x) as [[[s1 t1] y1]|] eqn:Ed.
  - destruct (Hd x _ Ed) as [_ Hr]. rewrite Er in Hr. injection Hr as -> -> ->.
    revert H. destruct o.
    + destruct (s0 =? a); destruct (memz x (fwd_del st a)); destruct (MEv st e t x); destruct (Mv st e t t0);
        destruct (in_db d t0) eqn:Ei; destruct ty as [want|]; try destruct (c_visible_at (e_chain st x) (st_epoch st));
        cbn [andb negb snd ty_ok]; try destruct (y0 =? want); cbn [andb negb];
        intros H; try rewrite Ei in H; try reflexivity; try discriminate.
    + destruct (t0 =? a); destruct (memz x (bwd_del st a)); destruct (MEv st e t x); destruct (Mv st e t s0);
        destruct (in_db d s0) eqn:Ei; destruct ty as [want|]; try destruct (c_visible_at (e_chain st x) (st_epoch st));
        cbn [andb negb snd ty_ok]; try destruct (y0 =? want); cbn [andb negb];
        intros H; try rewrite Ei in H; try reflexivity; try discriminate.
  - destruct o.
    + destruct ((s0 =? a) && negb (memz x (fwd_del st a)) &&
                match ty with
                | Some want => match (if c_visible_at (e_chain st x) (st_epoch st) then Some (snd (s0, t0, y0)) else None) with
                               | Some have => have =? want | None => false end
                | None => true end && MEv st e t x && Mv st e t t0); [discriminate|reflexivity].
    + destruct ((t0 =? a) && negb (memz x (bwd_del st a)) &&
                match ty with
                | Some want => match (if c_visible_at (e_chain st x) (st_epoch st) then Some (snd (s0, t0, y0)) else None) with
                               | Some have => have =? want | None => false end
                | None => true end && MEv st e t x && Mv st e t s0); [discriminate|reflexivity].
Qed.

Lemma expand_class_zero : forall st d e t m dr ty nb, adj_inv st -> eok st d ->
  expand_class st d e t m dr ty nb (e_next st) = 0 ->
  forall a, In a (range nb) -> sp_match d m a = true ->
  expand_row st a dr ty e t = sp_rows d (e_next st) a dr ty.
Proof.
  intros st d e t m dr ty nb Ha Hd Hz a Hin Hm. unfold expand_class in Hz.
  pose proof (first_class_zero _ _ Hz a Hin) as H1. cbn beta in H1. rewrite Hm in H1.
  pose proof (first_class_zero _ _ H1) as H2. cbn beta zeta in H2.
  destruct dr; cbn [sp_rows].
  - (* Out *) rewrite (expand_row_out _ _ _ _ _ Ha), out_rows_slots. apply flat_map_ext_in'. intros x Hx.
    specialize (H2 x Hx). apply slot_class_zero; [exact Hd|].
    destruct (Z.eqb_spec (slot_class st d e t ty true a x) 0) as [E|E]; [exact E|]. cbn [negb] in H2. contradiction.
  - (* Inc *) rewrite (expand_row_inc _ _ _ _ _ Ha), in_rows_slots. apply flat_map_ext_in'. intros x Hx.
    specialize (H2 x Hx). apply slot_class_zero; [exact Hd|]. cbn in H2. exact H2.
  - (* Both *) rewrite expand_row_both, (expand_row_out _ _ _ _ _ Ha), (expand_row_inc _ _ _ _ _ Ha), out_rows_slots, in_rows_slots.
    f_equal; apply flat_map_ext_in'; intros x Hx; specialize (H2 x Hx); (apply slot_class_zero; [exact Hd|]);
      destruct (Z.eqb_spec (slot_class st d e t ty true a x) 0) as [E|E]; cbn [negb] in H2; try assumption; contradiction.
Qed.

Lemma eok_view : forall st sp s, epaired st sp -> eok st (view_of sp s).
Proof.
  intros st sp s He. unfold view_of. destruct (s_view sp s) as [[d log]|] eqn:E.
  - apply (ep_view _ _ He s d log E).
  - apply (ep_comm _ _ He).
Qed.

(** ** every deviating read of every kind has a class *)
Lemma read_class_total_full : forall st sp s k, adj_inv st -> paired st sp -> epaired st sp ->
  classify_read st sp s k = 0 -> out_eqb (spec_expected sp s k) (canon (read st s k)) = true.
Proof.
  intros st sp s k Ha Hp He Hc. destruct (c01_kind k) eqn:Hk; [apply read_class_total; assumption|].
  destruct k; try discriminate.
  - (* Expand *)
    unfold classify_read in Hc. unfold read, spec_expected.
    rewrite (pa_nb _ _ Hp), (pa_eb _ _ Hp), !Z.max_id in Hc. rewrite (pa_nb _ _ Hp), (pa_eb _ _ Hp).
    destruct (ctx st s) as [e t] eqn:Hctx. cbn [sp_read canon].
    destruct (first_class (scan_class st (view_of sp s) e t src) (range (n_next st)) =? 0) eqn:E1;
      cbn [negb] in Hc; [|apply Z.eqb_neq in E1; contradiction].
    apply Z.eqb_eq in E1. rewrite (scan_eq _ _ _ _ _ E1).
    assert (F : flat_map (fun a => expand_row st a d ty e t) (filter (sp_match (view_of sp s) src) (range (n_next st)))
                = flat_map (fun a => sp_rows (view_of sp s) (e_next st) a d ty) (filter (sp_match (view_of sp s) src) (range (n_next st)))).
    { apply flat_map_ext_in'. intros a Hin. apply filter_In in Hin. destruct Hin as [Hr Hm].
      apply (expand_class_zero st (view_of sp s) e t src d ty (n_next st) Ha (eok_view st sp s He) Hc a Hr Hm). }
    rewrite F. apply out_eqb_refl.
  - (* StoreLabel *) unfold classify_read in Hc. destruct (ctx st s). discriminate.
  - (* StoreProp *) unfold classify_read in Hc. destruct (ctx st s). discriminate.
Qed.

(** every verdict of a history carries a class: 1..6 for a read, 11..16 for the read of a write statement *)
Lemma verdicts_classified_full : forall ops st sp i, inv st -> adj_inv st -> paired st sp -> epaired st sp ->
  forall p c, In (p, c) (verdicts st sp i ops (map canon (snd (run_from st ops)))) ->
  1 <= c <= 6 \/ 11 <= c <= 16.
Proof.
  induction ops as [|o r IH]; intros st sp i Hi Ha Hp He p c Hin; [contradiction|].
  rewrite run_from_cons in Hin. cbn [snd map verdicts] in Hin.
  pose proof (inv_step st o Hi) as Hi'. pose proof (paired_step st sp o Hi Hp) as Hp'.
  pose proof (adj_step st o Ha) as Ha'. pose proof (epaired_step st sp o Ha He) as He'.
  pose proof (mut_class_okc st sp o) as Hm. unfold okc in Hm.
  destruct o as [s|s|s|s|s ls ps|s m id dt|s a b ty|s ma mb a b ty|x|s m id key v|s m id key|s m id l|s m id l|s tr|s tr|n|n key v|n key|n l|n l|s k];
    try (match type of Hin with
         | In _ (if ?c0 =? 0 then _ else _) =>
             destruct (Z.eqb_spec c0 0) as [E|E];
             [eapply (IH _ _ _ Hi' Ha' Hp' He'); exact Hin
             |cbn [In] in Hin; destruct Hin as [Hin|[]]; assert (Hc : c = c0 + 10) by congruence; lia]
         end).
  (* Read *)
  cbn [step fst snd] in *.
  destruct (out_eqb (spec_expected sp s k) (canon (read st s k))) eqn:E.
  - eapply (IH _ _ _ Hi' Ha' Hp' He'). exact Hin.
  - destruct Hin as [Hin|Hin].
    + injection Hin as _ <-. pose proof (classify_read_okc st sp s k) as Hc. unfold okc in Hc.
      destruct (Z.eq_dec (classify_read st sp s k) 0) as [C|C]; [|lia].
      rewrite (read_class_total_full st sp s k Ha Hp He C) in E. discriminate.
    + eapply (IH _ _ _ Hi' Ha' Hp' He'). exact Hin.
Qed.

(** snapshot_outside_K, all read kinds *)
Lemma snapshot_outside_K_l : forall ops,
  (forall c, 1 <= c <= 6 -> c01_k c ops (mrun ops) = false) -> snapshot_ok ops (mrun ops) = true.
Proof.
  intros ops Hk. unfold snapshot_ok. apply (verdicts_nil ops init sinit 0).
  destruct (verdicts init sinit 0 ops (mrun ops)) as [|[p c] rest] eqn:E; [reflexivity|exfalso].
  assert (Hin : In (p, c) (verdicts init sinit 0 ops (map canon (snd (run_from init ops))))).
  { change (map canon (snd (run_from init ops))) with (mrun ops). rewrite E. left. reflexivity. }
  destruct (verdicts_classified_full ops init sinit 0 inv_init adj_init paired_init epaired_init p c Hin) as [Hc|Hc].
  - specialize (Hk c Hc). unfold c01_k, c01_k_of, c01_fails in Hk. rewrite E in Hk. cbn [existsb snd] in Hk.
    rewrite Z.eqb_refl in Hk. discriminate.
  - assert (Hc' : 1 <= c - 10 <= 6) by lia. specialize (Hk (c - 10) Hc'). unfold c01_k, c01_k_of, c01_fails in Hk.
    rewrite E in Hk. cbn [existsb snd] in Hk.
    replace (c - 10 + 10) with c in Hk by lia. rewrite Z.eqb_refl, orb_true_r in Hk. discriminate.
Qed.

(** the same, read by read, along every history *)
Lemma read_deviation_classified_l : forall ops s k,
  classify_read (final ops) (spec_final ops) s k = 0 ->
  out_eqb (spec_expected (spec_final ops) s k) (canon (read (final ops) s k)) = true.
Proof.
  intros ops s k. apply read_class_total_full.
  - apply adj_final.
  - apply (paired_run ops init sinit inv_init paired_init).
  - apply epaired_final.
Qed.

(** the one-evaluation report of the check is the pointwise statement *)
Lemma c01_report_spec : forall ops outs,
  c01_report ops outs = (chk_hist ops outs, c01_fails ops outs, map (fun c => c01_k c ops outs) [1; 2; 3; 4; 5; 6]).
Proof. reflexivity. Qed.
Lemma c02_report_spec : forall ops outs ds,
  c02_report ops outs ds = (chk_hist ops outs, c02_fails ops outs ds, c02_checked ops outs ds,
                            map (fun c => c02_k c ops outs ds) [1; 2; 5], ctl_fails ops outs).
Proof. reflexivity. Qed.

(** ** transaction control follows the specification's state machine, along every history *)
Lemma ctl_ok_from : forall ops st sp i, inv st -> paired st sp ->
  ctl_fails_from sp i ops (map canon (snd (run_from st ops))) = [].
Proof.
  induction ops as [|o r IH]; intros st sp i Hi Hp; [reflexivity|].
  rewrite run_from_cons. cbn [snd map ctl_fails_from].
  rewrite (IH _ _ (i + 1) (inv_step st o Hi) (paired_step st sp o Hi Hp)), app_nil_r.
  assert (Hv : forall s, sess st s = None <-> s_view sp s = None) by (apply (pa_sess _ _ Hp)).
  destruct o; try reflexivity.
  - (* Begin *) cbn [step]. destruct (sess st s) as [t|] eqn:Hs.
    + destruct (s_view sp s) eqn:E; [reflexivity|]. apply Hv in E. congruence.
    + rewrite (proj1 (Hv s) Hs). destruct (tm_begin st) as [st1 t]. reflexivity.
  - (* Commit *) destruct (sess st s) as [t|] eqn:Hs.
    + rewrite (proj1 (commit_ok_l st s t Hi Hs)).
      destruct (s_view sp s) eqn:E; [reflexivity|]. apply Hv in E. congruence.
    + cbn [step]. rewrite Hs, (proj1 (Hv s) Hs). reflexivity.
  - (* Rollback *) destruct (sess st s) as [t|] eqn:Hs.
    + rewrite (proj1 (rollback_ok_l st s t Hi Hs)).
      destruct (s_view sp s) eqn:E; [reflexivity|]. apply Hv in E. congruence.
    + cbn [step]. rewrite Hs, (proj1 (Hv s) Hs). reflexivity.
  - (* DropSession *) rewrite (drop_out st s). reflexivity.
Qed.
Lemma tx_control_follows_spec_l : forall ops, ctl_fails ops (mrun ops) = [].
Proof. intros ops. apply (ctl_ok_from ops init sinit 0 inv_init paired_init). Qed.
