(** C01 / C02 — the specification: snapshot semantics over a plain graph.

    This file does not look at versions, epochs or side tables.  It says what a history of session
    operations *should* return:

      - the committed database is a plain record [db] (nodes with labels and properties, edges, triples);
      - [Begin s] gives session [s] a private copy of the committed database (its snapshot);
      - a write inside a transaction changes the private copy and is logged; [Commit] replays the log
        on the committed database (first-committer-wins conflicts are the business of C03, not of this
        specification); [Rollback] and dropping the session throw the copy away;
      - a write outside a transaction changes the committed database at once;
      - a read inside a transaction reads the private copy (snapshot + own writes), a read outside a
        transaction reads the committed database.

    Ids of created entities are part of the observed history (the implementation hands them out from
    global counters, also to transactions that roll back later), so the specification takes them from the
    recorded outputs.

    [snapshot_ok h]  (C01): every [Read] output recorded in [h] is the specification's answer.
    [atomic_ok h ds] (C02): for every isolated transaction of [h] enclosed by two dumps (full observable
                     state through every access path): after rollback / session drop the second dump equals
                     the first; after commit the second dump is the dump of (state of the first dump +
                     the transaction's writes).
    No proofs in this file. *)
From Coq Require Import ZArith List Bool.
Import ListNotations.
From GV Require Export Mvcc.Canon.
Open Scope Z_scope.

(** ** plain databases *)
Record db := mkDb {
  d_node : Z -> option (list Z * list (Z * val));   (* labels, properties *)
  d_edge : Z -> option (Z * Z * Z);                 (* src, dst, type *)
  d_trip : list triple
}.
Definition db0 : db := mkDb (fun _ => None) (fun _ => None) [].

Definition in_db (d : db) (n : Z) : bool := match d_node d n with Some _ => true | None => false end.
Definition labels_of (d : db) (n : Z) : list Z := match d_node d n with Some (ls, _) => ls | None => [] end.
Definition props_of (d : db) (n : Z) : list (Z * val) := match d_node d n with Some (_, ps) => ps | None => [] end.
Definition has_label (d : db) (n l : Z) : bool := in_db d n && memz l (labels_of d n).
(** MATCH (n:l) / MATCH (n), WHERE id(n) = id *)
Definition sp_match (d : db) (m : sel) (id : Z) : bool :=
  match m with SelLabel l => has_label d id l | SelAny => in_db d id end.

(** resolved writes *)
Inductive wop :=
| WNode (id : Z) (ls : list Z) (ps : list (Z * val))
| WDelNode (id : Z) (detach : bool)
| WEdge (id src dst ty : Z)
| WDelEdge (id : Z)
| WSet (id k : Z) (v : val)
| WUnset (id k : Z)
| WAddL (id l : Z)
| WRemL (id l : Z)
| WInsT (t : triple)
| WDelT (t : triple).

Definition apply_w (d : db) (w : wop) : db :=
  match w with
  | WNode id ls ps =>
      mkDb (upd (d_node d) id (Some (dedupz ls, fold_left (fun acc kv => pset (fst kv) (snd kv) acc) ps [])))
           (d_edge d) (d_trip d)
  | WDelNode id detach =>
      mkDb (upd (d_node d) id None)
           (if detach
            then fun e => match d_edge d e with
                          | Some (s, t, ty) => if (s =? id) || (t =? id) then None else Some (s, t, ty)
                          | None => None
                          end
            else d_edge d)
           (d_trip d)
  | WEdge id s t ty => mkDb (d_node d) (upd (d_edge d) id (Some (s, t, ty))) (d_trip d)
  | WDelEdge id => mkDb (d_node d) (upd (d_edge d) id None) (d_trip d)
  | WSet id k v =>
      match d_node d id with
      | Some (ls, ps) => mkDb (upd (d_node d) id (Some (ls, pset k v ps))) (d_edge d) (d_trip d)
      | None => d
      end
  | WUnset id k =>
      match d_node d id with
      | Some (ls, ps) => mkDb (upd (d_node d) id (Some (ls, pdel k ps))) (d_edge d) (d_trip d)
      | None => d
      end
  | WAddL id l =>
      match d_node d id with
      | Some (ls, ps) => mkDb (upd (d_node d) id (Some (addz l ls, ps))) (d_edge d) (d_trip d)
      | None => d
      end
  | WRemL id l =>
      match d_node d id with
      | Some (ls, ps) => mkDb (upd (d_node d) id (Some (remz l ls, ps))) (d_edge d) (d_trip d)
      | None => d
      end
  | WInsT t => mkDb (d_node d) (d_edge d) (rdf_insert (d_trip d) t)
  | WDelT t => mkDb (d_node d) (d_edge d) (rdf_remove (d_trip d) t)
  end.
Definition apply_ws (d : db) (ws : list wop) : db := fold_left apply_w ws d.

(** the writes an operation stands for, decided on the database [d] the writer reads; ids of created
    entities come from the recorded output [x] *)
Definition resolve (d : db) (o : op) (x : out) : list wop :=
  match o, x with
  | CreateNode _ ls ps, OId id => [WNode id ls ps]
  | DeleteNode _ m id detach, _ => if sp_match d m id then [WDelNode id detach] else []
  | CreateEdge _ s t ty, OId id => [WEdge id s t ty]
  | CreateEdgeQ _ ma mb s t ty, OIds [id] => if sp_match d ma s && sp_match d mb t then [WEdge id s t ty] else []
  | DeleteEdge e, _ => [WDelEdge e]
  | SetProp _ m id k v, _ => if sp_match d m id then [WSet id k v] else []
  | RemoveProp _ m id k, _ => if sp_match d m id then [WSet id k None] else []   (* REMOVE n.k is SET n.k = NULL in this engine *)
  | AddLabel _ m id l, _ => if sp_match d m id then [WAddL id l] else []
  | RemoveLabel _ m id l, _ => if sp_match d m id then [WRemL id l] else []
  | InsertTriple _ t, _ => [WInsT t]
  | DeleteTriple _ t, _ => [WDelT t]
  | DbDeleteNode n, _ => [WDelNode n true]     (* GrafeoDB::delete_node detaches (documented; code since 109e5bf) *)
  | DbSetProp n k v, _ => [WSet n k v]
  | DbRemoveProp n k, _ => [WUnset n k]
  | DbAddLabel n l, _ => [WAddL n l]
  | DbRemoveLabel n l, _ => [WRemL n l]
  | _, _ => []
  end.

(** ** the specification state machine *)
Record sstate := mkS {
  s_comm : db;                               (* committed database *)
  s_view : Z -> option (db * list wop);      (* session -> (snapshot + own writes, write log) *)
  s_nb : Z;                                  (* ids handed out so far: nodes, edges *)
  s_eb : Z
}.
Definition sinit : sstate := mkS db0 (fun _ => None) 0 0.

(** the database session [s] reads *)
Definition view_of (sp : sstate) (s : Z) : db :=
  match s_view sp s with Some (d, _) => d | None => s_comm sp end.

Definition op_session (o : op) : option Z :=
  match o with
  | Begin s | Commit s | Rollback s | DropSession s => Some s
  | CreateNode s _ _ | DeleteNode s _ _ _ | CreateEdge s _ _ _ | CreateEdgeQ s _ _ _ _ _ => Some s
  | SetProp s _ _ _ _ | RemoveProp s _ _ _ | AddLabel s _ _ _ | RemoveLabel s _ _ _ => Some s
  | InsertTriple s _ | DeleteTriple s _ | Read s _ => Some s
  | _ => None
  end.

Definition bump (b : Z) (x : out) : Z :=
  match x with
  | OId id => Z.max b (id + 1)
  | OIds l => fold_left (fun acc id => Z.max acc (id + 1)) l b
  | _ => b
  end.

Definition spec_step (sp : sstate) (o : op) (x : out) : sstate :=
  match o with
  | Begin s =>
      match s_view sp s with
      | Some _ => sp
      | None => mkS (s_comm sp) (upd (s_view sp) s (Some (s_comm sp, []))) (s_nb sp) (s_eb sp)
      end
  | Commit s =>
      match s_view sp s with
      | Some (_, log) => mkS (apply_ws (s_comm sp) log) (upd (s_view sp) s None) (s_nb sp) (s_eb sp)
      | None => sp
      end
  | Rollback s | DropSession s => mkS (s_comm sp) (upd (s_view sp) s None) (s_nb sp) (s_eb sp)
  | Read _ _ => sp
  | _ =>
      let nb := match o with CreateNode _ _ _ => bump (s_nb sp) x | _ => s_nb sp end in
      let eb := match o with CreateEdge _ _ _ _ | CreateEdgeQ _ _ _ _ _ _ => bump (s_eb sp) x | _ => s_eb sp end in
      match op_session o with
      | Some s =>
          match s_view sp s with
          | Some (d, log) =>
              let ws := resolve d o x in
              mkS (s_comm sp) (upd (s_view sp) s (Some (apply_ws d ws, log ++ ws))) nb eb
          | None => mkS (apply_ws (s_comm sp) (resolve (s_comm sp) o x)) (s_view sp) nb eb
          end
      | None => mkS (apply_ws (s_comm sp) (resolve (s_comm sp) o x)) (s_view sp) nb eb
      end
  end.

(** ** reads of a plain database, in canonical form ([d] = what the reader sees, [dc] = committed) *)
Definition node_ids_of (d : db) (nb : Z) : list Z := filter (in_db d) (range nb).
Definition label_ids_of (d : db) (nb l : Z) : list Z := filter (fun n => has_label d n l) (range nb).
Definition flat (o : option val) : val := match o with Some v => v | None => None end.
Definition ty_ok (ty : option Z) (t : Z) : bool := match ty with Some w => t =? w | None => true end.

Definition out_rows (d : db) (eb a : Z) (ty : option Z) : list (Z * Z * Z) :=
  flat_map (fun e => match d_edge d e with
                     | Some (s, t, y) => if (s =? a) && ty_ok ty y && in_db d t then [(a, e, t)] else []
                     | None => []
                     end) (range eb).
Definition in_rows (d : db) (eb a : Z) (ty : option Z) : list (Z * Z * Z) :=
  flat_map (fun e => match d_edge d e with
                     | Some (s, t, y) => if (t =? a) && ty_ok ty y && in_db d s then [(a, e, s)] else []
                     | None => []
                     end) (range eb).
Definition sp_rows (d : db) (eb a : Z) (dr : dir) (ty : option Z) : list (Z * Z * Z) :=
  match dr with
  | Out => out_rows d eb a ty
  | Inc => in_rows d eb a ty
  | Both => out_rows d eb a ty ++ in_rows d eb a ty
  end.
(** raw neighbour lists: every edge of the database, whether or not the other end still exists *)
Definition sp_neigh (d : db) (eb n : Z) (dr : dir) : list (Z * Z) :=
  flat_map (fun e => match d_edge d e with
                     | Some (s, t, _) =>
                         match dr with
                         | Out => if s =? n then [(t, e)] else []
                         | Inc => if t =? n then [(s, e)] else []
                         | Both => (if s =? n then [(t, e)] else []) ++ (if t =? n then [(s, e)] else [])
                         end
                     | None => []
                     end) (range eb).
Definition canon_node (x : list Z * list (Z * val)) : list Z * list (Z * val) :=
  (isort Z.leb (fst x), isort lebkv (snd x)).

Definition sp_read (d dc : db) (nb eb : Z) (k : kind) : out :=
  match k with
  | LabelScan l => OIds (label_ids_of d nb l)
  | AllScan => OIds (node_ids_of d nb)
  | CountAll => OCount (Z.of_nat (length (node_ids_of d nb)))
  | CountLabel l => OCount (Z.of_nat (length (label_ids_of d nb l)))
  | ProjProp l k => OVals (map (fun n => (n, flat (pget k (props_of d n)))) (label_ids_of d nb l))
  | Expand m dr ty =>
      ORows (isort leb3 (flat_map (fun a => sp_rows d eb a dr ty) (filter (sp_match d m) (range nb))))
  | GetNode n => ONode (option_map canon_node (d_node d n))
  | GetEdge e => OEdge (d_edge d e)
  | GetProp n k => OVal (match d_node d n with Some (_, ps) => pget k ps | None => None end)
  | Neigh n dr => OPairs (isort leb2 (sp_neigh d eb n dr))
  | Degree n => ODeg (Z.of_nat (length (sp_neigh d eb n Out))) (Z.of_nat (length (sp_neigh d eb n Inc)))
  | TripleQ p | TripleApi p => OTriples (isort leb3 (rdf_find (d_trip d) p))
  (* database-level calls are not made by a session: they read the committed database *)
  | DbCounts => OCounts (Z.of_nat (length (node_ids_of dc nb)))
                        (Z.of_nat (length (filter (fun e => match d_edge dc e with Some _ => true | None => false end) (range eb))))
  | StoreLabel l => OIds (label_ids_of dc nb l)
  | StoreProp n k => OVal (match d_node dc n with Some (_, ps) => pget k ps | None => None end)
  | FreshLabelScan l => OIds (label_ids_of dc nb l)
  end.

(** the answer the specification gives to [Read s k] in state [sp] *)
Definition spec_expected (sp : sstate) (s : Z) (k : kind) : out :=
  sp_read (view_of sp s) (s_comm sp) (s_nb sp) (s_eb sp) k.

(** ** C01: snapshot_ok *)
Fixpoint snapshot_ok_from (sp : sstate) (ops : list op) (outs : list out) : bool :=
  match ops, outs with
  | o :: ro, x :: rx =>
      (match o with Read s k => out_eqb (spec_expected sp s k) x | _ => true end)
      && snapshot_ok_from (spec_step sp o x) ro rx
  | _, _ => true
  end.
Definition snapshot_ok (ops : list op) (outs : list out) : bool := snapshot_ok_from sinit ops outs.

(** ** C02: dumps and atomic_ok *)
(** a dump is a run of reads by the observer session; [kinds_of] recovers its read list *)
Definition kinds_of (ops : list op) : list kind :=
  flat_map (fun o => match o with Read _ k => [k] | _ => [] end) ops.
Definition slice {A} (l : list A) (start len : Z) : list A := firstn (Z.to_nat len) (skipn (Z.to_nat start) l).

(** the plain database a dump shows: nodes from the [GetNode] answers, edges from [GetEdge], triples
    from the wildcard triple query *)
Fixpoint db_of_dump (ks : list kind) (xs : list out) (d : db) : db :=
  match ks, xs with
  | k :: rk, x :: rx =>
      let d' := match k, x with
                | GetNode n, ONode o => mkDb (upd (d_node d) n o) (d_edge d) (d_trip d)
                | GetEdge e, OEdge o => mkDb (d_node d) (upd (d_edge d) e o) (d_trip d)
                | TripleQ (None, None, None), OTriples l => mkDb (d_node d) (d_edge d) l
                | _, _ => d
                end in
      db_of_dump rk rx d'
  | _, _ => d
  end.

Inductive tx_end := EndCommit | EndRollback | EndDrop.

(** the single transaction between two dumps, if the segment has the required shape: exactly one
    successful [Begin s], operations of [s] and reads of other sessions only, one successful end of [s].
    Returns the session, the operations of the transaction with their outputs, and how it ended. *)
Fixpoint seg_tx (cur : option Z) (acc : list (op * out)) (seg : list (op * out))
  : option (Z * list (op * out) * tx_end) :=
  match seg with
  | [] => None
  | (o, x) :: r =>
      match cur with
      | None =>
          match o, x with
          | Begin s, OUnit => seg_tx (Some s) [] r
          | Read _ _, _ => seg_tx None [] r
          | _, _ => None
          end
      | Some s =>
          match o, x with
          | Commit s', OUnit => if s' =? s then (match r with [] => Some (s, acc, EndCommit) | _ => None end) else None
          | Rollback s', OUnit => if s' =? s then (match r with [] => Some (s, acc, EndRollback) | _ => None end) else None
          | DropSession s', _ => if s' =? s then (match r with [] => Some (s, acc, EndDrop) | _ => None end) else None
          | Read s' _, _ => seg_tx cur (if s' =? s then acc ++ [(o, x)] else acc) r
          | _, _ => match op_session o with
                    | Some s' => if s' =? s then seg_tx cur (acc ++ [(o, x)]) r else None
                    | None => None
                    end
          end
      end
  end.

(** the transaction's writes replayed on a plain database *)
Definition replay_tx (d : db) (tx : list (op * out)) : db :=
  fold_left (fun v ox => apply_ws v (resolve v (fst ox) (snd ox))) tx d.

Definition bounds_after (nb eb : Z) (tx : list (op * out)) : Z * Z :=
  fold_left (fun b ox => match fst ox with
                         | CreateNode _ _ _ => (bump (fst b) (snd ox), snd b)
                         | CreateEdge _ _ _ _ | CreateEdgeQ _ _ _ _ _ _ => (fst b, bump (snd b) (snd ox))
                         | _ => b
                         end) tx (nb, eb).
Definition dump_bounds (ks : list kind) : Z * Z :=
  fold_left (fun b k => match k with
                        | GetNode n => (Z.max (fst b) (n + 1), snd b)
                        | GetEdge e => (fst b, Z.max (snd b) (e + 1))
                        | _ => b
                        end) ks (0, 0).

(** verdict on one pair of consecutive dumps [(s1,l1,_)], [(s2,l2,base)]:
    [None] = not a checkable transaction segment; [Some []] = fine;
    [Some l] = indices (within the second dump) of the reads whose answers are wrong *)
Definition check_pair (ops : list op) (outs : list out) (d1 d2 : Z * Z * Z) : option (tx_end * list Z) :=
  let '(s1, l1, _) := d1 in
  let '(s2, l2, base) := d2 in
  let k1 := kinds_of (slice ops s1 l1) in
  let x1 := slice outs s1 l1 in
  let k2 := kinds_of (slice ops s2 l2) in
  let x2 := slice outs s2 l2 in
  let seg := combine (slice ops (s1 + l1) (s2 - s1 - l1)) (slice outs (s1 + l1) (s2 - s1 - l1)) in
  match seg_tx None [] seg with
  | None => None
  | Some (_, tx, how) =>
      let idx := range l2 in
      match how with
      | EndRollback | EndDrop =>
          (* the first [base] reads repeat the first dump: same answers; the reads the second dump adds
             (ids handed out inside the transaction): what the state of the first dump says about them *)
          let d := db_of_dump k1 x1 db0 in
          let '(nb2, eb2) := dump_bounds k2 in
          Some (how, filter (fun i => negb (if i <? base
                                            then out_eqb (nth (Z.to_nat i) x2 OErr) (nth (Z.to_nat i) x1 OUnit)
                                            else out_eqb (sp_read d d nb2 eb2 (nth (Z.to_nat i) k2 AllScan))
                                                         (nth (Z.to_nat i) x2 OErr))) idx)
      | EndCommit =>
          (* the state the first dump shows, plus the transaction's writes.  Where the specification says
             "this read is not affected by the transaction" the answer must not change; where it says
             "affected" (and for the added reads) the answer must be the new state's *)
          let d := db_of_dump k1 x1 db0 in
          let d' := replay_tx d tx in
          let '(nb0, eb0) := dump_bounds k1 in
          let '(nb, eb) := bounds_after nb0 eb0 tx in
          Some (how, filter (fun i =>
                               let k := nth (Z.to_nat i) k2 AllScan in
                               let want := sp_read d' d' nb eb k in
                               negb (if (i <? base) && out_eqb (sp_read d d nb0 eb0 k) want
                                     then out_eqb (nth (Z.to_nat i) x2 OErr) (nth (Z.to_nat i) x1 OUnit)
                                     else out_eqb want (nth (Z.to_nat i) x2 OErr))) idx)
      end
  end.

Fixpoint dump_pairs (ds : list (Z * Z * Z)) : list ((Z * Z * Z) * (Z * Z * Z)) :=
  match ds with
  | a :: ((b :: _) as r) => (a, b) :: dump_pairs r
  | _ => []
  end.

Definition atomic_ok (ops : list op) (outs : list out) (ds : list (Z * Z * Z)) : bool :=
  forallb (fun p => match check_pair ops outs (fst p) (snd p) with
                    | Some (_, []) | None => true
                    | Some _ => false
                    end) (dump_pairs ds).
