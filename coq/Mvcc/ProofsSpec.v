(** C01 — the model against the specification.

    [paired]                  : what always relates the model's state and the specification's state along a
                                history (id counters, open sessions, committed triples, triple buffers) —
                                in particular [rdf_refines]: the RDF part of the model refines the
                                specification exactly (buffers are private, commit applies them in order,
                                rollback drops them).
    [read_class_total]        : a read whose canonical output differs from the specification's answer has a
                                finding class (1..6): the classes cover every way a read can deviate.
    [snapshot_outside_K_l]    : a history with no classified position satisfies [snapshot_ok]. *)
From Coq Require Import ZArith List Bool Lia.
Import ListNotations.
From GV Require Import Mvcc.Model Mvcc.Canon Mvcc.Spec Mvcc.Run Mvcc.ProofsVis Mvcc.ProofsInv Mvcc.ProofsThm.
Open Scope Z_scope.

(** ** boolean equalities *)
Lemma list_eqb_eq : forall {A} (eqb : A -> A -> bool), (forall x y, eqb x y = true -> x = y) ->
  forall a b, list_eqb eqb a b = true -> a = b.
Proof.
  intros A eqb H a. induction a as [|x r IH]; intros [|y s] E; cbn in E; try discriminate; [reflexivity|].
  apply andb_true_iff in E. destruct E as [E1 E2]. f_equal; [apply H; exact E1|apply IH; exact E2].
Qed.
Lemma list_eqb_refl : forall {A} (eqb : A -> A -> bool), (forall x, eqb x x = true) -> forall a, list_eqb eqb a a = true.
Proof. intros A eqb H a. induction a as [|x r IH]; cbn; [reflexivity|]. rewrite H, IH. reflexivity. Qed.
Lemma val_eqb_eq : forall a b, val_eqb a b = true -> a = b.
Proof. intros [x|] [y|] H; cbn in H; try discriminate; [apply Z.eqb_eq in H; congruence|reflexivity]. Qed.
Lemma val_eqb_refl : forall a, val_eqb a a = true.
Proof. intros [x|]; cbn; [apply Z.eqb_refl|reflexivity]. Qed.
Lemma eqbkv_eq : forall a b, eqbkv a b = true -> a = b.
Proof.
  intros [k v] [k' v'] H. unfold eqbkv in H. cbn in H. apply andb_true_iff in H. destruct H as [H1 H2].
  apply Z.eqb_eq in H1. apply val_eqb_eq in H2. congruence.
Qed.
Lemma eqbkv_refl : forall a, eqbkv a a = true.
Proof. intros [k v]. unfold eqbkv. cbn. rewrite Z.eqb_refl, val_eqb_refl. reflexivity. Qed.
Lemma eqb2_refl : forall a, eqb2 a a = true.
Proof. intros [x y]. unfold eqb2. cbn. rewrite !Z.eqb_refl. reflexivity. Qed.
Lemma eqb3_refl : forall a, eqb3 a a = true.
Proof. intros [[x y] z]. unfold eqb3, triple_eqb. rewrite !Z.eqb_refl. reflexivity. Qed.
Lemma eqb3_eq : forall a b, eqb3 a b = true -> a = b.
Proof.
  intros [[x y] z] [[x' y'] z'] H. unfold eqb3, triple_eqb in H.
  apply andb_true_iff in H. destruct H as [H H3]. apply andb_true_iff in H. destruct H as [H1 H2].
  apply Z.eqb_eq in H1, H2, H3. congruence.
Qed.
Lemma opt_eqb_eq : forall {A} (eqb : A -> A -> bool), (forall x y, eqb x y = true -> x = y) ->
  forall a b, opt_eqb eqb a b = true -> a = b.
Proof. intros A eqb H [x|] [y|] E; cbn in E; try discriminate; [f_equal; apply H; exact E|reflexivity]. Qed.
Lemma opt_eqb_refl : forall {A} (eqb : A -> A -> bool), (forall x, eqb x x = true) -> forall a, opt_eqb eqb a a = true.
Proof. intros A eqb H [x|]; cbn; [apply H|reflexivity]. Qed.

Lemma out_eqb_refl : forall x, out_eqb x x = true.
Proof.
  intros x. destruct x; cbn; try reflexivity.
  - destruct b; reflexivity.
  - apply Z.eqb_refl.
  - apply list_eqb_refl. apply Z.eqb_refl.
  - apply Z.eqb_refl.
  - apply list_eqb_refl. apply eqbkv_refl.
  - apply list_eqb_refl. apply eqb3_refl.
  - apply opt_eqb_refl. intros [ls ps]. unfold node_eqb. cbn.
    rewrite (list_eqb_refl Z.eqb Z.eqb_refl), (list_eqb_refl eqbkv eqbkv_refl). reflexivity.
  - apply opt_eqb_refl. apply eqb3_refl.
  - apply opt_eqb_refl. apply val_eqb_refl.
  - apply list_eqb_refl. apply eqb2_refl.
  - rewrite !Z.eqb_refl. reflexivity.
  - apply list_eqb_refl. apply eqb3_refl.
  - rewrite !Z.eqb_refl. reflexivity.
Qed.

(** ** sorting a list that is sorted already *)
Section KSorted.
  Context {A : Type} (key : A -> Z).
  Definition kleb (a b : A) : bool := key a <=? key b.
  Fixpoint ksorted (l : list A) : Prop :=
    match l with [] => True | x :: r => (forall y, In y r -> key x <= key y) /\ ksorted r end.
  Lemma insert_sorted_head : forall x r, (forall y, In y r -> key x <= key y) -> insert_sorted kleb x r = x :: r.
  Proof.
    intros x [|y r] H; cbn; [reflexivity|]. unfold kleb.
    destruct (Z.leb_spec (key x) (key y)); [reflexivity|]. specialize (H y (or_introl eq_refl)). lia.
  Qed.
  Lemma isort_ksorted : forall l, ksorted l -> isort kleb l = l.
  Proof.
    induction l as [|x r IH]; intros H; [reflexivity|]. cbn [isort fold_right].
    destruct H as [H1 H2]. fold (isort kleb r). rewrite (IH H2). apply insert_sorted_head. exact H1.
  Qed.
  Lemma ksorted_filter : forall f l, ksorted l -> ksorted (filter f l).
  Proof.
    intros f l. induction l as [|x r IH]; intros H; [exact I|]. destruct H as [H1 H2]. cbn [filter].
    destruct (f x).
    - split; [|apply IH; exact H2]. intros y Hy. apply filter_In in Hy. apply H1. tauto.
    - apply IH. exact H2.
  Qed.
End KSorted.

Lemma ksorted_seq : forall k a, ksorted (fun x : Z => x) (map Z.of_nat (seq a k)).
Proof.
  induction k as [|k IH]; intros a; [exact I|]. cbn [seq map ksorted]. split; [|apply IH].
  intros y Hy. apply in_map_iff in Hy. destruct Hy as [j [<- Hj]]. apply in_seq in Hj. lia.
Qed.
Lemma ksorted_range : forall n, ksorted (fun x : Z => x) (range n).
Proof. intros. apply ksorted_seq. Qed.
Lemma isort_ids : forall f n, isort Z.leb (filter f (range n)) = filter f (range n).
Proof.
  intros. change Z.leb with (kleb (fun x : Z => x)). apply isort_ksorted. apply ksorted_filter. apply ksorted_range.
Qed.
Lemma ksorted_map_fst : forall (g : Z -> val) l, ksorted (fun x : Z => x) l ->
  ksorted (fun p : Z * val => fst p) (map (fun n => (n, g n)) l).
Proof.
  intros g l. induction l as [|x r IH]; intros H; [exact I|]. destruct H as [H1 H2]. cbn [map ksorted]. split.
  - intros y Hy. apply in_map_iff in Hy. destruct Hy as [n [<- Hn]]. cbn. apply H1. exact Hn.
  - apply IH. exact H2.
Qed.
Lemma isort_vals : forall (g : Z -> val) f n,
  isort lebkv (map (fun x => (x, g x)) (filter f (range n))) = map (fun x => (x, g x)) (filter f (range n)).
Proof.
  intros. change lebkv with (kleb (fun p : Z * val => fst p)). apply isort_ksorted.
  apply ksorted_map_fst. apply ksorted_filter. apply ksorted_range.
Qed.

(** ** small list facts *)
Lemma filter_filter : forall {A} (f g : A -> bool) l, filter f (filter g l) = filter (fun x => g x && f x) l.
Proof.
  intros A f g l. induction l as [|x r IH]; [reflexivity|]. cbn [filter].
  destruct (g x); cbn [filter andb]; [destruct (f x)|]; rewrite IH; reflexivity.
Qed.
Lemma filter_ext_in' : forall {A} (f g : A -> bool) l, (forall x, In x l -> f x = g x) -> filter f l = filter g l.
Proof.
  intros A f g l. induction l as [|x r IH]; intros H; [reflexivity|]. cbn [filter].
  rewrite (H x (or_introl eq_refl)). rewrite IH; [reflexivity|]. intros y Hy. apply H. right. exact Hy.
Qed.
Lemma first_class_zero : forall f l, first_class f l = 0 -> forall x, In x l -> f x = 0.
Proof.
  intros f l. induction l as [|y r IH]; intros H x Hx; [contradiction|]. cbn [first_class] in H.
  destruct (Z.eqb_spec (f y) 0) as [E|E].
  - destruct Hx as [<-|Hx]; [exact E|apply IH; assumption].
  - contradiction.
Qed.
Lemma bool_eqb_eq : forall a b, Bool.eqb a b = true -> a = b.
Proof. intros [] []; cbn; congruence. Qed.

(** ** the pairing of model state and specification state along a history *)
Definition pend_of (ws : list wop) : list pend :=
  flat_map (fun w => match w with WInsT t => [PIns t] | WDelT t => [PDel t] | _ => [] end) ws.

Record paired (st : state) (sp : sstate) : Prop := mkPaired {
  pa_nb : s_nb sp = n_next st;
  pa_eb : s_eb sp = e_next st;
  pa_sess : forall s, sess st s = None <-> s_view sp s = None;
  pa_rdf : d_trip (s_comm sp) = rdf st;
  pa_buf : forall s t, sess st s = Some t -> exists d log, s_view sp s = Some (d, log) /\ pend_of log = rdf_buf st t
}.

Lemma paired_init : paired init sinit.
Proof. constructor; cbn; try reflexivity; intros; try tauto; discriminate. Qed.

Lemma pend_of_app : forall a b, pend_of (a ++ b) = pend_of a ++ pend_of b.
Proof. intros. unfold pend_of. apply flat_map_app. Qed.

Lemma d_trip_apply_ws : forall ws d, d_trip (apply_ws d ws) = fold_left apply_pend (pend_of ws) (d_trip d).
Proof.
  induction ws as [|w r IH]; intros d; [reflexivity|]. unfold apply_ws in *. cbn [fold_left].
  rewrite IH. destruct w; cbn [pend_of flat_map app fold_left apply_pend]; try reflexivity;
    cbn [apply_w]; try (destruct (d_node d id) as [[ls ps]|]; reflexivity).
Qed.

(** the resolved writes of an operation that is not a triple operation contain no triple write *)
Definition triple_op (o : op) : bool := match o with InsertTriple _ _ | DeleteTriple _ _ => true | _ => false end.
Lemma resolve_no_triples : forall d o x, triple_op o = false -> pend_of (resolve d o x) = [].
Proof.
  intros d o x H. destruct o; try discriminate; cbn [resolve]; try reflexivity;
    repeat match goal with
           | |- context [match ?x with _ => _ end] => destruct x; try reflexivity
           end.
Qed.

(** what a step does to the fields the pairing talks about *)
Definition lpg_op (o : op) : bool :=
  match o with
  | Begin _ | Commit _ | Rollback _ | DropSession _ | InsertTriple _ _ | DeleteTriple _ _ | Read _ _ => false
  | _ => true
  end.

Lemma step_lpg_frame : forall st o, lpg_op o = true ->
  sess (fst (step st o)) = sess st /\ rdf (fst (step st o)) = rdf st /\ rdf_buf (fst (step st o)) = rdf_buf st.
Proof.
  intros st o H.
  assert (Hn : rdf_neutral o = true) by (destruct o; try discriminate; reflexivity).
  destruct (rdf_frame_l st o Hn) as [H1 H2]. split; [|split; assumption].
  destruct o; try discriminate; cbn [step].
  - destruct (ctx st s) as [e0 t0]. unfold create_node_with_props.
    destruct (create_node_versioned st labels e0 t0) as [st1 id] eqn:E. cbn [fst].
    rewrite (p_sess _ _ (fold_pres (fun s kv => set_node_property s id (fst kv) (snd kv))
                                   (fun s kv => pres_set_node_property s id (fst kv) (snd kv)) props st1)).
    unfold create_node_versioned in E. injection E as <- _. reflexivity.
  - destruct (ctx st s) as [e0 t0]. cbn [fst].
    apply (p_sess _ _ (fold_pres (fun st' n => fst (delete_node_at_epoch (if detach then delete_node_edges st' n else st') n e0))
      (fun st' n => match detach as b return pres st' (fst (delete_node_at_epoch (if b then delete_node_edges st' n else st') n e0)) with
                    | true => pres_trans _ _ _ (pres_delete_node_edges st' n) (pres_delete_node_at_epoch _ n e0)
                    | false => pres_delete_node_at_epoch st' n e0
                    end) (matched st m id e0 t0) st)).
  - destruct (ctx st s) as [e0 t0]. reflexivity.
  - destruct (ctx st s) as [e0 t0]. destruct (matched st ma src e0 t0); [reflexivity|].
    destruct (matched st mb dst e0 t0); reflexivity.
  - pose proof (pres_delete_edge_at_epoch st e (st_epoch st)) as H0.
    destruct (delete_edge_at_epoch st e (st_epoch st)) as [st1 b]. exact (p_sess _ _ H0).
  - destruct (ctx st s) as [e0 t0]. cbn [fst].
    apply (p_sess _ _ (fold_pres (fun st' n => set_node_property st' n k v) (fun st' n => pres_set_node_property st' n k v) _ st)).
  - destruct (ctx st s) as [e0 t0]. cbn [fst].
    apply (p_sess _ _ (fold_pres (fun st' n => set_node_property st' n k None) (fun st' n => pres_set_node_property st' n k None) _ st)).
  - destruct (ctx st s) as [e0 t0]. cbn [fst].
    apply (p_sess _ _ (fold_pres (fun st' n => fst (add_label st' n l)) (fun st' n => pres_add_label st' n l) _ st)).
  - destruct (ctx st s) as [e0 t0]. cbn [fst].
    apply (p_sess _ _ (fold_pres (fun st' n => fst (remove_label st' n l)) (fun st' n => pres_remove_label st' n l) _ st)).
  - exact (p_sess _ _ (pres_db_delete_node st n)).
  - reflexivity.
  - pose proof (pres_remove_node_property st n k) as H0.
    destruct (remove_node_property st n k) as [st1 b]. exact (p_sess _ _ H0).
  - pose proof (pres_add_label st n l) as H0. destruct (add_label st n l) as [st1 b]. exact (p_sess _ _ H0).
  - pose proof (pres_remove_label st n l) as H0. destruct (remove_label st n l) as [st1 b]. exact (p_sess _ _ H0).
Qed.

(** id counters: the model's counters after a step, and the ids in the (canonical) output *)
Lemma step_counters : forall st o,
  let st' := fst (step st o) in let x := canon (snd (step st o)) in
  n_next st' = match o with CreateNode _ _ _ => bump (n_next st) x | _ => n_next st end
  /\ e_next st' = match o with CreateEdge _ _ _ _ | CreateEdgeQ _ _ _ _ _ _ => bump (e_next st) x | _ => e_next st end.
Proof.
  intros st o. destruct o; cbn [step]; cbn zeta.
  - destruct (sess st s); [split; reflexivity|]. cbn. split; reflexivity.
  - destruct (sess st s) as [t|]; [|split; reflexivity]. unfold tm_commit. cbn.
    destruct (tm_state st t) as [[]|]; split; reflexivity.
  - destruct (sess st s) as [t|]; [|split; reflexivity]. unfold tm_abort. cbn.
    destruct (tm_state st t) as [[]|]; split; reflexivity.
  - destruct (sess st s) as [t|]; [|split; reflexivity]. unfold tm_abort. cbn.
    destruct (tm_state st t) as [[]|]; split; reflexivity.
  - destruct (ctx st s) as [e0 t0]. unfold create_node_with_props.
    destruct (create_node_versioned st labels e0 t0) as [st1 id] eqn:E. cbn [fst snd canon bump].
    pose proof (fold_pres (fun s kv => set_node_property s id (fst kv) (snd kv))
                          (fun s kv => pres_set_node_property s id (fst kv) (snd kv)) props st1) as Hp.
    rewrite (p_nn _ _ Hp), (p_en _ _ Hp). unfold create_node_versioned in E. injection E as <- <-. cbn. split; [lia|reflexivity].
  - destruct (ctx st s) as [e0 t0]. cbn [fst].
    pose proof (fold_pres (fun st' n => fst (delete_node_at_epoch (if detach then delete_node_edges st' n else st') n e0))
      (fun st' n => match detach as b return pres st' (fst (delete_node_at_epoch (if b then delete_node_edges st' n else st') n e0)) with
                    | true => pres_trans _ _ _ (pres_delete_node_edges st' n) (pres_delete_node_at_epoch _ n e0)
                    | false => pres_delete_node_at_epoch st' n e0
                    end) (matched st m id e0 t0) st) as Hp.
    split; [exact (p_nn _ _ Hp)|exact (p_en _ _ Hp)].
  - destruct (ctx st s) as [e0 t0]. cbn. split; [reflexivity|lia].
  - destruct (ctx st s) as [e0 t0]. destruct (matched st ma src e0 t0); [split; reflexivity|].
    destruct (matched st mb dst e0 t0); [split; reflexivity|]. cbn. split; [reflexivity|lia].
  - pose proof (pres_delete_edge_at_epoch st e (st_epoch st)) as Hp.
    destruct (delete_edge_at_epoch st e (st_epoch st)) as [st1 b]. cbn [fst] in *. split; [exact (p_nn _ _ Hp)|exact (p_en _ _ Hp)].
  - destruct (ctx st s) as [e0 t0]. cbn [fst].
    pose proof (fold_pres (fun st' n => set_node_property st' n k v) (fun st' n => pres_set_node_property st' n k v) (matched st m id e0 t0) st) as Hp.
    split; [exact (p_nn _ _ Hp)|exact (p_en _ _ Hp)].
  - destruct (ctx st s) as [e0 t0]. cbn [fst].
    pose proof (fold_pres (fun st' n => set_node_property st' n k None) (fun st' n => pres_set_node_property st' n k None) (matched st m id e0 t0) st) as Hp.
    split; [exact (p_nn _ _ Hp)|exact (p_en _ _ Hp)].
  - destruct (ctx st s) as [e0 t0]. cbn [fst].
    pose proof (fold_pres (fun st' n => fst (add_label st' n l)) (fun st' n => pres_add_label st' n l) (matched st m id e0 t0) st) as Hp.
    split; [exact (p_nn _ _ Hp)|exact (p_en _ _ Hp)].
  - destruct (ctx st s) as [e0 t0]. cbn [fst].
    pose proof (fold_pres (fun st' n => fst (remove_label st' n l)) (fun st' n => pres_remove_label st' n l) (matched st m id e0 t0) st) as Hp.
    split; [exact (p_nn _ _ Hp)|exact (p_en _ _ Hp)].
  - destruct (sess st s); split; reflexivity.
  - destruct (sess st s); split; reflexivity.
  - pose proof (pres_db_delete_node st n) as Hp. split; [exact (p_nn _ _ Hp)|exact (p_en _ _ Hp)].
  - split; reflexivity.
  - split; reflexivity.
  - pose proof (pres_add_label st n l) as Hp. destruct (add_label st n l) as [st1 b]. cbn [fst] in *.
    split; [exact (p_nn _ _ Hp)|exact (p_en _ _ Hp)].
  - pose proof (pres_remove_label st n l) as Hp. destruct (remove_label st n l) as [st1 b]. cbn [fst] in *.
    split; [exact (p_nn _ _ Hp)|exact (p_en _ _ Hp)].
  - split; reflexivity.
Qed.

Lemma spec_step_counters : forall sp o x,
  s_nb (spec_step sp o x) = match o with CreateNode _ _ _ => bump (s_nb sp) x | _ => s_nb sp end
  /\ s_eb (spec_step sp o x) = match o with CreateEdge _ _ _ _ | CreateEdgeQ _ _ _ _ _ _ => bump (s_eb sp) x | _ => s_eb sp end.
Proof.
  intros sp o x. destruct o; cbn [spec_step op_session];
    repeat match goal with
           | |- context [match s_view ?sp ?s with _ => _ end] => destruct (s_view sp s) as [[? ?]|]
           end; cbn; split; reflexivity.
Qed.

(** the committed triples and the views after a specification step of an LPG operation *)
Lemma spec_step_lpg : forall sp o x, lpg_op o = true ->
  d_trip (s_comm (spec_step sp o x)) = d_trip (s_comm sp)
  /\ (forall s, s_view (spec_step sp o x) s = None <-> s_view sp s = None)
  /\ (forall s d log, s_view sp s = Some (d, log) ->
        exists d' log', s_view (spec_step sp o x) s = Some (d', log') /\ pend_of log' = pend_of log).
Proof.
  intros sp o x H.
  assert (Ht : triple_op o = false) by (destruct o; try discriminate; reflexivity).
  assert (G : forall s0 : option Z,
    let sp' := match s0 with
               | Some s =>
                   match s_view sp s with
                   | Some (d, log) =>
                       let ws := resolve d o x in
                       mkS (s_comm sp) (upd (s_view sp) s (Some (apply_ws d ws, log ++ ws)))
                           (match o with CreateNode _ _ _ => bump (s_nb sp) x | _ => s_nb sp end)
                           (match o with CreateEdge _ _ _ _ | CreateEdgeQ _ _ _ _ _ _ => bump (s_eb sp) x | _ => s_eb sp end)
                   | None => mkS (apply_ws (s_comm sp) (resolve (s_comm sp) o x)) (s_view sp)
                           (match o with CreateNode _ _ _ => bump (s_nb sp) x | _ => s_nb sp end)
                           (match o with CreateEdge _ _ _ _ | CreateEdgeQ _ _ _ _ _ _ => bump (s_eb sp) x | _ => s_eb sp end)
                   end
               | None => mkS (apply_ws (s_comm sp) (resolve (s_comm sp) o x)) (s_view sp)
                           (match o with CreateNode _ _ _ => bump (s_nb sp) x | _ => s_nb sp end)
                           (match o with CreateEdge _ _ _ _ | CreateEdgeQ _ _ _ _ _ _ => bump (s_eb sp) x | _ => s_eb sp end)
               end in
    d_trip (s_comm sp') = d_trip (s_comm sp)
    /\ (forall s, s_view sp' s = None <-> s_view sp s = None)
    /\ (forall s d log, s_view sp s = Some (d, log) ->
          exists d' log', s_view sp' s = Some (d', log') /\ pend_of log' = pend_of log)).
  { intros [s|]; cbn zeta.
    - destruct (s_view sp s) as [[d log]|] eqn:Hv; cbn.
      + split; [reflexivity|]. split.
        * intros s1. unfold upd. destruct (Z.eqb_spec s1 s); [subst; rewrite Hv; split; discriminate|tauto].
        * intros s1 d1 log1 H1. unfold upd. destruct (Z.eqb_spec s1 s).
          -- subst. rewrite Hv in H1. injection H1 as <- <-. eexists. eexists. split; [reflexivity|].
             rewrite pend_of_app, (resolve_no_triples _ _ _ Ht), app_nil_r. reflexivity.
          -- eexists. eexists. split; [exact H1|reflexivity].
      + split.
        * rewrite d_trip_apply_ws, (resolve_no_triples _ _ _ Ht). reflexivity.
        * split; [tauto|]. intros s1 d1 log1 H1. eexists. eexists. split; [exact H1|reflexivity].
    - cbn. split.
      + rewrite d_trip_apply_ws, (resolve_no_triples _ _ _ Ht). reflexivity.
      + split; [tauto|]. intros s1 d1 log1 H1. eexists. eexists. split; [exact H1|reflexivity]. }
  destruct o; try discriminate; cbn [spec_step]; apply (G (op_session _)).
Qed.

Ltac hp Hp :=
  first [ exact (pa_nb _ _ Hp) | exact (pa_eb _ _ Hp) | exact (pa_rdf _ _ Hp)
        | apply (pa_sess _ _ Hp) | apply (pa_buf _ _ Hp) ].

Lemma paired_step : forall st sp o, inv st -> paired st sp ->
  paired (fst (step st o)) (spec_step sp o (canon (snd (step st o)))).
Proof.
  intros st sp o Hi Hp.
  destruct (step_counters st o) as [Cn Ce]. cbn zeta in Cn, Ce.
  destruct (spec_step_counters sp o (canon (snd (step st o)))) as [Sn Se].
  assert (Hnb : s_nb (spec_step sp o (canon (snd (step st o)))) = n_next (fst (step st o))).
  { rewrite Sn, Cn, (pa_nb _ _ Hp). reflexivity. }
  assert (Heb : s_eb (spec_step sp o (canon (snd (step st o)))) = e_next (fst (step st o))).
  { rewrite Se, Ce, (pa_eb _ _ Hp). reflexivity. }
  destruct (lpg_op o) eqn:Hl.
  - (* LPG operations: sessions, triples and buffers untouched on both sides *)
    destruct (step_lpg_frame st o Hl) as [F1 [F2 F3]].
    destruct (spec_step_lpg sp o (canon (snd (step st o))) Hl) as [G1 [G2 G3]].
    constructor; try assumption.
    + intros s. rewrite F1, G2. hp Hp.
    + rewrite G1, F2. hp Hp.
    + intros s t. rewrite F1, F3. intros Hs. destruct (pa_buf _ _ Hp s t Hs) as [d [log [V1 V2]]].
      destruct (G3 s d log V1) as [d' [log' [W1 W2]]]. exists d', log'. split; [exact W1|congruence].
  - destruct o; try discriminate.
    + (* Begin *)
      clear Hnb Heb Cn Ce Sn Se. cbn [step spec_step]. destruct (sess st s) as [t0|] eqn:Hs.
      * destruct (pa_buf _ _ Hp s t0 Hs) as [d [log [V1 V2]]]. rewrite V1. cbn [fst snd canon]. exact Hp.
      * assert (Hv : s_view sp s = None) by (apply (pa_sess _ _ Hp); exact Hs). rewrite Hv. cbn.
        constructor; cbn.
        -- hp Hp.
        -- hp Hp.
        -- intros s0. unfold upd. destruct (Z.eqb_spec s0 s); [split; discriminate|hp Hp].
        -- hp Hp.
        -- intros s0 t. unfold upd. destruct (Z.eqb_spec s0 s).
           ++ intros H. injection H as <-. exists (s_comm sp), []. split; [reflexivity|]. cbn.
              destruct (rdf_buf st (tm_next st)) eqn:E; [reflexivity|].
              assert (Hne : rdf_buf st (tm_next st) <> []) by congruence.
              pose proof (i_buf st Hi _ Hne) as Ha.
              assert (Hd : tm_state st (tm_next st) <> None) by congruence.
              apply (i_dom_state st Hi) in Hd. lia.
           ++ hp Hp.
    + (* Commit *)
      constructor; try assumption; clear Hnb Heb Cn Ce Sn Se; cbn [step spec_step] in *.
      * intros s0. destruct (sess st s) as [t|] eqn:Hs.
        -- destruct (pa_buf _ _ Hp s t Hs) as [d [log [V1 V2]]]. rewrite V1.
           unfold tm_commit. cbn. destruct (tm_state st t) as [[]|]; cbn; unfold upd;
             (destruct (Z.eqb_spec s0 s); [tauto|hp Hp]).
        -- assert (Hv : s_view sp s = None) by (apply (pa_sess _ _ Hp); exact Hs). rewrite Hv. hp Hp.
      * destruct (sess st s) as [t|] eqn:Hs.
        -- destruct (pa_buf _ _ Hp s t Hs) as [d [log [V1 V2]]]. rewrite V1.
           assert (E : rdf (fst (step st (Commit s))) = fold_left apply_pend (rdf_buf st t) (rdf st))
             by (apply (rdf_commit_applies_buffer_l st s t Hs)).
           cbn [step] in E. rewrite Hs in E. rewrite E. cbn.
           rewrite d_trip_apply_ws, V2, (pa_rdf _ _ Hp). reflexivity.
        -- assert (Hv : s_view sp s = None) by (apply (pa_sess _ _ Hp); exact Hs). rewrite Hv. hp Hp.
      * intros s0 t0. destruct (sess st s) as [t|] eqn:Hs.
        -- destruct (pa_buf _ _ Hp s t Hs) as [d [log [V1 V2]]]. rewrite V1.
           unfold tm_commit. cbn. destruct (tm_state st t) as [[]|]; cbn; unfold upd;
             (destruct (Z.eqb_spec s0 s); [discriminate|]); intros H0;
             destruct (pa_buf _ _ Hp s0 t0 H0) as [d0 [log0 [W1 W2]]]; exists d0, log0; (split; [exact W1|]);
             (destruct (Z.eqb_spec t0 t); [subst; exfalso; apply n; eapply i_inj; eauto|exact W2]).
        -- assert (Hv : s_view sp s = None) by (apply (pa_sess _ _ Hp); exact Hs). rewrite Hv. hp Hp.
    + (* Rollback *)
      constructor; try assumption; clear Hnb Heb Cn Ce Sn Se; cbn [step spec_step] in *.
      * intros s0. destruct (sess st s) as [t|] eqn:Hs.
        -- unfold tm_abort. cbn. destruct (tm_state st t) as [[]|]; cbn; unfold upd;
             (destruct (Z.eqb_spec s0 s); [tauto|hp Hp]).
        -- cbn. unfold upd. destruct (Z.eqb_spec s0 s); [subst; tauto|hp Hp].
      * destruct (sess st s) as [t|] eqn:Hs; cbn.
        -- unfold tm_abort. cbn. destruct (tm_state st t) as [[]|]; cbn; hp Hp.
        -- hp Hp.
      * intros s0 t0. destruct (sess st s) as [t|] eqn:Hs.
        -- unfold tm_abort. cbn. destruct (tm_state st t) as [[]|]; cbn; unfold upd;
             (destruct (Z.eqb_spec s0 s); [discriminate|]); intros H0;
             destruct (pa_buf _ _ Hp s0 t0 H0) as [d0 [log0 [W1 W2]]]; exists d0, log0; (split; [exact W1|]);
             (destruct (Z.eqb_spec t0 t); [subst; exfalso; apply n; eapply i_inj; eauto|exact W2]).
        -- cbn. unfold upd. intros H0. destruct (Z.eqb_spec s0 s); [subst; congruence|]. apply (pa_buf _ _ Hp). exact H0.
    + (* DropSession: as Rollback *)
      constructor; try assumption; clear Hnb Heb Cn Ce Sn Se; cbn [step spec_step] in *.
      * intros s0. destruct (sess st s) as [t|] eqn:Hs.
        -- unfold tm_abort. cbn. destruct (tm_state st t) as [[]|]; cbn; unfold upd;
             (destruct (Z.eqb_spec s0 s); [tauto|hp Hp]).
        -- cbn. unfold upd. destruct (Z.eqb_spec s0 s); [subst; tauto|hp Hp].
      * destruct (sess st s) as [t|] eqn:Hs; cbn.
        -- unfold tm_abort. cbn. destruct (tm_state st t) as [[]|]; cbn; hp Hp.
        -- hp Hp.
      * intros s0 t0. destruct (sess st s) as [t|] eqn:Hs.
        -- unfold tm_abort. cbn. destruct (tm_state st t) as [[]|]; cbn; unfold upd;
             (destruct (Z.eqb_spec s0 s); [discriminate|]); intros H0;
             destruct (pa_buf _ _ Hp s0 t0 H0) as [d0 [log0 [W1 W2]]]; exists d0, log0; (split; [exact W1|]);
             (destruct (Z.eqb_spec t0 t); [subst; exfalso; apply n; eapply i_inj; eauto|exact W2]).
        -- cbn. unfold upd. intros H0. destruct (Z.eqb_spec s0 s); [subst; congruence|]. apply (pa_buf _ _ Hp). exact H0.
    + (* InsertTriple *)
      rename t into tr. constructor; try assumption; clear Hnb Heb Cn Ce Sn Se; cbn [step spec_step op_session] in *.
      * intros s0. destruct (sess st s) as [t|] eqn:Hs.
        -- destruct (pa_buf _ _ Hp s t Hs) as [d [log [V1 V2]]]. rewrite V1. cbn. unfold upd.
           destruct (Z.eqb_spec s0 s); [subst; rewrite Hs; split; discriminate|hp Hp].
        -- assert (Hv : s_view sp s = None) by (apply (pa_sess _ _ Hp); exact Hs). rewrite Hv. cbn. hp Hp.
      * destruct (sess st s) as [t|] eqn:Hs.
        -- destruct (pa_buf _ _ Hp s t Hs) as [d [log [V1 V2]]]. rewrite V1. cbn. hp Hp.
        -- assert (Hv : s_view sp s = None) by (apply (pa_sess _ _ Hp); exact Hs). rewrite Hv. cbn.
           rewrite (pa_rdf _ _ Hp). reflexivity.
      * intros s0 t0. destruct (sess st s) as [t|] eqn:Hs.
        -- destruct (pa_buf _ _ Hp s t Hs) as [d [log [V1 V2]]]. rewrite V1. cbn. unfold upd. intros H0.
           destruct (Z.eqb_spec s0 s).
           ++ subst. rewrite Hs in H0. injection H0 as <-. eexists. eexists. split; [reflexivity|].
              rewrite Z.eqb_refl, pend_of_app, V2. reflexivity.
           ++ destruct (pa_buf _ _ Hp s0 t0 H0) as [d0 [log0 [W1 W2]]]. exists d0, log0. split; [exact W1|].
              destruct (Z.eqb_spec t0 t); [subst; exfalso; apply n; eapply i_inj; eauto|exact W2].
        -- assert (Hv : s_view sp s = None) by (apply (pa_sess _ _ Hp); exact Hs). rewrite Hv. cbn. hp Hp.
    + (* DeleteTriple *)
      rename t into tr. constructor; try assumption; clear Hnb Heb Cn Ce Sn Se; cbn [step spec_step op_session] in *.
      * intros s0. destruct (sess st s) as [t|] eqn:Hs.
        -- destruct (pa_buf _ _ Hp s t Hs) as [d [log [V1 V2]]]. rewrite V1. cbn. unfold upd.
           destruct (Z.eqb_spec s0 s); [subst; rewrite Hs; split; discriminate|hp Hp].
        -- assert (Hv : s_view sp s = None) by (apply (pa_sess _ _ Hp); exact Hs). rewrite Hv. cbn. hp Hp.
      * destruct (sess st s) as [t|] eqn:Hs.
        -- destruct (pa_buf _ _ Hp s t Hs) as [d [log [V1 V2]]]. rewrite V1. cbn. hp Hp.
        -- assert (Hv : s_view sp s = None) by (apply (pa_sess _ _ Hp); exact Hs). rewrite Hv. cbn.
           rewrite (pa_rdf _ _ Hp). reflexivity.
      * intros s0 t0. destruct (sess st s) as [t|] eqn:Hs.
        -- destruct (pa_buf _ _ Hp s t Hs) as [d [log [V1 V2]]]. rewrite V1. cbn. unfold upd. intros H0.
           destruct (Z.eqb_spec s0 s).
           ++ subst. rewrite Hs in H0. injection H0 as <-. eexists. eexists. split; [reflexivity|].
              rewrite Z.eqb_refl, pend_of_app, V2. reflexivity.
           ++ destruct (pa_buf _ _ Hp s0 t0 H0) as [d0 [log0 [W1 W2]]]. exists d0, log0. split; [exact W1|].
              destruct (Z.eqb_spec t0 t); [subst; exfalso; apply n; eapply i_inj; eauto|exact W2].
        -- assert (Hv : s_view sp s = None) by (apply (pa_sess _ _ Hp); exact Hs). rewrite Hv. cbn. hp Hp.
    + (* Read *)
      constructor; try assumption; cbn [step spec_step fst]; hp Hp.
Qed.

Lemma paired_run : forall ops st sp, inv st -> paired st sp ->
  paired (fst (run_from st ops)) (fold_left (fun sp ox => spec_step sp (fst ox) (snd ox))
                                            (combine ops (map canon (snd (run_from st ops)))) sp).
Proof.
  induction ops as [|o r IH]; intros st sp Hi Hp; [exact Hp|].
  rewrite run_from_cons. cbn [fst snd map combine fold_left].
  apply IH; [apply inv_step; exact Hi|apply paired_step; assumption].
Qed.

(** the committed triples of the model are exactly the specification's, after every history *)
Definition spec_final (ops : list op) : sstate :=
  fold_left (fun sp ox => spec_step sp (fst ox) (snd ox)) (combine ops (mrun ops)) sinit.
Lemma rdf_refines_l : forall ops, rdf (final ops) = d_trip (s_comm (spec_final ops)).
Proof.
  intros ops. symmetry. unfold final, spec_final, mrun, run.
  apply (pa_rdf _ _ (paired_run ops init sinit inv_init paired_init)).
Qed.

(** ** no verdict => snapshot_ok *)
Lemma verdicts_nil : forall ops st sp i outs, verdicts st sp i ops outs = [] -> snapshot_ok_from sp ops outs = true.
Proof.
  induction ops as [|o r IH]; intros st sp i [|x rx] H; try reflexivity.
  cbn [snapshot_ok_from]. cbn [verdicts] in H.
  destruct o;
    try (destruct (mut_class st sp _ =? 0); [cbn [andb]; eapply IH; exact H|discriminate]).
  destruct (out_eqb (spec_expected sp s k) x); [cbn [andb]; eapply IH; exact H|discriminate].
Qed.

(** ** a deviating read has a class *)
Definition c01_kind (k : kind) : bool :=
  match k with StoreLabel _ | StoreProp _ _ | Expand _ _ _ => false | _ => true end.

Lemma scan_class_zero : forall st d e t m n, scan_class st d e t m n = 0 ->
  match m with
  | SelLabel l => memz n (l_index st l) && Mv st e t n = has_label d n l
  | SelAny => Ms st n && Mv st e t n = in_db d n
  end.
Proof.
  intros st d e t m n H. unfold scan_class in H. destruct m as [l|].
  - destruct (memz n (l_index st l) && Mv st e t n) eqn:E1; destruct (has_label d n l) eqn:E2; cbn in H;
      try reflexivity; destruct (in_db d n); destruct (Mv st e t n); discriminate.
  - destruct (Ms st n && Mv st e t n) eqn:E1; destruct (in_db d n) eqn:E2; cbn in H;
      try reflexivity; destruct (Mv st e t n); discriminate.
Qed.

Lemma scan_eq : forall st d e t m,
  first_class (scan_class st d e t m) (range (n_next st)) = 0 ->
  scan st m e t = filter (sp_match d m) (range (n_next st)).
Proof.
  intros st d e t m H. pose proof (first_class_zero _ _ H) as Hz. unfold scan.
  destruct m as [l|].
  - unfold nodes_by_label. rewrite filter_filter. apply filter_ext_in'. intros n Hn.
    apply (scan_class_zero st d e t (SelLabel l) n (Hz n Hn)).
  - unfold node_ids. rewrite filter_filter. apply filter_ext_in'. intros n Hn.
    apply (scan_class_zero st d e t SelAny n (Hz n Hn)).
Qed.

Lemma point_class_zero : forall mv i same, point_class mv i same = 0 -> mv = i /\ (mv = true -> same = true).
Proof. intros [] [] []; cbn; intros H; try discriminate; split; auto; discriminate. Qed.

Lemma read_class_total : forall st sp s k, paired st sp -> c01_kind k = true ->
  classify_read st sp s k = 0 -> out_eqb (spec_expected sp s k) (canon (read st s k)) = true.
Proof.
  intros st sp s k Hp Hk Hc.
  unfold classify_read in Hc. unfold read, spec_expected.
  rewrite (pa_nb _ _ Hp), (pa_eb _ _ Hp), !Z.max_id in Hc. rewrite (pa_nb _ _ Hp), (pa_eb _ _ Hp).
  destruct (ctx st s) as [e t] eqn:Hctx.
  destruct k; try discriminate; cbn [sp_read canon].
  - (* LabelScan *)
    rewrite (scan_eq _ _ _ _ _ Hc). cbn [sp_match]. unfold label_ids_of. rewrite isort_ids. apply out_eqb_refl.
  - (* AllScan *)
    rewrite (scan_eq _ _ _ _ _ Hc). cbn [sp_match]. unfold node_ids_of. rewrite isort_ids. apply out_eqb_refl.
  - (* CountAll *)
    rewrite (scan_eq _ _ _ _ _ Hc). cbn [sp_match]. unfold node_ids_of. apply out_eqb_refl.
  - (* CountLabel *)
    rewrite (scan_eq _ _ _ _ _ Hc). cbn [sp_match]. unfold label_ids_of. apply out_eqb_refl.
  - (* ProjProp *)
    destruct (first_class (scan_class st (view_of sp s) e t (SelLabel l)) (range (n_next st)) =? 0) eqn:E1;
      cbn [negb] in Hc; [|apply Z.eqb_neq in E1; contradiction].
    apply Z.eqb_eq in E1. rewrite (scan_eq _ _ _ _ _ E1). unfold label_ids_of.
    change (sp_match (view_of sp s) (SelLabel l)) with (fun n => has_label (view_of sp s) n l).
    pose proof (first_class_zero _ _ Hc) as Hz.
    assert (Hm : map (fun n => (n, match get_node st n with
                                   | Some (_, ps) => match pget k ps with Some v => v | None => None end
                                   | None => None
                                   end)) (filter (fun n => has_label (view_of sp s) n l) (range (n_next st)))
                 = map (fun n => (n, flat (pget k (props_of (view_of sp s) n))))
                       (filter (fun n => has_label (view_of sp s) n l) (range (n_next st)))).
    { apply map_ext_in. intros n Hn. apply filter_In in Hn. destruct Hn as [Hr Hl]. f_equal.
      specialize (Hz n Hr). cbn beta in Hz. rewrite Hl in Hz. unfold get_node. unfold Ms in Hz.
      destruct (c_visible_at (n_chain st n) (st_epoch st)).
      - destruct (val_eqb (flat (pget k (n_props st n))) (flat (pget k (props_of (view_of sp s) n)))) eqn:Ev; [|discriminate].
        apply val_eqb_eq in Ev. exact Ev.
      - destruct (val_eqb None (flat (pget k (props_of (view_of sp s) n)))) eqn:Ev; [|discriminate].
        apply val_eqb_eq in Ev. exact Ev. }
    rewrite Hm, isort_vals. apply out_eqb_refl.
  - (* GetNode *)
    apply point_class_zero in Hc. destruct Hc as [H1 H2]. unfold get_node_versioned. unfold Mv in H1, H2.
    destruct (c_visible_to (n_chain st n) e t).
    + specialize (H2 eq_refl). apply andb_true_iff in H2. destruct H2 as [HL HP].
      unfold in_db in H1. unfold labels_agree, labels_of in HL. unfold props_agree, props_of in HP.
      destruct (d_node (view_of sp s) n) as [[ls ps]|]; [|discriminate].
      apply (list_eqb_eq Z.eqb) in HL; [|intros x y; apply Z.eqb_eq]. apply (list_eqb_eq eqbkv eqbkv_eq) in HP.
      cbn [canon option_map canon_node fst snd]. rewrite HL, HP. apply out_eqb_refl.
    + unfold in_db in H1. destruct (d_node (view_of sp s) n); [discriminate|]. reflexivity.
  - (* GetEdge *)
    apply point_class_zero in Hc. destruct Hc as [H1 H2]. unfold get_edge_versioned. unfold MEv in H1, H2.
    destruct (c_visible_to (e_chain st e0) e t).
    + specialize (H2 eq_refl). apply (opt_eqb_eq eqb3 eqb3_eq) in H2. rewrite <- H2. apply out_eqb_refl.
    + unfold in_dbe in H1. destruct (d_edge (view_of sp s) e0); [discriminate|]. reflexivity.
  - (* GetProp *)
    apply point_class_zero in Hc. destruct Hc as [H1 H2]. unfold get_node_versioned. unfold Mv in H1, H2.
    destruct (c_visible_to (n_chain st n) e t).
    + specialize (H2 eq_refl). apply (opt_eqb_eq val_eqb val_eqb_eq) in H2.
      unfold in_db in H1. unfold props_of in H2.
      destruct (d_node (view_of sp s) n) as [[ls ps]|]; [|discriminate]. rewrite H2. apply out_eqb_refl.
    + unfold in_db in H1. destruct (d_node (view_of sp s) n); [discriminate|]. reflexivity.
  - (* TripleQ *)
    destruct (sess st s) as [tx|] eqn:Hs; [discriminate|].
    assert (Hv : s_view sp s = None) by (apply (pa_sess _ _ Hp); exact Hs).
    unfold view_of. rewrite Hv, (pa_rdf _ _ Hp). apply out_eqb_refl.
  - (* TripleApi *)
    destruct (sess st s) as [tx|] eqn:Hs; [discriminate|].
    assert (Hv : s_view sp s = None) by (apply (pa_sess _ _ Hp); exact Hs).
    unfold view_of. rewrite Hv, (pa_rdf _ _ Hp). cbn [find_with_pending]. apply out_eqb_refl.
  - (* DbCounts *)
    match type of Hc with
    | (if negb (?c =? 0) then _ else _) = 0 => destruct (c =? 0) eqn:E1; cbn [negb] in Hc; [|apply Z.eqb_neq in E1; contradiction]
    end.
    apply Z.eqb_eq in E1. pose proof (first_class_zero _ _ E1) as Hn. pose proof (first_class_zero _ _ Hc) as He.
    unfold node_count, node_ids, edge_count, node_ids_of.
    assert (F1 : filter (fun n => c_visible_at (n_chain st n) (st_epoch st)) (range (n_next st))
                 = filter (in_db (s_comm sp)) (range (n_next st))).
    { apply filter_ext_in'. intros n Hr. specialize (Hn n Hr). cbn beta zeta in Hn. unfold Ms in Hn.
      destruct (c_visible_at (n_chain st n) (st_epoch st)); destruct (in_db (s_comm sp) n); cbn in Hn;
        try reflexivity; destruct (Mv st (tm_epoch st) SYSTEM n); discriminate. }
    assert (F2 : filter (fun x => c_visible_at (e_chain st x) (st_epoch st)) (range (e_next st))
                 = filter (fun x => match d_edge (s_comm sp) x with Some _ => true | None => false end) (range (e_next st))).
    { apply filter_ext_in'. intros x Hr. specialize (He x Hr). cbn beta zeta in He. unfold MEs, in_dbe in He.
      destruct (c_visible_at (e_chain st x) (st_epoch st)); destruct (d_edge (s_comm sp) x); cbn in He;
        try reflexivity; destruct (MEv st (tm_epoch st) SYSTEM x); discriminate. }
    rewrite F1, F2. apply out_eqb_refl.
  - (* FreshLabelScan *)
    rewrite (scan_eq _ _ _ _ _ Hc). cbn [sp_match]. unfold label_ids_of. rewrite isort_ids. apply out_eqb_refl.
Qed.

(** ** every class is a number in 0..6 *)
Definition okc (c : Z) : Prop := 0 <= c <= 6.
Lemma first_class_okc : forall f l, (forall x, okc (f x)) -> okc (first_class f l).
Proof.
  intros f l H. induction l as [|x r IH]; cbn [first_class]; [unfold okc; lia|].
  destruct (f x =? 0); [exact IH|apply H].
Qed.
Lemma scan_class_okc : forall st d e t m n, okc (scan_class st d e t m n).
Proof.
  intros. unfold scan_class, okc. destruct m;
    repeat match goal with |- context [if ?b then _ else _] => destruct b end; lia.
Qed.
Lemma point_class_okc : forall a b c, okc (point_class a b c).
Proof. intros [] [] []; cbn; unfold okc; lia. Qed.
Lemma slot_class_okc : forall st d e t ty o a x, okc (slot_class st d e t ty o a x).
Proof.
  intros. unfold slot_class, okc. destruct (list_eqb eqb3 _ _); [lia|].
  destruct (m_slot st e t ty o a x) as [|[[? ?] b] ?].
  - destruct (e_rec st x) as [[s0 t0] y0].
    repeat match goal with |- context [if ?b then _ else _] => destruct b end; lia.
  - destruct (d_edge d x); [destruct (in_db d b)|]; lia.
Qed.
Lemma expand_class_okc : forall st d e t m dr ty nb eb, okc (expand_class st d e t m dr ty nb eb).
Proof.
  intros. unfold expand_class. apply first_class_okc. intros a. destruct (sp_match d m a); [|unfold okc; lia].
  apply first_class_okc. intros x. cbn zeta.
  destruct dr.
  - pose proof (slot_class_okc st d e t ty true a x) as H. destruct (negb (slot_class st d e t ty true a x =? 0)); [exact H|unfold okc; lia].
  - cbn. apply slot_class_okc.
  - pose proof (slot_class_okc st d e t ty true a x) as H. destruct (negb (slot_class st d e t ty true a x =? 0)); [exact H|apply slot_class_okc].
Qed.

Lemma classify_read_okc : forall st sp s k, okc (classify_read st sp s k).
Proof.
  intros st sp s k. unfold classify_read. destruct (ctx st s) as [e t].
  destruct k; try (unfold okc; lia); try (apply first_class_okc; intros; apply scan_class_okc); try apply point_class_okc.
  - (* ProjProp *)
    match goal with |- okc (if negb (?c =? 0) then _ else _) => assert (Hc : okc c) by (apply first_class_okc; intros; apply scan_class_okc); destruct (negb (c =? 0)); [exact Hc|] end.
    apply first_class_okc. intros n. unfold okc.
    repeat match goal with |- context [if ?b then _ else _] => destruct b end; lia.
  - (* Expand *)
    match goal with |- okc (if negb (?c =? 0) then _ else _) => assert (Hc : okc c) by (apply first_class_okc; intros; apply scan_class_okc); destruct (negb (c =? 0)); [exact Hc|] end.
    apply expand_class_okc.
  - (* TripleQ *) destruct (sess st s); unfold okc; lia.
  - (* TripleApi *) destruct (sess st s); unfold okc; lia.
  - (* DbCounts *)
    match goal with |- okc (if negb (?c =? 0) then _ else _) =>
      assert (Hc : okc c); [|destruct (negb (c =? 0)); [exact Hc|]] end.
    + apply first_class_okc. intros n. unfold okc.
      repeat match goal with |- context [if ?b then _ else _] => destruct b end; lia.
    + apply first_class_okc. intros n. unfold okc.
      repeat match goal with |- context [if ?b then _ else _] => destruct b end; lia.
Qed.

Lemma mut_class_okc : forall st sp o, okc (mut_class st sp o).
Proof.
  intros st sp o. unfold mut_class.
  assert (Hdb : forall n, okc (let cm := Ms st n in let ci := in_db (s_comm sp) n in let sys := Mv st (tm_epoch st) SYSTEM n in
                               if Bool.eqb cm ci then 0 else if cm then (if sys then 1 else 4) else (if sys then 4 else 3))).
  { intros n. cbn zeta. unfold okc. repeat match goal with |- context [if ?b then _ else _] => destruct b end; lia. }
  assert (Hdet : forall d id eb, okc (detach_class st d id eb)).
  { intros d id eb. unfold detach_class. apply first_class_okc. intros x. unfold okc. destruct (d_edge d x) as [[[a b] ty]|];
      repeat match goal with |- context [if ?b then _ else _] => destruct b end; lia. }
  destruct o; try (unfold okc; lia).
  - (* DeleteNode *)
    destruct (ctx st s) as [e t].
    match goal with |- okc (if negb (?c =? 0) then _ else _) => assert (Hc : okc c) by apply scan_class_okc; destruct (negb (c =? 0)); [exact Hc|] end.
    destruct (detach && sp_match (view_of sp s) m id); [|unfold okc; lia]. apply Hdet.
  - (* CreateEdgeQ *)
    destruct (ctx st s) as [e t].
    match goal with |- okc (if negb (?c =? 0) then _ else _) => assert (Hc : okc c) by apply scan_class_okc; destruct (negb (c =? 0)); [exact Hc|apply scan_class_okc] end.
  - (* DeleteEdge *)
    unfold okc. repeat match goal with |- context [if ?b then _ else _] => destruct b end; lia.
  - destruct (ctx st s) as [e t]. apply scan_class_okc.
  - destruct (ctx st s) as [e t]. apply scan_class_okc.
  - (* AddLabel *)
    destruct (ctx st s) as [e t].
    match goal with |- okc (if negb (?c =? 0) then _ else _) => assert (Hc : okc c) by apply scan_class_okc; destruct (negb (c =? 0)); [exact Hc|] end.
    unfold okc. repeat match goal with |- context [if ?b then _ else _] => destruct b end; lia.
  - (* RemoveLabel *)
    destruct (ctx st s) as [e t].
    match goal with |- okc (if negb (?c =? 0) then _ else _) => assert (Hc : okc c) by apply scan_class_okc; destruct (negb (c =? 0)); [exact Hc|] end.
    unfold okc. repeat match goal with |- context [if ?b then _ else _] => destruct b end; lia.
  - (* DbDeleteNode *)
    match goal with |- okc (if negb (?c =? 0) then _ else _) => assert (Hc : okc c) by apply Hdb; destruct (negb (c =? 0)); [exact Hc|] end.
    destruct (in_db (s_comm sp) n); [apply Hdet|unfold okc; lia].
  - (* DbAddLabel *)
    match goal with |- okc (if negb (?c =? 0) then _ else _) => assert (Hc : okc c) by apply Hdb; destruct (negb (c =? 0)); [exact Hc|] end.
    unfold okc. repeat match goal with |- context [if ?b then _ else _] => destruct b end; lia.
  - (* DbRemoveLabel *)
    match goal with |- okc (if negb (?c =? 0) then _ else _) => assert (Hc : okc c) by apply Hdb; destruct (negb (c =? 0)); [exact Hc|] end.
    unfold okc. repeat match goal with |- context [if ?b then _ else _] => destruct b end; lia.
Qed.

