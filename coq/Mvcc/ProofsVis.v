(** C01 — the version-visibility characterisation ([vis_char_*]): what each read path of the model
    returns, stated in terms of (created_epoch, deleted_epoch, created_by) of the versions and of the
    unversioned side tables.  Everything else rests on these. *)
From Coq Require Import ZArith List Bool Lia.
Import ListNotations.
From GV Require Import Mvcc.Model.
Open Scope Z_scope.

(** ** one version *)
Definition vis_at_prop (v : version) (e : Z) : Prop :=
  v_created v <= e /\ (forall d, v_deleted v = Some d -> e < d).
Definition vis_to_prop (v : version) (e t : Z) : Prop :=
  (v_by v = t /\ v_deleted v = None) \/ (v_by v <> t /\ vis_at_prop v e).

Lemma v_visible_at_iff : forall v e, v_visible_at v e = true <-> vis_at_prop v e.
Proof.
  intros v e. unfold v_visible_at, vis_at_prop.
  destruct (Z.leb_spec (v_created v) e) as [H|H].
  - destruct (v_deleted v) as [d|].
    + rewrite Z.ltb_lt. split.
      * intros Hd. split; [assumption|]. intros d' Hd'. injection Hd' as <-. assumption.
      * intros [_ Hd]. apply Hd. reflexivity.
    + split; [intros _; split; [assumption|discriminate]|reflexivity].
  - split; [discriminate|]. intros [H' _]. lia.
Qed.

Lemma v_visible_to_iff : forall v e t, v_visible_to v e t = true <-> vis_to_prop v e t.
Proof.
  intros v e t. unfold v_visible_to, vis_to_prop.
  destruct (Z.eqb_spec (v_by v) t) as [H|H].
  - destruct (v_deleted v) as [d|]; split; intros H0.
    + discriminate.
    + destruct H0 as [[_ H0]|[H0 _]]; [discriminate|contradiction].
    + left. split; [assumption|reflexivity].
    + reflexivity.
  - rewrite v_visible_at_iff. split.
    + intros H0. right. split; assumption.
    + intros [[H0 _]|[_ H0]]; [contradiction|assumption].
Qed.

(** ** chains *)
Lemma c_visible_at_iff : forall c e, c_visible_at c e = true <-> exists v, In v c /\ vis_at_prop v e.
Proof.
  intros c e. unfold c_visible_at. rewrite existsb_exists.
  split; intros [v [Hv H]]; exists v; (split; [assumption|]); apply v_visible_at_iff; assumption.
Qed.
Lemma c_visible_to_iff : forall c e t, c_visible_to c e t = true <-> exists v, In v c /\ vis_to_prop v e t.
Proof.
  intros c e t. unfold c_visible_to. rewrite existsb_exists.
  split; intros [v [Hv H]]; exists v; (split; [assumption|]); apply v_visible_to_iff; assumption.
Qed.

(** ** helpers about [range] and [memz] *)
Lemma in_range : forall n x, In x (range n) <-> 0 <= x < n.
Proof.
  intros n x. unfold range. rewrite in_map_iff. split.
  - intros [k [Hk Hin]]. apply in_seq in Hin. lia.
  - intros H. exists (Z.to_nat x). split; [lia|]. apply in_seq. lia.
Qed.
Lemma memz_iff : forall x l, memz x l = true <-> In x l.
Proof.
  intros x l. unfold memz. rewrite existsb_exists. split.
  - intros [y [Hy H]]. apply Z.eqb_eq in H. subst. assumption.
  - intros H. exists x. split; [assumption|apply Z.eqb_refl].
Qed.

(** ** scans *)
(** store-epoch candidates: [node_ids] *)
Lemma node_ids_iff : forall st n,
  In n (node_ids st) <-> 0 <= n < n_next st /\ exists v, In v (n_chain st n) /\ vis_at_prop v (st_epoch st).
Proof.
  intros st n. unfold node_ids. rewrite filter_In, in_range, c_visible_at_iff. tauto.
Qed.
Lemma nodes_by_label_iff : forall st l n,
  In n (nodes_by_label st l) <-> 0 <= n < n_next st /\ In n (l_index st l).
Proof.
  intros st l n. unfold nodes_by_label. rewrite filter_In, in_range, memz_iff. tauto.
Qed.

(** [ScanOperator] with the session's context *)
Lemma scan_iff : forall st m e t n,
  In n (scan st m e t) <->
  0 <= n < n_next st
  /\ (exists v, In v (n_chain st n) /\ vis_to_prop v e t)
  /\ match m with
     | SelLabel l => In n (l_index st l)
     | SelAny => exists v, In v (n_chain st n) /\ vis_at_prop v (st_epoch st)
     end.
Proof.
  intros st m e t n. unfold scan. rewrite filter_In, c_visible_to_iff.
  destruct m as [l|].
  - rewrite nodes_by_label_iff. tauto.
  - rewrite node_ids_iff. tauto.
Qed.

Lemma matched_iff : forall st m id e t n,
  In n (matched st m id e t) <-> n = id /\ In n (scan st m e t).
Proof.
  intros. unfold matched. rewrite filter_In, Z.eqb_eq. split; intros [H1 H2]; split; auto.
Qed.

(** ** point lookups *)
Lemma get_node_versioned_char : forall st n e t,
  get_node_versioned st n e t =
  if c_visible_to (n_chain st n) e t then Some (n_labels st n, n_props st n) else None.
Proof. reflexivity. Qed.
Lemma get_node_versioned_some : forall st n e t,
  (exists x, get_node_versioned st n e t = Some x) <-> exists v, In v (n_chain st n) /\ vis_to_prop v e t.
Proof.
  intros. unfold get_node_versioned. rewrite <- c_visible_to_iff.
  destruct (c_visible_to (n_chain st n) e t); split; intros H; try reflexivity; try discriminate.
  - eexists; reflexivity.
  - destruct H as [x H]; discriminate.
Qed.
Lemma get_edge_versioned_some : forall st x e t,
  (exists r, get_edge_versioned st x e t = Some r) <-> exists v, In v (e_chain st x) /\ vis_to_prop v e t.
Proof.
  intros. unfold get_edge_versioned. rewrite <- c_visible_to_iff.
  destruct (c_visible_to (e_chain st x) e t); split; intros H; try reflexivity; try discriminate.
  - eexists; reflexivity.
  - destruct H as [r H]; discriminate.
Qed.

(** ** adjacency and expand *)
Lemma adj_live_iff : forall l del p, In p (adj_live l del) <-> In p l /\ ~ In (snd p) del.
Proof.
  intros. unfold adj_live. rewrite filter_In, negb_true_iff. split; intros [H1 H2]; split; auto.
  - intros H. apply memz_iff in H. congruence.
  - destruct (memz (snd p) del) eqn:E; [apply memz_iff in E; contradiction|reflexivity].
Qed.

Lemma edges_from_iff : forall st n d p,
  In p (edges_from st n d) <->
  match d with
  | Out => In p (fwd st n) /\ ~ In (snd p) (fwd_del st n)
  | Inc => In p (bwd st n) /\ ~ In (snd p) (bwd_del st n)
  | Both => (In p (fwd st n) /\ ~ In (snd p) (fwd_del st n)) \/ (In p (bwd st n) /\ ~ In (snd p) (bwd_del st n))
  end.
Proof.
  intros st n d p. destruct d; cbn [edges_from]; rewrite ?in_app_iff, ?adj_live_iff; tauto.
Qed.

(** a row (a, x, b) of [ExpandOperator] for source [a]: raw adjacency entry, edge type read at the
    store's own epoch (when a type is asked for), edge and target visible to the reader *)
Lemma expand_row_iff : forall st a d ty e t r,
  In r (expand_row st a d ty e t) <->
  exists b x, r = (a, x, b)
    /\ In (b, x) (edges_from st a d)
    /\ (forall want, ty = Some want ->
          (exists v, In v (e_chain st x) /\ vis_at_prop v (st_epoch st)) /\ snd (e_rec st x) = want)
    /\ (exists v, In v (e_chain st x) /\ vis_to_prop v e t)
    /\ (exists v, In v (n_chain st b) /\ vis_to_prop v e t).
Proof.
  intros st a d ty e t r. unfold expand_row. rewrite in_map_iff. split.
  - intros [[b x] [Hr Hin]]. apply filter_In in Hin. destruct Hin as [Hin Hc].
    cbn [fst snd] in *. apply andb_true_iff in Hc. destruct Hc as [Hc Hb].
    apply andb_true_iff in Hc. destruct Hc as [Hty Hx].
    exists b, x. split; [symmetry; exact Hr|]. split; [exact Hin|].
    split; [|split; apply c_visible_to_iff; assumption].
    intros want Hw. subst ty. unfold edge_type in Hty.
    destruct (c_visible_at (e_chain st x) (st_epoch st)) eqn:E; [|discriminate].
    apply c_visible_at_iff in E. split; [exact E|]. apply Z.eqb_eq in Hty. exact Hty.
  - intros [b [x [Hr [Hin [Hty [Hx Hb]]]]]]. exists (b, x). cbn [fst snd]. split; [symmetry; exact Hr|].
    apply filter_In. split; [exact Hin|]. cbn [fst snd].
    apply c_visible_to_iff in Hx. apply c_visible_to_iff in Hb. rewrite Hx, Hb.
    destruct ty as [want|]; [|reflexivity].
    destruct (Hty want eq_refl) as [Hv Hw]. apply c_visible_at_iff in Hv.
    unfold edge_type. rewrite Hv, Hw, Z.eqb_refl. reflexivity.
Qed.

(** ** the comparison directions of [is_visible_at], as equations *)
Lemma v_visible_at_created : forall c d b e, e < c -> v_visible_at (mkV c d b) e = false.
Proof. intros. unfold v_visible_at. cbn [v_created]. destruct (Z.leb_spec c e); [lia|reflexivity]. Qed.
Lemma v_visible_at_live : forall c b e, c <= e -> v_visible_at (mkV c None b) e = true.
Proof. intros. unfold v_visible_at. cbn [v_created v_deleted]. destruct (Z.leb_spec c e); [reflexivity|lia]. Qed.
Lemma v_visible_at_deleted : forall c d b e, c <= e -> v_visible_at (mkV c (Some d) b) e = (e <? d).
Proof. intros. unfold v_visible_at. cbn [v_created v_deleted]. destruct (Z.leb_spec c e); [reflexivity|lia]. Qed.
