(** C01 / C02 — invariants of the model over all histories, and the theorems that follow from them:
    later_starters_invisible, own_writes_visible, commit_visible_later, rollback_versions,
    tx_state_machine, commit_never_fails, rdf_isolation, rdf_atomic, store_epoch_never_advances. *)
From Coq Require Import ZArith List Bool Lia.
Import ListNotations.
From GV Require Import Mvcc.Model Mvcc.ProofsVis.
Open Scope Z_scope.

(** ** reachable states *)
Inductive reach : state -> Prop :=
| reach_init : reach init
| reach_step : forall st o, reach st -> reach (fst (step st o)).

Lemma run_from_cons : forall st o r,
  run_from st (o :: r) = (fst (run_from (fst (step st o)) r), snd (step st o) :: snd (run_from (fst (step st o)) r)).
Proof.
  intros st o r. cbn [run_from]. destruct (step st o) as [st1 x]. cbn [fst snd].
  destruct (run_from st1 r) as [st2 xs]. reflexivity.
Qed.
Lemma reach_run_from : forall ops st, reach st -> reach (fst (run_from st ops)).
Proof.
  induction ops as [|o r IH]; intros st H; [exact H|].
  rewrite run_from_cons. cbn [fst]. apply IH. apply reach_step. exact H.
Qed.
Lemma reach_final : forall ops, reach (final ops).
Proof. intros ops. unfold final. apply reach_run_from. apply reach_init. Qed.

(** ** the invariant *)
Definition ver_ok (st : state) (v : version) : Prop :=
  (v_by v = SYSTEM /\ 0 <= v_created v <= tm_epoch st)
  \/ (tm_start st (v_by v) = Some (v_created v)
      /\ (tm_state st (v_by v) = Some Active \/ tm_state st (v_by v) = Some Committed)).

Record inv (st : state) : Prop := mkInv {
  i_epoch : 0 <= tm_epoch st;
  i_store : st_epoch st = 0;
  i_next : 2 <= tm_next st;
  i_dom_start : forall t, tm_start st t <> None <-> 2 <= t < tm_next st;
  i_dom_state : forall t, tm_state st t <> None <-> 2 <= t < tm_next st;
  i_start : forall t e, tm_start st t = Some e -> 0 <= e <= tm_epoch st;
  i_sess : forall s t, sess st s = Some t -> tm_state st t = Some Active;
  i_inj : forall s1 s2 t, sess st s1 = Some t -> sess st s2 = Some t -> s1 = s2;
  i_nver : forall n v, In v (n_chain st n) -> ver_ok st v;
  i_ever : forall x v, In v (e_chain st x) -> ver_ok st v;
  i_buf : forall t, rdf_buf st t <> [] -> tm_state st t = Some Active;
  i_nnext : 0 <= n_next st /\ forall n, n_next st <= n -> n_chain st n = [];
  i_enext : 0 <= e_next st /\ forall x, e_next st <= x -> e_chain st x = []
}.

Lemma inv_init : inv init.
Proof.
  constructor; cbn.
  - lia.
  - reflexivity.
  - lia.
  - intros t. split; [intros H; contradiction H; reflexivity|lia].
  - intros t. split; [intros H; contradiction H; reflexivity|lia].
  - intros t e H. discriminate.
  - intros s t H. discriminate.
  - intros s1 s2 t H. discriminate.
  - intros n v H. contradiction.
  - intros n v H. contradiction.
  - intros t H. contradiction H. reflexivity.
  - split; [lia|reflexivity].
  - split; [lia|reflexivity].
Qed.

(** closes a goal that is literally one of the invariant's fields *)
Ltac hi Hi :=
  first [ exact (i_epoch _ Hi) | exact (i_store _ Hi) | exact (i_next _ Hi) | exact (i_dom_start _ Hi)
        | exact (i_dom_state _ Hi) | exact (i_start _ Hi) | exact (i_sess _ Hi) | exact (i_inj _ Hi)
        | exact (i_nver _ Hi) | exact (i_ever _ Hi) | exact (i_buf _ Hi) | exact (i_nnext _ Hi) | exact (i_enext _ Hi) ].

(** the reader's context *)
Lemma ctx_cases : forall st s e t, inv st -> ctx st s = (e, t) ->
  (sess st s = None /\ t = SYSTEM /\ e = tm_epoch st)
  \/ (sess st s = Some t /\ tm_start st t = Some e /\ tm_state st t = Some Active).
Proof.
  intros st s e t Hi Hc. unfold ctx in Hc. destruct (sess st s) as [t0|] eqn:Hs.
  - right. pose proof (i_sess st Hi s t0 Hs) as Ha.
    assert (Hd : tm_start st t0 <> None).
    { apply (i_dom_start st Hi). apply (i_dom_state st Hi). congruence. }
    destruct (tm_start st t0) as [e0|] eqn:Hst; [|contradiction].
    injection Hc as <- <-. auto.
  - left. injection Hc as <- <-. auto.
Qed.

Lemma ctx_ver_ok : forall st s e t, inv st -> ctx st s = (e, t) -> ver_ok st (mkV e None t).
Proof.
  intros st s e t Hi Hc. destruct (ctx_cases st s e t Hi Hc) as [[_ [-> ->]]|[_ [H1 H2]]].
  - left. cbn. split; [reflexivity|]. pose proof (i_epoch st Hi). lia.
  - right. cbn. auto.
Qed.

(** ** operations that only rewrite side tables, deletion marks and adjacency: [pres] *)
Definition same_cb (v' v : version) : Prop := v_created v' = v_created v /\ v_by v' = v_by v.

Record pres (st st' : state) : Prop := mkPres {
  p_epoch : tm_epoch st' = tm_epoch st;
  p_next : tm_next st' = tm_next st;
  p_start : tm_start st' = tm_start st;
  p_state : tm_state st' = tm_state st;
  p_store : st_epoch st' = st_epoch st;
  p_sess : sess st' = sess st;
  p_buf : rdf_buf st' = rdf_buf st;
  p_rdf : rdf st' = rdf st;
  p_nn : n_next st' = n_next st;
  p_en : e_next st' = e_next st;
  p_nch : forall n v', In v' (n_chain st' n) -> exists v, In v (n_chain st n) /\ same_cb v' v;
  p_ech : forall x v', In v' (e_chain st' x) -> exists v, In v (e_chain st x) /\ same_cb v' v
}.

Lemma pres_refl : forall st, pres st st.
Proof. intros st. constructor; try reflexivity; intros ? v' H; exists v'; (split; [assumption|split; reflexivity]). Qed.
Lemma pres_trans : forall a b c, pres a b -> pres b c -> pres a c.
Proof.
  intros a b c [] []. constructor; try congruence.
  - intros n v' H. destruct (p_nch1 n v' H) as [v1 [H1 [E1 E2]]]. destruct (p_nch0 n v1 H1) as [v0 [H0 [F1 F2]]].
    exists v0. split; [assumption|split; congruence].
  - intros n v' H. destruct (p_ech1 n v' H) as [v1 [H1 [E1 E2]]]. destruct (p_ech0 n v1 H1) as [v0 [H0 [F1 F2]]].
    exists v0. split; [assumption|split; congruence].
Qed.
Lemma fold_pres : forall {A} (f : state -> A -> state), (forall st x, pres st (f st x)) ->
  forall l st, pres st (fold_left f l st).
Proof.
  intros A f Hf l. induction l as [|x r IH]; intros st; cbn [fold_left]; [apply pres_refl|].
  eapply pres_trans; [apply Hf|apply IH].
Qed.

Lemma ver_ok_cb : forall st st' v v', tm_epoch st' = tm_epoch st -> tm_start st' = tm_start st ->
  tm_state st' = tm_state st -> same_cb v' v -> ver_ok st v -> ver_ok st' v'.
Proof.
  intros st st' v v' He Hs Ht [Hc Hb] H. unfold ver_ok in *. rewrite He, Hs, Ht, Hc, Hb. exact H.
Qed.

Lemma nil_of_no_elements : forall {A} (l : list A), (forall x, ~ In x l) -> l = [].
Proof. intros A [|a r] H; [reflexivity|]. exfalso. apply (H a). left. reflexivity. Qed.

Lemma inv_pres : forall st st', inv st -> pres st st' -> inv st'.
Proof.
  intros st st' Hi Hp. destruct Hp. constructor.
  - rewrite p_epoch0. apply Hi.
  - rewrite p_store0. apply Hi.
  - rewrite p_next0. apply Hi.
  - intros t. rewrite p_start0, p_next0. apply Hi.
  - intros t. rewrite p_state0, p_next0. apply Hi.
  - intros t e. rewrite p_start0, p_epoch0. apply Hi.
  - intros s t. rewrite p_sess0, p_state0. apply Hi.
  - intros s1 s2 t. rewrite p_sess0. apply Hi.
  - intros n v' H. destruct (p_nch0 n v' H) as [v [Hv Hcb]].
    eapply ver_ok_cb; eauto. eapply i_nver; eauto.
  - intros n v' H. destruct (p_ech0 n v' H) as [v [Hv Hcb]].
    eapply ver_ok_cb; eauto. eapply i_ever; eauto.
  - intros t. rewrite p_buf0, p_state0. apply Hi.
  - rewrite p_nn0. split; [apply Hi|]. intros n Hn. apply nil_of_no_elements. intros v' H.
    destruct (p_nch0 n v' H) as [v [Hv _]]. rewrite (proj2 (i_nnext st Hi) n Hn) in Hv. contradiction.
  - rewrite p_en0. split; [apply Hi|]. intros n Hn. apply nil_of_no_elements. intros v' H.
    destruct (p_ech0 n v' H) as [v [Hv _]]. rewrite (proj2 (i_enext st Hi) n Hn) in Hv. contradiction.
Qed.

(** chains under deletion marks and rollback *)
Lemma c_mark_deleted_in : forall c d v', In v' (c_mark_deleted c d) -> exists v, In v c /\ same_cb v' v.
Proof.
  induction c as [|v r IH]; intros d v' H; cbn [c_mark_deleted] in H; [contradiction|].
  destruct (v_deleted v) eqn:E.
  - destruct H as [<-|H].
    + exists v. split; [left; reflexivity|split; reflexivity].
    + destruct (IH d v' H) as [v0 [H0 Hcb]]. exists v0. split; [right; assumption|assumption].
  - destruct H as [<-|H].
    + exists v. split; [left; reflexivity|split; reflexivity].
    + exists v'. split; [right; assumption|split; reflexivity].
Qed.
Lemma c_remove_by_in : forall c t v, In v (c_remove_by c t) <-> In v c /\ v_by v <> t.
Proof.
  intros c t v. unfold c_remove_by. rewrite filter_In, negb_true_iff, Z.eqb_neq. tauto.
Qed.

Ltac same_chain := intros ? v' H; exists v'; split; [exact H|split; reflexivity].

Lemma pres_set_node_property : forall st id k v, pres st (set_node_property st id k v).
Proof. intros. constructor; try reflexivity; same_chain. Qed.
Lemma pres_remove_node_property : forall st id k, pres st (fst (remove_node_property st id k)).
Proof. intros. constructor; try reflexivity; same_chain. Qed.
Lemma pres_add_label : forall st id l, pres st (fst (add_label st id l)).
Proof.
  intros. unfold add_label. destruct (c_visible_at _ _); [|apply pres_refl].
  destruct (memz _ _); [apply pres_refl|]. constructor; try reflexivity; same_chain.
Qed.
Lemma pres_remove_label : forall st id l, pres st (fst (remove_label st id l)).
Proof.
  intros. unfold remove_label. destruct (c_visible_at _ _); [|apply pres_refl].
  destruct (memz _ _); [|apply pres_refl]. constructor; try reflexivity; same_chain.
Qed.
Lemma pres_delete_node_at_epoch : forall st id e, pres st (fst (delete_node_at_epoch st id e)).
Proof.
  intros. unfold delete_node_at_epoch. destruct (c_visible_at _ _); [|apply pres_refl].
  constructor; try reflexivity; [|same_chain].
  intros n v' H. cbn in H. unfold upd in H. destruct (n =? id) eqn:E.
  - apply Z.eqb_eq in E. subst n. apply c_mark_deleted_in in H. exact H.
  - exists v'. split; [exact H|split; reflexivity].
Qed.
Lemma pres_delete_edge_at_epoch : forall st id e, pres st (fst (delete_edge_at_epoch st id e)).
Proof.
  intros. unfold delete_edge_at_epoch. destruct (c_visible_at _ _); [|apply pres_refl].
  destruct (e_rec st id) as [[src dst] ty].
  constructor; try reflexivity; [same_chain|].
  intros n v' H. cbn in H. unfold upd in H. destruct (n =? id) eqn:E.
  - apply Z.eqb_eq in E. subst n. apply c_mark_deleted_in in H. exact H.
  - exists v'. split; [exact H|split; reflexivity].
Qed.
Lemma pres_delete_node_edges : forall st n, pres st (delete_node_edges st n).
Proof. intros. unfold delete_node_edges. apply fold_pres. intros. apply pres_delete_edge_at_epoch. Qed.

(** ** creations *)
Lemma pres_db_detach : forall st n, pres st (db_detach st n).
Proof. intros. unfold db_detach. destruct (c_visible_at _ _); [apply pres_delete_node_edges|apply pres_refl]. Qed.
(** [GrafeoDB::delete_node] (109e5bf: detach, then delete) only rewrites deletion marks, side tables and tombstones *)
Lemma pres_db_delete_node : forall st n, pres st (fst (step st (DbDeleteNode n))).
Proof.
  intros st n. cbn [step]. pose proof (pres_db_detach st n) as H1. set (st1 := db_detach st n) in *.
  pose proof (pres_delete_node_at_epoch st1 n (st_epoch st1)) as H2.
  destruct (delete_node_at_epoch st1 n (st_epoch st1)) as [st2 b]. cbn [fst] in *. eapply pres_trans; eassumption.
Qed.

Lemma inv_create_node_versioned : forall st labels e t, inv st -> ver_ok st (mkV e None t) ->
  inv (fst (create_node_versioned st labels e t)).
Proof.
  intros st labels e t Hi Hv. unfold create_node_versioned. cbn [fst].
  constructor; cbn; try (hi Hi).
  - intros n v H. unfold upd in H. destruct (n =? n_next st).
    + destruct H as [<-|[]]. exact Hv.
    + exact (i_nver st Hi n v H).
  - pose proof (proj1 (i_nnext st Hi)). split; [lia|]. intros n Hn. unfold upd.
    destruct (Z.eqb_spec n (n_next st)); [lia|]. apply (proj2 (i_nnext st Hi)). lia.
Qed.
Lemma inv_create_node_with_props : forall st labels props e t, inv st -> ver_ok st (mkV e None t) ->
  inv (fst (create_node_with_props st labels props e t)).
Proof.
  intros st labels props e t Hi Hv. unfold create_node_with_props.
  pose proof (inv_create_node_versioned st labels e t Hi Hv) as H1.
  destruct (create_node_versioned st labels e t) as [st1 id]. cbn [fst] in *.
  eapply inv_pres; [exact H1|]. apply fold_pres. intros. apply pres_set_node_property.
Qed.
Lemma inv_create_edge_versioned : forall st src dst ty e t, inv st -> ver_ok st (mkV e None t) ->
  inv (fst (create_edge_versioned st src dst ty e t)).
Proof.
  intros st src dst ty e t Hi Hv. unfold create_edge_versioned. cbn [fst].
  constructor; cbn; try (hi Hi).
  - intros n v H. unfold upd in H. destruct (n =? e_next st).
    + destruct H as [<-|[]]. exact Hv.
    + exact (i_ever st Hi n v H).
  - pose proof (proj1 (i_enext st Hi)). split; [lia|]. intros n Hn. unfold upd.
    destruct (Z.eqb_spec n (e_next st)); [lia|]. apply (proj2 (i_enext st Hi)). lia.
Qed.

(** ** transaction manager and sessions *)
Lemma ver_ok_mono : forall st st' v,
  tm_epoch st <= tm_epoch st' ->
  (forall t e, tm_start st t = Some e -> tm_start st' t = Some e) ->
  (forall t, tm_state st t = Some Active \/ tm_state st t = Some Committed ->
             tm_state st' t = Some Active \/ tm_state st' t = Some Committed) ->
  ver_ok st v -> ver_ok st' v.
Proof.
  intros st st' v He Hs Ht [[H1 H2]|[H1 H2]].
  - left. split; [assumption|lia].
  - right. split; [apply Hs; assumption|apply Ht; assumption].
Qed.

Lemma inv_begin : forall st s, inv st -> inv (fst (step st (Begin s))).
Proof.
  intros st s Hi. cbn [step]. destruct (sess st s) as [t0|] eqn:Hs; [exact Hi|].
  cbn. pose proof (i_next st Hi) as Hn. pose proof (i_epoch st Hi) as He.
  assert (Hfs : tm_start st (tm_next st) = None).
  { destruct (tm_start st (tm_next st)) eqn:E; [|reflexivity].
    assert (H : tm_start st (tm_next st) <> None) by congruence. apply (i_dom_start st Hi) in H. lia. }
  assert (Hft : tm_state st (tm_next st) = None).
  { destruct (tm_state st (tm_next st)) eqn:E; [|reflexivity].
    assert (H : tm_state st (tm_next st) <> None) by congruence. apply (i_dom_state st Hi) in H. lia. }
  assert (Hv : forall v, ver_ok st v ->
     ver_ok (set_sess (set_tm st (tm_epoch st) (tm_next st + 1) (upd (tm_start st) (tm_next st) (Some (tm_epoch st)))
                              (upd (tm_state st) (tm_next st) (Some Active))) (upd (sess st) s (Some (tm_next st)))) v).
  { intros v. apply ver_ok_mono; cbn.
    - lia.
    - intros t e H. unfold upd. destruct (Z.eqb_spec t (tm_next st)); [subst; congruence|assumption].
    - intros t H. unfold upd. destruct (Z.eqb_spec t (tm_next st)); [left; reflexivity|assumption]. }
  constructor; cbn; try lia; try (hi Hi).
  - intros t. unfold upd. destruct (Z.eqb_spec t (tm_next st)).
    + subst. split; [lia|discriminate].
    + rewrite (i_dom_start st Hi t). lia.
  - intros t. unfold upd. destruct (Z.eqb_spec t (tm_next st)).
    + subst. split; [lia|discriminate].
    + rewrite (i_dom_state st Hi t). lia.
  - intros t e. unfold upd. destruct (Z.eqb_spec t (tm_next st)).
    + intros H. injection H as <-. lia.
    + apply Hi.
  - intros s0 t. unfold upd. destruct (Z.eqb_spec s0 s).
    + intros H. injection H as <-. rewrite Z.eqb_refl. reflexivity.
    + intros H. pose proof (i_sess st Hi s0 t H) as Ha.
      destruct (Z.eqb_spec t (tm_next st)); [reflexivity|exact Ha].
  - intros s1 s2 t. unfold upd. destruct (Z.eqb_spec s1 s); destruct (Z.eqb_spec s2 s); intros H1 H2.
    + congruence.
    + injection H1 as <-. pose proof (i_sess st Hi s2 _ H2). congruence.
    + injection H2 as <-. pose proof (i_sess st Hi s1 _ H1). congruence.
    + eapply i_inj; eauto.
  - intros n v H. apply Hv. eapply i_nver; eauto.
  - intros n v H. apply Hv. eapply i_ever; eauto.
  - intros t H. pose proof (i_buf st Hi t H) as Ha. unfold upd.
    destruct (Z.eqb_spec t (tm_next st)); [reflexivity|exact Ha].
Qed.

Lemma inv_commit : forall st s, inv st -> inv (fst (step st (Commit s))).
Proof.
  intros st s Hi. cbn [step]. destruct (sess st s) as [t|] eqn:Hs; [|exact Hi].
  pose proof (i_sess st Hi s t Hs) as Ha.
  unfold tm_commit. cbn. rewrite Ha. cbn.
  pose proof (i_epoch st Hi) as He.
  assert (Hv : forall v st', tm_epoch st' = tm_epoch st + 1 -> tm_start st' = tm_start st ->
                             tm_state st' = upd (tm_state st) t (Some Committed) -> ver_ok st v -> ver_ok st' v).
  { intros v st' E1 E2 E3. apply ver_ok_mono.
    - lia.
    - rewrite E2. auto.
    - intros t0 H. rewrite E3. unfold upd. destruct (Z.eqb_spec t0 t); [right; reflexivity|assumption]. }
  constructor; cbn; try lia; try (hi Hi).
  - intros t0. unfold upd. destruct (Z.eqb_spec t0 t).
    + subst. split; [intros _|discriminate]. apply (i_dom_state st Hi). congruence.
    + apply Hi.
  - intros t0 e H. pose proof (i_start st Hi t0 e H). lia.
  - intros s0 t0. unfold upd. destruct (Z.eqb_spec s0 s); [discriminate|].
    intros H. destruct (Z.eqb_spec t0 t).
    + subst. exfalso. apply n. eapply i_inj; eauto.
    + eapply i_sess; eauto.
  - intros s1 s2 t0. unfold upd. destruct (Z.eqb_spec s1 s); [discriminate|].
    destruct (Z.eqb_spec s2 s); [discriminate|]. apply Hi.
  - intros n v H. eapply Hv; try reflexivity. eapply i_nver; eauto.
  - intros n v H. eapply Hv; try reflexivity. eapply i_ever; eauto.
  - intros t0. unfold upd. destruct (Z.eqb_spec t0 t); [intros H; contradiction H; reflexivity|].
    apply Hi.
Qed.

Lemma inv_rollback : forall st s, inv st -> inv (fst (step st (Rollback s))).
Proof.
  intros st s Hi. cbn [step]. destruct (sess st s) as [t|] eqn:Hs; [|exact Hi].
  pose proof (i_sess st Hi s t Hs) as Ha.
  unfold tm_abort. cbn. rewrite Ha. cbn.
  assert (Hv : forall v, v_by v <> t -> ver_ok st v ->
     (v_by v = SYSTEM /\ 0 <= v_created v <= tm_epoch st)
     \/ (tm_start st (v_by v) = Some (v_created v)
         /\ (upd (tm_state st) t (Some Aborted) (v_by v) = Some Active \/ upd (tm_state st) t (Some Aborted) (v_by v) = Some Committed))).
  { intros v Hb [H|[H1 H2]]; [left; exact H|right]. split; [exact H1|].
    unfold upd. destruct (Z.eqb_spec (v_by v) t); [contradiction|exact H2]. }
  constructor; cbn; try (hi Hi).
  - intros t0. unfold upd. destruct (Z.eqb_spec t0 t).
    + subst. split; [intros _|discriminate]. apply (i_dom_state st Hi). congruence.
    + apply Hi.
  - intros s0 t0. unfold upd. destruct (Z.eqb_spec s0 s); [discriminate|].
    intros H. destruct (Z.eqb_spec t0 t).
    + subst. exfalso. apply n. eapply i_inj; eauto.
    + eapply i_sess; eauto.
  - intros s1 s2 t0. unfold upd. destruct (Z.eqb_spec s1 s); [discriminate|].
    destruct (Z.eqb_spec s2 s); [discriminate|]. apply Hi.
  - intros n v H. apply c_remove_by_in in H. destruct H as [H Hb]. apply Hv; [exact Hb|]. eapply i_nver; eauto.
  - intros n v H. apply c_remove_by_in in H. destruct H as [H Hb]. apply Hv; [exact Hb|]. eapply i_ever; eauto.
  - intros t0. unfold upd. destruct (Z.eqb_spec t0 t); [intros H; contradiction H; reflexivity|].
    apply Hi.
  - split; [apply Hi|]. intros n Hn. rewrite (proj2 (i_nnext st Hi) n Hn). reflexivity.
  - split; [apply Hi|]. intros n Hn. rewrite (proj2 (i_enext st Hi) n Hn). reflexivity.
Qed.

(** dropping a session = rolling its transaction back (3eb02b5): same state, whether or not a transaction is open *)
Lemma drop_state : forall st s, fst (step st (DropSession s)) = fst (step st (Rollback s)).
Proof.
  intros st s. cbn [step]. destruct (sess st s) as [t|]; [|reflexivity].
  destruct (tm_abort _ t) as [st4 ok]. reflexivity.
Qed.
Lemma drop_out : forall st s, snd (step st (DropSession s)) = OUnit.
Proof. intros st s. cbn [step]. destruct (sess st s); reflexivity. Qed.

Lemma inv_drop : forall st s, inv st -> inv (fst (step st (DropSession s))).
Proof. intros st s Hi. rewrite drop_state. apply inv_rollback. exact Hi. Qed.

(** triple operations *)
Lemma inv_set_rdf_same_buf : forall st r, inv st -> inv (set_rdf st r (rdf_buf st)).
Proof. intros st r Hi. constructor; cbn; hi Hi. Qed.
Lemma inv_set_rdf_push : forall st s t p, inv st -> sess st s = Some t ->
  inv (set_rdf st (rdf st) (upd (rdf_buf st) t (rdf_buf st t ++ [p]))).
Proof.
  intros st s t p Hi Hs. constructor; cbn; try (hi Hi).
  intros t0. unfold upd. destruct (Z.eqb_spec t0 t); [subst; intros _; eapply i_sess; eauto|apply Hi].
Qed.

(** ** every step preserves the invariant *)
Lemma inv_step : forall st o, inv st -> inv (fst (step st o)).
Proof.
  intros st o Hi. destruct o.
  - apply inv_begin; exact Hi.
  - apply inv_commit; exact Hi.
  - apply inv_rollback; exact Hi.
  - apply inv_drop; exact Hi.
  - (* CreateNode *)
    cbn [step]. destruct (ctx st s) as [e t] eqn:Hc.
    pose proof (inv_create_node_with_props st labels props e t Hi (ctx_ver_ok st s e t Hi Hc)) as H.
    destruct (create_node_with_props st labels props e t) as [st1 id]. exact H.
  - (* DeleteNode *)
    cbn [step]. destruct (ctx st s) as [e t] eqn:Hc. cbn [fst].
    eapply inv_pres; [exact Hi|]. apply fold_pres. intros st' n.
    destruct detach.
    + eapply pres_trans; [apply pres_delete_node_edges|apply pres_delete_node_at_epoch].
    + apply pres_delete_node_at_epoch.
  - (* CreateEdge *)
    cbn [step]. destruct (ctx st s) as [e t] eqn:Hc.
    pose proof (inv_create_edge_versioned st src dst ty e t Hi (ctx_ver_ok st s e t Hi Hc)) as H.
    destruct (create_edge_versioned st src dst ty e t) as [st1 id]. exact H.
  - (* CreateEdgeQ *)
    cbn [step]. destruct (ctx st s) as [e t] eqn:Hc.
    destruct (matched st ma src e t); [exact Hi|]. destruct (matched st mb dst e t); [exact Hi|].
    pose proof (inv_create_edge_versioned st src dst ty e t Hi (ctx_ver_ok st s e t Hi Hc)) as H.
    destruct (create_edge_versioned st src dst ty e t) as [st1 id]. exact H.
  - (* DeleteEdge *)
    cbn [step]. pose proof (pres_delete_edge_at_epoch st e (st_epoch st)) as H.
    destruct (delete_edge_at_epoch st e (st_epoch st)) as [st1 b]. cbn [fst] in *. eapply inv_pres; eauto.
  - (* SetProp *)
    cbn [step]. destruct (ctx st s) as [e t] eqn:Hc. cbn [fst].
    eapply inv_pres; [exact Hi|]. apply fold_pres. intros. apply pres_set_node_property.
  - (* RemoveProp *)
    cbn [step]. destruct (ctx st s) as [e t] eqn:Hc. cbn [fst].
    eapply inv_pres; [exact Hi|]. apply fold_pres. intros. apply pres_set_node_property.
  - (* AddLabel *)
    cbn [step]. destruct (ctx st s) as [e t] eqn:Hc. cbn [fst].
    eapply inv_pres; [exact Hi|]. apply fold_pres. intros. apply pres_add_label.
  - (* RemoveLabel *)
    cbn [step]. destruct (ctx st s) as [e t] eqn:Hc. cbn [fst].
    eapply inv_pres; [exact Hi|]. apply fold_pres. intros. apply pres_remove_label.
  - (* InsertTriple *)
    cbn [step]. destruct (sess st s) as [t0|] eqn:Hs; cbn [fst].
    + eapply inv_set_rdf_push; eauto.
    + apply inv_set_rdf_same_buf; exact Hi.
  - (* DeleteTriple *)
    cbn [step]. destruct (sess st s) as [t0|] eqn:Hs; cbn [fst].
    + eapply inv_set_rdf_push; eauto.
    + apply inv_set_rdf_same_buf; exact Hi.
  - (* DbDeleteNode *) eapply inv_pres; [exact Hi|apply pres_db_delete_node].
  - cbn [step fst]. eapply inv_pres; [exact Hi|apply pres_set_node_property].
  - cbn [step]. pose proof (pres_remove_node_property st n k) as H.
    destruct (remove_node_property st n k) as [st1 b]. cbn [fst] in *. eapply inv_pres; eauto.
  - cbn [step]. pose proof (pres_add_label st n l) as H.
    destruct (add_label st n l) as [st1 b]. cbn [fst] in *. eapply inv_pres; eauto.
  - cbn [step]. pose proof (pres_remove_label st n l) as H.
    destruct (remove_label st n l) as [st1 b]. cbn [fst] in *. eapply inv_pres; eauto.
  - exact Hi.
Qed.

Lemma inv_reach : forall st, reach st -> inv st.
Proof. induction 1; [apply inv_init|apply inv_step; assumption]. Qed.
Lemma inv_final : forall ops, inv (final ops).
Proof. intros. apply inv_reach. apply reach_final. Qed.
