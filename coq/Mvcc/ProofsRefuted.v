(** C01 / C02 — the witnesses: on each of these histories the model (= HEAD, by the correspondence run)
    violates the specification, and the finding class named in the theorem explains the failure.
    The same histories are in the corpus of harness/src/bin/c01.rs and are replayed on the implementation by
    every run of the checks.  All proofs are evaluations ([vm_compute]). *)
From Coq Require Import ZArith List Bool.
Import ListNotations.
From GV Require Import Mvcc.Model Mvcc.Canon Mvcc.Spec Mvcc.Run.
Open Scope Z_scope.

Definition refutes_c01 (c : Z) (ops : list op) : Prop :=
  c01_k c ops (mrun ops) = true /\ snapshot_ok ops (mrun ops) = false.
Definition refutes_c02 (c : Z) (h : list op * list (Z * Z * Z)) : Prop :=
  c02_k c (fst h) (mrun (fst h)) (snd h) = true /\ atomic_ok (fst h) (mrun (fst h)) (snd h) = false.

(** C01 *)
Definition w_k1_dirty : list op :=
  [Begin 0; CreateNode 0 [0] [(0, Some 1)]; Read 1 (LabelScan 0); Read 1 (GetNode 0); Rollback 0; Read 1 (LabelScan 0)].
Definition w_k1_phantom : list op :=
  [Begin 1; Read 1 (LabelScan 0); Begin 0; CreateNode 0 [0] []; Commit 0; Read 1 (LabelScan 0); Commit 1].
Definition w_k2 : list op :=
  [CreateNode 9 [0] [(0, Some 1)]; Begin 0; SetProp 0 (SelLabel 0) 0 0 (Some 2); Read 1 (GetNode 0); Rollback 0;
   Read 1 (GetProp 0 0)].
Definition w_k3 : list op :=
  [CreateNode 9 [0] []; Begin 0; DeleteNode 0 (SelLabel 0) 0 false; Read 1 (GetNode 0); Rollback 0; Read 1 (LabelScan 0)].
Definition w_k4 : list op :=
  [Begin 0; Commit 0; CreateNode 1 [0] [(0, Some 2)]; Read 1 (LabelScan 0); Read 1 AllScan; Read 1 CountAll;
   Read 1 (ProjProp 0 0); Read 1 DbCounts; CreateNode 1 [0] []; CreateEdge 1 0 1 0;
   Read 1 (Expand (SelLabel 0) Out None); Read 1 (Expand (SelLabel 0) Out (Some 0))].
Definition w_k5 : list op :=
  [InsertTriple 9 (0, 0, 0); Begin 0; InsertTriple 0 (1, 1, 1); Read 0 (TripleQ (None, None, None));
   InsertTriple 0 (0, 0, 0); Read 0 (TripleApi (None, None, None)); DeleteTriple 0 (1, 1, 1);
   Read 0 (TripleApi (None, None, None)); Read 1 (TripleQ (None, None, None)); Commit 0; Read 1 (TripleQ (None, None, None))].
Definition w_k6 : list op :=
  [CreateNode 9 [] []; CreateNode 9 [] []; Begin 0; CreateEdge 0 0 1 0; Read 1 (Neigh 0 Out); Read 1 (Degree 0);
   Rollback 0; Read 1 (Neigh 0 Out); Read 1 (GetEdge 0)].

Definition w_k7 : list op :=
  [Begin 0; Commit 0; Begin 0; CreateNode 0 [0] [(0, Some 1)]; Commit 0; Read 9 (LabelScan 0); Read 9 (FreshLabelScan 0)].

Lemma k1_refuted_l : refutes_c01 1 w_k1_dirty /\ refutes_c01 1 w_k1_phantom.
Proof. vm_compute. repeat split. Qed.
Lemma k2_refuted_l : refutes_c01 2 w_k2.
Proof. vm_compute. repeat split. Qed.
Lemma k3_refuted_l : refutes_c01 3 w_k3.
Proof. vm_compute. repeat split. Qed.
Lemma k4_refuted_l : refutes_c01 4 w_k4.
Proof. vm_compute. repeat split. Qed.
Lemma k5_refuted_l : refutes_c01 5 w_k5.
Proof. vm_compute. repeat split. Qed.
Lemma k6_refuted_l : refutes_c01 6 w_k6.
Proof. vm_compute. repeat split. Qed.

(** C01-K7, repaired by 752d5ee: on the pre-repair model ([read_pre]: private transaction manager, epoch 0) the
    witness violates the specification, on the current model it satisfies it *)
Lemma k7_pre_refuted_l : snapshot_ok w_k7 (mrun_pre w_k7) = false /\ snapshot_ok w_k7 (mrun w_k7) = true
  /\ c01_fails w_k7 (mrun w_k7) = [].
Proof. vm_compute. repeat split. Qed.

(** GrafeoDB::delete_node detaches since 109e5bf (not a finding of these properties; the specification follows the
    documented behaviour): the pre-repair transcription leaves the edge, the current model deletes it *)
Definition w_db_delete : list op :=
  [CreateNode 9 [] []; CreateNode 9 [] []; CreateEdge 9 0 1 0; DbDeleteNode 1; Read 9 (GetEdge 0); Read 9 (Neigh 0 Out)].
Lemma db_delete_pre_refuted_l :
  snapshot_ok w_db_delete (mrun_pre w_db_delete) = false /\ snapshot_ok w_db_delete (mrun w_db_delete) = true
  /\ nth 4 (mrun_pre w_db_delete) OErr = OEdge (Some (0, 1, 0)) /\ nth 4 (mrun w_db_delete) OErr = OEdge None.
Proof. vm_compute. repeat split. Qed.

(** histories outside every class, with reads strictly inside another session's open transaction *)
Definition w_clean_later_starter : list op :=
  [CreateNode 9 [0] []; Begin 1; Begin 2; Commit 2; Begin 0; CreateNode 0 [0] [(0, Some 3)]; Read 1 (LabelScan 0);
   Read 1 (GetNode 1); Read 1 AllScan; Commit 0; Read 1 (LabelScan 0); Commit 1; Read 1 (LabelScan 0)].
Definition w_clean_rdf : list op :=
  [InsertTriple 9 (0, 0, 0); Begin 0; InsertTriple 0 (1, 1, 1); DeleteTriple 0 (0, 0, 0);
   Read 1 (TripleQ (None, None, None)); Rollback 0; Read 1 (TripleQ (None, None, None));
   Begin 0; InsertTriple 0 (1, 0, 1); Read 1 (TripleQ (None, Some 0, None)); Commit 0; Read 1 (TripleQ (None, None, None))].
(** expands (untyped, typed, all three directions) by the writer itself and by a reader whose snapshot precedes
    the writer's begin *)
Definition w_clean_expand : list op :=
  [CreateNode 9 [0] []; CreateNode 9 [1] []; CreateEdge 9 0 1 0; CreateEdge 9 1 1 1; Begin 1; Begin 2; Commit 2; Begin 0;
   CreateEdge 0 1 0 1; Read 0 (Expand SelAny Both None); Read 1 (Expand (SelLabel 0) Out (Some 0));
   Read 1 (Expand SelAny Inc None); Read 1 (Expand SelAny Both (Some 1)); Commit 0; Read 1 (Expand SelAny Out None)].
Lemma clean_expand_l :
  c01_fails w_clean_expand (mrun w_clean_expand) = [] /\ snapshot_ok w_clean_expand (mrun w_clean_expand) = true
  /\ nth 9 (mrun w_clean_expand) OErr = ORows [(0, 0, 1); (0, 2, 1); (1, 0, 0); (1, 1, 1); (1, 1, 1); (1, 2, 0)]
  /\ nth 12 (mrun w_clean_expand) OErr = ORows [(1, 1, 1); (1, 1, 1)].
Proof. vm_compute. repeat split. Qed.
(** expand deviations are classified: an edge of an open transaction (1), an edge deleted in place by an open
    transaction (3), a typed expand at a later epoch (4) *)
Definition w_expand_k1 : list op :=
  [CreateNode 9 [] []; CreateNode 9 [] []; Begin 0; CreateEdge 0 0 1 0; Read 1 (Expand SelAny Out None)].
Definition w_expand_k3 : list op :=
  [CreateNode 9 [] []; CreateNode 9 [] []; CreateEdge 9 0 1 0; Begin 0; DeleteNode 0 SelAny 1 true; Read 1 (Expand SelAny Out None)].
Definition w_expand_k4 : list op :=
  [CreateNode 9 [0] []; Begin 0; Commit 0; CreateNode 1 [0] []; CreateEdge 1 0 1 0; Read 1 (Expand (SelLabel 0) Out (Some 0))].
Lemma expand_classes_l :
  c01_fails w_expand_k1 (mrun w_expand_k1) = [(4, 1)] /\ c01_fails w_expand_k3 (mrun w_expand_k3) = [(5, 3)]
  /\ c01_fails w_expand_k4 (mrun w_expand_k4) = [(5, 4)].
Proof. vm_compute. repeat split. Qed.

Lemma clean_examples_l :
  c01_fails w_clean_later_starter (mrun w_clean_later_starter) = [] /\ snapshot_ok w_clean_later_starter (mrun w_clean_later_starter) = true
  /\ c01_fails w_clean_rdf (mrun w_clean_rdf) = [] /\ snapshot_ok w_clean_rdf (mrun w_clean_rdf) = true.
Proof. vm_compute. repeat split. Qed.

(** C02 *)
Definition w2_k1 := with_dumps
  [CreateNode 9 [0] [(0, Some 1)]; CreateNode 9 [1] []]
  [Begin 0; SetProp 0 (SelLabel 0) 0 0 (Some 2); AddLabel 0 (SelLabel 0) 0 2; RemoveLabel 0 (SelLabel 1) 1 1;
   DeleteNode 0 (SelLabel 0) 0 false; Rollback 0] 2 0 2 0.
Definition w2_k2 := with_dumps
  [CreateNode 9 [0] []]
  [Begin 0; CreateNode 0 [1] [(0, Some 3)]; CreateEdge 0 0 1 0; Rollback 0] 1 0 2 1.
Definition w2_k4 := with_dumps
  [CreateNode 9 [0] []]
  [Begin 0; CreateNode 0 [1] []; InsertTriple 0 (0, 0, 0); DropSession 0] 1 0 2 0.
Definition w2_k5 := with_dumps
  [Begin 1; Commit 1]
  [Begin 0; CreateNode 0 [0] [(0, Some 1)]; InsertTriple 0 (0, 0, 0); Commit 0] 0 0 1 0.
Definition w2_clean_rollback := with_dumps
  [CreateNode 9 [0] [(1, Some 2)]; InsertTriple 9 (0, 0, 0)]
  [Begin 0; CreateNode 0 [] []; InsertTriple 0 (1, 1, 1); DeleteTriple 0 (0, 0, 0); Read 1 AllScan; Rollback 0] 1 0 2 0.
Definition w2_clean_commit := with_dumps
  [CreateNode 9 [0] [(1, Some 2)]; InsertTriple 9 (0, 0, 0)]
  [Begin 0; CreateNode 0 [] []; InsertTriple 0 (1, 1, 1); DeleteTriple 0 (0, 0, 0); Read 1 (TripleQ (None, None, None)); Commit 0] 1 0 2 0.

Lemma rollback_inplace_refuted_l : refutes_c02 1 w2_k1.
Proof. vm_compute. repeat split. Qed.
Lemma rollback_creation_refuted_l : refutes_c02 2 w2_k2.
Proof. vm_compute. repeat split. Qed.
(** C02-K4, repaired by 3eb02b5: on the pre-repair model ([step_pre]: no Drop for Session) dropping a session with
    an open transaction leaves its node visible; on the current model the dump after the drop equals the dump
    before the begin.  (The labelled variant [w2_k4], the old witness, now fails only through the label-index
    entry a rollback leaves: finding C02-K2.) *)
Definition w2_k4_plain := with_dumps
  [CreateNode 9 [0] []]
  [Begin 0; CreateNode 0 [] []; InsertTriple 0 (0, 0, 0); DropSession 0] 1 0 2 0.
Lemma drop_pre_refuted_l :
  atomic_ok (fst w2_k4_plain) (mrun_pre (fst w2_k4_plain)) (snd w2_k4_plain) = false
  /\ atomic_ok (fst w2_k4_plain) (mrun (fst w2_k4_plain)) (snd w2_k4_plain) = true
  /\ c02_checked (fst w2_k4_plain) (mrun (fst w2_k4_plain)) (snd w2_k4_plain) = 1
  /\ c02_fails (fst w2_k4) (mrun (fst w2_k4)) (snd w2_k4) = [(0, 2)].
Proof. vm_compute. repeat split. Qed.
Lemma commit_epoch_refuted_l : refutes_c02 5 w2_k5.
Proof. vm_compute. repeat split. Qed.
Lemma atomic_examples_l :
  atomic_ok (fst w2_clean_rollback) (mrun (fst w2_clean_rollback)) (snd w2_clean_rollback) = true
  /\ c02_checked (fst w2_clean_rollback) (mrun (fst w2_clean_rollback)) (snd w2_clean_rollback) = 1
  /\ atomic_ok (fst w2_clean_commit) (mrun (fst w2_clean_commit)) (snd w2_clean_commit) = true
  /\ c02_checked (fst w2_clean_commit) (mrun (fst w2_clean_commit)) (snd w2_clean_commit) = 1.
Proof. vm_compute. repeat split. Qed.
