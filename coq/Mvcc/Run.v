(** C01 / C02 — runner: comparison of implementation observations with the model, the oracles
    (the specification of Spec.v evaluated on the implementation's outputs) and the finding classes.

    [chk_hist ops outs]     : model == implementation on the whole history (canonical outputs)
    [c01_fails ops outs]    : positions where [snapshot_ok] fails, each with the finding class (1..6) that
                              explains it, 0 when no class does.  Classes are *shapes of disagreement* between
                              the model's state (replayed from [ops]) and the specification's view at that
                              position:
                                1  an entity visible on the model's versioned path that is not in the reader's
                                   snapshot (+ own writes): creation by an open / later-committed / dropped
                                   transaction, or by a write outside a transaction after the reader began
                                2  node visible on both sides, but the unversioned side tables (labels, label
                                   index, properties) disagree with the snapshot
                                3  an entity of the snapshot that the versioned path hides (deletion mark written
                                   in place by another session's uncommitted / rolled-back / later delete)
                                4  the read goes through an accessor that uses the store's own epoch, which hides
                                   (or keeps) an entity on which versioned path and snapshot agree
                                5  triple read (SPARQL / find_with_pending) inside a transaction: the RDF store keeps
                                   no snapshot (later commits show) and the scan ignores the transaction's own buffer
                                6  raw adjacency (neighbours, degrees) — no visibility check at all
                              A write statement's MATCH is a read too: positions of writes whose matched set
                              differs between model and specification are reported with class + 10, and the
                              evaluation stops there (afterwards the two states are not comparable).
    [c02_fails ops outs ds] : dump pairs where [atomic_ok] fails, with class 1, 2, 5 (0 = none; class 4, the session
                              dropped with an open transaction, is repaired: 3eb02b5).
    No proofs in this file. *)
From Coq Require Import ZArith List Bool.
Import ListNotations.
From GV Require Export Mvcc.Spec.
Open Scope Z_scope.

(** model outputs in canonical form *)
Definition mrun (ops : list op) : list out := map canon (run ops).

(** outputs of the model of the code before the repairs 752d5ee / 3eb02b5 (only for the [_pre_refuted] theorems) *)
Definition mrun_pre (ops : list op) : list out := map canon (run_pre ops).

(** correspondence: model == implementation on the whole history *)
Definition chk_hist (ops : list op) (outs : list out) : bool := list_eqb out_eqb (mrun ops) outs.

(** diagnostics: index of the first differing step and the model's output there *)
Fixpoint first_diff (i : Z) (a b : list out) : option (Z * out) :=
  match a, b with
  | x :: r, y :: s => if out_eqb x y then first_diff (i + 1) r s else Some (i, x)
  | x :: _, [] => Some (i, x)
  | _, _ => None
  end.
Definition show_hist (ops : list op) (outs : list out) : option (Z * out) := first_diff 0 (mrun ops) outs.

(** ** facts about one entity: model side *)
Definition Mv (st : state) (e t n : Z) : bool := c_visible_to (n_chain st n) e t.
Definition Ms (st : state) (n : Z) : bool := c_visible_at (n_chain st n) (st_epoch st).
Definition MEv (st : state) (e t x : Z) : bool := c_visible_to (e_chain st x) e t.
Definition MEs (st : state) (x : Z) : bool := c_visible_at (e_chain st x) (st_epoch st).
Definition in_dbe (d : db) (x : Z) : bool := match d_edge d x with Some _ => true | None => false end.

Definition labels_agree (st : state) (d : db) (n : Z) : bool :=
  list_eqb Z.eqb (isort Z.leb (n_labels st n)) (isort Z.leb (labels_of d n)).
Definition props_agree (st : state) (d : db) (n : Z) : bool :=
  list_eqb eqbkv (isort lebkv (n_props st n)) (isort lebkv (props_of d n)).

Fixpoint first_class (f : Z -> Z) (l : list Z) : Z :=
  match l with [] => 0 | x :: r => let c := f x in if c =? 0 then first_class f r else c end.

(** class of node [n] as a candidate of a scan [m] (0 = it contributes the same on both sides) *)
Definition scan_class (st : state) (d : db) (e t : Z) (m : sel) (n : Z) : Z :=
  let mv := Mv st e t n in
  let i := in_db d n in
  match m with
  | SelLabel l =>
      let cm := memz n (l_index st l) && mv in
      let ci := has_label d n l in
      if Bool.eqb cm ci then 0
      else if cm then (if i then 2 else 1)
      else (if mv then 2 else 3)
  | SelAny =>
      let cm := Ms st n && mv in
      if Bool.eqb cm i then 0
      else if cm then 1
      else (if mv then 4 else 3)
  end.

(** point lookups *)
Definition point_class (mv i : bool) (same : bool) : Z :=
  if mv && negb i then 1 else if negb mv && i then 3 else if mv && i && negb same then 2 else 0.

(** *** expand: one source node [a], one edge id [x], one direction ([out_dir] = forward list).
    [m_slot]: the row the model's expand produces through the adjacency entry of edge [x] at node [a] (the
    adjacency lists hold exactly the edges' endpoints in id order: [adj_inv], ProofsExpand.v);
    [i_slot]: the row the snapshot contains there (the body of [out_rows] / [in_rows] of Spec.v) *)
Definition ty_model (st : state) (ty : option Z) (x : Z) : bool :=
  match ty with
  | Some want => match edge_type st x with Some have => have =? want | None => false end
  | None => true
  end.
Definition m_slot (st : state) (e t : Z) (ty : option Z) (out_dir : bool) (a x : Z) : list (Z * Z * Z) :=
  let '(s0, t0, _) := e_rec st x in
  if out_dir
  then (if (s0 =? a) && negb (memz x (fwd_del st a)) && ty_model st ty x && MEv st e t x && Mv st e t t0
        then [(a, x, t0)] else [])
  else (if (t0 =? a) && negb (memz x (bwd_del st a)) && ty_model st ty x && MEv st e t x && Mv st e t s0
        then [(a, x, s0)] else []).
Definition i_slot (d : db) (ty : option Z) (out_dir : bool) (a x : Z) : list (Z * Z * Z) :=
  match d_edge d x with
  | Some (s, t, y) =>
      if out_dir
      then (if (s =? a) && ty_ok ty y && in_db d t then [(a, x, t)] else [])
      else (if (t =? a) && ty_ok ty y && in_db d s then [(a, x, s)] else [])
  | None => []
  end.
(** class of a slot on which the two sides differ (0 = they agree; the two inner 0s are unreachable for a
    history of the model: ProofsExpand.v) *)
Definition slot_class (st : state) (d : db) (e t : Z) (ty : option Z) (out_dir : bool) (a x : Z) : Z :=
  let ms := m_slot st e t ty out_dir a x in
  if list_eqb eqb3 ms (i_slot d ty out_dir a x) then 0
  else
    match ms with
    | (_, _, b) :: _ =>
        (* the model's expand returns a row the snapshot lacks: the edge, or its other end, is not in the snapshot *)
        match d_edge d x with
        | None => 1
        | Some _ => if in_db d b then 0 else 1
        end
    | [] =>
        (* the snapshot has a row the model's expand does not return *)
        let '(s0, t0, _) := e_rec st x in
        let b := if out_dir then t0 else s0 in
        if negb (MEv st e t x) then 3
        else if negb (Mv st e t b) then 3
        else if (match ty with Some _ => negb (MEs st x) | None => false end) then 4
        else if memz x (if out_dir then fwd_del st a else bwd_del st a) then 6
        else 0
    end.
Definition expand_class (st : state) (d : db) (e t : Z) (m : sel) (dr : dir) (ty : option Z) (nb eb : Z) : Z :=
  first_class (fun a =>
      if sp_match d m a then
        first_class (fun x =>
            let co := match dr with Inc => 0 | _ => slot_class st d e t ty true a x end in
            if negb (co =? 0) then co
            else match dr with Out => 0 | _ => slot_class st d e t ty false a x end) (range eb)
      else 0) (range nb).

Definition classify_read (st : state) (sp : sstate) (s : Z) (k : kind) : Z :=
  let '(e, t) := ctx st s in
  let d := view_of sp s in
  let dc := s_comm sp in
  let nb := Z.max (n_next st) (s_nb sp) in
  let eb := Z.max (e_next st) (s_eb sp) in
  match k with
  | LabelScan l | CountLabel l => first_class (scan_class st d e t (SelLabel l)) (range nb)
  | AllScan | CountAll => first_class (scan_class st d e t SelAny) (range nb)
  | ProjProp l key =>
      let c := first_class (scan_class st d e t (SelLabel l)) (range nb) in
      if negb (c =? 0) then c
      else first_class (fun n =>
             if has_label d n l then
               let vm := if Ms st n then flat (pget key (n_props st n)) else None in
               let vi := flat (pget key (props_of d n)) in
               if val_eqb vm vi then 0 else if Ms st n then 2 else 4
             else 0) (range nb)
  | GetNode n => point_class (Mv st e t n) (in_db d n) (labels_agree st d n && props_agree st d n)
  | GetProp n key => point_class (Mv st e t n) (in_db d n)
                                 (opt_eqb val_eqb (pget key (n_props st n)) (pget key (props_of d n)))
  | GetEdge x => point_class (MEv st e t x) (in_dbe d x) (opt_eqb eqb3 (Some (e_rec st x)) (d_edge d x))
  | Expand m dr ty =>
      let c := first_class (scan_class st d e t m) (range nb) in
      if negb (c =? 0) then c else expand_class st d e t m dr ty nb eb
  | Neigh _ _ | Degree _ => 6
  | TripleQ _ | TripleApi _ =>
      (* the RDF store keeps no snapshot and the triple scan ignores the transaction's buffer *)
      match sess st s with Some _ => 5 | None => 0 end
  | DbCounts =>
      let sys n := Mv st (tm_epoch st) SYSTEM n in
      let c := first_class (fun n => let cm := Ms st n in let ci := in_db dc n in
                                     if Bool.eqb cm ci then 0
                                     else if cm then (if sys n then 1 else 4) else (if sys n then 4 else 3)) (range nb) in
      if negb (c =? 0) then c
      else first_class (fun x => let cm := MEs st x in let ci := in_dbe dc x in
                                 let sysx := MEv st (tm_epoch st) SYSTEM x in
                                 if Bool.eqb cm ci then 0
                                 else if cm then (if sysx then 1 else 4) else (if sysx then 4 else 3)) (range eb)
  | StoreLabel _ | StoreProp _ _ => 2     (* raw label index / property column: unversioned side tables *)
  | FreshLabelScan l =>
      (* since 752d5ee planned like the label scan of a session without transaction: same classes *)
      first_class (scan_class st dc (tm_epoch st) SYSTEM (SelLabel l)) (range nb)
  end.

(** the edges the specification detaches from node [id] vs the edges [delete_node_edges] really deletes
    (raw adjacency, each through [delete_edge] at the store's own epoch) *)
Definition detach_class (st : state) (d : db) (id eb : Z) : Z :=
  first_class (fun x =>
      let adj := existsb (fun p => snd p =? x) (edges_from st id Out ++ edges_from st id Inc) in
      let ci := match d_edge d x with Some (a, b, _) => (a =? id) || (b =? id) | None => false end in
      let cm := adj && MEs st x in
      if Bool.eqb cm ci then 0
      else if cm then 1
      else if negb adj then 6 else 4) (range eb).

(** the read inside a write statement: does the model select / affect the same entities as the
    specification?  0 = yes *)
Definition mut_class (st : state) (sp : sstate) (o : op) : Z :=
  let dc := s_comm sp in
  let eb := Z.max (e_next st) (s_eb sp) in
  let db_node_class (n : Z) :=
      let cm := Ms st n in let ci := in_db dc n in let sys := Mv st (tm_epoch st) SYSTEM n in
      if Bool.eqb cm ci then 0 else if cm then (if sys then 1 else 4) else (if sys then 4 else 3) in
  match o with
  | DeleteNode s m id detach =>
      let '(e, t) := ctx st s in let d := view_of sp s in
      let c := scan_class st d e t m id in
      if negb (c =? 0) then c
      else if detach && sp_match d m id then detach_class st d id eb
      else 0
  | SetProp s m id _ _ | RemoveProp s m id _ =>
      let '(e, t) := ctx st s in scan_class st (view_of sp s) e t m id
  | AddLabel s m id l | RemoveLabel s m id l =>
      let '(e, t) := ctx st s in let d := view_of sp s in
      let c := scan_class st d e t m id in
      if negb (c =? 0) then c
      else if sp_match d m id then
        (if negb (Ms st id) then 4 else if Bool.eqb (memz l (n_labels st id)) (memz l (labels_of d id)) then 0 else 2)
      else 0
  | CreateEdgeQ s ma mb a b _ =>
      let '(e, t) := ctx st s in let d := view_of sp s in
      let c := scan_class st d e t ma a in
      if negb (c =? 0) then c else scan_class st d e t mb b
  | DeleteEdge x =>
      let cm := MEs st x in let ci := in_dbe dc x in let sys := MEv st (tm_epoch st) SYSTEM x in
      if Bool.eqb cm ci then 0 else if cm then (if sys then 1 else 4) else (if sys then 4 else 3)
  | DbDeleteNode n =>
      let c := db_node_class n in
      if negb (c =? 0) then c else if in_db dc n then detach_class st dc n eb else 0
  | DbAddLabel n l | DbRemoveLabel n l =>
      let c := db_node_class n in
      if negb (c =? 0) then c
      else if in_db dc n then (if Bool.eqb (memz l (n_labels st n)) (memz l (labels_of dc n)) then 0 else 2) else 0
  | _ => 0
  end.

(** ** C01 oracle: the specification on the implementation's outputs, failures classified *)
Fixpoint verdicts (st : state) (sp : sstate) (i : Z) (ops : list op) (outs : list out) : list (Z * Z) :=
  match ops, outs with
  | o :: ro, x :: rx =>
      let st' := fst (step st o) in
      let sp' := spec_step sp o x in
      match o with
      | Read s k =>
          if out_eqb (spec_expected sp s k) x then verdicts st' sp' (i + 1) ro rx
          else (i, classify_read st sp s k) :: verdicts st' sp' (i + 1) ro rx
      | _ =>
          let c := mut_class st sp o in
          if c =? 0 then verdicts st' sp' (i + 1) ro rx else [(i, c + 10)]
      end
  | _, _ => []
  end.
Definition c01_fails (ops : list op) (outs : list out) : list (Z * Z) := verdicts init sinit 0 ops outs.
(** finding class [c] explains a failure of this history (read failure, or the read of a write statement) *)
Definition c01_k_of (c : Z) (fails : list (Z * Z)) : bool :=
  existsb (fun pc => (snd pc =? c) || (snd pc =? c + 10)) fails.
Definition c01_k (c : Z) (ops : list op) (outs : list out) : bool := c01_k_of c (c01_fails ops outs).
(** everything the check needs about one history, in one evaluation: model == implementation, the failing
    positions with their classes, and [c01_k c] for c = 1 .. 6 *)
Definition c01_report (ops : list op) (outs : list out) : bool * list (Z * Z) * list bool :=
  let f := c01_fails ops outs in
  (chk_hist ops outs, f, map (fun c => c01_k_of c f) [1; 2; 3; 4; 5; 6]).
(** the part of the history the oracle could evaluate satisfies [snapshot_ok] *)
Definition c01_ok (ops : list op) (outs : list out) : bool :=
  match c01_fails ops outs with [] => true | _ => false end.

(** ** C02 oracle *)
Definition raw_kind (k : kind) : bool :=
  match k with StoreLabel _ | StoreProp _ _ | Neigh _ _ | Degree _ => true | _ => false end.
Definition triple_kind (k : kind) : bool :=
  match k with TripleQ _ | TripleApi _ => true | _ => false end.
Definition inplace_op (o : op) : bool :=
  match o with
  | SetProp _ _ _ _ _ | RemoveProp _ _ _ _ | AddLabel _ _ _ _ | RemoveLabel _ _ _ _ | DeleteNode _ _ _ _ => true
  | _ => false
  end.
Definition creation_side_op (o : op) : bool :=
  match o with
  | CreateNode _ ls ps => match ls, ps with [], [] => false | _, _ => true end
  | CreateEdge _ _ _ _ | CreateEdgeQ _ _ _ _ _ _ => true
  | _ => false
  end.
Definition commits_before (ops : list op) (outs : list out) (pos : Z) : Z :=
  Z.of_nat (length (filter (fun ox => match ox with (Commit _, OUnit) => true | _ => false end)
                           (firstn (Z.to_nat pos) (combine ops outs)))).

Definition pair_classes (ops : list op) (outs : list out) (d1 d2 : Z * Z * Z) : list Z :=
  let '(s1, l1, _) := d1 in
  let '(s2, l2, base) := d2 in
  match check_pair ops outs d1 d2 with
  | None | Some (_, []) => []
  | Some (how, bad) =>
      let seg := slice ops (s1 + l1) (s2 - s1 - l1) in
      let k1 := kinds_of (slice ops s1 l1) in
      let x1 := slice outs s1 l1 in
      let k2 := kinds_of (slice ops s2 l2) in
      let d := db_of_dump k1 x1 db0 in
      let '(nb0, eb0) := dump_bounds k1 in
      let has_inplace := existsb inplace_op seg in
      let has_creation := existsb creation_side_op seg in
      let earlier_abort := existsb (fun o => match o with Rollback _ | DropSession _ => true | _ => false end)
                                   (firstn (Z.to_nat (s1 + l1)) ops) in
      let cls (i : Z) : Z :=
          let k := nth (Z.to_nat i) k2 AllScan in
          (* no listed finding touches the committed triple set: a wrong triple answer is never explained *)
          if triple_kind k then 0 else
          match how with
          | EndDrop | EndRollback =>     (* since 3eb02b5 dropping a session rolls its transaction back *)
              if raw_kind k then (if has_creation then 2 else if has_inplace then 1 else 0)
              else (if has_inplace then 1 else 0)
          | EndCommit =>
              (* left-overs of an earlier rolled-back / dropped creation surface in the raw paths *)
              if raw_kind k && earlier_abort then 2
              else if 0 <? commits_before ops outs (s1 + l1) then 5 else 0
          end in
      fold_left (fun acc i => let c := cls i in if memz c acc then acc else acc ++ [c]) bad []
  end.

Fixpoint c02_fails_from (j : Z) (ops : list op) (outs : list out) (ps : list ((Z * Z * Z) * (Z * Z * Z))) : list (Z * Z) :=
  match ps with
  | [] => []
  | (a, b) :: r => map (fun c => (j, c)) (pair_classes ops outs a b) ++ c02_fails_from (j + 1) ops outs r
  end.
Definition c02_fails (ops : list op) (outs : list out) (ds : list (Z * Z * Z)) : list (Z * Z) :=
  c02_fails_from 0 ops outs (dump_pairs ds).
Definition c02_k_of (c : Z) (fails : list (Z * Z)) : bool := existsb (fun pc => snd pc =? c) fails.
Definition c02_k (c : Z) (ops : list op) (outs : list out) (ds : list (Z * Z * Z)) : bool :=
  c02_k_of c (c02_fails ops outs ds).
(** how many dump pairs enclose a checkable transaction *)
Definition c02_checked (ops : list op) (outs : list out) (ds : list (Z * Z * Z)) : Z :=
  Z.of_nat (length (filter (fun p => match check_pair ops outs (fst p) (snd p) with Some _ => true | None => false end)
                           (dump_pairs ds))).

(** transaction control follows the specification's state machine: [Begin] succeeds iff the session has no open
    transaction, [Commit] / [Rollback] succeed iff it has one (a commit never reports a conflict: nothing on
    the session path fills the write sets).  Positions where the recorded output says otherwise. *)
Fixpoint ctl_fails_from (sp : sstate) (i : Z) (ops : list op) (outs : list out) : list Z :=
  match ops, outs with
  | o :: ro, x :: rx =>
      let bad := match o with
                 | Begin s => negb (out_eqb x (match s_view sp s with None => OUnit | Some _ => OErr end))
                 | Commit s | Rollback s => negb (out_eqb x (match s_view sp s with Some _ => OUnit | None => OErr end))
                 | DropSession _ => negb (out_eqb x OUnit)
                 | _ => false
                 end in
      (if bad then [i] else []) ++ ctl_fails_from (spec_step sp o x) (i + 1) ro rx
  | _, _ => []
  end.
Definition ctl_fails (ops : list op) (outs : list out) : list Z := ctl_fails_from sinit 0 ops outs.

(** one evaluation per history: model == implementation, failing dump pairs with classes, number of checkable
    transactions, and [c02_k c] for c = 1, 2, 5 *)
Definition c02_report (ops : list op) (outs : list out) (ds : list (Z * Z * Z))
  : bool * list (Z * Z) * Z * list bool * list Z :=
  let f := c02_fails ops outs ds in
  (chk_hist ops outs, f, c02_checked ops outs ds, map (fun c => c02_k_of c f) [1; 2; 5], ctl_fails ops outs).

(** ** dumps (used by the witnesses of the C02 theorems; the harness builds its dumps the same way) *)
Definition node_dump_kinds (n : Z) : list kind :=
  [GetNode n; Neigh n Out; Neigh n Inc; Degree n; StoreProp n 0; StoreProp n 1].
Definition dump_kinds (n0 n1 e0 e1 : Z) (global : bool) : list kind :=
  flat_map node_dump_kinds (map (fun i => n0 + i) (range (n1 - n0)))
  ++ map (fun i => GetEdge (e0 + i)) (range (e1 - e0))
  ++ (if global
      then flat_map (fun l => [LabelScan l; StoreLabel l; ProjProp l 0; ProjProp l 1]) [0; 1; 2]
           ++ [AllScan; CountAll; Expand SelAny Out None; Expand SelAny Out (Some 0); Expand (SelLabel 0) Out None;
               TripleQ (None, None, None); DbCounts]
      else []).
Definition OBSERVER : Z := 9.
(** [pre] (starting graph), dump, [tx], dump; (nn1, ne1) / (nn2, ne2): ids handed out before / after [tx] *)
Definition with_dumps (pre tx : list op) (nn1 ne1 nn2 ne2 : Z) : list op * list (Z * Z * Z) :=
  let d1 := dump_kinds 0 nn1 0 ne1 true in
  let d2 := d1 ++ dump_kinds nn1 nn2 ne1 ne2 false in
  (pre ++ map (Read OBSERVER) d1 ++ tx ++ map (Read OBSERVER) d2,
   [(Z.of_nat (length pre), Z.of_nat (length d1), 0);
    (Z.of_nat (length pre + length d1 + length tx), Z.of_nat (length d2), Z.of_nat (length d1))]).
