(** C02-K4 — PREPARED, NOT ACTIVE.  The model of [DropSession] after the proposed repair
    /verif/proposed-fixes/C02-session-drop.diff ([impl Drop for Session]: a session dropped with an open
    transaction rolls it back).  Nothing in Props_C0x.v, Run.v or the checks refers to this file; HEAD is
    modelled by [Model.step], where [DropSession] only forgets the session's transaction id.

    To activate once the repair is committed to /repo (one round, as CONVENTIONS.md prescribes):
      1. Model.v: replace the [DropSession] branch of [step] by the branch of [step_fixed] below; keep the old
         branch as [step_pre] for the [_pre_refuted] theorem;
      2. Run.v [pair_classes]: treat [EndDrop] like [EndRollback] (class 4 disappears);
      3. Props_C02.v: [drop_refuted] becomes [drop_pre_refuted] (about [step_pre]); add [drop_is_rollback] and
         [drop_fixed_clean] from below; the witness corpus:K4-drop must then pass;
      4. known.d/C02.json: C02-K4 -> "status": "fixed" with the commit id.
    No proofs about HEAD depend on this file. *)
From Coq Require Import ZArith List Bool Lia.
Import ListNotations.
From GV Require Import Mvcc.Model Mvcc.Canon Mvcc.Spec Mvcc.Run Mvcc.ProofsVis Mvcc.ProofsInv Mvcc.ProofsThm.
Open Scope Z_scope.

Definition step_fixed (st : state) (o : op) : state * out :=
  match o with
  | DropSession s =>
      match sess st s with
      | Some _ => (fst (step st (Rollback s)), OUnit)     (* Drop::drop: let _ = self.rollback() *)
      | None => (st, OUnit)
      end
  | _ => step st o
  end.

Fixpoint run_from_fixed (st : state) (ops : list op) : state * list out :=
  match ops with
  | [] => (st, [])
  | o :: r => let '(st1, x) := step_fixed st o in let '(st2, xs) := run_from_fixed st1 r in (st2, x :: xs)
  end.
Definition mrun_fixed (ops : list op) : list out := map canon (snd (run_from_fixed init ops)).

(** dropping = rolling back: same state; in particular (ProofsThm.rollback_ok_l) the transaction is Aborted, its
    versions are gone for every reader and its triple buffer is discarded *)
Lemma drop_is_rollback : forall st s t, sess st s = Some t ->
  fst (step_fixed st (DropSession s)) = fst (step st (Rollback s)).
Proof. intros st s t H. cbn [step_fixed]. rewrite H. reflexivity. Qed.

Lemma drop_fixed_aborts : forall st s t, inv st -> sess st s = Some t ->
  let st' := fst (step_fixed st (DropSession s)) in
  sess st' s = None /\ tm_state st' t = Some Aborted /\ rdf st' = rdf st /\ rdf_buf st' t = []
  /\ (forall n v, In v (n_chain st' n) \/ In v (e_chain st' n) -> v_by v <> t).
Proof.
  intros st s t Hi Hs. cbn zeta. rewrite (drop_is_rollback st s t Hs).
  cbn [step]. rewrite Hs. unfold tm_abort. cbn [tm_state set_rdf set_sess discard_uncommitted_versions set_nodes set_edges].
  rewrite (i_sess st Hi s t Hs). cbn. unfold upd. rewrite !Z.eqb_refl.
  repeat split; try reflexivity.
  intros n v [H|H]; apply c_remove_by_in in H; tauto.
Qed.

(** a session without transaction is dropped without effect *)
Lemma drop_fixed_idle : forall st s, sess st s = None -> step_fixed st (DropSession s) = (st, OUnit).
Proof. intros st s H. cbn [step_fixed]. rewrite H. reflexivity. Qed.

(** the shape of corpus:K4-drop without label (a label would leave its label-index entry: finding C02-K2, which the
    repair does not touch): after the repair the dump after the drop equals the dump before the begin *)
Definition w2_k4_fixed := with_dumps
  [CreateNode 9 [0] []]
  [Begin 0; CreateNode 0 [] []; InsertTriple 0 (0, 0, 0); DropSession 0] 1 0 2 0.
Lemma drop_fixed_clean :
  atomic_ok (fst w2_k4_fixed) (mrun_fixed (fst w2_k4_fixed)) (snd w2_k4_fixed) = true
  /\ c02_checked (fst w2_k4_fixed) (mrun_fixed (fst w2_k4_fixed)) (snd w2_k4_fixed) = 1
  /\ atomic_ok (fst w2_k4_fixed) (mrun (fst w2_k4_fixed)) (snd w2_k4_fixed) = false.
Proof. vm_compute. repeat split. Qed.
