(** C03 / C04 — the property theorems about the model of the transaction manager, for all
    operation lists (any number of transactions and entities, clean-up anywhere). *)
From Coq Require Import ZArith List Bool Lia.
From GV Require Import Tm.Model Tm.Spec Tm.AL Tm.SpecProofs Tm.Refine.
Import ListNotations.
Open Scope Z_scope.

(** ** runs and their prefixes *)
Lemma run_app f1 a : forall s b,
  run_gen f1 s (a ++ b) =
  let (s1, xs) := run_gen f1 s a in let (s2, ys) := run_gen f1 s1 b in (s2, xs ++ ys).
Proof.
  induction a as [|o a IH]; intros s b; cbn [run_gen app].
  - destruct (run_gen f1 s b). reflexivity.
  - destruct (step_gen f1 s o) as [s1 x]. rewrite IH.
    destruct (run_gen f1 s1 a) as [s2 xs]. destruct (run_gen f1 s2 b) as [s3 ys]. reflexivity.
Qed.
Lemma run_length f1 ops : forall s, length (snd (run_gen f1 s ops)) = length ops.
Proof.
  induction ops as [|o ops IH]; intro s; cbn [run_gen]; [reflexivity|].
  destruct (step_gen f1 s o) as [s1 x]. specialize (IH s1).
  destruct (run_gen f1 s1 ops) as [s2 xs]. cbn [snd length] in *. lia.
Qed.
Lemma outs_length ops : length (outs ops) = length ops.
Proof. apply run_length. Qed.

Lemma exec_snoc pre o :
  exec (pre ++ [o]) = (fst (step (st_after pre) o), outs pre ++ [answer pre o]).
Proof.
  unfold exec, run, answer, st_after, outs, exec, run. rewrite run_app.
  destruct (run_gen true init pre) as [s1 xs]. cbn [run_gen fst snd]. fold step.
  destruct (step s1 o) as [s2 x]. reflexivity.
Qed.
Lemma st_after_snoc pre o : st_after (pre ++ [o]) = fst (step (st_after pre) o).
Proof. unfold st_after at 1. rewrite exec_snoc. reflexivity. Qed.
Lemma outs_snoc pre o : outs (pre ++ [o]) = outs pre ++ [answer pre o].
Proof. unfold outs at 1. rewrite exec_snoc. reflexivity. Qed.

Lemma combine_snoc {A B} (a : list A) (b : list B) x y :
  length a = length b -> combine (a ++ [x]) (b ++ [y]) = combine a b ++ [(x, y)].
Proof.
  revert b. induction a as [|a0 a IH]; intros [|b0 b] H; cbn in *; try discriminate; [reflexivity|].
  rewrite IH by lia. reflexivity.
Qed.
Lemma hist_of_snoc pre o : hist_of (pre ++ [o]) = hstep (hist_of pre) o (answer pre o).
Proof.
  unfold hist_of. rewrite outs_snoc, combine_snoc by (symmetry; apply outs_length).
  unfold history, history_from. rewrite fold_left_app. reflexivity.
Qed.

(** the model answers as the specification does *)
Lemma answer_spec pre o : is_gc o = false -> answer pre o = spec_out (hist_of pre) o.
Proof. intro H. apply (proj1 (step_refines _ _ o (exec_inv pre)) H). Qed.
Lemma hist_of_snoc_spec pre o :
  hist_of (pre ++ [o]) = hstep (hist_of pre) o (spec_out (hist_of pre) o).
Proof. rewrite hist_of_snoc. apply step_refines_hist. apply exec_inv. Qed.

Lemma lookup_functional {V} (l : list (Z * V)) k v1 v2 :
  lookup k l = Some v1 -> lookup k l = Some v2 -> v1 = v2.
Proof. congruence. Qed.

(** ** C03 *)

(** first committer wins *)
Lemma fcw_safety_l ops t1 t2 r1 r2 c1 c2 :
  t1 <> t2 -> committed_at (hist_of ops) t1 r1 c1 -> committed_at (hist_of ops) t2 r2 c2 ->
  overlap r1 r2 c1 c2 -> disjoint (h_ws r1) (h_ws r2).
Proof.
  intros Hne [L1 E1] [L2 E2] [O1 O2]. unfold disjoint. apply inter_false.
  eapply (wf_fcw _ (hist_of_wf ops) t1 t2); eassumption.
Qed.

Lemma fcw_okb_wf G : wfH G -> fcw_okb G = true.
Proof.
  intro W. unfold fcw_okb. apply forallb_forall. intros [t1 r1] H1. apply forallb_forall. intros [t2 r2] H2.
  cbn [fst snd]. destruct (t1 =? t2) eqn:E; [reflexivity|]. cbn [orb]. apply Z.eqb_neq in E.
  destruct (h_end r1) eqn:E1; try reflexivity. destruct (h_end r2) eqn:E2; try reflexivity.
  destruct ((h_start r2 <? c) && (h_start r1 <? c0)) eqn:O; [|reflexivity]. cbn [negb orb].
  apply andb_prop in O. destruct O as [O1 O2]. apply Z.ltb_lt in O1, O2.
  apply In_lookup in H1, H2; try apply (wf_nodup G W).
  rewrite (wf_fcw G W t1 t2 r1 r2 c c0); auto.
Qed.
Lemma fcw_oracle_l ops : fcw_okb (hist_of ops) = true.
Proof. apply fcw_okb_wf, hist_of_wf. Qed.

(** the invariant that makes it true although finished transactions are cleaned up *)
Lemma gc_keeps_needed_l ops t r c a ra :
  committed_at (hist_of ops) t r c -> lookup a (hist_of ops) = Some ra -> is_act ra = true ->
  h_start ra < c ->
  exists i, lookup t (txs (st_after ops)) = Some i /\ t_state i = Committed /\ t_ws i = h_ws r /\
            lookup t (committed (st_after ops)) = Some c.
Proof.
  intros [L E] La Ha Hlt. pose proof (exec_inv ops) as I.
  destruct (lookup t (txs (st_after ops))) as [i|] eqn:Li.
  - exists i. split; [reflexivity|]. destruct (inv_rel _ _ I t i Li) as (r0 & L0 & R).
    rewrite L in L0. inversion L0. subst r0. destruct R as (_ & _ & R3 & _ & R5).
    destruct (t_state i); try (destruct R5 as [X _]; congruence).
    destruct R5 as (c0 & E0 & Lc). rewrite E in E0. inversion E0. subst c0. auto.
  - exfalso. destruct (inv_gone _ _ I t r L Li) as [_ G2]. specialize (G2 c E a ra La Ha). lia.
Qed.

(** commit epochs are 1, 2, 3, ... in commit order; the epoch counter counts the commits *)
Lemma step_epoch f1 s o s' x :
  step_gen f1 s o = (s', x) ->
  match o, x with
  | Commit _, OkEpoch c => c = epoch s + 1 /\ epoch s' = epoch s + 1
  | _, _ => epoch s' = epoch s
  end.
Proof.
  destruct o as [i|t e|t e|t|t| |]; cbn [step_gen].
  - unfold begin. intro H. inversion H. reflexivity.
  - unfold record. destruct (lookup t (txs s)); [destruct (negb _)|]; intro H; inversion H; reflexivity.
  - unfold record. destruct (lookup t (txs s)); [destruct (negb _)|]; intro H; inversion H; reflexivity.
  - unfold commit_gen. destruct (lookup t (txs s)); [|intro H; inversion H; reflexivity].
    destruct (negb _); [intro H; inversion H; reflexivity|].
    destruct (ww1 _ _ _ _ _); [intro H; inversion H; reflexivity|].
    destruct (ww2 _ _ _ _); [intro H; inversion H; reflexivity|].
    destruct (_ && _); intro H; inversion H; cbn [epoch]; auto.
  - unfold abort. destruct (lookup t (txs s)); [destruct (negb _)|]; intro H; inversion H; reflexivity.
  - unfold gc. intro H. inversion H. reflexivity.
  - unfold abort_all. intro H. inversion H. reflexivity.
Qed.
Lemma commit_epochs_gen f1 ops : forall s,
  commit_outs ops (snd (run_gen f1 s ops)) =
    zseq (epoch s + 1) (length (commit_outs ops (snd (run_gen f1 s ops)))) /\
  epoch (fst (run_gen f1 s ops)) = epoch s + Z.of_nat (length (commit_outs ops (snd (run_gen f1 s ops)))).
Proof.
  induction ops as [|o ops IH]; intro s; cbn [run_gen].
  - cbn. split; [reflexivity|lia].
  - destruct (step_gen f1 s o) as [s1 x] eqn:St. pose proof (step_epoch f1 s o s1 x St) as SE.
    specialize (IH s1). destruct (run_gen f1 s1 ops) as [s2 xs]. cbn [fst snd] in *.
    destruct IH as [IH1 IH2].
    destruct o; cbn [commit_outs]; try (rewrite SE in IH1, IH2; split; assumption).
    destruct x; cbn [commit_outs]; try (rewrite SE in IH1, IH2; split; assumption).
    destruct SE as [-> SE]. rewrite SE in IH1, IH2. cbn [length zseq]. split; [congruence|lia].
Qed.
Lemma commit_epochs_l ops :
  commit_outs ops (outs ops) = zseq 1 (length (commit_outs ops (outs ops))) /\
  epoch (st_after ops) = Z.of_nat (length (commit_outs ops (outs ops))).
Proof. apply (commit_epochs_gen true ops init). Qed.

(** the start epoch of a transaction is the number of commits before its begin *)
Lemma start_epochs_l pre i :
  exists t info, answer pre (Begin i) = OkTx t /\
    lookup t (txs (st_after (pre ++ [Begin i]))) = Some info /\
    t_state info = Active /\ t_iso info = i /\
    t_start info = Z.of_nat (length (commit_outs pre (outs pre))).
Proof.
  exists (next (st_after pre)). eexists. rewrite st_after_snoc. unfold answer, step. cbn [step_gen begin fst snd].
  split; [reflexivity|]. unfold ins. cbn [txs lookup]. rewrite Z.eqb_refl. split; [reflexivity|].
  cbn [t_state t_iso t_start]. repeat split. apply commit_epochs_l.
Qed.

(** a refusal for a write conflict is never spurious *)
Lemma no_spurious_refusal_l pre t :
  answer pre (Commit t) = Err WriteConflict ->
  exists r t' r' c', lookup t (hist_of pre) = Some r /\ is_act r = true /\ t' <> t /\
     committed_at (hist_of pre) t' r' c' /\ h_start r < c' /\
     exists e, In e (h_ws r) /\ In e (h_ws r').
Proof.
  rewrite answer_spec by reflexivity. cbn [spec_out]. unfold spec_commit.
  destruct (lookup t (hist_of pre)) as [r|] eqn:L; [|discriminate].
  destruct (h_end r) eqn:E; try discriminate.
  destruct (ww_conf (hist_of pre) t r) eqn:W.
  - intros _. apply conf_true in W. destruct W as (t' & r' & c' & Hin & Hne & He & Hlt & Hi).
    exists r, t', r', c'. split; [reflexivity|]. unfold is_act. rewrite E. split; [reflexivity|].
    split; [assumption|]. split.
    + split; [|assumption]. apply In_lookup; [apply (wf_nodup _ (hist_of_wf pre))|assumption].
    + split; [assumption|]. apply inter_true. assumption.
  - destruct (_ && _); discriminate.
Qed.

(** clean-up never changes an answer *)
Lemma remove_gc_idem ops : remove_gc (remove_gc ops) = remove_gc ops.
Proof.
  unfold remove_gc. induction ops as [|o ops IH]; [reflexivity|]. cbn [filter].
  destruct (is_gc o) eqn:E; cbn [negb filter]; [assumption|]. rewrite E. cbn [negb]. f_equal. assumption.
Qed.
Lemma nongc_outs_nogc : forall l xs, remove_gc l = l -> length xs = length l -> nongc_outs l xs = xs.
Proof.
  induction l as [|o l IH]; intros [|x xs] Hr Hl; cbn in *; try discriminate; try reflexivity.
  unfold remove_gc in Hr. cbn [filter] in Hr. destruct (is_gc o) eqn:E; cbn [negb] in Hr.
  - exfalso. assert (X : (length (filter (fun o => negb (is_gc o)) l) <= length l)%nat) by apply filter_length_le.
    rewrite Hr in X. cbn in X. lia.
  - inversion Hr as [Hr']. rewrite Hr'. f_equal. apply IH; [assumption|lia].
Qed.
Lemma gc_transparent_l ops : nongc_outs ops (outs ops) = outs (remove_gc ops).
Proof.
  rewrite outs_spec. pose proof (outs_spec (remove_gc ops)) as H.
  rewrite remove_gc_idem in H. rewrite <- H.
  apply nongc_outs_nogc; [apply remove_gc_idem|apply outs_length].
Qed.
Lemma gc_transparent_l2 ops1 ops2 :
  remove_gc ops1 = remove_gc ops2 ->
  nongc_outs ops1 (outs ops1) = nongc_outs ops2 (outs ops2) /\ hist_of ops1 = hist_of ops2.
Proof.
  intro H. rewrite !gc_transparent_l, !hist_of_spec, H. auto.
Qed.

(** ** the transaction state machine *)
Lemma finished_is_final_l pre o t r :
  lookup t (hist_of pre) = Some r -> is_act r = false -> lookup t (hist_of (pre ++ [o])) = Some r.
Proof.
  intros L Ha. rewrite hist_of_snoc_spec.
  destruct (hstep_lookup_fwd _ o t r (hist_of_wf pre) L) as (r' & L').
  rewrite L'. f_equal. apply hstep_lookup in L'; [|apply hist_of_wf].
  destruct L' as [(r0 & L0 & RS)|(L0 & _)]; [|congruence].
  rewrite L in L0. inversion L0. subst r0.
  destruct RS; try reflexivity; congruence.
Qed.
Lemma active_transitions_l pre o t r r' :
  lookup t (hist_of pre) = Some r -> lookup t (hist_of (pre ++ [o])) = Some r' ->
  h_iso r' = h_iso r /\ h_start r' = h_start r /\
  (h_end r' = h_end r \/
   (h_end r = HActive /\ (h_end r' = HAborted \/ exists c, h_end r' = HCommitted c /\ o = Commit t /\ answer pre o = OkEpoch c))).
Proof.
  intros L L'. rewrite hist_of_snoc_spec in L'. apply hstep_lookup in L'; [|apply hist_of_wf].
  destruct L' as [(r0 & L0 & RS)|(L0 & _)]; [|congruence].
  rewrite L in L0. inversion L0. subst r0.
  destruct RS; cbn [h_add_write h_add_read h_set_end h_iso h_start h_end]; repeat split; auto.
  - right. unfold is_act in H. destruct (h_end r); try discriminate. auto.
  - right. unfold is_act in H. destruct (h_end r); try discriminate. split; [reflexivity|]. right.
    eexists. split; [reflexivity|]. split; [assumption|]. subst o. rewrite answer_spec by reflexivity. assumption.
Qed.
Lemma not_active_refused_l pre o t :
  target o = Some t -> active_in (hist_of pre) t = false ->
  step (st_after pre) o = (st_after pre, Err InvalidState).
Proof.
  intros Ht Ha. pose proof (exec_inv pre) as I.
  assert (X : match lookup t (txs (st_after pre)) with
              | None => True | Some i => negb (tstate_eqb (t_state i) Active) = true end).
  { destruct (lookup t (txs (st_after pre))) as [i|] eqn:Li; [|exact Logic.I].
    destruct (negb (tstate_eqb (t_state i) Active)) eqn:N; [reflexivity|].
    apply tstate_neq_active in N. destruct (inv_rel _ _ I t i Li) as (r & Lr & R).
    unfold active_in in Ha. rewrite Lr in Ha. apply (rel_act _ _ _ _ R) in N. congruence. }
  destruct o; inversion Ht; subst; unfold step; cbn [step_gen]; unfold record, commit_gen, abort;
    destruct (lookup t (txs (st_after pre))); try reflexivity; rewrite X; reflexivity.
Qed.

(** ** the oracles accept every run of the model (so an oracle failure on the implementation is a
    deviation from the model in exactly the respect the property names) *)
Lemma all_events_model (P : hist -> op -> out -> bool) :
  (forall G o, wfH G -> is_gc o = false -> P G o (spec_out G o) = true) ->
  (forall G x, P G Gc x = true) ->
  forall ops, all_events P [] (combine ops (outs ops)) = true.
Proof.
  intros H1 H2 ops. unfold outs, exec.
  assert (X : forall ops s G, Inv s G -> all_events P G (combine ops (snd (run s ops))) = true).
  { clear ops. induction ops as [|o ops IH]; intros s G I; [reflexivity|].
    unfold run. cbn [run_gen]. fold (step s o). destruct (step s o) as [s1 x] eqn:St. fold (run s1 ops).
    destruct (run s1 ops) as [s2 xs] eqn:Rn. cbn [snd combine all_events fst].
    pose proof (step_refines s G o I) as [SO SI]. rewrite St in SO, SI. cbn [fst snd] in SO, SI.
    pose proof (step_refines_hist s G o I) as SH. rewrite St in SH. cbn [snd] in SH.
    rewrite SH. specialize (IH s1 _ SI). rewrite Rn in IH. cbn [snd] in IH. rewrite IH, andb_true_r.
    destruct (is_gc o) eqn:E.
    - destruct o; try discriminate. apply H2.
    - rewrite (SO eq_refl). apply H1; [apply (inv_wf s G I)|assumption]. }
  apply (X ops init [] Inv_init).
Qed.

Lemma conforms_l ops : conforms [] (combine ops (outs ops)) = true.
Proof.
  apply all_events_model; unfold conforms1.
  - intros G o _ E. rewrite E. cbn [orb]. apply out_eqb_eq. reflexivity.
  - reflexivity.
Qed.
Lemma ww_justified_l ops : ww_justified [] (combine ops (outs ops)) = true.
Proof.
  apply all_events_model; [|reflexivity]. intros G o _ _. unfold ww_just1.
  destruct o; try reflexivity. cbn [spec_out]. unfold spec_commit.
  destruct (lookup t G) as [r|] eqn:L; [|reflexivity].
  destruct (h_end r) eqn:E; try reflexivity.
  destruct (ww_conf G t r) eqn:W.
  - unfold is_act. rewrite E. reflexivity.
  - destruct (_ && _); reflexivity.
Qed.
Lemma epochs_ok_l ops : epochs_ok [] (combine ops (outs ops)) = true.
Proof.
  apply all_events_model; [|reflexivity]. intros G o _ _. unfold epoch1.
  destruct o; try reflexivity. cbn [spec_out]. unfold spec_commit.
  destruct (lookup t G) as [r|]; [|reflexivity]. destruct (h_end r); try reflexivity.
  destruct (ww_conf G t r); [reflexivity|]. destruct (_ && _); [reflexivity|]. apply Z.eqb_refl.
Qed.
Lemma sf_justified_l ops : sf_justified [] (combine ops (outs ops)) = true.
Proof.
  apply all_events_model; [|reflexivity]. intros G o _ _. unfold sf_just1.
  destruct o; try reflexivity. cbn [spec_out]. unfold spec_commit.
  destruct (lookup t G) as [r|] eqn:L; [|reflexivity].
  destruct (h_end r) eqn:E; try reflexivity.
  destruct (ww_conf G t r) eqn:W; [reflexivity|].
  destruct (iso_eqb (h_iso r) Serializable && negb (is_empty (h_rs r)) && rw_conf G t r) eqn:S; [|reflexivity].
  unfold is_act. rewrite E.
  apply andb_prop in S. destruct S as [S S3]. apply andb_prop in S. destruct S as [S1 S2].
  rewrite S1, S3. reflexivity.
Qed.
Lemma stale_refused_l ops : stale_refused [] (combine ops (outs ops)) = true.
Proof.
  apply all_events_model; [|reflexivity]. intros G o _ _. unfold accept1.
  destruct o; try reflexivity. cbn [spec_out]. destruct (spec_commit G t) eqn:S; try reflexivity.
  apply spec_commit_ok in S. destruct S as (r & L & Ha & _ & WW & RW).
  rewrite L, Ha, WW. cbn [negb andb]. rewrite andb_true_r.
  destruct (iso_eqb (h_iso r) Serializable) eqn:Is; [|reflexivity].
  apply iso_eqb_eq in Is. rewrite (RW Is). reflexivity.
Qed.

(** ** C04 *)

(** a Serializable transaction that read something which an overlapping transaction then wrote
    and committed is refused *)
Lemma ssi_refuses_stale_reader_l pre t r t' r' c' e :
  lookup t (hist_of pre) = Some r -> is_act r = true -> h_iso r = Serializable ->
  In e (h_rs r) -> t' <> t -> committed_at (hist_of pre) t' r' c' -> h_start r < c' -> In e (h_ws r') ->
  answer pre (Commit t) =
    if ww_conf (hist_of pre) t r then Err WriteConflict else Err SerializationFailure.
Proof.
  intros L Ha Hi He Hne [L' E'] Hlt He'. rewrite answer_spec by reflexivity. cbn [spec_out].
  unfold spec_commit. rewrite L. unfold is_act in Ha. destruct (h_end r); try discriminate.
  destruct (ww_conf (hist_of pre) t r); [reflexivity|].
  rewrite Hi. cbn [iso_eqb andb].
  assert (R : rw_conf (hist_of pre) t r = true).
  { apply conf_iff. exists t', r', c'. split; [apply lookup_In_pair; assumption|].
    repeat (split; [assumption|]). apply inter_true. eauto. }
  rewrite R. destruct (h_rs r); [destruct He|reflexivity].
Qed.

(** a read of a Serializable transaction that committed returned the version that the serial
    execution in commit order gives it *)
Lemma ser_view_l ops t r c e v :
  lookup t (hist_of ops) = Some r -> h_iso r = Serializable -> h_end r = HCommitted c ->
  In (e, Ver v) (h_reads r) ->
  v = ver_at (hist_of ops) e (h_start r) /\ v = serial_read (hist_of ops) r e.
Proof.
  intros L Hi He Hin. pose proof (hist_of_wf ops) as W.
  destruct (wf_reads _ W t r e (Ver v) L Hin) as [Hrs Hv].
  assert (V : v = ver_at (hist_of ops) e (h_start r)) by (apply Hv; rewrite Hi; discriminate).
  split; [assumption|]. rewrite V. unfold serial_read, cepoch. rewrite He.
  destruct (wf_bounds _ W t r L) as [B1 B2]. specialize (B2 c He).
  apply ver_at_between; [lia|].
  intros t' r' c' Hin' He' Hw Hc.
  apply In_lookup in Hin'; [|apply (wf_nodup _ W)].
  assert (Hne : t <> t').
  { intro X. subst t'. rewrite L in Hin'. inversion Hin'. subst r'. rewrite He in He'. inversion He'. lia. }
  assert (X : inter (h_rs r) (h_ws r') = false).
  { apply (wf_ssi _ W t t' r r' c c'); auto; lia. }
  rewrite inter_false in X. apply (X e); assumption.
Qed.

Lemma view_okb_l ops : all_serializable (hist_of ops) -> view_okb (hist_of ops) = true.
Proof.
  intro AS. unfold view_okb. apply forallb_forall. intros [t r] Hin. cbn [snd].
  apply In_lookup in Hin; [|apply (wf_nodup _ (hist_of_wf ops))].
  destruct (is_comm r) eqn:C; [|reflexivity]. cbn [negb orb].
  apply forallb_forall. intros [e [|v]] Hr; [reflexivity|]. cbn [fst snd].
  unfold is_comm in C. destruct (h_end r) eqn:He; try discriminate.
  apply Z.eqb_eq. eapply (ser_view_l ops t r c e v); try eassumption. apply (AS t r Hin).
Qed.

(** every dependency between committed Serializable transactions goes forward in commit order *)
Lemma dep_forward G t1 t2 r1 r2 :
  wfH G -> lookup t1 G = Some r1 -> lookup t2 G = Some r2 ->
  h_iso r1 = Serializable -> h_iso r2 <> ReadCommitted ->
  dep_edge (t1, r1) (t2, r2) = true -> cepoch r1 < cepoch r2.
Proof.
  intros W L1 L2 I1 I2 D. unfold dep_edge in D. cbn [fst snd] in D.
  apply andb_prop in D. destruct D as [D D4]. apply andb_prop in D. destruct D as [D D3].
  apply andb_prop in D. destruct D as [D1 D2].
  apply negb_true_iff, Z.eqb_neq in D1.
  unfold is_comm in D2, D3. unfold cepoch in *.
  destruct (h_end r1) eqn:E1; try discriminate. destruct (h_end r2) eqn:E2; try discriminate.
  rename c into c1, c0 into c2.
  destruct (wf_bounds G W t1 r1 L1) as [B1 B1']. specialize (B1' c1 E1).
  destruct (wf_bounds G W t2 r2 L2) as [B2 B2']. specialize (B2' c2 E2).
  apply orb_prop in D4. destruct D4 as [D4|D4]; [apply orb_prop in D4; destruct D4 as [D4|D4]|].
  - apply andb_prop in D4. destruct D4 as [_ D4]. apply Z.ltb_lt. assumption.
  - apply existsb_exists in D4. destruct D4 as ([e [|v]] & Hin & H); cbn [fst snd] in H; [discriminate|].
    apply andb_prop in H. destruct H as [H1 H2]. apply Z.eqb_eq in H1. subst v.
    destruct (wf_reads G W t2 r2 e (Ver c1) L2 Hin) as [_ Hv]. specialize (Hv I2).
    pose proof (ver_at_le G e (h_start r2) (proj1 B2)). lia.
  - apply existsb_exists in D4. destruct D4 as ([e [|v]] & Hin & H); cbn [fst snd] in H; [discriminate|].
    apply andb_prop in H. destruct H as [H1 H2]. apply Z.ltb_lt in H1. apply mem_In in H2.
    destruct (wf_reads G W t1 r1 e (Ver v) L1 Hin) as [Hrs Hv].
    assert (V : v = ver_at G e (h_start r1)) by (apply Hv; rewrite I1; discriminate).
    destruct (Z_lt_le_dec c1 c2) as [|Hge]; [assumption|exfalso].
    assert (c2 <> c1).
    { intro X. subst c2. apply D1. eapply (wf_uniq G W); eassumption. }
    destruct (Z_le_gt_dec c2 (h_start r1)) as [Hle|Hgt].
    + pose proof (ver_at_ub G e (h_start r1) t2 r2 c2 (lookup_In_pair _ _ _ L2) E2 Hle H2). lia.
    + assert (X : inter (h_rs r1) (h_ws r2) = false).
      { apply (wf_ssi G W t1 t2 r1 r2 c1 c2); auto; lia. }
      rewrite inter_false in X. apply (X e); assumption.
Qed.

Lemma ser_deps_forward_l ops p1 p2 :
  all_serializable (hist_of ops) -> In p1 (hist_of ops) -> In p2 (hist_of ops) ->
  dep_edge p1 p2 = true -> cepoch (snd p1) < cepoch (snd p2).
Proof.
  intros AS H1 H2 D. destruct p1 as [t1 r1], p2 as [t2 r2]. cbn [snd].
  pose proof (hist_of_wf ops) as W.
  apply In_lookup in H1, H2; try apply (wf_nodup _ W).
  apply (dep_forward _ t1 t2 r1 r2 W H1 H2); [apply (AS t1 r1 H1)| |assumption].
  rewrite (AS t2 r2 H2). discriminate.
Qed.
Lemma deps_forwardb_l ops : all_serializable (hist_of ops) -> deps_forwardb (hist_of ops) = true.
Proof.
  intro AS. unfold deps_forwardb. apply forallb_forall. intros p1 H1. apply forallb_forall. intros p2 H2.
  destruct (dep_edge p1 p2) eqn:D; [|reflexivity]. cbn [negb orb]. apply Z.ltb_lt.
  apply (ser_deps_forward_l ops p1 p2); assumption.
Qed.

(** hence the dependency graph has no cycle *)
Lemma deps_In G a b :
  In (a, b) (deps G) -> exists r1 r2, In (a, r1) G /\ In (b, r2) G /\ dep_edge (a, r1) (b, r2) = true.
Proof.
  unfold deps. rewrite in_flat_map. intros ([t1 r1] & H1 & H). apply in_map_iff in H.
  destruct H as ([t2 r2] & Heq & H2). apply filter_In in H2. destruct H2 as [H2 D].
  cbn [fst] in Heq. inversion Heq. subst. eauto.
Qed.
Lemma last_cons_default (l : list Z) : forall b x y, last (b :: l) x = last (b :: l) y.
Proof.
  induction l as [|z l IH]; intros b x y; [reflexivity|].
  change (last (b :: z :: l) x) with (last (z :: l) x).
  change (last (b :: z :: l) y) with (last (z :: l) y). apply IH.
Qed.
Lemma path_forward ops : all_serializable (hist_of ops) ->
  forall l a ra, In (a, ra) (hist_of ops) -> l <> [] -> is_path (deps (hist_of ops)) a l ->
  exists rb, In (last l a, rb) (hist_of ops) /\ cepoch ra < cepoch rb.
Proof.
  intros AS. pose proof (hist_of_wf ops) as W. induction l as [|b l IH]; intros a ra Ha Hne P; [congruence|].
  cbn [is_path] in P. destruct P as [E P]. apply deps_In in E. destruct E as (r1 & r2 & H1 & H2 & D).
  assert (r1 = ra).
  { apply In_lookup in H1, Ha; try apply (wf_nodup _ W). congruence. }
  subst r1. pose proof (ser_deps_forward_l ops _ _ AS H1 H2 D) as F. cbn [snd] in F.
  destruct l as [|b' l'].
  - cbn [last]. exists r2. auto.
  - destruct (IH b r2 H2 ltac:(discriminate) P) as (rb & Hb & Hlt).
    exists rb. change (last (b :: b' :: l') a) with (last (b' :: l') a).
    rewrite (last_cons_default l' b' a b). split; [assumption|lia].
Qed.
Lemma ser_acyclic_l ops a l :
  all_serializable (hist_of ops) -> l <> [] -> is_path (deps (hist_of ops)) a l -> last l a <> a.
Proof.
  intros AS Hne P Hl. pose proof (hist_of_wf ops) as W.
  destruct l as [|b l]; [congruence|]. pose proof P as P'. cbn [is_path] in P'. destruct P' as [E _].
  apply deps_In in E. destruct E as (ra & _ & Ha & _).
  destruct (path_forward ops AS (b :: l) a ra Ha Hne P) as (rb & Hb & Hlt).
  rewrite Hl in Hb. apply In_lookup in Ha, Hb; try apply (wf_nodup _ W).
  rewrite Ha in Hb. inversion Hb. subst. lia.
Qed.

(** read-only transactions: what they read is the committed state after exactly [start] commits *)
Lemma read_only_consistent_l ops t r e v :
  lookup t (hist_of ops) = Some r -> h_iso r <> ReadCommitted -> h_ws r = [] ->
  In (e, v) (h_reads r) -> v = Ver (ver_at (hist_of ops) e (h_start r)).
Proof.
  intros L Hi Hw Hin. destruct (wf_reads _ (hist_of_wf ops) t r e v L Hin) as [_ Hv].
  destruct v as [|x]; [rewrite Hw in Hv; destruct Hv|]. rewrite (Hv Hi). reflexivity.
Qed.
(** the same for every snapshot-level transaction, for the reads that did not see an own write *)
Lemma snapshot_reads_l ops t r e x :
  lookup t (hist_of ops) = Some r -> h_iso r <> ReadCommitted ->
  In (e, Ver x) (h_reads r) -> x = ver_at (hist_of ops) e (h_start r).
Proof.
  intros L Hi Hin. destruct (wf_reads _ (hist_of_wf ops) t r e (Ver x) L Hin) as [_ Hv]. auto.
Qed.

Lemma conf_nil_sel sel G t r : sel r = [] -> conf sel G t r = false.
Proof.
  intro H. unfold conf. rewrite H. induction G as [|p G IH]; [reflexivity|]. cbn [existsb]. rewrite IH.
  destruct (negb (fst p =? t)); [|reflexivity]. cbn [andb].
  destruct (h_end (snd p)); try reflexivity. cbn [inter existsb]. rewrite andb_false_r. reflexivity.
Qed.

(** a read-only transaction is refused only in class K1 (Serializable, stale read) *)
Lemma read_only_refused_only_in_K_l pre t r :
  lookup t (hist_of pre) = Some r -> is_act r = true -> h_ws r = [] ->
  if k_ro_refused (hist_of pre) t r
  then answer pre (Commit t) = Err SerializationFailure
  else answer pre (Commit t) = OkEpoch (ncommitted (hist_of pre) + 1).
Proof.
  intros L Ha Hw. rewrite answer_spec by reflexivity. cbn [spec_out]. unfold spec_commit, k_ro_refused, is_ro.
  rewrite L. unfold is_act in Ha. destruct (h_end r); try discriminate.
  unfold ww_conf. rewrite (conf_nil_sel h_ws _ t r Hw), Hw. cbn [is_empty andb].
  destruct (iso_eqb (h_iso r) Serializable); cbn [andb]; [|reflexivity].
  destruct (rw_conf (hist_of pre) t r) eqn:R; [|rewrite andb_false_r; reflexivity].
  destruct (h_rs r) eqn:Hr; [|reflexivity].
  unfold rw_conf in R. rewrite (conf_nil_sel h_rs _ t r Hr) in R. discriminate.
Qed.

(** a transaction that overlaps no committed transaction is never refused *)
Lemma non_overlapping_never_refused_l pre t r :
  lookup t (hist_of pre) = Some r -> is_act r = true ->
  (forall t' r' c', t' <> t -> committed_at (hist_of pre) t' r' c' -> c' <= h_start r) ->
  answer pre (Commit t) = OkEpoch (ncommitted (hist_of pre) + 1).
Proof.
  intros L Ha H. rewrite answer_spec by reflexivity. cbn [spec_out]. unfold spec_commit.
  rewrite L. unfold is_act in Ha. destruct (h_end r); try discriminate.
  assert (N : forall sel, conf sel (hist_of pre) t r = false).
  { intro sel. destruct (conf sel (hist_of pre) t r) eqn:C; [|reflexivity].
    apply conf_true in C. destruct C as (t' & r' & c' & Hin & Hne & He & Hlt & _).
    apply In_lookup in Hin; [|apply (wf_nodup _ (hist_of_wf pre))].
    specialize (H t' r' c' Hne (conj Hin He)). lia. }
  unfold ww_conf, rw_conf. rewrite !N. rewrite andb_false_r. reflexivity.
Qed.
Lemma nonoverlap_ok_l ops : nonoverlap_ok [] (combine ops (outs ops)) = true.
Proof.
  apply all_events_model; [|reflexivity]. intros G o W _. unfold nonoverlap1.
  destruct o; try reflexivity. cbn [spec_out].
  destruct (spec_commit G t) eqn:S; try reflexivity.
  assert (X : match lookup t G with Some rt => negb (is_act rt && no_overlap G t rt) | None => true end = true).
  { destruct (lookup t G) as [r|] eqn:L; [|reflexivity].
    destruct (is_act r) eqn:Ha; [|reflexivity]. cbn [andb].
    destruct (no_overlap G t r) eqn:N; [|reflexivity]. exfalso.
    assert (NC : forall sel, conf sel G t r = false).
    { intro sel. destruct (conf sel G t r) eqn:C; [|reflexivity].
      apply conf_true in C. destruct C as (t' & r' & c' & Hin & Hne & He & Hlt & _).
      unfold no_overlap in N. rewrite forallb_forall in N. specialize (N _ Hin). cbn [fst snd] in N.
      apply Z.eqb_neq in Hne. rewrite Hne, He in N. cbn [orb] in N. apply Z.leb_le in N. lia. }
    unfold spec_commit in S. rewrite L in S. unfold is_act in Ha. destruct (h_end r); try discriminate.
    unfold ww_conf, rw_conf in S. rewrite !NC in S. rewrite andb_false_r in S. discriminate. }
  destruct k; try reflexivity; exact X.
Qed.

(** ** the behaviour before repair b5dad36 (first write-validation loop without the overlap
    test): the witnesses that were refuted *)
Definition w_spurious : list op :=
  [Begin SnapshotIsolation; Write 2 (ENode 1); Commit 2; Begin SnapshotIsolation; Write 3 (ENode 1); Commit 3].
Definition w_spurious_gc : list op :=
  [Begin SnapshotIsolation; Write 2 (ENode 1); Commit 2; Gc; Begin SnapshotIsolation; Write 3 (ENode 1); Commit 3].

Lemma no_spurious_refusal_pre_refuted_l :
  exists ops, ww_justified [] (combine ops (outs_pre ops)) = false /\
              nonoverlap_ok [] (combine ops (outs_pre ops)) = false.
Proof. exists w_spurious. vm_compute. split; reflexivity. Qed.
Lemma gc_transparent_pre_refuted_l :
  exists ops, nongc_outs ops (outs_pre ops) <> outs_pre (remove_gc ops).
Proof. exists w_spurious_gc. vm_compute. discriminate. Qed.

(** ** the open finding: a read-only Serializable transaction is refused *)
Definition w_ro_refused : list op :=
  [Begin Serializable; Begin SnapshotIsolation; Read 2 (ENode 42); Write 3 (ENode 42); Commit 3].
Lemma read_only_refused_refuted_l :
  exists pre t r, lookup t (hist_of pre) = Some r /\ is_act r = true /\ h_ws r = [] /\
                  answer pre (Commit t) = Err SerializationFailure /\
                  k_ro_refused (hist_of pre) t r = true.
Proof.
  exists w_ro_refused, 2. eexists. vm_compute. repeat split; reflexivity.
Qed.

(** ** the executable acyclicity test (Kahn) accepts every graph whose edges all increase a key;
    hence it accepts the dependency graph of every all-Serializable run of the model *)
Lemma filter_length_lt {A} (p : A -> bool) (l : list A) x :
  In x l -> p x = false -> (length (filter p l) < length l)%nat.
Proof.
  induction l as [|a l IH]; [intros []|]. intros [->|H] Hp; cbn [filter length].
  - rewrite Hp. pose proof (filter_length_le p l). lia.
  - specialize (IH H Hp). destruct (p a); cbn [length]; lia.
Qed.
Lemma min_key_exists (key : Z -> Z) (l : list Z) :
  l <> [] -> exists m, In m l /\ forall n, In n l -> key m <= key n.
Proof.
  induction l as [|a l IH]; [congruence|]. intros _. destruct l as [|b l].
  - exists a. split; [left; reflexivity|]. intros n [->|[]]. lia.
  - destruct (IH ltac:(discriminate)) as (m & Hm & Hmin).
    destruct (Z_le_gt_dec (key a) (key m)).
    + exists a. split; [left; reflexivity|]. intros n [->|Hn]; [lia|]. specialize (Hmin n Hn). lia.
    + exists m. split; [right; assumption|]. intros n [->|Hn]; [lia|auto].
Qed.
Lemma memZ_In k l : memZ k l = true <-> In k l.
Proof.
  unfold memZ. rewrite existsb_exists. split.
  - intros (x & H & E). apply Z.eqb_eq in E. subst. assumption.
  - intro H. exists k. split; [assumption|apply Z.eqb_refl].
Qed.
Lemma kahn_forward (key : Z -> Z) edges : forall fuel nodes,
  (forall a b, In (a, b) edges -> In a nodes -> In b nodes -> key a < key b) ->
  (length nodes < fuel)%nat -> kahn fuel nodes edges = true.
Proof.
  induction fuel as [|f IH]; intros nodes H Hf; [lia|].
  destruct nodes as [|n0 nodes0]; [reflexivity|].
  remember (n0 :: nodes0) as nodes eqn:En.
  assert (Hne : nodes <> []) by (rewrite En; discriminate). clear En.
  cbn [kahn].
  set (live := filter (fun e => memZ (fst e) nodes && memZ (snd e) nodes) edges).
  set (nodes' := filter (fun n => existsb (fun e => snd e =? n) live) nodes).
  destruct (min_key_exists key nodes Hne) as (m & Hm & Hmin).
  assert (Pm : existsb (fun e => snd e =? m) live = false).
  { destruct (existsb (fun e => snd e =? m) live) eqn:X; [|reflexivity]. exfalso.
    apply existsb_exists in X. destruct X as ([a b] & Hl & Hb). cbn [snd] in Hb. apply Z.eqb_eq in Hb. subst b.
    unfold live in Hl. apply filter_In in Hl. destruct Hl as [He Hab]. cbn [fst snd] in Hab.
    apply andb_prop in Hab. destruct Hab as [Ha Hb]. apply memZ_In in Ha, Hb.
    specialize (H a m He Ha Hb). specialize (Hmin a Ha). lia. }
  pose proof (filter_length_lt (fun n => existsb (fun e => snd e =? n) live) nodes m Hm Pm) as LT.
  fold nodes' in LT.
  assert (NE : (length nodes' =? length nodes)%nat = false) by (apply Nat.eqb_neq; lia).
  rewrite NE. apply IH; [|lia].
  intros a b He Ha Hb. unfold nodes' in Ha, Hb. apply filter_In in Ha, Hb. apply H; tauto.
Qed.

Definition hkey (G : hist) (t : Z) : Z := match lookup t G with Some r => cepoch r | None => 0 end.
Lemma acyclicb_l ops : all_serializable (hist_of ops) -> acyclicb (hist_of ops) = true.
Proof.
  intro AS. unfold acyclicb. apply (kahn_forward (hkey (hist_of ops))); [|lia].
  intros a b He _ _. apply deps_In in He. destruct He as (r1 & r2 & H1 & H2 & D).
  pose proof (ser_deps_forward_l ops _ _ AS H1 H2 D) as F. cbn [snd] in F.
  pose proof (wf_nodup _ (hist_of_wf ops)) as ND.
  unfold hkey. rewrite (In_lookup _ _ _ ND H1), (In_lookup _ _ _ ND H2). assumption.
Qed.

Lemma all_serializableb_sound G : all_serializableb G = true -> all_serializable G.
Proof.
  intros H t r L. apply lookup_In_pair in L. unfold all_serializableb in H.
  rewrite forallb_forall in H. specialize (H _ L). cbn [snd] in H. apply iso_eqb_eq. assumption.
Qed.

Lemma model_refines_spec_l ops :
  nongc_outs ops (outs ops) = snd (spec_run [] (remove_gc ops)) /\
  hist_of ops = fst (spec_run [] (remove_gc ops)).
Proof. split; [apply outs_spec|apply hist_of_spec]. Qed.
Lemma oracle_c03_sound_l ops :
  fcw_okb (hist_of ops) = true /\ ww_justified [] (combine ops (outs ops)) = true /\
  stale_refused [] (combine ops (outs ops)) = true /\ epochs_ok [] (combine ops (outs ops)) = true /\
  conforms [] (combine ops (outs ops)) = true.
Proof.
  repeat split; [apply fcw_oracle_l|apply ww_justified_l|apply stale_refused_l|apply epochs_ok_l|apply conforms_l].
Qed.
Lemma oracle_c04_sound_l ops :
  sf_justified [] (combine ops (outs ops)) = true /\ stale_refused [] (combine ops (outs ops)) = true /\
  nonoverlap_ok [] (combine ops (outs ops)) = true /\
  (all_serializable (hist_of ops) ->
   deps_forwardb (hist_of ops) = true /\ acyclicb (hist_of ops) = true /\ view_okb (hist_of ops) = true).
Proof.
  split; [apply sf_justified_l|]. split; [apply stale_refused_l|]. split; [apply nonoverlap_ok_l|].
  intro AS. split; [apply deps_forwardb_l; assumption|]. split; [apply acyclicb_l; assumption|apply view_okb_l; assumption].
Qed.
