(** C04 — [ser_final]: for Serializable transactions the multi-version execution and the serial
    execution in commit order produce the same database after every commit. *)
From Coq Require Import ZArith List Bool Lia.
From GV Require Import Tm.Model Tm.Spec Tm.AL Tm.SpecProofs Tm.Refine Tm.Proofs Tm.Data.
Import ListNotations.
Open Scope Z_scope.

Lemma committer_spec G k t r :
  committer G k = Some (t, r) -> In (t, r) G /\ h_end r = HCommitted k.
Proof.
  unfold committer. intro H. apply find_some in H. destruct H as [H1 H2]. cbn [snd] in H2.
  split; [assumption|]. destruct (h_end r); try discriminate. apply Z.eqb_eq in H2. congruence.
Qed.

Section ValuesP.
  Variable V : Type.
  Variable init : entity -> V.
  Variable prog : Z -> entity -> (entity -> V) -> V.
  Notation ser := (ser_db V init prog).
  Notation mvs := (mv_dbs V init prog).
  Notation mv := (mv_db V init prog).

  Lemma mv_dbs_length G n : length (mvs G n) = S n.
  Proof.
    induction n as [|m IH]; [reflexivity|]. cbn [mv_dbs].
    destruct (committer G (Z.of_nat (S m))) as [[t r]|]; cbn [length]; rewrite IH; reflexivity.
  Qed.
  Lemma mv_dbs_tl G m : tl (mvs G (S m)) = mvs G m.
  Proof. cbn [mv_dbs]. destruct (committer G (Z.of_nat (S m))) as [[t r]|]; reflexivity. Qed.
  (** the list really is [db_n; ...; db_0] *)
  Lemma mv_dbs_nth G n : forall j, (j <= n)%nat -> nth (n - j) (mvs G n) init = mv G j.
  Proof.
    induction n as [|m IH]; intros j Hj.
    - assert (j = O) by lia. subst j. reflexivity.
    - destruct (Nat.eq_dec j (S m)) as [->|Hne].
      + rewrite Nat.sub_diag. unfold mv_db. destruct (mvs G (S m)); reflexivity.
      + replace (S m - j)%nat with (S (m - j)) by lia.
        pose proof (mv_dbs_tl G m) as T. destruct (mvs G (S m)) as [|d l] eqn:E.
        * pose proof (mv_dbs_length G (S m)) as L. rewrite E in L. discriminate.
        * cbn [tl] in T. subst l. cbn [nth]. apply IH. lia.
  Qed.

  (** no committer in (a, b] writes [x] => the serial state at [x] does not change *)
  Lemma ser_db_stable G x : forall b a, (a <= b)%nat ->
    (forall j t r, (a < j <= b)%nat -> committer G (Z.of_nat j) = Some (t, r) -> ~ In x (h_ws r)) ->
    ser G a x = ser G b x.
  Proof.
    induction b as [|m IH]; intros a Hab H.
    - assert (a = O) by lia. subst a. reflexivity.
    - destruct (Nat.eq_dec a (S m)) as [->|Hne]; [reflexivity|].
      rewrite (IH a) by (try lia; intros j t r Hj; apply H; lia).
      cbn [ser_db]. destruct (committer G (Z.of_nat (S m))) as [[t r]|] eqn:C; [|reflexivity].
      unfold install. destruct (mem x (h_ws r)) eqn:M; [|reflexivity].
      exfalso. apply (H (S m) t r); [lia|assumption|apply mem_In; assumption].
  Qed.

  Lemma ser_final_wf G :
    wfH G -> all_serializable G -> reads_determine_writes V prog G ->
    forall n, (n <= Z.to_nat (ncommitted G))%nat -> forall j e, (j <= n)%nat -> mv G j e = ser G j e.
  Proof.
    intros W AS RD. induction n as [|m IH]; intros Hn j e Hj.
    - assert (j = O) by lia. subst j. reflexivity.
    - destruct (Nat.eq_dec j (S m)) as [->|Hne]; [|apply IH; lia].
      unfold mv_db. cbn [mv_dbs ser_db]. fold (mv G m).
      destruct (committer G (Z.of_nat (S m))) as [[t r]|] eqn:C; cbn [hd].
      2:{ apply IH; lia. }
      unfold install. destruct (mem e (h_ws r)); [|apply IH; lia].
      apply committer_spec in C. destruct C as [Hin He].
      pose proof (In_lookup _ _ _ (wf_nodup G W) Hin) as L.
      destruct (wf_bounds G W t r L) as [B1 B2]. specialize (B2 _ He).
      assert (Hs : (Z.to_nat (h_start r) <= m)%nat) by lia.
      rewrite (mv_dbs_nth G m _ Hs).
      apply (RD t r L). intros x Hx.
      rewrite (IH ltac:(lia) (Z.to_nat (h_start r)) x Hs).
      apply ser_db_stable; [assumption|].
      intros j' t' r' Hj' C'. apply committer_spec in C'. destruct C' as [Hin' He'].
      pose proof (In_lookup _ _ _ (wf_nodup G W) Hin') as L'.
      assert (Hne : t <> t').
      { intro X. subst t'. rewrite L in L'. inversion L'. subst r'. rewrite He in He'. inversion He'. lia. }
      assert (X : inter (h_rs r) (h_ws r') = false).
      { apply (wf_ssi G W t t' r r' (Z.of_nat (S m)) (Z.of_nat j')); auto; try lia. apply (AS t r L). }
      rewrite inter_false in X. intro Hw. apply (X x); assumption.
  Qed.

  Lemma ser_final_l ops :
    all_serializable (hist_of ops) -> reads_determine_writes V prog (hist_of ops) ->
    forall n e, (n <= Z.to_nat (ncommitted (hist_of ops)))%nat ->
                mv (hist_of ops) n e = ser (hist_of ops) n e.
  Proof.
    intros AS RD n e Hn. apply (ser_final_wf _ (hist_of_wf ops) AS RD n Hn n e). lia.
  Qed.
End ValuesP.
