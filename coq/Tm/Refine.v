(** C03 / C04 — the model of the transaction manager (tables + garbage collection) refines the
    specification machine (history + abstract commit rule): [Inv] is the simulation relation
    "the tables agree with the history on every transaction that can still matter". *)
From Coq Require Import ZArith List Bool Lia.
From GV Require Import Tm.Model Tm.Spec Tm.AL Tm.SpecProofs.
Import ListNotations.
Open Scope Z_scope.

(** table entry [i] of transaction [t] agrees with its history record [r] *)
Definition rel (s : st) (t : Z) (i : txinfo) (r : hrec) : Prop :=
  t_iso i = h_iso r /\ t_start i = h_start r /\ t_ws i = h_ws r /\ t_rs i = h_rs r /\
  match t_state i with
  | Active => h_end r = HActive /\ lookup t (committed s) = None
  | Committed => exists c, h_end r = HCommitted c /\ lookup t (committed s) = Some c
  | Aborted => h_end r = HAborted /\ lookup t (committed s) = None
  end.

Record Inv (s : st) (G : hist) : Prop := {
  inv_wf : wfH G;
  inv_epoch : epoch s = ncommitted G;
  inv_next : next s = 2 + Z.of_nat (length G);
  inv_nd_txs : NoDup (keys (txs s));
  inv_nd_com : NoDup (keys (committed s));
  inv_rel : forall t i, lookup t (txs s) = Some i -> exists r, lookup t G = Some r /\ rel s t i r;
  inv_com : forall t c, lookup t (committed s) = Some c -> exists i, lookup t (txs s) = Some i;
  (** [gc_keeps_needed]: a transaction that has left the table is finished, and if it
      committed, it did so no later than the start of every transaction that is still active *)
  inv_gone : forall t r, lookup t G = Some r -> lookup t (txs s) = None ->
      is_act r = false /\
      forall c, h_end r = HCommitted c ->
                forall a ra, lookup a G = Some ra -> is_act ra = true -> c <= h_start ra
}.

Lemma Inv_init : Inv init [].
Proof.
  constructor; [apply wfH_nil|reflexivity|reflexivity|constructor|constructor| | |]; cbn; intros; discriminate.
Qed.

Lemma rel_act s t i r : rel s t i r -> (t_state i = Active <-> is_act r = true).
Proof.
  intros (_ & _ & _ & _ & H). unfold is_act. destruct (t_state i).
  - destruct H as [-> _]. tauto.
  - destruct H as (c & -> & _). split; discriminate.
  - destruct H as [-> _]. split; discriminate.
Qed.
Lemma tstate_neq_active x : negb (tstate_eqb x Active) = false <-> x = Active.
Proof. destruct x; cbn; split; congruence. Qed.

(** keys of the table are keys of the history *)
Lemma inv_txs_keys s G t : Inv s G -> In t (keys (txs s)) -> 2 <= t < next s.
Proof.
  intros I H. apply In_keys_lookup in H. destruct H as (i & L).
  destruct (inv_rel s G I t i L) as (r & Lr & _).
  rewrite (inv_next s G I). apply (wf_keys G (inv_wf s G I)). eapply lookup_In_keys. eassumption.
Qed.
Lemma inv_fresh_txs s G : Inv s G -> ~ In (next s) (keys (txs s)).
Proof. intros I H. apply (inv_txs_keys s G _ I) in H. lia. Qed.
Lemma inv_fresh_G s G : Inv s G -> lookup (next s) G = None.
Proof.
  intros I. apply lookup_None_keys. intro H. apply (wf_keys G (inv_wf s G I)) in H.
  rewrite (inv_next s G I) in H. lia.
Qed.

(** the answer to an op on a transaction that is not Active *)
Lemma inactive_spec s G t :
  Inv s G ->
  match lookup t (txs s) with
  | None => True
  | Some i => negb (tstate_eqb (t_state i) Active) = true
  end -> active_in G t = false.
Proof.
  intros I H. unfold active_in. destruct (lookup t G) as [r|] eqn:Lr; [|reflexivity].
  destruct (lookup t (txs s)) as [i|] eqn:Li.
  - destruct (inv_rel s G I t i Li) as (r0 & Lr0 & R). rewrite Lr in Lr0. inversion Lr0. subst r0.
    destruct (is_act r) eqn:A; [|reflexivity].
    apply (rel_act _ _ _ _ R) in A. rewrite A in H. discriminate.
  - apply (inv_gone s G I t r Lr Li).
Qed.

(** *** updating the entry of one Active transaction (write, read, abort) *)
Lemma inv_upd_txs s G t i r (f : txinfo -> txinfo) (g : hrec -> hrec) :
  Inv s G -> lookup t (txs s) = Some i -> lookup t G = Some r -> t_state i = Active ->
  wfH (upd t g G) -> ncommitted (upd t g G) = ncommitted G ->
  t_iso (f i) = h_iso (g r) -> t_start (f i) = h_start (g r) -> t_ws (f i) = h_ws (g r) ->
  t_rs (f i) = h_rs (g r) -> h_start (g r) = h_start r ->
  ((t_state (f i) = Active /\ h_end (g r) = HActive) \/ (t_state (f i) = Aborted /\ h_end (g r) = HAborted)) ->
  Inv (with_txs s (upd t f (txs s))) (upd t g G).
Proof.
  intros I Li Lr Ha W NC E1 E2 E3 E4 Hs Hst.
  destruct (inv_rel s G I t i Li) as (r0 & Lr0 & R). rewrite Lr in Lr0. inversion Lr0. subst r0.
  destruct R as (_ & _ & _ & _ & R5). rewrite Ha in R5. destruct R5 as [Hend Lc].
  constructor; cbn [with_txs txs committed epoch next].
  - assumption.
  - rewrite NC. apply (inv_epoch s G I).
  - rewrite length_upd. apply (inv_next s G I).
  - rewrite keys_upd. apply (inv_nd_txs s G I).
  - apply (inv_nd_com s G I).
  - intros t' i'. rewrite !lookup_upd. destruct (t' =? t) eqn:E.
    + apply Z.eqb_eq in E. subst t'. rewrite Li, Lr. cbn [option_map]. intro H. inversion H. subst i'.
      exists (g r). split; [reflexivity|]. unfold rel. cbn [committed].
      repeat (split; [assumption|]).
      destruct Hst as [[-> ->]|[-> ->]]; auto.
    + intro L'. destruct (inv_rel s G I t' i' L') as (r' & Lr' & R'). exists r'. split; assumption.
  - intros t' c L'. destruct (inv_com s G I t' c L') as (i' & Li').
    rewrite lookup_upd. destruct (t' =? t) eqn:E; [|eauto].
    apply Z.eqb_eq in E. subst t'. rewrite Li. cbn. eauto.
  - intros t' r'. rewrite !lookup_upd. destruct (t' =? t) eqn:E.
    + apply Z.eqb_eq in E. subst t'. rewrite Li. cbn. discriminate.
    + intros L' Ln. destruct (inv_gone s G I t' r' L' Ln) as [G1 G2]. split; [assumption|].
      intros c Hc a ra. rewrite lookup_upd. destruct (a =? t) eqn:Ea.
      * apply Z.eqb_eq in Ea. subst a. rewrite Lr. cbn [option_map]. intro X. inversion X. subst ra.
        intros _. rewrite Hs. apply (G2 c Hc t r Lr). unfold is_act. rewrite Hend. reflexivity.
      * intros La Hact. apply (G2 c Hc a ra La Hact).
Qed.

Lemma record_write_refines s G t e :
  Inv s G ->
  snd (record (add_write e) s t) = spec_out G (Write t e) /\
  Inv (fst (record (add_write e) s t)) (hstep G (Write t e) (spec_out G (Write t e))).
Proof.
  intros I. unfold record. cbn [spec_out].
  destruct (lookup t (txs s)) as [i|] eqn:Li.
  - destruct (negb (tstate_eqb (t_state i) Active)) eqn:Ha.
    + rewrite (inactive_spec s G t I) by (rewrite Li; assumption). cbn [fst snd hstep]. auto.
    + apply tstate_neq_active in Ha.
      destruct (inv_rel s G I t i Li) as (r & Lr & R).
      assert (A : active_in G t = true).
      { unfold active_in. rewrite Lr. apply (rel_act _ _ _ _ R). assumption. }
      rewrite A. cbn [fst snd hstep]. split; [reflexivity|].
      pose proof (hstep_wf G (Write t e) (inv_wf s G I)) as W.
      pose proof (hstep_ncommitted G (Write t e) (inv_wf s G I)) as NC.
      cbn [hstep spec_out] in W, NC. rewrite A in W, NC.
      destruct R as (R1 & R2 & R3 & R4 & R5).
      eapply inv_upd_txs; try eassumption; cbn [add_write h_add_write t_iso t_start t_ws t_rs t_state h_iso h_start h_ws h_rs h_end];
        try congruence.
      left. rewrite Ha in R5. split; [assumption|tauto].
  - rewrite (inactive_spec s G t I) by (rewrite Li; exact Logic.I). cbn [fst snd hstep]. auto.
Qed.

Lemma record_read_refines s G t e :
  Inv s G ->
  snd (record (add_read e) s t) = spec_out G (Read t e) /\
  Inv (fst (record (add_read e) s t)) (hstep G (Read t e) (spec_out G (Read t e))).
Proof.
  intros I. unfold record. cbn [spec_out].
  destruct (lookup t (txs s)) as [i|] eqn:Li.
  - destruct (negb (tstate_eqb (t_state i) Active)) eqn:Ha.
    + rewrite (inactive_spec s G t I) by (rewrite Li; assumption). cbn [fst snd hstep]. auto.
    + apply tstate_neq_active in Ha.
      destruct (inv_rel s G I t i Li) as (r & Lr & R).
      assert (A : active_in G t = true).
      { unfold active_in. rewrite Lr. apply (rel_act _ _ _ _ R). assumption. }
      rewrite A. cbn [fst snd hstep]. split; [reflexivity|].
      pose proof (hstep_wf G (Read t e) (inv_wf s G I)) as W.
      pose proof (hstep_ncommitted G (Read t e) (inv_wf s G I)) as NC.
      cbn [hstep spec_out] in W, NC. rewrite A in W, NC.
      destruct R as (R1 & R2 & R3 & R4 & R5).
      eapply inv_upd_txs; try eassumption; cbn [add_read h_add_read t_iso t_start t_ws t_rs t_state h_iso h_start h_ws h_rs h_end];
        try congruence.
      left. rewrite Ha in R5. split; [assumption|tauto].
  - rewrite (inactive_spec s G t I) by (rewrite Li; exact Logic.I). cbn [fst snd hstep]. auto.
Qed.

Lemma abort_refines s G t :
  Inv s G ->
  snd (abort s t) = spec_out G (Abort t) /\
  Inv (fst (abort s t)) (hstep G (Abort t) (spec_out G (Abort t))).
Proof.
  intros I. unfold abort. cbn [spec_out].
  destruct (lookup t (txs s)) as [i|] eqn:Li.
  - destruct (negb (tstate_eqb (t_state i) Active)) eqn:Ha.
    + rewrite (inactive_spec s G t I) by (rewrite Li; assumption). cbn [fst snd hstep]. auto.
    + apply tstate_neq_active in Ha.
      destruct (inv_rel s G I t i Li) as (r & Lr & R).
      assert (A : active_in G t = true).
      { unfold active_in. rewrite Lr. apply (rel_act _ _ _ _ R). assumption. }
      rewrite A. cbn [fst snd hstep]. split; [reflexivity|].
      pose proof (hstep_wf G (Abort t) (inv_wf s G I)) as W.
      pose proof (hstep_ncommitted G (Abort t) (inv_wf s G I)) as NC.
      cbn [hstep spec_out] in W, NC. rewrite A in W, NC.
      destruct R as (R1 & R2 & R3 & R4 & R5).
      eapply inv_upd_txs; try eassumption; cbn [set_state h_set_end t_iso t_start t_ws t_rs t_state h_iso h_start h_ws h_rs h_end];
        try congruence.
      right. split; reflexivity.
  - rewrite (inactive_spec s G t I) by (rewrite Li; exact Logic.I). cbn [fst snd hstep]. auto.
Qed.

(** *** begin *)
Lemma begin_refines s G i :
  Inv s G ->
  snd (begin s i) = spec_out G (Begin i) /\
  Inv (fst (begin s i)) (hstep G (Begin i) (spec_out G (Begin i))).
Proof.
  intros I. unfold begin. cbn [fst snd spec_out hstep].
  rewrite <- (inv_next s G I). split; [reflexivity|].
  rewrite (ins_fresh _ _ _ (inv_fresh_txs s G I)).
  pose proof (hstep_wf G (Begin i) (inv_wf s G I)) as W. cbn [hstep spec_out] in W.
  rewrite <- (inv_next s G I) in W.
  assert (FC : lookup (next s) (committed s) = None).
  { destruct (lookup (next s) (committed s)) as [c|] eqn:Lc; [|reflexivity].
    destruct (inv_com s G I _ _ Lc) as (i0 & Li0). apply lookup_In_keys in Li0.
    exfalso. apply (inv_fresh_txs s G I). assumption. }
  constructor; cbn [txs committed epoch next].
  - assumption.
  - rewrite ncommitted_cons. cbn [snd is_comm h_end]. rewrite (inv_epoch s G I). lia.
  - cbn [length]. rewrite (inv_next s G I). lia.
  - cbn [keys map fst]. constructor; [apply (inv_fresh_txs s G I)|apply (inv_nd_txs s G I)].
  - apply (inv_nd_com s G I).
  - intros t i0. cbn [lookup]. destruct (next s =? t) eqn:E.
    + apply Z.eqb_eq in E. subst t. intro H. inversion H. subst i0.
      eexists. split; [reflexivity|]. unfold rel. cbn [t_iso t_start t_ws t_rs t_state h_iso h_start h_ws h_rs h_end committed].
      repeat split; try reflexivity; try assumption. apply (inv_epoch s G I).
    + intro L. destruct (inv_rel s G I t i0 L) as (r & Lr & R). exists r. split; assumption.
  - intros t c L. cbn [lookup]. destruct (next s =? t); [eauto|]. apply (inv_com s G I t c L).
  - intros t r. cbn [lookup]. destruct (next s =? t) eqn:E; [discriminate|].
    intros L Ln. destruct (inv_gone s G I t r L Ln) as [G1 G2]. split; [assumption|].
    intros c Hc a ra. destruct (next s =? a) eqn:Ea.
    + intro X. inversion X. subst ra. cbn [h_start]. intros _.
      destruct (wf_bounds G (inv_wf s G I) t r L) as [_ B]. specialize (B c Hc). lia.
    + intros La Hact. apply (G2 c Hc a ra La Hact).
Qed.

(** *** abort_all_active *)
Lemma abort_all_refines s G :
  Inv s G ->
  snd (abort_all s) = spec_out G AbortAll /\
  Inv (fst (abort_all s)) (hstep G AbortAll (spec_out G AbortAll)).
Proof.
  intros I. unfold abort_all. cbn [fst snd spec_out hstep]. split; [reflexivity|].
  pose proof (hstep_wf G AbortAll (inv_wf s G I)) as W.
  pose proof (hstep_ncommitted G AbortAll (inv_wf s G I)) as NC. cbn [hstep spec_out] in W, NC.
  set (g1 := fun i => if tstate_eqb (t_state i) Active then set_state Aborted i else i).
  set (g2 := fun r => if is_act r then h_set_end HAborted r else r).
  constructor; cbn [with_txs txs committed epoch next].
  - assumption.
  - rewrite NC. apply (inv_epoch s G I).
  - rewrite map_length. apply (inv_next s G I).
  - rewrite (keys_map_vals g1). apply (inv_nd_txs s G I).
  - apply (inv_nd_com s G I).
  - intros t i. rewrite (lookup_map_vals g1), (lookup_map_vals g2).
    destruct (lookup t (txs s)) as [i0|] eqn:Li; cbn [option_map]; [|discriminate].
    intro H. inversion H. subst i. destruct (inv_rel s G I t i0 Li) as (r & Lr & R).
    rewrite Lr. cbn [option_map]. eexists. split; [reflexivity|].
    pose proof (rel_act _ _ _ _ R) as RA.
    destruct R as (R1 & R2 & R3 & R4 & R5). unfold g1, g2, rel. cbn [committed].
    destruct (t_state i0) eqn:St; cbn [tstate_eqb].
    + assert (A : is_act r = true) by (apply RA; reflexivity). rewrite A.
      cbn [set_state h_set_end t_iso t_start t_ws t_rs t_state h_iso h_start h_ws h_rs h_end].
      repeat (split; [assumption|]). split; [reflexivity|tauto].
    + assert (A : is_act r = false) by (destruct (is_act r); [|reflexivity]; destruct RA as [_ RA]; discriminate (RA eq_refl)).
      rewrite A, St. repeat (split; [assumption|]). assumption.
    + assert (A : is_act r = false) by (destruct (is_act r); [|reflexivity]; destruct RA as [_ RA]; discriminate (RA eq_refl)).
      rewrite A, St. repeat (split; [assumption|]). assumption.
  - intros t c L. destruct (inv_com s G I t c L) as (i & Li).
    rewrite (lookup_map_vals g1), Li. cbn. eauto.
  - intros t r'. rewrite (lookup_map_vals g1), (lookup_map_vals g2).
    destruct (lookup t G) as [r|] eqn:Lr; cbn [option_map]; [|discriminate].
    intro H. inversion H. subst r'. destruct (lookup t (txs s)) as [i|] eqn:Li; cbn [option_map]; [discriminate|].
    intros _. destruct (inv_gone s G I t r Lr Li) as [G1 G2]. unfold g2. rewrite G1. split; [assumption|].
    intros c Hc a ra. rewrite (lookup_map_vals g2).
    destruct (lookup a G) as [ra0|]; cbn [option_map]; [|discriminate].
    intro X. inversion X. subst ra. unfold g2, is_act.
    destruct (h_end ra0) eqn:E; cbn [h_set_end h_end]; rewrite ?E; discriminate.
Qed.

(** *** commit: the four loops of the model against the abstract rule *)

(** "some other table entry is Committed with a recorded epoch later than [start] and wrote an
    entity of [X]" *)
Definition MConf (s : st) (t start : Z) (X : list entity) : Prop :=
  exists o oi ce, lookup o (txs s) = Some oi /\ o <> t /\ t_state oi = Committed /\
                  lookup o (committed s) = Some ce /\ start < ce /\ inter X (t_ws oi) = true.

Lemma committed_has_epoch s G o oi :
  Inv s G -> lookup o (txs s) = Some oi -> t_state oi = Committed ->
  exists ce, lookup o (committed s) = Some ce.
Proof.
  intros I L H. destruct (inv_rel s G I o oi L) as (r & _ & R).
  destruct R as (_ & _ & _ & _ & R5). rewrite H in R5. destruct R5 as (c & _ & Lc). eauto.
Qed.
Lemma epoch_has_committed s G o ce :
  Inv s G -> lookup o (committed s) = Some ce ->
  exists oi, lookup o (txs s) = Some oi /\ t_state oi = Committed.
Proof.
  intros I L. destruct (inv_com s G I o ce L) as (oi & Li). exists oi. split; [assumption|].
  destruct (inv_rel s G I o oi Li) as (r & _ & R). destruct R as (_ & _ & _ & _ & R5).
  destruct (t_state oi); [destruct R5 as [_ X]; congruence|reflexivity|destruct R5 as [_ X]; congruence].
Qed.

Lemma ww1_iff s G t start ws :
  Inv s G -> (ww1 true s t start ws = true <-> MConf s t start ws).
Proof.
  intros I. unfold ww1, MConf. rewrite existsb_exists. split.
  - intros ([o oi] & Hin & H). cbn [fst snd] in H.
    apply andb_prop in H. destruct H as [H1 H]. apply andb_prop in H. destruct H as [H H4].
    apply andb_prop in H. destruct H as [H2 H3]. rewrite orb_false_r in H3.
    apply tstate_eqb_eq in H2. apply negb_true_iff, Z.eqb_neq in H1.
    apply In_lookup in Hin; [|apply (inv_nd_txs s G I)].
    destruct (committed_has_epoch s G o oi I Hin H2) as (ce & Lc). rewrite Lc in H3.
    exists o, oi, ce. apply Z.ltb_lt in H3. auto 10.
  - intros (o & oi & ce & L & Hne & Hst & Lc & Hlt & Hi). exists (o, oi).
    split; [apply lookup_In_pair; assumption|]. cbn [fst snd]. rewrite Lc, Hst, Hi.
    apply Z.eqb_neq in Hne. rewrite Hne. apply Z.ltb_lt in Hlt. rewrite Hlt. reflexivity.
Qed.
Lemma loop_com_iff s G t start X :
  Inv s G ->
  (existsb (fun p => negb (fst p =? t) && (start <? snd p) &&
      match lookup (fst p) (txs s) with Some oi => inter X (t_ws oi) | None => false end) (committed s) = true
   <-> MConf s t start X).
Proof.
  intros I. unfold MConf. rewrite existsb_exists. split.
  - intros ([o ce] & Hin & H). cbn [fst snd] in H.
    apply andb_prop in H. destruct H as [H H3]. apply andb_prop in H. destruct H as [H1 H2].
    apply negb_true_iff, Z.eqb_neq in H1. apply Z.ltb_lt in H2.
    apply In_lookup in Hin; [|apply (inv_nd_com s G I)].
    destruct (epoch_has_committed s G o ce I Hin) as (oi & Li & Hst). rewrite Li in H3.
    exists o, oi, ce. auto 10.
  - intros (o & oi & ce & L & Hne & Hst & Lc & Hlt & Hi). exists (o, ce).
    split; [apply lookup_In_pair; assumption|]. cbn [fst snd]. rewrite L, Hi.
    apply Z.eqb_neq in Hne. rewrite Hne. apply Z.ltb_lt in Hlt. rewrite Hlt. reflexivity.
Qed.
Lemma ww2_iff s G t start ws : Inv s G -> (ww2 s t start ws = true <-> MConf s t start ws).
Proof. apply loop_com_iff. Qed.
Lemma rw1_iff s G t start rs : Inv s G -> (rw1 s t start rs = true <-> MConf s t start rs).
Proof. apply loop_com_iff. Qed.
Lemma rw2_iff s G t start rs : Inv s G -> (rw2 s t start rs = true <-> MConf s t start rs).
Proof.
  intros I. unfold rw2, MConf. rewrite existsb_exists. split.
  - intros ([o oi] & Hin & H). cbn [fst snd] in H.
    apply andb_prop in H. destruct H as [H H3]. apply andb_prop in H. destruct H as [H1 H2].
    apply tstate_eqb_eq in H2. apply negb_true_iff, Z.eqb_neq in H1.
    apply existsb_exists in H3. destruct H3 as (e & He & H3).
    apply andb_prop in H3. destruct H3 as [H3 H4].
    destruct (lookup o (committed s)) as [ce|] eqn:Lc; [|discriminate].
    apply In_lookup in Hin; [|apply (inv_nd_txs s G I)].
    exists o, oi, ce. apply Z.ltb_lt in H4. repeat (split; [assumption|]).
    apply inter_true. exists e. split; [assumption|apply mem_In; assumption].
  - intros (o & oi & ce & L & Hne & Hst & Lc & Hlt & Hi). exists (o, oi).
    split; [apply lookup_In_pair; assumption|]. cbn [fst snd]. rewrite Lc, Hst.
    apply Z.eqb_neq in Hne. rewrite Hne. cbn [negb tstate_eqb andb].
    apply inter_true in Hi. destruct Hi as (e & H1 & H2).
    apply existsb_exists. exists e. split; [assumption|].
    apply mem_In in H2. rewrite H2. apply Z.ltb_lt in Hlt. rewrite Hlt. reflexivity.
Qed.

(** the table-level conflict condition is the history-level one: this is where
    [gc_keeps_needed] is used *)
Lemma MConf_conf s G t i r X :
  Inv s G -> lookup t (txs s) = Some i -> t_state i = Active -> lookup t G = Some r ->
  t_start i = h_start r ->
  (MConf s t (t_start i) X <->
   exists t' r' c', In (t', r') G /\ t' <> t /\ h_end r' = HCommitted c' /\ h_start r < c' /\
                    inter X (h_ws r') = true).
Proof.
  intros I Li Ha Lr Hs. split.
  - intros (o & oi & ce & L & Hne & Hst & Lc & Hlt & Hi).
    destruct (inv_rel s G I o oi L) as (r' & Lr' & R). destruct R as (_ & _ & R3 & _ & R5).
    rewrite Hst in R5. destruct R5 as (c & He & Lc'). rewrite Lc in Lc'. inversion Lc'. subst c.
    exists o, r', ce. split; [apply lookup_In_pair; assumption|]. rewrite <- R3, <- Hs. auto.
  - intros (t' & r' & c' & Hin & Hne & He & Hlt & Hi).
    apply In_lookup in Hin; [|apply (wf_nodup G (inv_wf s G I))].
    destruct (lookup t' (txs s)) as [oi|] eqn:L.
    + destruct (inv_rel s G I t' oi L) as (r0 & Lr0 & R). rewrite Hin in Lr0. inversion Lr0. subst r0.
      destruct R as (_ & _ & R3 & _ & R5).
      destruct (t_state oi) eqn:Hst; try (destruct R5 as [X0 _]; congruence).
      destruct R5 as (c & He' & Lc). rewrite He in He'. inversion He'. subst c.
      exists t', oi, c'. rewrite R3, Hs. auto 10.
    + exfalso. destruct (inv_gone s G I t' r' Hin L) as [_ G2].
      assert (A : is_act r = true).
      { destruct (inv_rel s G I t i Li) as (r0 & Lr0 & R). rewrite Lr in Lr0. inversion Lr0. subst r0.
        apply (rel_act _ _ _ _ R). assumption. }
      specialize (G2 c' He t r Lr A). lia.
Qed.

Lemma conf_iff sel G t r :
  conf sel G t r = true <->
  exists t' r' c', In (t', r') G /\ t' <> t /\ h_end r' = HCommitted c' /\ h_start r < c' /\
                   inter (sel r) (h_ws r') = true.
Proof.
  split; [apply conf_true|].
  intros (t' & r' & c' & Hin & Hne & He & Hlt & Hi).
  destruct (conf sel G t r) eqn:C; [reflexivity|].
  rewrite (conf_false sel G t r t' r' c' C Hin Hne He Hlt) in Hi. discriminate.
Qed.

Lemma bool_eq_iff (a b : bool) : (a = true <-> b = true) -> a = b.
Proof. destruct a, b; intros [H1 H2]; try reflexivity; [symmetry; auto|auto]. Qed.

Lemma commit_refines s G t :
  Inv s G ->
  snd (commit_gen true s t) = spec_out G (Commit t) /\
  Inv (fst (commit_gen true s t)) (hstep G (Commit t) (spec_out G (Commit t))).
Proof.
  intros I. unfold commit_gen. cbn [spec_out].
  destruct (lookup t (txs s)) as [i|] eqn:Li.
  2:{ assert (S : spec_commit G t = Err InvalidState).
      { unfold spec_commit. destruct (lookup t G) as [r|] eqn:Lr; [|reflexivity].
        destruct (inv_gone s G I t r Lr Li) as [G1 _]. unfold is_act in G1.
        destruct (h_end r); [discriminate|reflexivity|reflexivity]. }
      rewrite S. cbn [fst snd hstep]. auto. }
  destruct (inv_rel s G I t i Li) as (r & Lr & R).
  destruct (negb (tstate_eqb (t_state i) Active)) eqn:Ha.
  { assert (S : spec_commit G t = Err InvalidState).
    { unfold spec_commit. rewrite Lr. destruct (h_end r) eqn:He; try reflexivity.
      assert (A : t_state i = Active) by (apply (rel_act _ _ _ _ R); unfold is_act; rewrite He; reflexivity).
      rewrite A in Ha. discriminate. }
    rewrite S. cbn [fst snd hstep]. auto. }
  apply tstate_neq_active in Ha.
  pose proof R as (R1 & R2 & R3 & R4 & R5). rewrite Ha in R5. destruct R5 as [Hend Lc].
  assert (WW : ww1 true s t (t_start i) (t_ws i) || ww2 s t (t_start i) (t_ws i) = ww_conf G t r).
  { apply bool_eq_iff. rewrite orb_true_iff, (ww1_iff s G), (ww2_iff s G) by assumption.
    unfold ww_conf. rewrite conf_iff, <- R3.
    rewrite <- (MConf_conf s G t i r (t_ws i) I Li Ha Lr R2). tauto. }
  assert (RW : rw1 s t (t_start i) (t_rs i) || rw2 s t (t_start i) (t_rs i) = rw_conf G t r).
  { apply bool_eq_iff. rewrite orb_true_iff, (rw1_iff s G), (rw2_iff s G) by assumption.
    unfold rw_conf. rewrite conf_iff, <- R4.
    rewrite <- (MConf_conf s G t i r (t_rs i) I Li Ha Lr R2). tauto. }
  unfold spec_commit. rewrite Lr, Hend, <- WW, <- RW, <- R1, <- R4, <- (inv_epoch s G I).
  destruct (ww1 true s t (t_start i) (t_ws i)) eqn:W1; cbn [orb].
  { cbn [fst snd hstep]. auto. }
  destruct (ww2 s t (t_start i) (t_ws i)) eqn:W2.
  { cbn [fst snd hstep]. auto. }
  destruct (iso_eqb (t_iso i) Serializable && negb (is_empty (t_rs i)) &&
            (rw1 s t (t_start i) (t_rs i) || rw2 s t (t_start i) (t_rs i))) eqn:SS.
  { cbn [fst snd hstep]. auto. }
  cbn [fst snd hstep]. split; [reflexivity|].
  (* the successful commit *)
  assert (SC : spec_commit G t = OkEpoch (epoch s + 1)).
  { unfold spec_commit. rewrite Lr, Hend, <- WW, <- RW, <- R1, <- R4, <- (inv_epoch s G I).
    cbn [orb]. rewrite SS. reflexivity. }
  pose proof (hstep_wf G (Commit t) (inv_wf s G I)) as W.
  pose proof (hstep_ncommitted G (Commit t) (inv_wf s G I)) as NC.
  cbn [hstep spec_out] in W, NC. rewrite SC in W, NC.
  assert (FC : ~ In t (keys (committed s))) by (apply lookup_None_keys; assumption).
  rewrite (ins_fresh _ _ _ FC).
  constructor; cbn [txs committed epoch next].
  - assumption.
  - rewrite NC. rewrite (inv_epoch s G I). reflexivity.
  - rewrite length_upd. apply (inv_next s G I).
  - rewrite keys_upd. apply (inv_nd_txs s G I).
  - cbn [keys map fst]. constructor; [assumption|apply (inv_nd_com s G I)].
  - intros t' i'. rewrite !lookup_upd. destruct (t' =? t) eqn:E.
    + apply Z.eqb_eq in E. subst t'. rewrite Li, Lr. cbn [option_map]. intro H. inversion H. subst i'.
      eexists. split; [reflexivity|]. unfold rel.
      cbn [set_state h_set_end t_iso t_start t_ws t_rs t_state h_iso h_start h_ws h_rs h_end committed lookup].
      repeat (split; [assumption|]). exists (epoch s + 1). rewrite Z.eqb_refl. auto.
    + intro L'. destruct (inv_rel s G I t' i' L') as (r' & Lr' & R'). exists r'. split; [assumption|].
      unfold rel in *. cbn [committed lookup]. rewrite Z.eqb_sym, E. exact R'.
  - intros t' c. cbn [lookup]. rewrite lookup_upd. destruct (t =? t') eqn:E.
    + apply Z.eqb_eq in E. subst t'. rewrite Z.eqb_refl, Li. cbn. eauto.
    + intro L'. destruct (inv_com s G I t' c L') as (i' & Li'). rewrite Z.eqb_sym, E. eauto.
  - intros t' r'. rewrite !lookup_upd. destruct (t' =? t) eqn:E.
    + apply Z.eqb_eq in E. subst t'. rewrite Li. cbn. discriminate.
    + intros L' Ln. destruct (inv_gone s G I t' r' L' Ln) as [G1 G2]. split; [assumption|].
      intros c Hc a ra. rewrite lookup_upd. destruct (a =? t) eqn:Ea.
      * rewrite Lr. cbn [option_map]. intro X. inversion X. cbn. discriminate.
      * intros La Hact. apply (G2 c Hc a ra La Hact).
Qed.

(** *** gc *)
Lemma min_active_start_spec (l : list (Z * txinfo)) :
  forall acc : option Z,
  match fold_left (fun (acc : option Z) (p : Z * txinfo) => if tstate_eqb (t_state (snd p)) Active then omin acc (t_start (snd p)) else acc) l acc with
  | None => acc = None /\ forall p, In p l -> t_state (snd p) <> Active
  | Some m => (forall x, acc = Some x -> m <= x) /\
              forall p, In p l -> t_state (snd p) = Active -> m <= t_start (snd p)
  end.
Proof.
  induction l as [|p l IH]; intro acc; cbn [fold_left].
  - destruct acc; [split; [intros x H; inversion H; lia|intros p []]|split; [reflexivity|intros p []]].
  - specialize (IH (if tstate_eqb (t_state (snd p)) Active then omin acc (t_start (snd p)) else acc)).
    destruct (fold_left _ l _) as [m|].
    + destruct IH as [IH1 IH2]. destruct (tstate_eqb (t_state (snd p)) Active) eqn:A.
      * split.
        -- intros x Hx. subst acc. cbn [omin] in IH1. specialize (IH1 _ eq_refl). lia.
        -- intros q [->|Hq] Hact; [|auto].
           destruct acc as [x|]; cbn [omin] in IH1; specialize (IH1 _ eq_refl); lia.
      * split; [assumption|]. intros q [->|Hq] Hact; [|auto].
        rewrite Hact in A. discriminate.
    + destruct IH as [IH1 IH2]. destruct (tstate_eqb (t_state (snd p)) Active) eqn:A.
      * destruct acc; discriminate.
      * split; [assumption|]. intros q [->|Hq]; [|auto].
        intro H. rewrite H in A. discriminate.
Qed.

Lemma memZ_keys_filter {V} (p : Z * V -> bool) (l : list (Z * V)) k :
  NoDup (keys l) ->
  existsb (Z.eqb k) (map fst (filter p l)) =
  match lookup k l with Some v => p (k, v) | None => false end.
Proof.
  intro ND. apply bool_eq_iff. rewrite existsb_exists. split.
  - intros (x & Hin & Hx). apply Z.eqb_eq in Hx. subst x.
    apply in_map_iff in Hin. destruct Hin as ([k0 v] & Hk & Hin). cbn [fst] in Hk. subst k0.
    apply filter_In in Hin. destruct Hin as [Hin Hp].
    rewrite (In_lookup _ _ _ ND Hin). assumption.
  - destruct (lookup k l) as [v|] eqn:L; [|discriminate]. intro Hp.
    exists k. split; [|apply Z.eqb_refl].
    apply in_map_iff. exists (k, v). split; [reflexivity|].
    apply filter_In. split; [apply lookup_In_pair; assumption|assumption].
Qed.

Lemma gc_refines s G : Inv s G -> Inv (fst (gc s)) G.
Proof.
  intros I. unfold gc. cbn [fst].
  set (m := min_active_start (txs s)).
  set (gone := fun k => existsb (Z.eqb k) (map fst (filter (gc_removes s m) (txs s)))).
  assert (GONE : forall k, gone k = match lookup k (txs s) with Some v => gc_removes s m (k, v) | None => false end).
  { intro k. apply memZ_keys_filter. apply (inv_nd_txs s G I). }
  assert (LT : forall k, lookup k (filter (fun p => negb (gone (fst p))) (txs s)) =
                         match lookup k (txs s) with Some v => if gone k then None else Some v | None => None end).
  { intro k. rewrite lookup_filter by apply (inv_nd_txs s G I). cbn [fst].
    destruct (lookup k (txs s)); [|reflexivity]. destruct (gone k); reflexivity. }
  assert (LC : forall k, lookup k (filter (fun p => negb (gone (fst p))) (committed s)) =
                         match lookup k (committed s) with Some v => if gone k then None else Some v | None => None end).
  { intro k. rewrite lookup_filter by apply (inv_nd_com s G I). cbn [fst].
    destruct (lookup k (committed s)); [|reflexivity]. destruct (gone k); reflexivity. }
  constructor; cbn [txs committed epoch next].
  - apply (inv_wf s G I).
  - apply (inv_epoch s G I).
  - apply (inv_next s G I).
  - apply NoDup_keys_filter, (inv_nd_txs s G I).
  - apply NoDup_keys_filter, (inv_nd_com s G I).
  - intros t i. rewrite LT. destruct (lookup t (txs s)) as [i0|] eqn:Li; [|discriminate].
    destruct (gone t) eqn:Gt; [discriminate|]. intro H. inversion H. subst i0.
    destruct (inv_rel s G I t i Li) as (r & Lr & R). exists r. split; [assumption|].
    unfold rel in *. cbn [committed]. rewrite LC, Gt.
    destruct (lookup t (committed s)); exact R.
  - intros t c. rewrite LC, LT. destruct (lookup t (committed s)) as [c0|] eqn:Lc; [|discriminate].
    destruct (gone t) eqn:Gt; [discriminate|]. intros _.
    destruct (inv_com s G I t c0 Lc) as (i & Li). rewrite Li. eauto.
  - intros t r Lr. rewrite LT. destruct (lookup t (txs s)) as [i|] eqn:Li.
    2:{ intros _. apply (inv_gone s G I t r Lr Li). }
    destruct (gone t) eqn:Gt; [|discriminate]. intros _.
    rewrite GONE, Li in Gt. unfold gc_removes in Gt. cbn [fst snd] in Gt.
    destruct (inv_rel s G I t i Li) as (r0 & Lr0 & R). rewrite Lr in Lr0. inversion Lr0. subst r0.
    destruct R as (_ & _ & _ & _ & R5).
    destruct (t_state i) eqn:St; [discriminate| |].
    + destruct R5 as (c & He & Lc). unfold is_act. rewrite He. split; [reflexivity|].
      intros c' Hc' a ra La Hact. inversion Hc'. subst c'.
      (* the active transaction [a] is in the table *)
      destruct (lookup a (txs s)) as [ia|] eqn:Lia.
      2:{ destruct (inv_gone s G I a ra La Lia) as [X _]. unfold is_act in X. congruence. }
      destruct (inv_rel s G I a ia Lia) as (ra0 & La0 & Ra). rewrite La in La0. inversion La0. subst ra0.
      pose proof (proj2 (rel_act _ _ _ _ Ra) Hact) as Aa.
      destruct Ra as (_ & Rs & _).
      pose proof (min_active_start_spec (txs s) None) as MS. fold (min_active_start (txs s)) in MS. fold m in MS.
      destruct m as [ms|].
      * rewrite Lc in Gt. apply Z.ltb_lt in Gt. destruct MS as [_ MS].
        specialize (MS (a, ia) (lookup_In_pair _ _ _ Lia) Aa). cbn [snd] in MS. lia.
      * destruct MS as [_ MS]. exfalso. apply (MS (a, ia) (lookup_In_pair _ _ _ Lia)). assumption.
    + destruct R5 as [He _]. unfold is_act. rewrite He. split; [reflexivity|discriminate].
Qed.

(** ** the refinement theorem *)
Theorem step_refines s G o :
  Inv s G ->
  (is_gc o = false -> snd (step s o) = spec_out G o) /\
  Inv (fst (step s o)) (hstep G o (spec_out G o)).
Proof.
  intro I. unfold step. destruct o as [i|t e|t e|t|t| |]; cbn [step_gen is_gc].
  - destruct (begin_refines s G i I). auto.
  - destruct (record_write_refines s G t e I). auto.
  - destruct (record_read_refines s G t e I). auto.
  - destruct (commit_refines s G t I). auto.
  - destruct (abort_refines s G t I). auto.
  - split; [discriminate|]. cbn [hstep spec_out]. apply gc_refines. assumption.
  - destruct (abort_all_refines s G I). auto.
Qed.

(** the history never depends on the answer given to [Gc] *)
Lemma hstep_gc G x : hstep G Gc x = G.
Proof. reflexivity. Qed.

Lemma step_refines_hist s G o :
  Inv s G -> hstep G o (snd (step s o)) = hstep G o (spec_out G o).
Proof.
  intro I. destruct (is_gc o) eqn:E.
  - destruct o; try discriminate. reflexivity.
  - rewrite (proj1 (step_refines s G o I) E). reflexivity.
Qed.

(** running the model from related states *)
Lemma run_refines ops : forall s G,
  Inv s G ->
  Inv (fst (run s ops)) (history_from G (combine ops (snd (run s ops)))) /\
  nongc_outs ops (snd (run s ops)) = snd (spec_run G (remove_gc ops)) /\
  history_from G (combine ops (snd (run s ops))) = fst (spec_run G (remove_gc ops)).
Proof.
  induction ops as [|o ops IH]; intros s G I.
  - cbn. auto.
  - unfold run. cbn [run_gen]. fold (step s o).
    destruct (step s o) as [s1 x] eqn:St. fold (run s1 ops).
    destruct (run s1 ops) as [s2 xs] eqn:Rn. cbn [fst snd combine].
    unfold history_from. cbn [fold_left fst snd]. fold (history_from (hstep G o x) (combine ops xs)).
    pose proof (step_refines s G o I) as [SO SI]. rewrite St in SO, SI. cbn [fst snd] in SO, SI.
    pose proof (step_refines_hist s G o I) as SH. rewrite St in SH. cbn [snd] in SH.
    rewrite SH. specialize (IH s1 _ SI). rewrite Rn in IH. cbn [fst snd] in IH.
    destruct IH as (IH1 & IH2 & IH3). split; [assumption|].
    cbn [nongc_outs remove_gc filter]. destruct (is_gc o) eqn:E; cbn [negb].
    + destruct o; try discriminate. cbn [hstep spec_out] in *. fold (remove_gc ops). auto.
    + fold (remove_gc ops). cbn [spec_run]. rewrite (SO eq_refl).
      destruct (spec_run (hstep G o (spec_out G o)) (remove_gc ops)) as [G' ys] eqn:SR.
      cbn [fst snd] in *. split; [congruence|assumption].
Qed.

(** consequences for complete runs from the initial state *)
Lemma exec_inv ops : Inv (st_after ops) (hist_of ops).
Proof.
  unfold st_after, hist_of, outs, exec, history.
  apply (run_refines ops init [] Inv_init).
Qed.
Lemma hist_of_wf ops : wfH (hist_of ops).
Proof. apply (inv_wf _ _ (exec_inv ops)). Qed.
Lemma hist_of_spec ops : hist_of ops = fst (spec_run [] (remove_gc ops)).
Proof. apply (run_refines ops init [] Inv_init). Qed.
Lemma outs_spec ops : nongc_outs ops (outs ops) = snd (spec_run [] (remove_gc ops)).
Proof. apply (run_refines ops init [] Inv_init). Qed.
