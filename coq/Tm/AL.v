(** Lemmas about the association lists and entity sets of Tm/Model.v. *)
From Coq Require Import ZArith List Bool Lia.
From GV Require Import Tm.Model.
Import ListNotations.
Open Scope Z_scope.

Lemma ent_eqb_eq a b : ent_eqb a b = true <-> a = b.
Proof.
  destruct a, b; cbn [ent_eqb]; split; intro H; try discriminate;
    try (apply Z.eqb_eq in H; congruence); try (inversion H; apply Z.eqb_refl).
Qed.
Lemma ent_eqb_refl a : ent_eqb a a = true.
Proof. apply ent_eqb_eq; reflexivity. Qed.
Lemma ent_eq_dec (a b : entity) : {a = b} + {a <> b}.
Proof. decide equality; apply Z.eq_dec. Qed.

Lemma mem_In e l : mem e l = true <-> In e l.
Proof.
  unfold mem. rewrite existsb_exists. split.
  - intros (x & Hx & He). apply ent_eqb_eq in He. subst. assumption.
  - intro H. exists e. split; [assumption|apply ent_eqb_refl].
Qed.
Lemma mem_false e l : mem e l = false <-> ~ In e l.
Proof. rewrite <- mem_In. destruct (mem e l); split; intro H; congruence. Qed.

Lemma add_In e x l : In x (add e l) <-> x = e \/ In x l.
Proof.
  unfold add. destruct (mem e l) eqn:M.
  - apply mem_In in M. split; [tauto|]. intros [->|H]; assumption.
  - cbn [In]. split; intros [H|H]; auto.
Qed.
Lemma add_nonempty e l : add e l <> [].
Proof.
  unfold add. destruct (mem e l) eqn:M; [|discriminate].
  apply mem_In in M. destruct l; [destruct M|discriminate].
Qed.
Lemma NoDup_add e l : NoDup l -> NoDup (add e l).
Proof.
  intro H. unfold add. destruct (mem e l) eqn:M; [assumption|].
  constructor; [apply mem_false; assumption|assumption].
Qed.

Lemma inter_true a b : inter a b = true <-> exists e, In e a /\ In e b.
Proof.
  unfold inter. rewrite existsb_exists. split; intros (e & H1 & H2); exists e; split; auto;
    apply mem_In; assumption.
Qed.
Lemma inter_false a b : inter a b = false <-> (forall e, In e a -> In e b -> False).
Proof.
  split.
  - intros H e H1 H2. assert (inter a b = true) by (apply inter_true; eauto). congruence.
  - intro H. destruct (inter a b) eqn:E; [|reflexivity].
    apply inter_true in E. destruct E as (e & H1 & H2). exfalso; eauto.
Qed.
Lemma inter_nil_l b : inter [] b = false.
Proof. reflexivity. Qed.
Lemma is_empty_true {A} (l : list A) : is_empty l = true <-> l = [].
Proof. destruct l; cbn; split; congruence. Qed.

Lemma tstate_eqb_eq a b : tstate_eqb a b = true <-> a = b.
Proof. destruct a, b; cbn; split; congruence. Qed.
Lemma iso_eqb_eq a b : iso_eqb a b = true <-> a = b.
Proof. destruct a, b; cbn; split; congruence. Qed.
Lemma err_eqb_eq a b : err_eqb a b = true <-> a = b.
Proof. destruct a, b; cbn; split; congruence. Qed.
Lemma out_eqb_eq a b : out_eqb a b = true <-> a = b.
Proof.
  destruct a, b; cbn [out_eqb]; try (split; congruence);
    try (rewrite Z.eqb_eq; split; congruence).
  rewrite err_eqb_eq. split; congruence.
Qed.

Section ALF.
  Context {V : Type}.
  Implicit Types (l : list (Z * V)) (k : Z) (v : V).

  Lemma lookup_In_pair k v l : lookup k l = Some v -> In (k, v) l.
  Proof.
    induction l as [|[k' v'] r IH]; cbn [lookup]; [discriminate|].
    destruct (k' =? k) eqn:E.
    - apply Z.eqb_eq in E. intro H. inversion H. subst. left; reflexivity.
    - intro H. right. auto.
  Qed.
  Lemma lookup_In_keys k v l : lookup k l = Some v -> In k (keys l).
  Proof. intro H. apply lookup_In_pair in H. apply (in_map fst) in H. exact H. Qed.
  Lemma lookup_None_keys k l : lookup k l = None <-> ~ In k (keys l).
  Proof.
    induction l as [|[k' v'] r IH]; cbn [lookup keys map fst In]; [tauto|].
    destruct (k' =? k) eqn:E.
    - apply Z.eqb_eq in E. split; [discriminate|]. intro H. exfalso. apply H. left; assumption.
    - apply Z.eqb_neq in E. unfold keys in IH. rewrite IH. tauto.
  Qed.
  Lemma In_keys_lookup k l : In k (keys l) -> exists v, lookup k l = Some v.
  Proof.
    intro H. destruct (lookup k l) eqn:E; [eauto|]. apply lookup_None_keys in E. contradiction.
  Qed.
  Lemma In_lookup k v l : NoDup (keys l) -> In (k, v) l -> lookup k l = Some v.
  Proof.
    induction l as [|[k' v'] r IH]; cbn [lookup keys map fst In]; [tauto|].
    intros ND [H|H].
    - inversion H. subst. rewrite Z.eqb_refl. reflexivity.
    - inversion ND as [|? ? Hn ND']. subst.
      destruct (k' =? k) eqn:E.
      + apply Z.eqb_eq in E. subst. exfalso. apply Hn. apply (in_map fst) in H. exact H.
      + apply IH; assumption.
  Qed.

  Lemma keys_upd k f l : keys (upd k f l) = keys l.
  Proof.
    induction l as [|[k' v'] r IH]; cbn [upd keys map fst]; [reflexivity|].
    destruct (k' =? k); cbn [map fst]; [reflexivity|]. unfold keys in IH. rewrite IH. reflexivity.
  Qed.
  Lemma length_upd k f l : length (upd k f l) = length l.
  Proof. rewrite <- (map_length fst), <- (map_length fst l). apply (f_equal (@length Z)), keys_upd. Qed.
  Lemma lookup_upd k' k f l :
    lookup k' (upd k f l) = if k' =? k then option_map f (lookup k l) else lookup k' l.
  Proof.
    induction l as [|[k0 v0] r IH]; cbn [upd lookup]; [destruct (k' =? k); reflexivity|].
    destruct (k0 =? k) eqn:E0; cbn [lookup].
    - apply Z.eqb_eq in E0. subst k0. destruct (k' =? k) eqn:E1.
      + apply Z.eqb_eq in E1. subst k'. rewrite Z.eqb_refl. reflexivity.
      + rewrite Z.eqb_sym, E1. reflexivity.
    - destruct (k0 =? k') eqn:E2.
      + apply Z.eqb_eq in E2. subst k0. rewrite E0. reflexivity.
      + exact IH.
  Qed.
  Lemma lookup_upd_same k f l : lookup k (upd k f l) = option_map f (lookup k l).
  Proof. rewrite lookup_upd, Z.eqb_refl. reflexivity. Qed.
  Lemma lookup_upd_other k' k f l : k' <> k -> lookup k' (upd k f l) = lookup k' l.
  Proof. intro H. rewrite lookup_upd. apply Z.eqb_neq in H. rewrite H. reflexivity. Qed.
  Lemma upd_absent k f l : lookup k l = None -> upd k f l = l.
  Proof.
    induction l as [|[k0 v0] r IH]; cbn [upd lookup]; [reflexivity|].
    destruct (k0 =? k); [discriminate|]. intro H. rewrite IH by assumption. reflexivity.
  Qed.

  Lemma lookup_filter (p : Z * V -> bool) k l :
    NoDup (keys l) ->
    lookup k (filter p l) = match lookup k l with
                            | Some v => if p (k, v) then Some v else None
                            | None => None end.
  Proof.
    induction l as [|[k0 v0] r IH]; cbn [filter lookup keys map fst]; [reflexivity|].
    intro ND. inversion ND as [|? ? Hn ND']. subst.
    destruct (k0 =? k) eqn:E.
    - apply Z.eqb_eq in E. subst k0. destruct (p (k, v0)) eqn:P.
      + cbn [lookup]. rewrite Z.eqb_refl. reflexivity.
      + rewrite IH by assumption.
        destruct (lookup k r) eqn:L; [|reflexivity].
        exfalso. apply Hn. eapply lookup_In_keys. exact L.
    - destruct (p (k0, v0)); [cbn [lookup]; rewrite E|]; apply IH; assumption.
  Qed.
  Lemma keys_filter_incl (p : Z * V -> bool) l k : In k (keys (filter p l)) -> In k (keys l).
  Proof.
    unfold keys. rewrite !in_map_iff. intros (x & H1 & H2). apply filter_In in H2.
    exists x. tauto.
  Qed.
  Lemma NoDup_keys_filter (p : Z * V -> bool) l : NoDup (keys l) -> NoDup (keys (filter p l)).
  Proof.
    induction l as [|[k0 v0] r IH]; cbn [filter keys map fst]; [auto|].
    intro ND. inversion ND as [|? ? Hn ND']. subst.
    destruct (p (k0, v0)); cbn [map fst]; [|apply IH; assumption].
    constructor; [|apply IH; assumption].
    intro H. apply Hn. eapply keys_filter_incl. exact H.
  Qed.

  Lemma remove_key_fresh k l : ~ In k (keys l) -> remove_key k l = l.
  Proof.
    unfold remove_key. induction l as [|[k0 v0] r IH]; cbn [filter keys map fst In]; [reflexivity|].
    intro H. destruct (k0 =? k) eqn:E.
    - apply Z.eqb_eq in E. tauto.
    - cbn [negb]. rewrite IH by tauto. reflexivity.
  Qed.
  Lemma ins_fresh k v l : ~ In k (keys l) -> ins k v l = (k, v) :: l.
  Proof. intro H. unfold ins. rewrite remove_key_fresh by assumption. reflexivity. Qed.

  Lemma lookup_map_vals (g : V -> V) k l :
    lookup k (map (fun p => (fst p, g (snd p))) l) = option_map g (lookup k l).
  Proof.
    induction l as [|[k0 v0] r IH]; cbn [map lookup fst snd]; [reflexivity|].
    destruct (k0 =? k); [reflexivity|exact IH].
  Qed.
  Lemma keys_map_vals (g : V -> V) l : keys (map (fun p => (fst p, g (snd p))) l) = keys l.
  Proof. unfold keys. rewrite map_map. cbn [fst]. reflexivity. Qed.
End ALF.

Lemma filter_length_le {A} (p : A -> bool) (l : list A) : (length (filter p l) <= length l)%nat.
Proof. induction l; cbn [filter length]; [lia|]. destruct (p a); cbn [length]; lia. Qed.
