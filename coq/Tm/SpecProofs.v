(** C03 / C04 — well-formedness of histories produced by the specification machine
    ([hstep G o (spec_out G o)]) and the facts about the abstract data layer ([ver_at]). *)
From Coq Require Import ZArith List Bool Lia.
From GV Require Import Tm.Model Tm.Spec Tm.AL.
Import ListNotations.
Open Scope Z_scope.

(** ** ncommitted *)
Lemma ncommitted_nil : ncommitted [] = 0.
Proof. reflexivity. Qed.
Lemma ncommitted_cons p G :
  ncommitted (p :: G) = (if is_comm (snd p) then 1 else 0) + ncommitted G.
Proof.
  unfold ncommitted. cbn [filter]. destruct (is_comm (snd p)); cbn [length]; lia.
Qed.
Lemma ncommitted_nonneg G : 0 <= ncommitted G.
Proof. unfold ncommitted. lia. Qed.

Lemma ncommitted_upd t f G :
  (forall r, lookup t G = Some r -> is_comm (f r) = is_comm r) ->
  ncommitted (upd t f G) = ncommitted G.
Proof.
  induction G as [|[k r] G IH]; cbn [upd lookup]; [reflexivity|].
  intro H. destruct (k =? t) eqn:E.
  - rewrite !ncommitted_cons. cbn [snd]. rewrite (H r) by reflexivity. reflexivity.
  - rewrite !ncommitted_cons. cbn [snd]. rewrite IH by assumption. reflexivity.
Qed.
Lemma ncommitted_upd_commit t c G r :
  lookup t G = Some r -> is_comm r = false ->
  ncommitted (upd t (h_set_end (HCommitted c)) G) = ncommitted G + 1.
Proof.
  induction G as [|[k r0] G IH]; cbn [upd lookup]; [discriminate|].
  destruct (k =? t) eqn:E.
  - intros H1 H2. inversion H1. subst r0. rewrite !ncommitted_cons. cbn [snd h_set_end is_comm h_end].
    rewrite H2. lia.
  - intros H1 H2. rewrite !ncommitted_cons. cbn [snd]. rewrite IH by assumption. lia.
Qed.
Lemma ncommitted_map (g : hrec -> hrec) G :
  (forall r, is_comm (g r) = is_comm r) ->
  ncommitted (map (fun p => (fst p, g (snd p))) G) = ncommitted G.
Proof.
  intro H. induction G as [|[k r] G IH]; [reflexivity|].
  cbn [map fst snd]. rewrite !ncommitted_cons. cbn [snd]. rewrite H, IH. reflexivity.
Qed.

(** ** ver_at *)
(** what one record contributes to the version of [e] after [k] commits *)
Definition contrib (e : entity) (k : Z) (r : hrec) : option Z :=
  match h_end r with
  | HCommitted c => if (c <=? k) && mem e (h_ws r) then Some c else None
  | _ => None
  end.
Lemma ver_at_cons p G e k :
  ver_at (p :: G) e k = match contrib e k (snd p) with
                        | Some c => Z.max c (ver_at G e k)
                        | None => ver_at G e k end.
Proof.
  unfold ver_at, contrib. cbn [fold_right]. destruct (h_end (snd p)); try reflexivity.
  destruct ((c <=? k) && mem e (h_ws (snd p))); reflexivity.
Qed.
Lemma ver_at_nil e k : ver_at [] e k = 0.
Proof. reflexivity. Qed.

Lemma ver_at_nonneg G e k : 0 <= ver_at G e k.
Proof.
  induction G as [|p G IH]; [rewrite ver_at_nil; lia|].
  rewrite ver_at_cons. destruct (contrib e k (snd p)); lia.
Qed.
Lemma ver_at_ub G e k t r c :
  In (t, r) G -> h_end r = HCommitted c -> c <= k -> In e (h_ws r) -> c <= ver_at G e k.
Proof.
  induction G as [|p G IH]; [intros []|].
  intros [H|H] He Hc Hm; rewrite ver_at_cons.
  - subst p. cbn [snd]. unfold contrib. rewrite He.
    apply Z.leb_le in Hc. apply mem_In in Hm. rewrite Hc, Hm. cbn [andb]. lia.
  - specialize (IH H He Hc Hm). destruct (contrib e k (snd p)); lia.
Qed.
Lemma ver_at_wit G e k :
  ver_at G e k = 0 \/
  exists t r, In (t, r) G /\ h_end r = HCommitted (ver_at G e k) /\ ver_at G e k <= k /\ In e (h_ws r).
Proof.
  induction G as [|[t r] G IH]; [left; reflexivity|].
  rewrite ver_at_cons. cbn [snd]. unfold contrib.
  destruct (h_end r) eqn:He;
    try (destruct IH as [IH|(t' & r' & H1 & H2)]; [left; assumption|right; exists t', r'; split; [right; assumption|assumption]]).
  destruct ((c <=? k) && mem e (h_ws r)) eqn:B.
  - apply andb_prop in B. destruct B as [B1 B2]. apply Z.leb_le in B1. apply mem_In in B2.
    destruct (Z.max_spec c (ver_at G e k)) as [[Hlt ->]|[Hge ->]].
    + destruct IH as [IH|(t' & r' & H1 & H2)].
      * pose proof (ver_at_nonneg G e k). left. assumption.
      * right. exists t', r'. split; [right; assumption|assumption].
    + right. exists t, r. split; [left; reflexivity|]. split; [assumption|]. split; assumption.
  - destruct IH as [IH|(t' & r' & H1 & H2)]; [left; assumption|right; exists t', r'; split; [right; assumption|assumption]].
Qed.
Lemma ver_at_le G e k : 0 <= k -> ver_at G e k <= k.
Proof.
  intro Hk. destruct (ver_at_wit G e k) as [H|(t & r & _ & _ & H & _)]; lia.
Qed.

(** no committed writer of [e] with an epoch in (k1, k2] => same version *)
Lemma ver_at_between G e k1 k2 :
  k1 <= k2 ->
  (forall t r c, In (t, r) G -> h_end r = HCommitted c -> In e (h_ws r) -> k1 < c <= k2 -> False) ->
  ver_at G e k1 = ver_at G e k2.
Proof.
  intros Hk. induction G as [|[t r] G IH]; [reflexivity|].
  intro H. rewrite !ver_at_cons. cbn [snd].
  assert (IH' : ver_at G e k1 = ver_at G e k2).
  { apply IH. intros t' r' c' Hin. apply (H t' r' c'). right; assumption. }
  assert (C : contrib e k1 r = contrib e k2 r).
  { unfold contrib. destruct (h_end r) eqn:He; try reflexivity.
    destruct (mem e (h_ws r)) eqn:M; [|rewrite !andb_false_r; reflexivity].
    rewrite !andb_true_r. apply mem_In in M.
    destruct (c <=? k1) eqn:L1, (c <=? k2) eqn:L2; try reflexivity.
    - apply Z.leb_le in L1. apply Z.leb_gt in L2. lia.
    - apply Z.leb_gt in L1. apply Z.leb_le in L2. exfalso.
      apply (H t r c); [left; reflexivity|assumption|assumption|lia]. }
  rewrite C, IH'. reflexivity.
Qed.

Lemma ver_at_upd t f G e k :
  (forall r, lookup t G = Some r -> contrib e k (f r) = contrib e k r) ->
  ver_at (upd t f G) e k = ver_at G e k.
Proof.
  induction G as [|[t0 r0] G IH]; cbn [upd lookup]; [reflexivity|].
  intro H. destruct (t0 =? t) eqn:E.
  - rewrite !ver_at_cons. cbn [snd]. rewrite (H r0) by reflexivity. reflexivity.
  - rewrite !ver_at_cons. cbn [snd]. rewrite IH by assumption. reflexivity.
Qed.
Lemma ver_at_map (g : hrec -> hrec) G e k :
  (forall r, contrib e k (g r) = contrib e k r) ->
  ver_at (map (fun p => (fst p, g (snd p))) G) e k = ver_at G e k.
Proof.
  intro H. induction G as [|[t0 r0] G IH]; [reflexivity|].
  cbn [map fst snd]. rewrite !ver_at_cons. cbn [snd]. rewrite H, IH. reflexivity.
Qed.

(** ** well-formed histories *)
Record wfH (G : hist) : Prop := {
  wf_nodup : NoDup (keys G);
  wf_keys : forall t, In t (keys G) -> 2 <= t < 2 + Z.of_nat (length G);
  wf_bounds : forall t r, lookup t G = Some r ->
      0 <= h_start r <= ncommitted G /\
      (forall c, h_end r = HCommitted c -> h_start r < c <= ncommitted G);
  wf_uniq : forall t1 t2 r1 r2 c, lookup t1 G = Some r1 -> lookup t2 G = Some r2 ->
      h_end r1 = HCommitted c -> h_end r2 = HCommitted c -> t1 = t2;
  wf_epochs : forall k, 1 <= k <= ncommitted G -> exists t r, lookup t G = Some r /\ h_end r = HCommitted k;
  wf_fcw : forall t1 t2 r1 r2 c1 c2, t1 <> t2 -> lookup t1 G = Some r1 -> lookup t2 G = Some r2 ->
      h_end r1 = HCommitted c1 -> h_end r2 = HCommitted c2 -> h_start r2 < c1 -> h_start r1 < c2 ->
      inter (h_ws r1) (h_ws r2) = false;
  wf_ssi : forall t t' r r' c c', t <> t' -> lookup t G = Some r -> lookup t' G = Some r' ->
      h_iso r = Serializable -> h_end r = HCommitted c -> h_end r' = HCommitted c' ->
      h_start r < c' -> c' < c -> inter (h_rs r) (h_ws r') = false;
  wf_reads : forall t r e v, lookup t G = Some r -> In (e, v) (h_reads r) ->
      In e (h_rs r) /\
      match v with
      | Own => In e (h_ws r)
      | Ver x => h_iso r <> ReadCommitted -> x = ver_at G e (h_start r)
      end;
  wf_rs : forall t r e, lookup t G = Some r -> In e (h_rs r) -> exists v, In (e, v) (h_reads r)
}.

Lemma wfH_nil : wfH [].
Proof.
  constructor; cbn; try discriminate; try tauto; try (intros; discriminate).
  - constructor.
  - intros k H. change (ncommitted []) with 0 in H. lia.
Qed.

Lemma inter_sym a b : inter a b = inter b a.
Proof.
  destruct (inter a b) eqn:E1, (inter b a) eqn:E2; try reflexivity.
  - apply inter_true in E1. destruct E1 as (e & H1 & H2).
    assert (inter b a = true) by (apply inter_true; eauto). congruence.
  - apply inter_true in E2. destruct E2 as (e & H1 & H2).
    assert (inter a b = true) by (apply inter_true; eauto). congruence.
Qed.

(** what [conf ... = false] says about one other committed transaction *)
Lemma conf_false sel G t r t' r' c' :
  conf sel G t r = false -> In (t', r') G -> t' <> t -> h_end r' = HCommitted c' -> h_start r < c' ->
  inter (sel r) (h_ws r') = false.
Proof.
  intros H Hin Hne He Hs. unfold conf in H.
  destruct (inter (sel r) (h_ws r')) eqn:I; [|reflexivity].
  assert (X : existsb (fun p => negb (fst p =? t) && match h_end (snd p) with
            | HCommitted c => (h_start r <? c) && inter (sel r) (h_ws (snd p)) | _ => false end) G = true).
  { apply existsb_exists. exists (t', r'). split; [assumption|]. cbn [fst snd].
    rewrite He, I. apply Z.eqb_neq in Hne. rewrite Hne. apply Z.ltb_lt in Hs. rewrite Hs. reflexivity. }
  congruence.
Qed.
Lemma conf_true sel G t r :
  conf sel G t r = true ->
  exists t' r' c', In (t', r') G /\ t' <> t /\ h_end r' = HCommitted c' /\ h_start r < c' /\
                   inter (sel r) (h_ws r') = true.
Proof.
  unfold conf. rewrite existsb_exists. intros ([t' r'] & Hin & H). cbn [fst snd] in H.
  apply andb_prop in H. destruct H as [H1 H2].
  destruct (h_end r') eqn:He; try discriminate.
  apply andb_prop in H2. destruct H2 as [H2 H3].
  exists t', r', c. repeat split; try assumption.
  - apply negb_true_iff, Z.eqb_neq in H1. assumption.
  - apply Z.ltb_lt. assumption.
Qed.

(** ** the effect of one specified step on the records *)
Inductive rstep (G : hist) (o : op) (t : Z) (r : hrec) : hrec -> Prop :=
| rs_same : rstep G o t r r
| rs_write e : is_act r = true -> rstep G o t r (h_add_write e r)
| rs_read e : is_act r = true -> rstep G o t r (h_add_read G e r)
| rs_abort : is_act r = true -> rstep G o t r (h_set_end HAborted r)
| rs_commit : is_act r = true -> o = Commit t -> spec_commit G t = OkEpoch (ncommitted G + 1) ->
              rstep G o t r (h_set_end (HCommitted (ncommitted G + 1)) r).

Lemma active_in_true G t : active_in G t = true -> exists r, lookup t G = Some r /\ is_act r = true.
Proof. unfold active_in. destruct (lookup t G); [eauto|discriminate]. Qed.

Lemma spec_commit_ok G t c :
  spec_commit G t = OkEpoch c ->
  exists r, lookup t G = Some r /\ is_act r = true /\ c = ncommitted G + 1 /\ ww_conf G t r = false /\
            (h_iso r = Serializable -> rw_conf G t r = false).
Proof.
  unfold spec_commit. destruct (lookup t G) as [r|]; [|discriminate].
  destruct (h_end r) eqn:He; try discriminate.
  destruct (ww_conf G t r) eqn:W; [discriminate|].
  destruct (iso_eqb (h_iso r) Serializable && negb (is_empty (h_rs r)) && rw_conf G t r) eqn:S; [discriminate|].
  intro H. inversion H. exists r. unfold is_act. rewrite He.
  split; [reflexivity|]. split; [reflexivity|]. split; [reflexivity|]. split; [assumption|].
  intro Hi. rewrite Hi in S. cbn [iso_eqb andb] in S.
  destruct (h_rs r) eqn:R.
  - unfold rw_conf, conf. rewrite R. cbn [inter existsb].
    clear. induction G as [|p G IH]; [reflexivity|]. cbn [existsb]. rewrite IH.
    destruct (negb (fst p =? t)); cbn [andb orb]; [|reflexivity].
    destruct (h_end (snd p)); try reflexivity. rewrite andb_false_r. reflexivity.
  - cbn [is_empty negb andb] in S. assumption.
Qed.

(** lookups after a step of the specification machine *)
Lemma hstep_lookup G o t' r' :
  wfH G -> lookup t' (hstep G o (spec_out G o)) = Some r' ->
  (exists r, lookup t' G = Some r /\ rstep G o t' r r') \/
  (lookup t' G = None /\ exists i, o = Begin i /\ t' = 2 + Z.of_nat (length G) /\
                                  r' = mkH i (ncommitted G) [] [] [] HActive).
Proof.
  intros W. destruct o as [i|t e|t e|t|t| |]; cbn [hstep spec_out].
  - cbn [lookup]. destruct (2 + Z.of_nat (length G) =? t') eqn:E.
    + apply Z.eqb_eq in E. intro H. inversion H. right. split.
      * apply lookup_None_keys. intro Hin. apply (wf_keys G W) in Hin. lia.
      * exists i. auto.
    + intro H. left. exists r'. split; [assumption|constructor].
  - destruct (active_in G t) eqn:A.
    + apply active_in_true in A. destruct A as (r & L & Ha).
      rewrite lookup_upd. destruct (t' =? t) eqn:E.
      * apply Z.eqb_eq in E. subst t'. rewrite L. cbn [option_map]. intro H. inversion H.
        left. exists r. split; [reflexivity|]. apply rs_write. assumption.
      * intro H. left. exists r'. split; [assumption|constructor].
    + intro H. left. exists r'. split; [assumption|constructor].
  - destruct (active_in G t) eqn:A.
    + apply active_in_true in A. destruct A as (r & L & Ha).
      rewrite lookup_upd. destruct (t' =? t) eqn:E.
      * apply Z.eqb_eq in E. subst t'. rewrite L. cbn [option_map]. intro H. inversion H.
        left. exists r. split; [reflexivity|]. apply rs_read. assumption.
      * intro H. left. exists r'. split; [assumption|constructor].
    + intro H. left. exists r'. split; [assumption|constructor].
  - destruct (spec_commit G t) eqn:S; try (intro H; left; exists r'; split; [assumption|constructor]).
    pose proof S as S'. apply spec_commit_ok in S'. destruct S' as (r & L & Ha & Hc & _).
    rewrite lookup_upd. destruct (t' =? t) eqn:E.
    + apply Z.eqb_eq in E. subst t'. rewrite L. cbn [option_map]. intro H. inversion H. subst c.
      left. exists r. split; [reflexivity|]. apply rs_commit; auto.
    + intro H. left. exists r'. split; [assumption|constructor].
  - destruct (active_in G t) eqn:A.
    + apply active_in_true in A. destruct A as (r & L & Ha).
      rewrite lookup_upd. destruct (t' =? t) eqn:E.
      * apply Z.eqb_eq in E. subst t'. rewrite L. cbn [option_map]. intro H. inversion H.
        left. exists r. split; [reflexivity|]. apply rs_abort. assumption.
      * intro H. left. exists r'. split; [assumption|constructor].
    + intro H. left. exists r'. split; [assumption|constructor].
  - intro H. left. exists r'. split; [assumption|constructor].
  - rewrite (lookup_map_vals (fun r => if is_act r then h_set_end HAborted r else r)).
    destruct (lookup t' G) as [r|] eqn:L; cbn [option_map]; [|discriminate].
    intro H. inversion H. left. exists r. split; [reflexivity|].
    destruct (is_act r) eqn:A; [apply rs_abort; assumption|constructor].
Qed.

(** a record that exists keeps existing *)
Lemma hstep_lookup_fwd G o t r :
  wfH G -> lookup t G = Some r -> exists r', lookup t (hstep G o (spec_out G o)) = Some r'.
Proof.
  intros W L. destruct o as [i|t0 e|t0 e|t0|t0| |]; cbn [hstep spec_out].
  - cbn [lookup]. destruct (2 + Z.of_nat (length G) =? t); eauto.
  - destruct (active_in G t0); [|eauto]. rewrite lookup_upd. rewrite L.
    destruct (t =? t0) eqn:E; [|eauto]. apply Z.eqb_eq in E. subst. rewrite L. cbn. eauto.
  - destruct (active_in G t0); [|eauto]. rewrite lookup_upd. rewrite L.
    destruct (t =? t0) eqn:E; [|eauto]. apply Z.eqb_eq in E. subst. rewrite L. cbn. eauto.
  - destruct (spec_commit G t0); eauto. rewrite lookup_upd. rewrite L.
    destruct (t =? t0) eqn:E; [|eauto]. apply Z.eqb_eq in E. subst. rewrite L. cbn. eauto.
  - destruct (active_in G t0); [|eauto]. rewrite lookup_upd. rewrite L.
    destruct (t =? t0) eqn:E; [|eauto]. apply Z.eqb_eq in E. subst. rewrite L. cbn. eauto.
  - eauto.
  - rewrite (lookup_map_vals (fun r => if is_act r then h_set_end HAborted r else r)), L. cbn. eauto.
Qed.

Lemma hstep_ncommitted G o :
  wfH G ->
  ncommitted (hstep G o (spec_out G o)) =
  match o with
  | Commit t => match spec_commit G t with OkEpoch _ => ncommitted G + 1 | _ => ncommitted G end
  | _ => ncommitted G
  end.
Proof.
  intros W. destruct o as [i|t e|t e|t|t| |]; cbn [hstep spec_out].
  - rewrite ncommitted_cons. reflexivity.
  - destruct (active_in G t); [|reflexivity]. apply ncommitted_upd. reflexivity.
  - destruct (active_in G t); [|reflexivity]. apply ncommitted_upd. reflexivity.
  - destruct (spec_commit G t) eqn:S; try reflexivity.
    apply spec_commit_ok in S. destruct S as (r & L & Ha & _).
    eapply ncommitted_upd_commit; [eassumption|].
    unfold is_act in Ha. unfold is_comm. destruct (h_end r); congruence.
  - destruct (active_in G t) eqn:A; [|reflexivity].
    apply active_in_true in A. destruct A as (r & L & Ha).
    apply ncommitted_upd. intros r0 L0. rewrite L in L0. inversion L0. subst r0.
    unfold is_act in Ha. unfold is_comm. cbn [h_set_end h_end]. destruct (h_end r); congruence.
  - reflexivity.
  - apply (ncommitted_map (fun r => if is_act r then h_set_end HAborted r else r)).
    intro r. unfold is_act, is_comm. destruct (h_end r) eqn:E; cbn [h_set_end h_end]; rewrite ?E; reflexivity.
Qed.
Lemma hstep_ncommitted_mono G o : wfH G -> ncommitted G <= ncommitted (hstep G o (spec_out G o)).
Proof.
  intro W. rewrite hstep_ncommitted by assumption.
  destruct o; try lia. destruct (spec_commit G t); lia.
Qed.

Lemma hstep_keys G o t :
  wfH G -> In t (keys (hstep G o (spec_out G o))) ->
  In t (keys G) \/ (exists i, o = Begin i) /\ t = 2 + Z.of_nat (length G).
Proof.
  intros W H. apply In_keys_lookup in H. destruct H as (r' & H).
  apply hstep_lookup in H; [|assumption].
  destruct H as [(r & L & _)|(_ & i & Ho & Ht & _)].
  - left. eapply lookup_In_keys. eassumption.
  - right. eauto.
Qed.

Lemma hstep_length G o :
  Z.of_nat (length (hstep G o (spec_out G o))) =
  match o with Begin _ => Z.of_nat (length G) + 1 | _ => Z.of_nat (length G) end.
Proof.
  destruct o as [i|t e|t e|t|t| |]; cbn [hstep spec_out].
  - cbn [length]. lia.
  - destruct (active_in G t); rewrite ?length_upd; reflexivity.
  - destruct (active_in G t); rewrite ?length_upd; reflexivity.
  - destruct (spec_commit G t); rewrite ?length_upd; reflexivity.
  - destruct (active_in G t); rewrite ?length_upd; reflexivity.
  - reflexivity.
  - rewrite map_length. reflexivity.
Qed.

Lemma hstep_nodup G o : wfH G -> NoDup (keys (hstep G o (spec_out G o))).
Proof.
  intros W. pose proof (wf_nodup G W) as ND.
  destruct o as [i|t e|t e|t|t| |]; cbn [hstep spec_out].
  - cbn [keys map fst]. constructor; [|assumption].
    intro H. apply (wf_keys G W) in H. lia.
  - destruct (active_in G t); rewrite ?keys_upd; assumption.
  - destruct (active_in G t); rewrite ?keys_upd; assumption.
  - destruct (spec_commit G t); rewrite ?keys_upd; assumption.
  - destruct (active_in G t); rewrite ?keys_upd; assumption.
  - assumption.
  - rewrite (keys_map_vals (fun r => if is_act r then h_set_end HAborted r else r)). assumption.
Qed.

(** versions at or below the current commit count are not changed by a step *)
Lemma contrib_act e k r : is_act r = true -> contrib e k r = None.
Proof. unfold is_act, contrib. destruct (h_end r); congruence. Qed.

Lemma hstep_ver_at G o e k :
  wfH G -> k <= ncommitted G ->
  ver_at (hstep G o (spec_out G o)) e k = ver_at G e k.
Proof.
  intros W Hk. destruct o as [i|t e0|t e0|t|t| |]; cbn [hstep spec_out].
  - rewrite ver_at_cons. reflexivity.
  - destruct (active_in G t) eqn:A; [|reflexivity].
    apply active_in_true in A. destruct A as (r & L & Ha).
    apply ver_at_upd. intros r0 L0. rewrite L in L0. inversion L0. subst r0.
    rewrite !contrib_act; auto.
  - destruct (active_in G t) eqn:A; [|reflexivity].
    apply active_in_true in A. destruct A as (r & L & Ha).
    apply ver_at_upd. intros r0 L0. rewrite L in L0. inversion L0. subst r0.
    rewrite !contrib_act; auto.
  - destruct (spec_commit G t) eqn:S; try reflexivity.
    apply spec_commit_ok in S. destruct S as (r & L & Ha & Hc & _).
    apply ver_at_upd. intros r0 L0. rewrite L in L0. inversion L0. subst r0.
    rewrite (contrib_act _ _ r) by assumption.
    unfold contrib. cbn [h_set_end h_end]. subst c.
    assert (X : (ncommitted G + 1 <=? k) = false) by (apply Z.leb_gt; lia). rewrite X. reflexivity.
  - destruct (active_in G t) eqn:A; [|reflexivity].
    apply active_in_true in A. destruct A as (r & L & Ha).
    apply ver_at_upd. intros r0 L0. rewrite L in L0. inversion L0. subst r0.
    rewrite (contrib_act _ _ r) by assumption. reflexivity.
  - reflexivity.
  - apply (ver_at_map (fun r => if is_act r then h_set_end HAborted r else r)).
    intro r. destruct (is_act r) eqn:A; [|reflexivity].
    rewrite (contrib_act _ _ r) by assumption. reflexivity.
Qed.

(** a committed record is never changed again *)
Lemma rstep_comm G o t r r' c : rstep G o t r r' -> h_end r = HCommitted c -> r' = r.
Proof.
  intros H He. destruct H; try reflexivity; unfold is_act in *; rewrite He in *; discriminate.
Qed.
(** a record that is committed after the step was committed before, or is the one just committed *)
Lemma rstep_comm_after G o t r r' c :
  rstep G o t r r' -> h_end r' = HCommitted c ->
  (r' = r) \/
  (is_act r = true /\ o = Commit t /\ c = ncommitted G + 1 /\ r' = h_set_end (HCommitted c) r /\
   spec_commit G t = OkEpoch c).
Proof.
  intros H He. destruct H; cbn [h_add_write h_add_read h_set_end h_end] in He.
  - left; reflexivity.
  - unfold is_act in H. rewrite He in H. discriminate.
  - unfold is_act in H. rewrite He in H. discriminate.
  - discriminate.
  - inversion He. subst c. right. auto.
Qed.
Lemma rstep_static G o t r r' : rstep G o t r r' -> h_iso r' = h_iso r /\ h_start r' = h_start r.
Proof. intro H. destruct H; auto. Qed.

Lemma begin_not_commit i t : Begin i = Commit t -> False.
Proof. discriminate. Qed.

Theorem hstep_wf G o : wfH G -> wfH (hstep G o (spec_out G o)).
Proof.
  intro W. set (G' := hstep G o (spec_out G o)).
  assert (LK : forall t' r', lookup t' G' = Some r' ->
     (exists r, lookup t' G = Some r /\ rstep G o t' r r') \/
     (lookup t' G = None /\ exists i, o = Begin i /\ t' = 2 + Z.of_nat (length G) /\
                                  r' = mkH i (ncommitted G) [] [] [] HActive))
    by (intros; apply hstep_lookup; assumption).
  assert (NC := hstep_ncommitted G o W). fold G' in NC.
  assert (MONO := hstep_ncommitted_mono G o W). fold G' in MONO.
  (* a committed record of G' : old and unchanged, or the one committed by this step *)
  assert (CM : forall t' r' c, lookup t' G' = Some r' -> h_end r' = HCommitted c ->
     (lookup t' G = Some r') \/
     (exists r, lookup t' G = Some r /\ is_act r = true /\ o = Commit t' /\ c = ncommitted G + 1 /\
                r' = h_set_end (HCommitted c) r /\ spec_commit G t' = OkEpoch c)).
  { intros t' r' c L He. apply LK in L. destruct L as [(r & L & RS)|(_ & i & _ & _ & ->)].
    - destruct (rstep_comm_after _ _ _ _ _ _ RS He) as [->|X]; [left; assumption|].
      right. exists r. tauto.
    - discriminate. }
  constructor.
  - apply hstep_nodup. assumption.
  - intros t H. apply hstep_keys in H; [|assumption]. fold G'.
    pose proof (hstep_length G o) as HL. fold G' in HL.
    destruct H as [H|((i & ->) & ->)].
    + apply (wf_keys G W) in H. destruct o; lia.
    + lia.
  - intros t r' L. apply LK in L. destruct L as [(r & L & RS)|(_ & i & _ & _ & ->)].
    + destruct (wf_bounds G W t r L) as [B1 B2].
      destruct (rstep_static _ _ _ _ _ RS) as [_ Hs]. rewrite Hs. split; [lia|].
      intros c He. destruct (rstep_comm_after _ _ _ _ _ _ RS He) as [->|(Ha & Ho & Hc & _ & Sc)].
      * specialize (B2 c He). lia.
      * subst o. rewrite Sc in NC. lia.
    + cbn [h_start h_end]. split; [pose proof (ncommitted_nonneg G); lia|discriminate].
  - intros t1 t2 r1 r2 c L1 L2 E1 E2.
    destruct (CM _ _ _ L1 E1) as [O1|(q1 & Lq1 & A1 & Ho1 & Hc1 & _)];
    destruct (CM _ _ _ L2 E2) as [O2|(q2 & Lq2 & A2 & Ho2 & Hc2 & _)].
    + eapply (wf_uniq G W); eassumption.
    + destruct (wf_bounds G W t1 r1 O1) as [_ B]. specialize (B c E1). lia.
    + destruct (wf_bounds G W t2 r2 O2) as [_ B]. specialize (B c E2). lia.
    + rewrite Ho1 in Ho2. inversion Ho2. reflexivity.
  - intros k Hk. rewrite NC in Hk.
    assert (OLD : 1 <= k <= ncommitted G -> exists t r, lookup t G' = Some r /\ h_end r = HCommitted k).
    { intro Hk'. destruct (wf_epochs G W k Hk') as (t & r & L & He).
      destruct (hstep_lookup_fwd G o t r W L) as (r' & L'). fold G' in L'.
      exists t, r'. split; [assumption|].
      pose proof L' as L''. apply LK in L''. destruct L'' as [(r0 & L0 & RS)|(L0 & _)]; [|congruence].
      rewrite L in L0. inversion L0. subst r0.
      rewrite (rstep_comm _ _ _ _ _ _ RS He). assumption. }
    destruct o as [i|t e|t e|t|t| |]; try (apply OLD; lia).
    destruct (spec_commit G t) eqn:S; try (apply OLD; lia).
    destruct (Z.eq_dec k (ncommitted G + 1)) as [->|Hne]; [|apply OLD; lia].
    pose proof S as S'. apply spec_commit_ok in S'. destruct S' as (r & L & Ha & Hc & _). subst c.
    exists t, (h_set_end (HCommitted (ncommitted G + 1)) r). split; [|reflexivity].
    unfold G'. cbn [hstep spec_out]. rewrite S. rewrite lookup_upd_same, L. reflexivity.
  - intros t1 t2 r1 r2 c1 c2 Hne L1 L2 E1 E2 S1 S2.
    destruct (CM _ _ _ L1 E1) as [O1|(q1 & Lq1 & A1 & Ho1 & Hc1 & Hr1 & Sc1)];
    destruct (CM _ _ _ L2 E2) as [O2|(q2 & Lq2 & A2 & Ho2 & Hc2 & Hr2 & Sc2)].
    + eapply (wf_fcw G W t1 t2); eassumption.
    + (* t2 commits now, t1 committed earlier *)
      apply spec_commit_ok in Sc2. destruct Sc2 as (q & Lq & _ & _ & WW & _).
      rewrite Lq2 in Lq. inversion Lq. subst q.
      rewrite inter_sym. subst r2. cbn [h_set_end h_ws h_start] in *.
      eapply (conf_false h_ws G t2 q2 t1 r1 c1 WW); try assumption.
      * apply lookup_In_pair. assumption.
    + apply spec_commit_ok in Sc1. destruct Sc1 as (q & Lq & _ & _ & WW & _).
      rewrite Lq1 in Lq. inversion Lq. subst q.
      subst r1. cbn [h_set_end h_ws h_start] in *.
      eapply (conf_false h_ws G t1 q1 t2 r2 c2 WW); try assumption.
      * apply lookup_In_pair. assumption.
      * auto.
    + rewrite Ho1 in Ho2. inversion Ho2. contradiction.
  - intros t t' r r' c c' Hne L L' Hi E E' S1 S2.
    destruct (CM _ _ _ L E) as [O1|(q1 & Lq1 & A1 & Ho1 & Hc1 & Hr1 & Sc1)];
    destruct (CM _ _ _ L' E') as [O2|(q2 & Lq2 & A2 & Ho2 & Hc2 & Hr2 & Sc2)].
    + eapply (wf_ssi G W t t'); eassumption.
    + (* the writer commits now: its epoch is the largest, contradiction with c' < c *)
      destruct (wf_bounds G W t r O1) as [_ B]. specialize (B c E). lia.
    + (* the reader commits now *)
      apply spec_commit_ok in Sc1. destruct Sc1 as (q & Lq & _ & _ & _ & RW).
      rewrite Lq1 in Lq. inversion Lq. subst q.
      subst r. cbn [h_set_end h_rs h_start h_iso] in *.
      eapply (conf_false h_rs G t q1 t' r' c' (RW Hi)); try assumption.
      * apply lookup_In_pair. assumption.
      * auto.
    + rewrite Ho1 in Ho2. inversion Ho2. contradiction.
  - intros t r' e v L Hin. apply LK in L. destruct L as [(r & L & RS)|(_ & i & _ & _ & ->)]; [|destruct Hin].
    destruct (wf_bounds G W t r L) as [B1 _].
    assert (VA : ver_at G' e (h_start r) = ver_at G e (h_start r)) by (apply hstep_ver_at; [assumption|lia]).
    destruct RS; cbn [h_add_write h_add_read h_set_end h_reads h_rs h_ws h_iso h_start] in *;
      try (destruct (wf_reads G W t r e v L Hin) as [R1 R2]; split; [assumption|];
           destruct v; [try assumption; apply add_In; right; assumption|]; intro Hrc; rewrite VA; auto).
    destruct Hin as [Hin|Hin].
    + inversion Hin. subst e0. split; [apply add_In; left; reflexivity|].
      destruct (mem e (h_ws r)) eqn:M; [apply mem_In; assumption|]. intro Hrc. rewrite VA.
      unfold view_epoch. destruct (h_iso r); congruence.
    + destruct (wf_reads G W t r e v L Hin) as [R1 R2]. split; [apply add_In; right; assumption|].
      destruct v; [assumption|]. intro Hrc. rewrite VA. auto.
  - intros t r' e L Hin. apply LK in L. destruct L as [(r & L & RS)|(_ & i & _ & _ & ->)]; [|destruct Hin].
    destruct RS; cbn [h_add_write h_add_read h_set_end h_reads h_rs] in *;
      try (apply (wf_rs G W t r e L Hin)).
    apply add_In in Hin. destruct Hin as [->|Hin].
    + eexists. left. reflexivity.
    + destruct (wf_rs G W t r e L Hin) as (v & Hv). exists v. right. assumption.
Qed.

(** every history reached by the specification machine is well-formed *)
Lemma spec_run_wf ops : forall G, wfH G -> wfH (fst (spec_run G ops)).
Proof.
  induction ops as [|o ops IH]; intros G W; cbn [spec_run]; [assumption|].
  destruct (spec_run (hstep G o (spec_out G o)) ops) as [G' xs] eqn:E. cbn [fst].
  specialize (IH _ (hstep_wf G o W)). rewrite E in IH. exact IH.
Qed.
