(** C03 / C04 — the session-level findings as refuted statements about the session model
    (Tm/Run.v: what reaches the manager from a session is begin/commit/abort only). *)
From GV Require Import Tm.Run.
Open Scope Z_scope.

(** two sessions SET the same node inside overlapping transactions; both commits are accepted *)
Definition w_sess_lost_update : list sop :=
  [SBegin SnapshotIsolation; SBegin SnapshotIsolation; SSet 2 (ENode 0); SSet 3 (ENode 0); SCommit 2; SCommit 3].
Lemma session_lost_update_refuted_l :
  exists sops ks, chk_session sops ks = true /\ oracle_sess_c03 sops ks = false /\ k_sess_c03 sops ks = true.
Proof. exists w_sess_lost_update, [SOk; SOk; SOk; SOk; SOk; SOk]. vm_compute. repeat split; reflexivity. Qed.

(** the two-account write skew through two Serializable sessions; both commits are accepted *)
Definition w_sess_write_skew : list sop :=
  [SBegin Serializable; SBegin Serializable; SGet 2 (ENode 0); SGet 2 (ENode 1); SGet 3 (ENode 0); SGet 3 (ENode 1);
   SSet 2 (ENode 0); SSet 3 (ENode 1); SCommit 2; SCommit 3].
Lemma session_write_skew_refuted_l :
  exists sops ks, chk_session sops ks = true /\ oracle_sess_c04 sops ks = false /\ k_sess_c04 sops ks = true.
Proof.
  exists w_sess_write_skew, [SOk; SOk; SOk; SOk; SOk; SOk; SOk; SOk; SOk; SOk]. vm_compute. repeat split; reflexivity.
Qed.
