(** C03 / C04 — the specification side: the *history* of a run (what every transaction did and
    how it ended, reconstructed from the operations and their answers only — never from the
    manager's tables, so garbage collection cannot touch it), the abstract commit rule, the
    abstract multi-version data layer, the dependency graph, and the executable oracles that the
    check evaluates on the implementation's answers.  No proofs in this file. *)
From Coq Require Import ZArith List Bool.
From GV Require Export Tm.Model.
Import ListNotations.
Open Scope Z_scope.

(** ** histories *)
Inductive hend := HActive | HCommitted (c : Z) | HAborted.
(** what a read returned: the transaction's own write, or the version installed at commit epoch
    [c] ([Ver 0] = the initial version) *)
Inductive rdval := Own | Ver (c : Z).

Record hrec := mkH {
  h_iso : iso;
  h_start : Z;                        (* number of commits before its begin *)
  h_ws : list entity;
  h_rs : list entity;
  h_reads : list (entity * rdval);    (* abstract data layer: every read with the version it saw *)
  h_end : hend }.

Definition hist := list (Z * hrec).

Definition is_comm (r : hrec) : bool := match h_end r with HCommitted _ => true | _ => false end.
Definition is_act (r : hrec) : bool := match h_end r with HActive => true | _ => false end.
Definition ncommitted (G : hist) : Z := Z.of_nat (length (filter (fun p => is_comm (snd p)) G)).

(** *** the abstract data layer
    Every committed transaction installs, at its commit epoch, a new version of every entity in
    its write set.  [ver_at G e k] = the version of [e] that is current after exactly [k] commits:
    the largest commit epoch [c <= k] of a committed writer of [e], 0 if there is none. *)
Definition ver_at (G : hist) (e : entity) (k : Z) : Z :=
  fold_right (fun p acc =>
    match h_end (snd p) with
    | HCommitted c => if (c <=? k) && mem e (h_ws (snd p)) then Z.max c acc else acc
    | _ => acc
    end) 0 G.

(** the epoch a transaction reads at: its snapshot (start) — ReadCommitted reads the latest
    committed state *)
Definition view_epoch (G : hist) (r : hrec) : Z :=
  match h_iso r with ReadCommitted => ncommitted G | _ => h_start r end.

Definition h_add_write (e : entity) (r : hrec) : hrec :=
  mkH (h_iso r) (h_start r) (add e (h_ws r)) (h_rs r) (h_reads r) (h_end r).
Definition h_add_read (G : hist) (e : entity) (r : hrec) : hrec :=
  mkH (h_iso r) (h_start r) (h_ws r) (add e (h_rs r))
      ((e, if mem e (h_ws r) then Own else Ver (ver_at G e (view_epoch G r))) :: h_reads r) (h_end r).
Definition h_set_end (x : hend) (r : hrec) : hrec :=
  mkH (h_iso r) (h_start r) (h_ws r) (h_rs r) (h_reads r) x.

(** one event = an operation and the answer it got *)
Definition hstep (G : hist) (o : op) (x : out) : hist :=
  match o, x with
  | Begin i, OkTx t => (t, mkH i (ncommitted G) [] [] [] HActive) :: G
  | Write t e, OkUnit => upd t (h_add_write e) G
  | Read t e, OkUnit => upd t (h_add_read G e) G
  | Commit t, OkEpoch c => upd t (h_set_end (HCommitted c)) G
  | Abort t, OkUnit => upd t (h_set_end HAborted) G
  | AbortAll, _ => map (fun p => (fst p, if is_act (snd p) then h_set_end HAborted (snd p) else snd p)) G
  | _, _ => G
  end.

Definition history_from (G : hist) (evs : list (op * out)) : hist :=
  fold_left (fun G ev => hstep G (fst ev) (snd ev)) evs G.
Definition history (evs : list (op * out)) : hist := history_from [] evs.

(** the history of a run of the model *)
Definition hist_of (ops : list op) : hist := history (combine ops (outs ops)).

(** ** the abstract commit rule (the property, as a machine)
    [conf sel G t r]: some *other* transaction committed after [t] started ([h_start r < c]) and
    wrote an entity of [sel r] *)
Definition conf (sel : hrec -> list entity) (G : hist) (t : Z) (r : hrec) : bool :=
  existsb (fun p =>
    negb (fst p =? t) &&
    match h_end (snd p) with
    | HCommitted c => (h_start r <? c) && inter (sel r) (h_ws (snd p))
    | _ => false
    end) G.
Definition ww_conf := conf h_ws.
Definition rw_conf := conf h_rs.

Definition spec_commit (G : hist) (t : Z) : out :=
  match lookup t G with
  | None => Err InvalidState
  | Some r =>
      match h_end r with
      | HActive =>
          if ww_conf G t r then Err WriteConflict
          else if iso_eqb (h_iso r) Serializable && negb (is_empty (h_rs r)) && rw_conf G t r
               then Err SerializationFailure
          else OkEpoch (ncommitted G + 1)
      | _ => Err InvalidState
      end
  end.

Definition active_in (G : hist) (t : Z) : bool :=
  match lookup t G with Some r => is_act r | None => false end.

(** the answer the specification gives ([Gc]'s count is not specified: it is the one answer
    that may depend on earlier clean-ups) *)
Definition spec_out (G : hist) (o : op) : out :=
  match o with
  | Begin _ => OkTx (2 + Z.of_nat (length G))
  | Write t _ | Read t _ | Abort t => if active_in G t then OkUnit else Err InvalidState
  | Commit t => spec_commit G t
  | Gc => OkCount 0
  | AbortAll => OkUnit
  end.

Definition is_gc (o : op) : bool := match o with Gc => true | _ => false end.
Definition remove_gc (ops : list op) : list op := filter (fun o => negb (is_gc o)) ops.
(** the answers of a run at its non-[Gc] positions *)
Fixpoint nongc_outs (ops : list op) (xs : list out) : list out :=
  match ops, xs with
  | o :: ops', x :: xs' => if is_gc o then nongc_outs ops' xs' else x :: nongc_outs ops' xs'
  | _, _ => []
  end.

(** the specification machine run on an op list (no tables, no clean-up) *)
Fixpoint spec_run (G : hist) (ops : list op) : hist * list out :=
  match ops with
  | [] => (G, [])
  | o :: r => let x := spec_out G o in
              let (G', xs) := spec_run (hstep G o x) r in (G', x :: xs)
  end.

(** ** properties of a history, as predicates and as executable oracles *)

Definition committed_at (G : hist) (t : Z) (r : hrec) (c : Z) : Prop :=
  lookup t G = Some r /\ h_end r = HCommitted c.

(** lifetimes of two committed transactions overlap: each began before the other committed *)
Definition overlap (r1 r2 : hrec) (c1 c2 : Z) : Prop := h_start r2 < c1 /\ h_start r1 < c2.

Definition disjoint (a b : list entity) : Prop := forall e, In e a -> In e b -> False.

Definition all_serializable (G : hist) : Prop :=
  forall t r, lookup t G = Some r -> h_iso r = Serializable.
Definition all_serializableb (G : hist) : bool :=
  forallb (fun p => iso_eqb (h_iso (snd p)) Serializable) G.

(** first committer wins, on a finished history *)
Definition fcw_okb (G : hist) : bool :=
  forallb (fun p1 => forallb (fun p2 =>
    (fst p1 =? fst p2) ||
    match h_end (snd p1), h_end (snd p2) with
    | HCommitted c1, HCommitted c2 =>
        negb ((h_start (snd p2) <? c1) && (h_start (snd p1) <? c2))
        || negb (inter (h_ws (snd p1)) (h_ws (snd p2)))
    | _, _ => true
    end) G) G.

(** *** dependency graph of the committed transactions (ww, wr, rw edges) *)
Definition cepoch (r : hrec) : Z := match h_end r with HCommitted c => c | _ => 0 end.

Definition dep_edge (p1 p2 : Z * hrec) : bool :=
  negb (fst p1 =? fst p2) && is_comm (snd p1) && is_comm (snd p2) &&
  let r1 := snd p1 in let r2 := snd p2 in
  ( (* ww: both wrote e and p1's version precedes p2's *)
    (inter (h_ws r1) (h_ws r2) && (cepoch r1 <? cepoch r2))
    (* wr: p2 read the version p1 installed *)
    || existsb (fun rd => match snd rd with
                          | Ver v => (v =? cepoch r1) && mem (fst rd) (h_ws r1)
                          | Own => false end) (h_reads r2)
    (* rw: p1 read a version of e older than the one p2 installed *)
    || existsb (fun rd => match snd rd with
                          | Ver v => (v <? cepoch r2) && mem (fst rd) (h_ws r2)
                          | Own => false end) (h_reads r1) ).

Definition deps (G : hist) : list (Z * Z) :=
  flat_map (fun p1 => map (fun p2 => (fst p1, fst p2)) (filter (dep_edge p1) G)) G.

(** every dependency goes forward in commit order (= the serial order the property names) *)
Definition deps_forwardb (G : hist) : bool :=
  forallb (fun p1 => forallb (fun p2 => negb (dep_edge p1 p2) || (cepoch (snd p1) <? cepoch (snd p2))) G) G.

(** acyclicity by repeatedly discarding nodes without an incoming edge (Kahn) *)
Definition memZ (k : Z) (l : list Z) : bool := existsb (Z.eqb k) l.
Fixpoint kahn (fuel : nat) (nodes : list Z) (edges : list (Z * Z)) : bool :=
  match fuel with
  | O => is_empty nodes
  | S f =>
      let live := filter (fun e => memZ (fst e) nodes && memZ (snd e) nodes) edges in
      let nodes' := filter (fun n => existsb (fun e => snd e =? n) live) nodes in
      if (length nodes' =? length nodes)%nat then is_empty nodes else kahn f nodes' edges
  end.
Definition acyclicb (G : hist) : bool :=
  let nodes := map fst (filter (fun p => is_comm (snd p)) G) in
  kahn (S (length nodes)) nodes (deps G).

(** a path in the dependency graph *)
Fixpoint is_path (edges : list (Z * Z)) (a : Z) (l : list Z) : Prop :=
  match l with
  | [] => True
  | b :: l' => In (a, b) edges /\ is_path edges b l'
  end.

(** *** serial replay: what each committed transaction reads when the committed transactions
    are run one at a time in commit order = the version current just before its own commit *)
Definition serial_read (G : hist) (r : hrec) (e : entity) : Z := ver_at G e (cepoch r - 1).
Definition view_okb (G : hist) : bool :=
  forallb (fun p =>
    negb (is_comm (snd p)) ||
    forallb (fun rd => match snd rd with
                       | Ver v => v =? serial_read G (snd p) (fst rd)
                       | Own => true end) (h_reads (snd p))) G.

(** *** event-wise oracles (run over the implementation's answers) *)
Definition is_ro (r : hrec) : bool := is_empty (h_ws r).

(** [P] holds of every event, each judged against the history of the events before it *)
Fixpoint all_events (P : hist -> op -> out -> bool) (G : hist) (evs : list (op * out)) : bool :=
  match evs with
  | [] => true
  | ev :: r => P G (fst ev) (snd ev) && all_events P (hstep G (fst ev) (snd ev)) r
  end.

(** every refusal is justified / every acceptance is legal / epochs are consecutive:
    the answer equals the specification's at every non-[Gc] event *)
Definition conforms1 (G : hist) (o : op) (x : out) : bool := is_gc o || out_eqb x (spec_out G o).
Definition conforms : hist -> list (op * out) -> bool := all_events conforms1.

(** C03: a [WriteConflict] refusal has an overlapping committed writer of a common entity *)
Definition ww_just1 (G : hist) (o : op) (x : out) : bool :=
  match o, x with
  | Commit t, Err WriteConflict =>
      match lookup t G with Some rt => is_act rt && ww_conf G t rt | None => false end
  | _, _ => true
  end.
Definition ww_justified : hist -> list (op * out) -> bool := all_events ww_just1.

(** C03: commit epochs are 1, 2, 3, ... in commit order *)
Definition epoch1 (G : hist) (o : op) (x : out) : bool :=
  match o, x with
  | Commit _, OkEpoch c => c =? ncommitted G + 1
  | _, _ => true
  end.
Definition epochs_ok : hist -> list (op * out) -> bool := all_events epoch1.

(** C04: a [SerializationFailure] refusal is of a Serializable transaction that read something
    an overlapping committed transaction wrote *)
Definition sf_just1 (G : hist) (o : op) (x : out) : bool :=
  match o, x with
  | Commit t, Err SerializationFailure =>
      match lookup t G with
      | Some rt => is_act rt && iso_eqb (h_iso rt) Serializable && rw_conf G t rt
      | None => false end
  | _, _ => true
  end.
Definition sf_justified : hist -> list (op * out) -> bool := all_events sf_just1.

(** C03/C04: nothing stale gets through: an accepted commit has no overlapping committed writer
    of anything it wrote and, if Serializable, of anything it read *)
Definition accept1 (G : hist) (o : op) (x : out) : bool :=
  match o, x with
  | Commit t, OkEpoch _ =>
      match lookup t G with
      | Some rt => is_act rt && negb (iso_eqb (h_iso rt) Serializable && rw_conf G t rt) && negb (ww_conf G t rt)
      | None => false end
  | _, _ => true
  end.
Definition stale_refused : hist -> list (op * out) -> bool := all_events accept1.

(** C04 finding class K1: a Serializable transaction with an EMPTY write set is refused with
    SerializationFailure because an overlapping committed transaction wrote something it read *)
Definition k_ro_refused (G : hist) (t : Z) (r : hrec) : bool :=
  is_ro r && iso_eqb (h_iso r) Serializable && rw_conf G t r.

(** the refused commits of read-only transactions of a run, and whether each is in K1 *)
Fixpoint ro_refusals (G : hist) (evs : list (op * out)) : list (Z * bool) :=
  match evs with
  | [] => []
  | ev :: r =>
      (match fst ev, snd ev with
       | Commit t, Err (WriteConflict | SerializationFailure) =>
           match lookup t G with
           | Some rt => if is_act rt && is_ro rt
                        then [(t, k_ro_refused G t rt && out_eqb (snd ev) (Err SerializationFailure))] else []
           | None => [] end
       | _, _ => []
       end) ++ ro_refusals (hstep G (fst ev) (snd ev)) r
  end.
(** C04: read-only transactions are never refused (fails at HEAD exactly on class K1) *)
Definition ro_never_refused (evs : list (op * out)) : bool := is_empty (ro_refusals [] evs).
(** ... every such refusal is in K1 *)
Definition k_ro_only (evs : list (op * out)) : bool :=
  negb (is_empty (ro_refusals [] evs)) && forallb (fun p => snd p) (ro_refusals [] evs).

(** C04: a transaction that overlaps no committed transaction is never refused *)
Definition no_overlap (G : hist) (t : Z) (r : hrec) : bool :=
  forallb (fun p => (fst p =? t) || match h_end (snd p) with HCommitted c => c <=? h_start r | _ => true end) G.
Definition nonoverlap1 (G : hist) (o : op) (x : out) : bool :=
  match o, x with
  | Commit t, Err (WriteConflict | SerializationFailure) =>
      match lookup t G with Some rt => negb (is_act rt && no_overlap G t rt) | None => true end
  | _, _ => true
  end.
Definition nonoverlap_ok : hist -> list (op * out) -> bool := all_events nonoverlap1.

(** ** helpers used in the statements *)
(** the transaction an operation addresses *)
Definition target (o : op) : option Z :=
  match o with
  | Write t _ | Read t _ | Commit t | Abort t => Some t
  | _ => None
  end.
(** the epochs returned by the successful commits of a run, in order *)
Fixpoint commit_outs (ops : list op) (xs : list out) : list Z :=
  match ops, xs with
  | Commit _ :: ops', OkEpoch c :: xs' => c :: commit_outs ops' xs'
  | _ :: ops', _ :: xs' => commit_outs ops' xs'
  | _, _ => []
  end.
Fixpoint zseq (a : Z) (n : nat) : list Z :=
  match n with O => [] | S k => a :: zseq (a + 1) k end.
