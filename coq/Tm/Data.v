(** C04 — value level of the abstract data layer: the multi-version execution (every committed
    transaction computes what it writes from the snapshot taken at its start and installs it at
    its commit epoch) against the serial execution of the same transactions one at a time in
    commit order.  No proofs in this file. *)
From Coq Require Import ZArith List Bool.
From GV Require Export Tm.Spec.
Import ListNotations.
Open Scope Z_scope.

(** the transaction that committed with epoch [k] *)
Definition committer (G : hist) (k : Z) : option (Z * hrec) :=
  find (fun p => match h_end (snd p) with HCommitted c => c =? k | _ => false end) G.

Section Values.
  Variable V : Type.
  Variable init : entity -> V.
  (** [prog t e view]: the value transaction [t] writes to [e] when its reads return [view] *)
  Variable prog : Z -> entity -> (entity -> V) -> V.

  Definition install (t : Z) (r : hrec) (view cur : entity -> V) : entity -> V :=
    fun e => if mem e (h_ws r) then prog t e view else cur e.

  (** serial execution in commit order: the [n]-th committer reads the state left by the first
      [n-1] *)
  Fixpoint ser_db (G : hist) (n : nat) : entity -> V :=
    match n with
    | O => init
    | S m => let d := ser_db G m in
             match committer G (Z.of_nat (S m)) with
             | Some (t, r) => install t r d d
             | None => d
             end
    end.

  (** multi-version execution: the [n]-th committer reads the state after [h_start] commits.
      [mv_dbs G n] = [db_n; db_(n-1); ...; db_0] *)
  Fixpoint mv_dbs (G : hist) (n : nat) : list (entity -> V) :=
    match n with
    | O => [init]
    | S m => let l := mv_dbs G m in
             let cur := hd init l in
             match committer G (Z.of_nat (S m)) with
             | Some (t, r) => install t r (nth (m - Z.to_nat (h_start r)) l init) cur :: l
             | None => cur :: l
             end
    end.
  Definition mv_db (G : hist) (n : nat) : entity -> V := hd init (mv_dbs G n).

  (** what a transaction writes depends only on what it read *)
  Definition reads_determine_writes (G : hist) : Prop :=
    forall t r, lookup t G = Some r ->
    forall e v1 v2, (forall x, In x (h_rs r) -> v1 x = v2 x) -> prog t e v1 = prog t e v2.
End Values.
