(** C03 / C04 — comparison of implementation observations with the model, and the property
    oracles evaluated on the implementation's answers (run by checks/c03.py and checks/c04.py). *)
From Coq Require Import ZArith List Bool.
From GV Require Export Tm.Model Tm.Spec Tm.Data.
Import ListNotations.
Open Scope Z_scope.

Fixpoint list_eqb {A} (eqb : A -> A -> bool) (a b : list A) : bool :=
  match a, b with
  | [], [] => true
  | x :: a', y :: b' => eqb x y && list_eqb eqb a' b'
  | _, _ => false
  end.
Definition option_eqb {A} (eqb : A -> A -> bool) (a b : option A) : bool :=
  match a, b with
  | None, None => true
  | Some x, Some y => eqb x y
  | _, _ => false
  end.
(** write sets are compared as sets *)
Definition set_eqb (a b : list entity) : bool :=
  forallb (fun e => mem e b) a && forallb (fun e => mem e a) b.

(** ** what the harness reads back through the public observers at chosen points of a run *)
(** [state(t)], [start_epoch(t)], [isolation_level(t)], [get_write_set(t)] of one probed id *)
Inductive entry :=
| EntryNone (t : Z)                                                    (* [state(t)] = None *)
| EntrySome (t : Z) (x : tstate) (start : Z) (lvl : iso) (ws : list entity).
(** after [at_] operations: [current_epoch], [active_count], [min_active_epoch], probed ids *)
Inductive dump := Dump (at_ : nat) (cur active minact : Z) (entries : list entry).

Definition entry_ok (s : st) (en : entry) : bool :=
  match en with
  | EntryNone t => match lookup t (txs s) with None => true | Some _ => false end
  | EntrySome t x start lvl ws =>
      match lookup t (txs s) with
      | Some i => tstate_eqb (t_state i) x && (t_start i =? start) && iso_eqb (t_iso i) lvl && set_eqb (t_ws i) ws
      | None => false
      end
  end.
Definition dump_ok (ops : list op) (d : dump) : bool :=
  match d with
  | Dump k cur act mn ens =>
      let s := st_after (firstn k ops) in
      (epoch s =? cur) && (active_count s =? act) && (min_active_epoch s =? mn) && forallb (entry_ok s) ens
  end.

(** model == implementation on one run: every answer, and every read-back *)
Definition chk_run (ops : list op) (xs : list out) (ds : list dump) : bool :=
  list_eqb out_eqb (outs ops) xs && forallb (dump_ok ops) ds.
(** the same against the transcription of the code before repair b5dad36 *)
Definition chk_run_pre (ops : list op) (xs : list out) : bool := list_eqb out_eqb (outs_pre ops) xs.
Definition show_run (ops : list op) : list out := outs ops.

(** ** property oracles on the implementation's answers *)
Definition evs_of (ops : list op) (xs : list out) : list (op * out) := combine ops xs.

(** C03: first committer wins on the final history, every WriteConflict refusal justified, no
    conflicting commit accepted, commit epochs 1,2,3,..; [xs_nogc] = the implementation's
    answers to the same operations with every [Gc] removed (clean-up changes no answer) *)
Definition oracle_c03 (ops : list op) (xs xs_nogc : list out) : bool :=
  let evs := evs_of ops xs in
  fcw_okb (history evs) && ww_justified [] evs && stale_refused [] evs && epochs_ok [] evs
  && list_eqb out_eqb (nongc_outs ops xs) xs_nogc.

(** C04 without the read-only clause *)
Definition oracle_c04_core (ops : list op) (xs : list out) : bool :=
  let evs := evs_of ops xs in
  let G := history evs in
  sf_justified [] evs && stale_refused [] evs && nonoverlap_ok [] evs
  && (negb (all_serializableb G) || (deps_forwardb G && acyclicb G && view_okb G)).
(** C04: ... and read-only transactions are never refused *)
Definition oracle_c04 (ops : list op) (xs : list out) : bool :=
  oracle_c04_core ops xs && ro_never_refused (evs_of ops xs).
(** finding class C04-K1: the only failures are refusals (SerializationFailure) of Serializable
    transactions with an empty write set that read something an overlapping committed
    transaction wrote *)
Definition k_c04_ro (ops : list op) (xs : list out) : bool :=
  oracle_c04_core ops xs && k_ro_only (evs_of ops xs).

(** is the run non-trivial for the evidence count?  C03: two transactions wrote a common entity
    and somebody committed; C04: an rw-antidependency between overlapping transactions *)
Definition nt_c03 (ops : list op) (xs : list out) : bool :=
  let G := history (evs_of ops xs) in
  (0 <? ncommitted G) &&
  existsb (fun p1 => existsb (fun p2 => negb (fst p1 =? fst p2) && inter (h_ws (snd p1)) (h_ws (snd p2))) G) G.

(** ** the session level (GrafeoDB::session, GQL) *)
(** operations issued through sessions: [SSet]/[SGet] are property writes/reads done by queries *)
Inductive sop :=
| SBegin (i : iso)
| SSet (t : Z) (e : entity)
| SGet (t : Z) (e : entity)
| SCommit (t : Z)
| SRollback (t : Z)
| SRefused.   (* begin on a session that has a transaction open, commit/rollback on one that has
                 none: refused by the session itself (InvalidState), nothing reaches the manager *)

(** what reaches the transaction manager: nothing on the query path calls [record_write] or
    [record_read] (DESIGN §0(d)); [Session::commit]/[rollback] call [commit]/[abort] *)
Definition actual (o : sop) : list op :=
  match o with
  | SBegin i => [Begin i]
  | SSet _ _ | SGet _ _ | SRefused => []
  | SCommit t => [Commit t]
  | SRollback t => [Abort t]
  end.
(** what the property needs to reach it *)
Definition intended (o : sop) : list op :=
  match o with
  | SBegin i => [Begin i]
  | SSet t e => [Write t e]
  | SGet t e => [Read t e]
  | SCommit t => [Commit t]
  | SRollback t => [Abort t]
  | SRefused => []
  end.

(** result kinds seen at the session API (no ids, no epochs) *)
Inductive skind := SOk | SErr (k : errkind) | SOther.   (* SOther: an error kind the model never answers *)
Definition kind_of (x : out) : skind := match x with Err k => SErr k | _ => SOk end.
Definition skind_eqb (a b : skind) : bool :=
  match a, b with SOk, SOk => true | SErr x, SErr y => err_eqb x y | _, _ => false end.

(** model == implementation at the session level: the manager, driven by what actually reaches
    it, answers begin/commit/rollback as the sessions observed; queries always succeed *)
Definition sess_model_kinds (sops : list sop) : list skind :=
  let ops := flat_map actual sops in
  let xs := outs ops in
  (fix go (l : list sop) (xs : list out) : list skind :=
     match l with
     | [] => []
     | o :: l' =>
         match actual o, xs with
         | [], _ => (match o with SRefused => SErr InvalidState | _ => SOk end) :: go l' xs
         | _ :: _, x :: xs' => kind_of x :: go l' xs'
         | _ :: _, [] => []
         end
     end) sops xs.
Definition chk_session (sops : list sop) (ks : list skind) : bool :=
  list_eqb skind_eqb (sess_model_kinds sops) ks.

(** the history the property speaks about: every session write/read counted, with the answers
    the sessions observed ([c]-th successful commit = epoch [c]) *)
Fixpoint sess_evs (f : sop -> list op) (n next : Z) (sops : list sop) (ks : list skind) : list (op * out) :=
  match sops, ks with
  | o :: l, k :: ks' =>
      match o, k with
      | SBegin i, SOk => map (fun x => (x, OkTx next)) (f o) ++ sess_evs f n (next + 1) l ks'
      | SCommit t, SOk => map (fun x => (x, OkEpoch (n + 1))) (f o) ++ sess_evs f (n + 1) next l ks'
      | _, SOk => map (fun x => (x, OkUnit)) (f o) ++ sess_evs f n next l ks'
      | _, SErr e => map (fun x => (x, Err e)) (f o) ++ sess_evs f n next l ks'
      | _, SOther => sess_evs f n next l ks'
      end
  | _, _ => []
  end.
Definition sess_hist (f : sop -> list op) (sops : list sop) (ks : list skind) : hist :=
  history (sess_evs f 0 2 sops ks).

(** C03 at the session level: first committer wins on the intended history *)
Definition oracle_sess_c03 (sops : list sop) (ks : list skind) : bool :=
  fcw_okb (sess_hist intended sops ks).
(** C04 at the session level: all-Serializable histories have forward dependencies only *)
Definition oracle_sess_c04 (sops : list sop) (ks : list skind) : bool :=
  let G := sess_hist intended sops ks in
  negb (all_serializableb G) || (deps_forwardb G && acyclicb G).

(** finding class K2 (C03-K2, C04-K2): the conflicting writes/reads were issued through a
    session/query, not through record_write/record_read — the history of what was registered
    satisfies the oracle, the history of what was done does not *)
Definition k_sess_c03 (sops : list sop) (ks : list skind) : bool :=
  fcw_okb (sess_hist actual sops ks) && negb (oracle_sess_c03 sops ks)
  && existsb (fun o => match o with SSet _ _ => true | _ => false end) sops.
Definition k_sess_c04 (sops : list sop) (ks : list skind) : bool :=
  (let G := sess_hist actual sops ks in negb (all_serializableb G) || (deps_forwardb G && acyclicb G))
  && negb (oracle_sess_c04 sops ks)
  && existsb (fun o => match o with SSet _ _ | SGet _ _ => true | _ => false end) sops.

(** the model's answers under the session mapping, for display *)
Definition show_session (sops : list sop) : list skind := sess_model_kinds sops.
