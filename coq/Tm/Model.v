(** C03 / C04 — executable model of [grafeo_engine::transaction::manager::TransactionManager]
    (crates/grafeo-engine/src/transaction/manager.rs), transcribed branch for branch from the
    code that exists (after repair b5dad36; the pre-repair first loop is kept as [f1 = false]).

    State: [transactions : FxHashMap<TxId, TxInfo>], [committed_epochs : FxHashMap<TxId, EpochId>],
    [current_epoch], [next_tx_id].  Hash maps are association lists here; their iteration order is
    never observable (every loop of the code only decides "does a conflicting entry exist").
    Machine width of the two counters (u64, wrapping [fetch_add]) is not modelled: 2^64 begins or
    commits are out of reach.  [mark_committed] (recovery only) is not modelled.
    No proofs in this file. *)
From Coq Require Export ZArith List Bool.
Export ListNotations.
Open Scope Z_scope.

(** ** types *)
Inductive iso := ReadCommitted | SnapshotIsolation | Serializable.
Inductive tstate := Active | Committed | Aborted.
Inductive entity := ENode (id : Z) | EEdge (id : Z).
Inductive errkind := InvalidState | WriteConflict | SerializationFailure.

(** result of one API call: [begin] -> tx id, [record_*]/[abort]/[abort_all_active] -> unit,
    [commit] -> commit epoch, [gc] -> number of removed transactions, or an error kind *)
Inductive out := OkTx (t : Z) | OkUnit | OkEpoch (c : Z) | OkCount (n : Z) | Err (k : errkind).

Inductive op :=
| Begin (i : iso)
| Write (t : Z) (e : entity)
| Read (t : Z) (e : entity)
| Commit (t : Z)
| Abort (t : Z)
| Gc
| AbortAll.

Definition iso_eqb (a b : iso) : bool :=
  match a, b with
  | ReadCommitted, ReadCommitted | SnapshotIsolation, SnapshotIsolation | Serializable, Serializable => true
  | _, _ => false
  end.
Definition tstate_eqb (a b : tstate) : bool :=
  match a, b with
  | Active, Active | Committed, Committed | Aborted, Aborted => true
  | _, _ => false
  end.
Definition ent_eqb (a b : entity) : bool :=
  match a, b with
  | ENode x, ENode y => x =? y
  | EEdge x, EEdge y => x =? y
  | _, _ => false
  end.
Definition err_eqb (a b : errkind) : bool :=
  match a, b with
  | InvalidState, InvalidState | WriteConflict, WriteConflict
  | SerializationFailure, SerializationFailure => true
  | _, _ => false
  end.
Definition out_eqb (a b : out) : bool :=
  match a, b with
  | OkTx x, OkTx y => x =? y
  | OkUnit, OkUnit => true
  | OkEpoch x, OkEpoch y => x =? y
  | OkCount x, OkCount y => x =? y
  | Err x, Err y => err_eqb x y
  | _, _ => false
  end.

(** ** finite sets of entities ([HashSet<EntityId>]) as duplicate-free lists *)
Definition mem (e : entity) (l : list entity) : bool := existsb (ent_eqb e) l.
Definition add (e : entity) (l : list entity) : list entity := if mem e l then l else e :: l.
(** "for entity in a { if b.contains(entity) { return Err } }" *)
Definition inter (a b : list entity) : bool := existsb (fun e => mem e b) a.
Definition is_empty {A} (l : list A) : bool := match l with [] => true | _ => false end.

(** ** association lists keyed by [Z] ([FxHashMap<TxId, _>]) *)
Section AL.
  Context {V : Type}.
  Fixpoint lookup (k : Z) (l : list (Z * V)) : option V :=
    match l with
    | [] => None
    | (k', v) :: r => if k' =? k then Some v else lookup k r
    end.
  Definition remove_key (k : Z) (l : list (Z * V)) : list (Z * V) :=
    filter (fun p => negb (fst p =? k)) l.
  (** [HashMap::insert] *)
  Definition ins (k : Z) (v : V) (l : list (Z * V)) : list (Z * V) := (k, v) :: remove_key k l.
  (** [get_mut] + in-place change of one entry *)
  Fixpoint upd (k : Z) (f : V -> V) (l : list (Z * V)) : list (Z * V) :=
    match l with
    | [] => []
    | (k', v) :: r => if k' =? k then (k', f v) :: r else (k', v) :: upd k f r
    end.
  Definition keys (l : list (Z * V)) : list Z := map fst l.
End AL.

(** ** state *)
Record txinfo := mkTx {
  t_state : tstate;
  t_iso : iso;
  t_start : Z;
  t_ws : list entity;
  t_rs : list entity }.

Record st := mkSt {
  txs : list (Z * txinfo);
  committed : list (Z * Z);
  epoch : Z;
  next : Z }.

(** [TransactionManager::new]: ids start at 2 (0 = INVALID, 1 = SYSTEM), epoch 0 *)
Definition init : st := mkSt [] [] 0 2.

Definition set_state (x : tstate) (i : txinfo) : txinfo := mkTx x (t_iso i) (t_start i) (t_ws i) (t_rs i).
Definition add_write (e : entity) (i : txinfo) : txinfo :=
  mkTx (t_state i) (t_iso i) (t_start i) (add e (t_ws i)) (t_rs i).
Definition add_read (e : entity) (i : txinfo) : txinfo :=
  mkTx (t_state i) (t_iso i) (t_start i) (t_ws i) (add e (t_rs i)).

Definition with_txs (s : st) (l : list (Z * txinfo)) : st := mkSt l (committed s) (epoch s) (next s).

(** [begin_with_isolation] *)
Definition begin (s : st) (i : iso) : st * out :=
  let t := next s in
  (mkSt (ins t (mkTx Active i (epoch s) [] []) (txs s)) (committed s) (epoch s) (next s + 1), OkTx t).

(** [record_write] / [record_read]: unknown id or not Active -> InvalidState *)
Definition record (f : txinfo -> txinfo) (s : st) (t : Z) : st * out :=
  match lookup t (txs s) with
  | None => (s, Err InvalidState)
  | Some i =>
      if negb (tstate_eqb (t_state i) Active) then (s, Err InvalidState)
      else (with_txs s (upd t f (txs s)), OkUnit)
  end.

(** ** [commit] — the four validation loops *)

(** first write-validation loop: over [txns.iter()], skipping ourselves; after b5dad36 only
    entries whose commit epoch is unknown or later than our start are considered
    ([f1 = false] is the loop as it was before the repair: no overlap test) *)
Definition ww1 (f1 : bool) (s : st) (t start : Z) (ws : list entity) : bool :=
  existsb (fun p =>
    negb (fst p =? t) &&
    (let overlaps := match lookup (fst p) (committed s) with
                     | None => true
                     | Some ce => start <? ce
                     end in
     tstate_eqb (t_state (snd p)) Committed && (overlaps || negb f1) && inter ws (t_ws (snd p))))
    (txs s).

(** second write-validation loop: over [committed.iter()] *)
Definition ww2 (s : st) (t start : Z) (ws : list entity) : bool :=
  existsb (fun p =>
    negb (fst p =? t) && (start <? snd p) &&
    match lookup (fst p) (txs s) with
    | Some oi => inter ws (t_ws oi)
    | None => false
    end) (committed s).

(** SSI, first loop: over [committed.iter()] with the read set *)
Definition rw1 (s : st) (t start : Z) (rs : list entity) : bool :=
  existsb (fun p =>
    negb (fst p =? t) && (start <? snd p) &&
    match lookup (fst p) (txs s) with
    | Some oi => inter rs (t_ws oi)
    | None => false
    end) (committed s).

(** SSI, second loop: over [txns.iter()], Committed entries whose recorded epoch is later than
    our start *)
Definition rw2 (s : st) (t start : Z) (rs : list entity) : bool :=
  existsb (fun p =>
    negb (fst p =? t) && tstate_eqb (t_state (snd p)) Committed &&
    existsb (fun e => mem e (t_ws (snd p)) &&
                      match lookup (fst p) (committed s) with
                      | Some ce => start <? ce
                      | None => false
                      end) rs)
    (txs s).

Definition commit_gen (f1 : bool) (s : st) (t : Z) : st * out :=
  match lookup t (txs s) with
  | None => (s, Err InvalidState)
  | Some i =>
      if negb (tstate_eqb (t_state i) Active) then (s, Err InvalidState)
      else if ww1 f1 s t (t_start i) (t_ws i) then (s, Err WriteConflict)
      else if ww2 s t (t_start i) (t_ws i) then (s, Err WriteConflict)
      else if iso_eqb (t_iso i) Serializable && negb (is_empty (t_rs i))
              && (rw1 s t (t_start i) (t_rs i) || rw2 s t (t_start i) (t_rs i))
           then (s, Err SerializationFailure)
      else
        let ce := epoch s + 1 in
        (mkSt (upd t (set_state Committed) (txs s)) (ins t ce (committed s)) ce (next s), OkEpoch ce)
  end.

(** [abort] *)
Definition abort (s : st) (t : Z) : st * out :=
  match lookup t (txs s) with
  | None => (s, Err InvalidState)
  | Some i =>
      if negb (tstate_eqb (t_state i) Active) then (s, Err InvalidState)
      else (with_txs s (upd t (set_state Aborted) (txs s)), OkUnit)
  end.

(** [abort_all_active] *)
Definition abort_all (s : st) : st * out :=
  (with_txs s (map (fun p => (fst p, if tstate_eqb (t_state (snd p)) Active then set_state Aborted (snd p) else snd p)) (txs s)),
   OkUnit).

(** ** [gc] *)
Definition omin (a : option Z) (b : Z) : option Z :=
  match a with None => Some b | Some x => Some (Z.min x b) end.
(** minimum start epoch among Active transactions *)
Definition min_active_start (l : list (Z * txinfo)) : option Z :=
  fold_left (fun acc p => if tstate_eqb (t_state (snd p)) Active then omin acc (t_start (snd p)) else acc) l None.

(** the [filter] closure of [gc]: is this entry removed? *)
Definition gc_removes (s : st) (m : option Z) (p : Z * txinfo) : bool :=
  match t_state (snd p) with
  | Active => false
  | Aborted => true
  | Committed =>
      match m with
      | Some min_start =>
          match lookup (fst p) (committed s) with
          | Some ce => ce <? min_start
          | None => false
          end
      | None => true
      end
  end.

Definition gc (s : st) : st * out :=
  let m := min_active_start (txs s) in
  let to_remove := map fst (filter (gc_removes s m) (txs s)) in
  let gone := fun k => existsb (Z.eqb k) to_remove in
  let txs' := filter (fun p => negb (gone (fst p))) (txs s) in
  let com' := filter (fun p => negb (gone (fst p))) (committed s) in
  (mkSt txs' com' (epoch s) (next s), OkCount (Z.of_nat (length (txs s)) - Z.of_nat (length txs'))).

(** ** the step function *)
Definition step_gen (f1 : bool) (s : st) (o : op) : st * out :=
  match o with
  | Begin i => begin s i
  | Write t e => record (add_write e) s t
  | Read t e => record (add_read e) s t
  | Commit t => commit_gen f1 s t
  | Abort t => abort s t
  | Gc => gc s
  | AbortAll => abort_all s
  end.

(** the code as it is now *)
Definition step : st -> op -> st * out := step_gen true.
(** the code before repair b5dad36 (first loop without the overlap test) *)
Definition step_pre : st -> op -> st * out := step_gen false.

Fixpoint run_gen (f1 : bool) (s : st) (ops : list op) : st * list out :=
  match ops with
  | [] => (s, [])
  | o :: r => let (s1, x) := step_gen f1 s o in
              let (s2, xs) := run_gen f1 s1 r in (s2, x :: xs)
  end.

Definition run : st -> list op -> st * list out := run_gen true.
Definition exec (ops : list op) : st * list out := run init ops.
Definition st_after (ops : list op) : st := fst (exec ops).
Definition outs (ops : list op) : list out := snd (exec ops).
Definition outs_pre (ops : list op) : list out := snd (run_gen false init ops).
(** the answer the manager gives to [o] after the history [pre] *)
Definition answer (pre : list op) (o : op) : out := snd (step (st_after pre) o).

(** ** read-only observers ([state], [start_epoch], [isolation_level], [get_write_set],
    [current_epoch], [active_count], [min_active_epoch]) *)
Definition active_count (s : st) : Z :=
  Z.of_nat (length (filter (fun p => tstate_eqb (t_state (snd p)) Active) (txs s))).
Definition min_active_epoch (s : st) : Z :=
  match min_active_start (txs s) with Some m => m | None => epoch s end.
