(** C15, second part — bit vectors, dictionary encoding, the automatic codec selector with the
    byte-level compress/decompress of [TypeSpecificCompressor], compressed adjacency chunks and
    the hot/compressed split of a property column.  Definitions only. *)
From GV Require Export Codec.Model.
Open Scope Z_scope.

(** * BitVector (storage/bitvec.rs) *)

Record bitvec := { bv_data : list Z; bv_len : Z }.

(** one word: bit [off + j] is the j-th boolean *)
Fixpoint bools_word (bs : list bool) (off : Z) : Z :=
  match bs with
  | [] => 0
  | b :: r => Z.lor (if b then Z.shiftl 1 off else 0) (bools_word r (off + 1))
  end.

Definition bv_from_bools (bs : list bool) : bitvec :=
  {| bv_data := map (fun w => bools_word (firstn 64 (skipn (w * 64) bs)) 0)
                    (seq 0 ((length bs + 63) / 64));
     bv_len := Z.of_nat (length bs) |}.

Definition bv_get (v : bitvec) (i : Z) : option bool :=
  if bv_len v <=? i then None
  else Some (negb (Z.land (nth (Z.to_nat (i / 64)) (bv_data v) 0) (Z.shiftl 1 (i mod 64)) =? 0)).

Definition bv_to_bools (v : bitvec) : list bool :=
  map (fun i => match bv_get v (Z.of_nat i) with Some b => b | None => false end)
      (seq 0 (Z.to_nat (bv_len v))).

(** [push]: appends one bit (allocating a word when needed) *)
Fixpoint set_nth (n : nat) (x : Z) (l : list Z) : list Z :=
  match l, n with
  | [], _ => []
  | _ :: r, O => x :: r
  | a :: r, S k => a :: set_nth k x r
  end.

Definition bv_push (v : bitvec) (b : bool) : bitvec :=
  let w := Z.to_nat (bv_len v / 64) in
  let bit := bv_len v mod 64 in
  let data := if (length (bv_data v) <=? w)%nat then bv_data v ++ [0] else bv_data v in
  let data' := if b then set_nth w (Z.lor (nth w data 0) (Z.shiftl 1 bit)) data else data in
  {| bv_data := data'; bv_len := bv_len v + 1 |}.

(** population count of the low 64 bits *)
Definition popcount64 (w : Z) : Z :=
  Z.of_nat (length (filter (fun j => Z.testbit w (Z.of_nat j)) (seq 0 64))).

Definition bv_count_ones (v : bitvec) : Z :=
  if bv_len v =? 0 then 0 else
  let full := Z.to_nat (bv_len v / 64) in
  let rem := bv_len v mod 64 in
  fold_right Z.add 0 (map popcount64 (firstn full (bv_data v)))
  + (if (0 <? rem) && (Z.of_nat full <? Z.of_nat (length (bv_data v)))
     then popcount64 (Z.land (nth full (bv_data v) 0) (2 ^ rem - 1)) else 0).

Definition bv_to_bytes (v : bitvec) : list Z :=
  le_bytes 4 (bv_len v) ++ flat_map (le_bytes 8) (bv_data v).

Definition bv_from_bytes (bs : list Z) : option bitvec :=
  let len := Z.of_nat (length bs) in
  if len <? 4 then None else
  let n := of_le_bytes (firstn 4 bs) in
  let nw := (n + 63) / 64 in
  if len <? 4 + nw * 8 then None else
  Some {| bv_data := read_u64s (Z.to_nat nw) (skipn 4 bs); bv_len := n |}.

(** * DictionaryEncoding (storage/dictionary.rs); strings are byte lists *)

Definition str := list Z.
Record dict := { dc_dict : list str; dc_codes : list Z; dc_nulls : option (list Z) }.
Record dbuilder := { db_dict : list str; db_codes : list Z; db_nullpos : list Z }.

Definition db_new : dbuilder := {| db_dict := []; db_codes := []; db_nullpos := [] |}.

Fixpoint index_of (s : str) (d : list str) (i : Z) : option Z :=
  match d with
  | [] => None
  | x :: r => if zlist_eqb x s then Some i else index_of s r (i + 1)
  end.

Definition db_add (b : dbuilder) (s : str) : dbuilder :=
  match index_of s (db_dict b) 0 with
  | Some c => {| db_dict := db_dict b; db_codes := db_codes b ++ [c]; db_nullpos := db_nullpos b |}
  | None => {| db_dict := db_dict b ++ [s]; db_codes := db_codes b ++ [Z.of_nat (length (db_dict b))];
               db_nullpos := db_nullpos b |}
  end.

Definition db_add_null (b : dbuilder) : dbuilder :=
  {| db_dict := db_dict b; db_codes := db_codes b ++ [0];
     db_nullpos := db_nullpos b ++ [Z.of_nat (length (db_codes b))] |}.

Definition db_add_optional (b : dbuilder) (o : option str) : dbuilder :=
  match o with Some s => db_add b s | None => db_add_null b end.

(** the null bitmap as [build] computes it: word w has bit j set iff position 64w+j is null *)
Definition null_bitmap (n : nat) (nullpos : list Z) : list Z :=
  map (fun w => bools_word (map (fun j => existsb (Z.eqb (Z.of_nat (w * 64 + j))) nullpos) (seq 0 64)) 0)
      (seq 0 ((n + 63) / 64)).

Definition db_build (b : dbuilder) : dict :=
  {| dc_dict := db_dict b; dc_codes := db_codes b;
     dc_nulls := match db_nullpos b with
                 | [] => None
                 | _ => Some (null_bitmap (length (db_codes b)) (db_nullpos b))
                 end |}.

Definition dc_is_null (d : dict) (i : Z) : bool :=
  match dc_nulls d with
  | None => false
  | Some bm =>
      if i / 64 <? Z.of_nat (length bm)
      then negb (Z.land (nth (Z.to_nat (i / 64)) bm 0) (Z.shiftl 1 (i mod 64)) =? 0)
      else false
  end.

Definition dc_get (d : dict) (i : Z) : option str :=
  if dc_is_null d i then None
  else match nth_error (dc_codes d) (Z.to_nat i) with
       | None => None
       | Some c => nth_error (dc_dict d) (Z.to_nat c)
       end.

Definition dict_encode (vs : list (option str)) : dict := db_build (fold_left db_add_optional vs db_new).

(** * CodecSelector::select_for_integers and TypeSpecificCompressor (storage/codec.rs) *)

Inductive codec := CNone | CDbp (bits : Z) | CBp (bits : Z) | CRle.

Definition run_count (xs : list Z) : Z := Z.of_nat (length (rl_runs (rle_encode xs))).

(** The float comparisons of the selector, stated exactly over the integers they compare
    (all quantities are quotients of small integers; the f64 roundings cannot change the
    outcome for lengths below 2^40, which the correspondence run confirms):
      avg_run_length = len / runs > 2.0          <->  len > 2 * runs
      rle_ratio = 8 len / (16 runs) > 1.5        <->  len > 3 * runs
      rle_ratio > 64 / bits                      <->  len * bits > 128 * runs
      rle_ratio > 1.0                            <->  len > 2 * runs                      *)
Definition select_for_integers (xs : list Z) : codec :=
  let len := Z.of_nat (length xs) in
  if len <? 8 then CNone else
  let runs := run_count xs in
  if (2 * runs <? len) && (3 * runs <? len) then CRle else
  if sortedb xs then
    let bits := bits_needed (zlist_max (windows2 (fun a b => b - a) xs)) in
    if (128 * runs <? len * bits) && (2 * runs <? len) then CRle else CDbp bits
  else
    let bits := bits_needed (zlist_max xs) in
    if (128 * runs <? len * bits) && (2 * runs <? len) then CRle
    else if bits <? 32 then CBp bits else CNone.

Definition rle_from_bytes (bs : list Z) : option rle :=
  let len := Z.of_nat (length bs) in
  if len <? 8 then None else
  let n := of_le_bytes (firstn 8 bs) in
  if len <? 8 + n * 16 then None else
  let ws := read_u64s (Z.to_nat (2 * n)) (skipn 8 bs) in
  let fix pairs (l : list Z) : list (Z * Z) :=
    match l with a :: b :: r => (a, b) :: pairs r | _ => [] end in
  let runs := pairs ws in
  Some {| rl_runs := runs; rl_total := fold_right Z.add 0 (map snd runs) |}.

Definition dbp_from_bytes (bs : list Z) : res (option dbp) :=
  if Z.of_nat (length bs) <? 8 then Ok None else
  match bp_from_bytes (skipn 8 bs) with
  | Panic => Panic
  | Ok None => Ok None
  | Ok (Some p) => Ok (Some {| dbp_base := of_le_bytes (firstn 8 bs); dbp_deltas := p |})
  end.

Definition compress_as (c : codec) (xs : list Z) : list Z :=
  match c with
  | CNone => flat_map (le_bytes 8) xs
  | CDbp _ => dbp_to_bytes (dbp_encode xs)
  | CBp _ => bp_to_bytes (pack xs)
  | CRle => rle_to_bytes (rle_encode xs)
  end.

Definition decompress_as (c : codec) (bs : list Z) : res (option (list Z)) :=
  match c with
  | CNone => Ok (Some (read_u64s (length bs / 8) bs))
  | CDbp _ => rmap (option_map dbp_decode) (dbp_from_bytes bs)
  | CBp _ => rmap (option_map unpack) (bp_from_bytes bs)
  | CRle => Ok (option_map rle_decode (rle_from_bytes bs))
  end.

Definition compress_integers (xs : list Z) : codec * list Z :=
  let c := select_for_integers xs in (c, compress_as c xs).

(** * Compressed adjacency chunk (index/adjacency.rs): stable sort by destination, delta+bit-pack
      the destinations, bit-pack the edge ids *)

Fixpoint insert_by_dst (e : Z * Z) (l : list (Z * Z)) : list (Z * Z) :=
  match l with
  | [] => [e]
  | x :: r => if fst x <=? fst e then x :: insert_by_dst e r else e :: x :: r
  end.
(** stable: an element is placed after every earlier element with a destination <= its own *)
Definition sort_by_dst (l : list (Z * Z)) : list (Z * Z) := fold_left (fun acc e => insert_by_dst e acc) l [].

Record cchunk := { cc_dst : dbp; cc_edges : bitpacked; cc_count : Z }.

Definition chunk_compress (entries : list (Z * Z)) : cchunk :=
  let s := sort_by_dst entries in
  {| cc_dst := dbp_encode (map fst s); cc_edges := pack (map snd s); cc_count := Z.of_nat (length s) |}.

Definition chunk_iter (c : cchunk) : list (Z * Z) := combine (dbp_decode (cc_dst c)) (unpack (cc_edges c)).

(** * Property column: hot buffer + compressed part (graph/lpg/property.rs, after the repair
      "property reads see values that were moved into the compressed part") *)

Inductive pval := PInt (v : Z) | PStr (s : str) | PBool (b : bool) | POther (tag : Z).

Definition pval_eqb (a b : pval) : bool :=
  match a, b with
  | PInt x, PInt y => x =? y
  | PStr x, PStr y => zlist_eqb x y
  | PBool x, PBool y => Bool.eqb x y
  | POther x, POther y => x =? y
  | _, _ => false
  end.

(** hot: association list id -> value (latest first); compressed: ids sorted ascending with
    their decoded values (the codec round trips are the theorems of this property) *)
Record column := { col_hot : list (Z * pval); col_comp : option (list (Z * pval)) }.

Definition col_empty : column := {| col_hot := []; col_comp := None |}.

Fixpoint assoc_get (id : Z) (l : list (Z * pval)) : option pval :=
  match l with
  | [] => None
  | (k, v) :: r => if k =? id then Some v else assoc_get id r
  end.
Fixpoint assoc_remove (id : Z) (l : list (Z * pval)) : list (Z * pval) :=
  match l with
  | [] => []
  | (k, v) :: r => if k =? id then assoc_remove id r else (k, v) :: assoc_remove id r
  end.

Definition col_set (c : column) (id : Z) (v : pval) : column :=
  {| col_hot := (id, v) :: assoc_remove id (col_hot c); col_comp := col_comp c |}.

Definition col_get (c : column) (id : Z) : option pval :=
  match assoc_get id (col_hot c) with
  | Some v => Some v
  | None => match col_comp c with Some cs => assoc_get id cs | None => None end
  end.

(** [decompress_all]: compressed values return to the hot buffer unless a newer hot value exists *)
Definition col_decompress (c : column) : column :=
  match col_comp c with
  | None => c
  | Some cs =>
      {| col_hot := col_hot c ++ filter (fun kv => match assoc_get (fst kv) (col_hot c) with Some _ => false | None => true end) cs;
         col_comp := None |}
  end.

Definition col_remove (c : column) (id : Z) : column * option pval :=
  let c1 := match col_comp c with
            | Some cs => match assoc_get id cs with Some _ => col_decompress c | None => c end
            | None => c
            end in
  ({| col_hot := assoc_remove id (col_hot c1); col_comp := col_comp c1 |}, assoc_get id (col_hot c1)).

Inductive ckind := KInt | KStr | KBool.
Definition kind_of (v : pval) : option ckind :=
  match v with PInt _ => Some KInt | PStr _ => Some KStr | PBool _ => Some KBool | POther _ => None end.
Definition is_kind (k : ckind) (v : pval) : bool :=
  match k, v with KInt, PInt _ => true | KStr, PStr _ => true | KBool, PBool _ => true | _, _ => false end.

Fixpoint insert_by_id (e : Z * pval) (l : list (Z * pval)) : list (Z * pval) :=
  match l with
  | [] => [e]
  | x :: r => if fst x <=? fst e then x :: insert_by_id e r else e :: x :: r
  end.
Definition sort_by_id (l : list (Z * pval)) : list (Z * pval) := fold_left (fun acc e => insert_by_id e acc) l [].

(** [compress] with its decisions as inputs: [took = None] when the call left the column alone
    (already compressed, empty, no dominant type, fewer than 8 values, or the ratio test failed),
    [took = Some k] when the values of kind [k] moved to the compressed part *)
Definition col_compress (c : column) (took : option ckind) : column :=
  match took, col_comp c with
  | Some k, None =>
      {| col_hot := filter (fun kv => negb (is_kind k (snd kv))) (col_hot c);
         col_comp := Some (sort_by_id (filter (fun kv => is_kind k (snd kv)) (col_hot c))) |}
  | _, _ => c
  end.

(** mutations of a column and their reference (plain map) semantics — compression is invisible *)
Inductive cmut := MSet (id : Z) (v : pval) | MRemove (id : Z) | MCompress (took : option ckind) | MDecompress.
Definition col_apply (c : column) (m : cmut) : column :=
  match m with
  | MSet id v => col_set c id v
  | MRemove id => fst (col_remove c id)
  | MCompress t => col_compress c t
  | MDecompress => col_decompress c
  end.
Definition ref_apply (r : list (Z * pval)) (m : cmut) : list (Z * pval) :=
  match m with
  | MSet id v => (id, v) :: assoc_remove id r
  | MRemove id => assoc_remove id r
  | MCompress _ => r
  | MDecompress => r
  end.
