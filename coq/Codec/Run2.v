(** C15, second part — comparison of implementation observations with Model2. *)
From GV Require Export Codec.Model2 Codec.Run.
Open Scope Z_scope.

Definition blist_eqb := list_eqb Bool.eqb.
Definition ob_eqb := option_eqb Bool.eqb.
Definition ostr_eqb := option_eqb zlist_eqb.

(** bit vector built by [from_bools] and by pushes: words, length, every get, to_bools,
    count_ones, bytes, and the bytes parsed back *)
Inductive obs_bv := ObsBv (data : list Z) (len : Z) (gets : list (Z * option bool)) (bools : list bool)
                          (ones : Z) (bytes : list Z) (reparsed : option (list bool)) (pushed_data : list Z).
Definition chk_bitvec (bs : list bool) (o : obs_bv) : bool :=
  match o with ObsBv data len gs bools ones bytes rp pdata =>
    let v := bv_from_bools bs in
    zlist_eqb (bv_data v) data && (bv_len v =? len)
    && forallb (fun g => ob_eqb (bv_get v (fst g)) (snd g)) gs
    && blist_eqb (bv_to_bools v) bools && (bv_count_ones v =? ones)
    && zlist_eqb (bv_to_bytes v) bytes
    && option_eqb blist_eqb (option_map bv_to_bools (bv_from_bytes bytes)) rp
    && zlist_eqb (bv_data (fold_left bv_push bs {| bv_data := []; bv_len := 0 |})) pdata
  end.

Inductive obs_dict := ObsDict (dictionary : list str) (codes : list Z) (gets : list (Z * option str)).
Definition chk_dict (vs : list (option str)) (o : obs_dict) : bool :=
  match o with ObsDict dd codes gs =>
    let d := dict_encode vs in
    list_eqb zlist_eqb (dc_dict d) dd && zlist_eqb (dc_codes d) codes
    && forallb (fun g => ostr_eqb (dc_get d (fst g)) (snd g)) gs
  end.

Definition codec_eqb (a b : codec) : bool :=
  match a, b with
  | CNone, CNone => true | CRle, CRle => true
  | CDbp x, CDbp y => x =? y | CBp x, CBp y => x =? y
  | _, _ => false
  end.
(** selector + compress_integers bytes + decompress_integers *)
Definition chk_compress (xs : list Z) (c : codec) (bytes : list Z) (dec : option (list Z)) : bool :=
  let (mc, mb) := compress_integers xs in
  codec_eqb mc c && zlist_eqb mb bytes
  && match decompress_as c bytes with
     | Ok o => option_eqb zlist_eqb o dec
     | Panic => false
     end.

(** a chunk frozen to cold storage iterates as the stable sort of its entries *)
Definition pairs_eqb := list_eqb pair_eqb.
Definition chk_chunk (entries : list (Z * Z)) (iterated : list (Z * Z)) : bool :=
  pairs_eqb (chunk_iter (chunk_compress entries)) iterated.

(** property column: a sequence of operations with the implementation's answers *)
Inductive cop :=
| OSet (id : Z) (v : pval)
| OGet (id : Z) (answer : option pval)
| ORemove (id : Z) (answer : option pval)
| OCompress (took : option ckind).
Definition opval_eqb := option_eqb pval_eqb.
Fixpoint run_col (c : column) (ops : list cop) : bool :=
  match ops with
  | [] => true
  | OSet id v :: r => run_col (col_set c id v) r
  | OGet id a :: r => opval_eqb (col_get c id) a && run_col c r
  | ORemove id a :: r => let (c', x) := col_remove c id in opval_eqb x a && run_col c' r
  | OCompress t :: r => run_col (col_compress c t) r
  end.
Definition chk_column (ops : list cop) : bool := run_col col_empty ops.
