(** C15, second part — proofs about Model2. *)
From GV Require Import Base.Bits Base.BitsFacts Codec.Model Codec.Proofs Codec.Model2.
From Coq Require Import ZArith Lia List ZifyBool Permutation Sorted.
Open Scope Z_scope.

(** * Property column: compression never changes what a read returns *)

Lemma assoc_get_remove_same id l : assoc_get id (assoc_remove id l) = None.
Proof.
  induction l as [|[k v] l IH]; [reflexivity|]. cbn [assoc_remove].
  destruct (Z.eqb_spec k id) as [->|Hne]; [exact IH|].
  cbn [assoc_get]. destruct (Z.eqb_spec k id); [contradiction|exact IH].
Qed.

Lemma assoc_get_remove_other id id' l : id' <> id -> assoc_get id' (assoc_remove id l) = assoc_get id' l.
Proof.
  intros Hne. induction l as [|[k v] l IH]; [reflexivity|]. cbn [assoc_remove assoc_get].
  destruct (Z.eqb_spec k id) as [->|Hk].
  - destruct (Z.eqb_spec id id'); [congruence|exact IH].
  - cbn [assoc_get]. destruct (k =? id'); [reflexivity|exact IH].
Qed.

Lemma assoc_get_none_notin id l : assoc_get id l = None <-> ~ In id (map fst l).
Proof.
  induction l as [|[k v] l IH]; cbn [assoc_get map fst In]; [tauto|].
  destruct (Z.eqb_spec k id) as [->|Hne].
  - split; [discriminate|]. intros H. exfalso. apply H. left. reflexivity.
  - rewrite IH. tauto.
Qed.

Lemma assoc_remove_keys id l x : In x (map fst (assoc_remove id l)) -> In x (map fst l) /\ x <> id.
Proof.
  induction l as [|[k v] l IH]; cbn [assoc_remove map fst In]; [tauto|].
  destruct (Z.eqb_spec k id) as [->|Hne].
  - intros H. apply IH in H. tauto.
  - cbn [map fst In]. intros [Hx|Hx]; [subst; tauto|]. apply IH in Hx. tauto.
Qed.

Lemma assoc_remove_nodup id l : NoDup (map fst l) -> NoDup (map fst (assoc_remove id l)).
Proof.
  induction l as [|[k v] l IH]; cbn [assoc_remove map fst]; [auto|].
  intros H. inversion H as [|? ? Hnin Hnd]; subst.
  destruct (k =? id); [apply IH; exact Hnd|]. cbn [map fst]. constructor; [|apply IH; exact Hnd].
  intros Hin. apply assoc_remove_keys in Hin. tauto.
Qed.

Lemma assoc_get_filter (p : Z * pval -> bool) id l :
  NoDup (map fst l) ->
  assoc_get id (filter p l) = match assoc_get id l with
                              | Some v => if p (id, v) then Some v else None
                              | None => None
                              end.
Proof.
  induction l as [|[k v] l IH]; [reflexivity|]. cbn [map fst]. intros H.
  inversion H as [|? ? Hnin Hnd]; subst. cbn [filter assoc_get].
  destruct (Z.eqb_spec k id) as [->|Hne].
  - destruct (p (id, v)) eqn:Ep.
    + cbn [assoc_get]. rewrite Z.eqb_refl. reflexivity.
    + rewrite IH by exact Hnd. apply assoc_get_none_notin in Hnin. rewrite Hnin. reflexivity.
  - destruct (p (k, v)); [cbn [assoc_get]; destruct (Z.eqb_spec k id); [contradiction|]|]; apply IH; exact Hnd.
Qed.

Lemma filter_keys_sub (p : Z * pval -> bool) l x : In x (map fst (filter p l)) -> In x (map fst l).
Proof.
  induction l as [|a l IH]; cbn [filter map]; [tauto|].
  destruct (p a); cbn [map In]; tauto.
Qed.

Lemma filter_nodup_keys (p : Z * pval -> bool) l : NoDup (map fst l) -> NoDup (map fst (filter p l)).
Proof.
  induction l as [|a l IH]; cbn [filter map]; [auto|]. intros H. inversion H; subst.
  destruct (p a); [cbn [map]; constructor; [|auto]|auto].
  intros Hin. apply filter_keys_sub in Hin. contradiction.
Qed.

(** insertion sort by id keeps the bindings *)
Lemma insert_by_id_keys e acc x : In x (map fst (insert_by_id e acc)) <-> x = fst e \/ In x (map fst acc).
Proof.
  induction acc as [|a acc IH]; cbn [insert_by_id map In]; [intuition|].
  destruct (fst a <=? fst e); cbn [map In]; [rewrite IH|]; intuition.
Qed.

Lemma insert_by_id_get_new e acc id :
  ~ In (fst e) (map fst acc) ->
  assoc_get id (insert_by_id e acc) = if fst e =? id then Some (snd e) else assoc_get id acc.
Proof.
  destruct e as [k v]. cbn [fst snd]. intros Hnin.
  induction acc as [|[k' v'] acc IH]; cbn [insert_by_id assoc_get fst]; [reflexivity|].
  cbn [map fst In] in Hnin.
  destruct (k' <=? k); cbn [assoc_get].
  - rewrite IH by tauto. destruct (Z.eqb_spec k' id) as [->|]; [|reflexivity].
    destruct (Z.eqb_spec k id); [subst; tauto|reflexivity].
  - reflexivity.
Qed.

Lemma insert_by_id_nodup e acc : ~ In (fst e) (map fst acc) -> NoDup (map fst acc) -> NoDup (map fst (insert_by_id e acc)).
Proof.
  induction acc as [|a acc IH]; cbn [insert_by_id map In]; intros Hnin Hnd.
  - constructor; [tauto|constructor].
  - inversion Hnd as [|? ? Ha Hnd']; subst.
    destruct (fst a <=? fst e); cbn [map].
    + constructor; [|apply IH; tauto]. rewrite insert_by_id_keys. intros [Heq|Hin]; [tauto|contradiction].
    + constructor; [cbn [In]; tauto|]. constructor; assumption.
Qed.

Lemma sort_fold_get l : forall acc id,
  NoDup (map fst l) -> NoDup (map fst acc) ->
  (forall x, In x (map fst l) -> ~ In x (map fst acc)) ->
  assoc_get id (fold_left (fun a e => insert_by_id e a) l acc)
  = match assoc_get id l with Some v => Some v | None => assoc_get id acc end
  /\ NoDup (map fst (fold_left (fun a e => insert_by_id e a) l acc)).
Proof.
  induction l as [|[k v] l IH]; intros acc id Hnd Hacc Hdis; [split; [reflexivity|exact Hacc]|].
  cbn [fold_left map fst] in *. inversion Hnd as [|? ? Hk Hnd']; subst.
  assert (Hnew : ~ In (fst (k, v)) (map fst acc)) by (cbn [fst]; apply Hdis; left; reflexivity).
  assert (Hdis' : forall x, In x (map fst l) -> ~ In x (map fst (insert_by_id (k, v) acc))).
  { intros x Hx. rewrite insert_by_id_keys. cbn [fst]. intros [->|Hin]; [contradiction|].
    apply (Hdis x); [right; exact Hx|exact Hin]. }
  destruct (IH (insert_by_id (k, v) acc) id Hnd' (insert_by_id_nodup _ _ Hnew Hacc) Hdis') as [Hg Hn].
  split; [|exact Hn]. rewrite Hg. cbn [assoc_get].
  rewrite insert_by_id_get_new by exact Hnew. cbn [fst snd].
  destruct (Z.eqb_spec k id) as [->|Hne].
  - assert (assoc_get id l = None) as -> by (apply assoc_get_none_notin; exact Hk). reflexivity.
  - reflexivity.
Qed.

Lemma sort_by_id_get l id : NoDup (map fst l) -> assoc_get id (sort_by_id l) = assoc_get id l.
Proof.
  intros H. unfold sort_by_id.
  destruct (sort_fold_get l [] id H (NoDup_nil _) (fun _ _ Hf => Hf)) as [Hg _].
  rewrite Hg. destruct (assoc_get id l); reflexivity.
Qed.
Lemma sort_by_id_nodup l : NoDup (map fst l) -> NoDup (map fst (sort_by_id l)).
Proof.
  intros H. unfold sort_by_id.
  destruct (sort_fold_get l [] 0 H (NoDup_nil _) (fun _ _ Hf => Hf)) as [_ Hn]. exact Hn.
Qed.

Lemma NoDup_app_intro {A} (l1 l2 : list A) :
  NoDup l1 -> NoDup l2 -> (forall x, In x l1 -> In x l2 -> False) -> NoDup (l1 ++ l2).
Proof.
  induction l1 as [|a l1 IH]; intros H1 H2 Hd; [exact H2|].
  inversion H1; subst. cbn [app]. constructor.
  - rewrite in_app_iff. intros [Hin|Hin]; [contradiction|]. apply (Hd a); [left; reflexivity|exact Hin].
  - apply IH; [assumption|assumption|]. intros x Hx1 Hx2. apply (Hd x); [right; exact Hx1|exact Hx2].
Qed.

(** the invariant of a column and the agreement with the reference map *)
Definition col_inv (c : column) : Prop :=
  NoDup (map fst (col_hot c)) /\ match col_comp c with Some cs => NoDup (map fst cs) | None => True end.
Definition col_agrees (c : column) (r : list (Z * pval)) : Prop := forall id, col_get c id = assoc_get id r.

Lemma col_set_ok c r id v : col_inv c -> col_agrees c r ->
  col_inv (col_set c id v) /\ col_agrees (col_set c id v) ((id, v) :: assoc_remove id r).
Proof.
  intros [Hh Hc] Ha. split.
  - split; [|exact Hc]. cbn [col_set col_hot map fst]. constructor; [|apply assoc_remove_nodup, Hh].
    intros Hin. apply assoc_remove_keys in Hin. tauto.
  - intros id'. unfold col_get. cbn [col_set col_hot col_comp assoc_get].
    destruct (Z.eqb_spec id id') as [->|Hne]; [reflexivity|].
    rewrite !assoc_get_remove_other by congruence. apply (Ha id').
Qed.

Lemma col_decompress_ok c r : col_inv c -> col_agrees c r ->
  col_inv (col_decompress c) /\ col_agrees (col_decompress c) r /\ col_comp (col_decompress c) = None.
Proof.
  intros [Hh Hc] Ha. unfold col_decompress. destruct (col_comp c) as [cs|] eqn:Ec.
  2:{ split; [split; [exact Hh|rewrite Ec; exact I]|]. split; [exact Ha|exact Ec]. }
  set (p := fun kv : Z * pval => match assoc_get (fst kv) (col_hot c) with Some _ => false | None => true end).
  split; [|split; [|reflexivity]].
  - split; [|exact I]. cbn [col_hot]. rewrite map_app.
    apply NoDup_app_intro; [exact Hh|apply filter_nodup_keys, Hc|].
    intros x Hx Hf. 
    assert (Hin : exists v, In (x, v) (filter p cs)).
    { apply in_map_iff in Hf as [[k v] [Hk Hin]]. cbn [fst] in Hk. subst. eauto. }
    destruct Hin as [v Hin]. apply filter_In in Hin as [_ Hp]. unfold p in Hp. cbn [fst] in Hp.
    destruct (assoc_get x (col_hot c)) eqn:Eg; [discriminate|].
    apply assoc_get_none_notin in Eg. contradiction.
  - intros id. rewrite <- (Ha id). unfold col_get. cbn [col_hot col_comp]. rewrite Ec.
    assert (Happ : forall l1 l2, assoc_get id (l1 ++ l2) = match assoc_get id l1 with Some v => Some v | None => assoc_get id l2 end).
    { induction l1 as [|[k v] l1 IH]; intros l2; [reflexivity|]. cbn [app assoc_get]. destruct (k =? id); [reflexivity|apply IH]. }
    rewrite Happ. destruct (assoc_get id (col_hot c)) eqn:Eg; [reflexivity|].
    rewrite assoc_get_filter by exact Hc. destruct (assoc_get id cs) as [v|]; [|reflexivity].
    unfold p. cbn [fst]. rewrite Eg. reflexivity.
Qed.

Lemma col_remove_ok c r id : col_inv c -> col_agrees c r ->
  col_inv (fst (col_remove c id)) /\ col_agrees (fst (col_remove c id)) (assoc_remove id r)
  /\ snd (col_remove c id) = assoc_get id r.
Proof.
  intros Hi Ha. unfold col_remove.
  set (c1 := match col_comp c with
             | Some cs => match assoc_get id cs with Some _ => col_decompress c | None => c end
             | None => c end).
  assert (H1 : col_inv c1 /\ col_agrees c1 r /\
               (match col_comp c1 with Some cs => assoc_get id cs = None | None => True end)).
  { subst c1. destruct (col_comp c) as [cs|] eqn:Ec.
    - destruct (assoc_get id cs) eqn:Eg.
      + destruct (col_decompress_ok c r Hi Ha) as (A & B & C). rewrite C. auto.
      + rewrite Ec. auto.
    - rewrite Ec. auto. }
  destruct H1 as ([Hh Hc] & Ha1 & Hnc). cbn [fst snd col_hot col_comp].
  split; [split; [apply assoc_remove_nodup, Hh|exact Hc]|]. split.
  - intros id'. unfold col_get. cbn [col_hot col_comp].
    destruct (Z.eq_dec id' id) as [->|Hne].
    + rewrite !assoc_get_remove_same. destruct (col_comp c1); [exact Hnc|reflexivity].
    + rewrite !assoc_get_remove_other by exact Hne. apply (Ha1 id').
  - rewrite <- (Ha1 id). unfold col_get. destruct (assoc_get id (col_hot c1)); [reflexivity|].
    destruct (col_comp c1); [symmetry; exact Hnc|reflexivity].
Qed.

Lemma col_compress_ok c r t : col_inv c -> col_agrees c r ->
  col_inv (col_compress c t) /\ col_agrees (col_compress c t) r.
Proof.
  intros [Hh Hc] Ha. unfold col_compress. destruct t as [k|]; [|split; [split|]; assumption].
  destruct (col_comp c) as [cs|] eqn:Ec; [split; [split; [|rewrite Ec]|]; assumption|].
  split.
  - split; cbn [col_hot col_comp]; [apply filter_nodup_keys, Hh|apply sort_by_id_nodup, filter_nodup_keys, Hh].
  - intros id. rewrite <- (Ha id). unfold col_get. cbn [col_hot col_comp]. rewrite Ec.
    rewrite sort_by_id_get by (apply filter_nodup_keys, Hh).
    rewrite !assoc_get_filter by exact Hh.
    destruct (assoc_get id (col_hot c)) as [v|]; [|reflexivity]. cbn [snd].
    destruct (is_kind k v); reflexivity.
Qed.

Lemma col_run_agrees ms : forall c r, col_inv c -> col_agrees c r ->
  col_inv (fold_left col_apply ms c) /\ col_agrees (fold_left col_apply ms c) (fold_left ref_apply ms r).
Proof.
  induction ms as [|m ms IH]; intros c r Hi Ha; [split; assumption|].
  cbn [fold_left]. destruct m as [id v|id|t|]; cbn [col_apply ref_apply].
  - destruct (col_set_ok c r id v Hi Ha) as [A B]. apply IH; assumption.
  - destruct (col_remove_ok c r id Hi Ha) as (A & B & _). apply IH; assumption.
  - destruct (col_compress_ok c r t Hi Ha) as [A B]. apply IH; assumption.
  - destruct (col_decompress_ok c r Hi Ha) as (A & B & _). apply IH; assumption.
Qed.

(** compression (with any decisions, at any points) never changes what a read returns *)
Lemma column_transparent_l ms id :
  col_get (fold_left col_apply ms col_empty) id = assoc_get id (fold_left ref_apply ms []).
Proof.
  destruct (col_run_agrees ms col_empty []) as [_ H].
  - split; cbn; [constructor|exact I].
  - intros x. reflexivity.
  - apply H.
Qed.

(** * Compressed adjacency chunk *)

Lemma sortedb_cons_inv a l : sortedb (a :: l) = true -> sortedb l = true.
Proof. destruct l as [|b r]; [reflexivity|]. rewrite sortedb_cons, andb_true_iff. tauto. Qed.

Lemma sortedb_head_le a l : sortedb (a :: l) = true -> Forall (fun x => a <= x) l.
Proof.
  revert a; induction l as [|b r IH]; intros a H; [constructor|].
  rewrite sortedb_cons, andb_true_iff in H. destruct H as [Hab Hs].
  constructor; [lia|]. apply IH in Hs. eapply Forall_impl; [|exact Hs]. cbv beta. intros x Hx. lia.
Qed.

Lemma sortedb_intro a l : Forall (fun x => a <= x) l -> sortedb l = true -> sortedb (a :: l) = true.
Proof.
  destruct l as [|b r]; [reflexivity|]. intros Hf Hs. rewrite sortedb_cons, andb_true_iff.
  inversion Hf; subst. split; [lia|exact Hs].
Qed.

Lemma insert_by_dst_perm e l : Permutation (insert_by_dst e l) (e :: l).
Proof.
  induction l as [|x l IH]; cbn [insert_by_dst]; [reflexivity|].
  destruct (fst x <=? fst e); [|reflexivity].
  rewrite IH. apply perm_swap.
Qed.

Lemma insert_by_dst_sorted e l :
  sortedb (map fst l) = true -> sortedb (map fst (insert_by_dst e l)) = true.
Proof.
  induction l as [|x l IH]; intros Hs; [reflexivity|]. cbn [insert_by_dst].
  destruct (Z.leb_spec (fst x) (fst e)) as [Hle|Hgt].
  - cbn [map]. cbn [map] in Hs. apply sortedb_intro.
    + pose proof (sortedb_head_le _ _ Hs) as Hf.
      assert (Hp : Permutation (map fst (insert_by_dst e l)) (fst e :: map fst l))
        by (rewrite (Permutation_map fst (insert_by_dst_perm e l)); reflexivity).
      rewrite Forall_forall in *. intros y Hy. apply (Permutation_in _ Hp) in Hy.
      destruct Hy as [<-|Hy]; [exact Hle|apply Hf, Hy].
    + apply IH. apply sortedb_cons_inv in Hs. exact Hs.
  - cbn [map]. cbn [map] in Hs. rewrite sortedb_cons, andb_true_iff. split; [lia|exact Hs].
Qed.

Lemma sort_by_dst_spec l : sortedb (map fst (sort_by_dst l)) = true /\ Permutation (sort_by_dst l) l.
Proof.
  unfold sort_by_dst.
  assert (H : forall acc, sortedb (map fst acc) = true ->
            sortedb (map fst (fold_left (fun a e => insert_by_dst e a) l acc)) = true
            /\ Permutation (fold_left (fun a e => insert_by_dst e a) l acc) (l ++ acc)).
  { induction l as [|e l IH]; intros acc Hs; [split; [exact Hs|reflexivity]|].
    cbn [fold_left app]. destruct (IH (insert_by_dst e acc) (insert_by_dst_sorted e acc Hs)) as [A B].
    split; [exact A|]. rewrite B. rewrite (insert_by_dst_perm e acc). apply Permutation_sym, Permutation_middle. }
  destruct (H [] eq_refl) as [A B]. split; [exact A|]. rewrite app_nil_r in B. exact B.
Qed.

Lemma combine_fst_snd {A B} (l : list (A * B)) : combine (map fst l) (map snd l) = l.
Proof. induction l as [|[a b] l IH]; [reflexivity|]. cbn [map combine fst snd]. f_equal. exact IH. Qed.

Lemma chunk_roundtrip_l es :
  Forall (fun e => in_u64 (fst e) /\ in_u64 (snd e)) es ->
  chunk_iter (chunk_compress es) = sort_by_dst es /\ Permutation (chunk_iter (chunk_compress es)) es.
Proof.
  intros Hr. destruct (sort_by_dst_spec es) as [Hs Hp].
  assert (Hr' : Forall (fun e => in_u64 (fst e) /\ in_u64 (snd e)) (sort_by_dst es)).
  { rewrite Forall_forall in *. intros x Hx. apply Hr. apply (Permutation_in _ Hp). exact Hx. }
  assert (E : chunk_iter (chunk_compress es) = sort_by_dst es).
  { unfold chunk_iter, chunk_compress. cbn [cc_dst cc_edges].
    rewrite dbp_rt_l; [|exact Hs|].
    - rewrite unpack_pack_l; [apply combine_fst_snd|].
      rewrite Forall_forall in *. intros x Hx. apply in_map_iff in Hx as [e [<- He]]. apply Hr', He.
    - rewrite Forall_forall in *. intros x Hx. apply in_map_iff in Hx as [e [<- He]]. apply Hr', He. }
  split; [exact E|rewrite E; exact Hp].
Qed.

(** * bits of words built from booleans (bit vectors, null bitmaps) *)

Lemma testbit_1 j : Z.testbit 1 j = (j =? 0).
Proof. destruct j as [|p|p]; [reflexivity| |reflexivity]. destruct p; reflexivity. Qed.

Lemma bools_word_testbit bs : forall off k, 0 <= off -> 0 <= k ->
  Z.testbit (bools_word bs off) k
  = (off <=? k) && (k <? off + Z.of_nat (length bs)) && nth (Z.to_nat (k - off)) bs false.
Proof.
  induction bs as [|b bs IH]; intros off k Ho Hk.
  - cbn [bools_word length nth]. rewrite Z.bits_0. destruct (Z.to_nat (k - off)); rewrite andb_false_r; reflexivity.
  - cbn [bools_word]. rewrite Z.lor_spec, IH by lia.
    assert (Hb : Z.testbit (if b then Z.shiftl 1 off else 0) k = b && (k =? off)).
    { destruct b; [|rewrite Z.bits_0; reflexivity]. rewrite Z.shiftl_spec by lia. rewrite testbit_1. cbn [andb].
      destruct (Z.eqb_spec (k - off) 0), (Z.eqb_spec k off); lia || reflexivity. }
    rewrite Hb. cbn [length]. rewrite Nat2Z.inj_succ.
    destruct (Z.eqb_spec k off) as [->|Hne].
    + replace (off - off) with 0 by lia. cbn [Z.to_nat nth].
      replace (off + 1 <=? off) with false by lia. replace (off <=? off) with true by lia.
      replace (off <? off + Z.succ (Z.of_nat (length bs))) with true by lia.
      cbn [andb orb]. rewrite andb_true_r, orb_false_r. reflexivity.
    + rewrite andb_false_r. cbn [orb].
      destruct (Z.leb_spec (off + 1) k) as [Hle|Hgt].
      * replace (off <=? k) with true by lia.
        replace (Z.to_nat (k - off)) with (S (Z.to_nat (k - (off + 1)))) by lia. cbn [nth].
        replace (k <? off + Z.succ (Z.of_nat (length bs))) with (k <? off + 1 + Z.of_nat (length bs)) by (f_equal; lia).
        reflexivity.
      * replace (off <=? k) with false by lia. reflexivity.
Qed.

Lemma land_bit_testbit w j : 0 <= j -> (Z.land w (Z.shiftl 1 j) =? 0) = negb (Z.testbit w j).
Proof.
  intros Hj. rewrite Z.shiftl_1_l. destruct (Z.testbit w j) eqn:Et; cbn [negb].
  - apply Z.eqb_neq. intros H0.
    assert (Hb : Z.testbit (Z.land w (2 ^ j)) j = true) by (rewrite Z.land_spec, Et, Z.pow2_bits_true by lia; reflexivity).
    rewrite H0, Z.bits_0 in Hb. discriminate.
  - apply Z.eqb_eq. apply Z.bits_inj'. intros m Hm. rewrite Z.land_spec, Z.bits_0, Z.pow2_bits_eqb by lia.
    destruct (Z.eqb_spec j m) as [->|]; [rewrite Et; reflexivity|apply andb_false_r].
Qed.

(** * Dictionary encoding *)

Definition flat (o : option (option str)) : option str := match o with Some (Some s) => Some s | _ => None end.

Lemma zlist_eqb_eq a b : zlist_eqb a b = true <-> a = b.
Proof.
  unfold zlist_eqb. revert b; induction a as [|x a IH]; intros [|y b]; cbn [list_eqb].
  - split; reflexivity.
  - split; discriminate.
  - split; discriminate.
  - rewrite andb_true_iff, IH, Z.eqb_eq. split; [intros [-> ->]; reflexivity|intros H; inversion H; auto].
Qed.

Lemma index_of_some s d i c : index_of s d i = Some c -> i <= c /\ nth_error d (Z.to_nat (c - i)) = Some s.
Proof.
  revert i; induction d as [|x d IH]; intros i H; [discriminate|]. cbn [index_of] in H.
  destruct (zlist_eqb x s) eqn:E.
  - inversion H; subst. apply zlist_eqb_eq in E. subst. replace (c - c) with 0 by lia. split; [lia|reflexivity].
  - apply IH in H as [Hle Hn]. split; [lia|]. replace (Z.to_nat (c - i)) with (S (Z.to_nat (c - (i + 1)))) by lia. exact Hn.
Qed.

(** builder invariant: position j holds the code of value j (or is a null position) *)
Definition db_ok (b : dbuilder) (vs : list (option str)) : Prop :=
  length (db_codes b) = length vs /\
  (forall j s, nth_error vs j = Some (Some s) ->
     exists c, nth_error (db_codes b) j = Some c /\ 0 <= c /\ nth_error (db_dict b) (Z.to_nat c) = Some s) /\
  (forall j, In (Z.of_nat j) (db_nullpos b) <-> nth_error vs j = Some None).

Lemma nth_error_snoc {A} (l : list A) x j :
  nth_error (l ++ [x]) j = if (j <? length l)%nat then nth_error l j else if (j =? length l)%nat then Some x else None.
Proof.
  destruct (Nat.ltb_spec j (length l)) as [Hlt|Hge].
  - apply nth_error_app1. exact Hlt.
  - rewrite nth_error_app2 by exact Hge. destruct (Nat.eqb_spec j (length l)) as [->|Hne].
    + rewrite Nat.sub_diag. reflexivity.
    + destruct (j - length l)%nat eqn:E; [lia|]. cbn. destruct n; reflexivity.
Qed.

Lemma db_step_ok b vs o : db_ok b vs -> db_ok (db_add_optional b o) (vs ++ [o]).
Proof.
  intros (Hlen & Hcodes & Hnull). destruct o as [s|]; cbn [db_add_optional].
  - unfold db_add. destruct (index_of s (db_dict b) 0) as [c|] eqn:Ei.
    + apply index_of_some in Ei as [Hc Hn]. replace (c - 0) with c in Hn by lia.
      split; [cbn [db_codes]; rewrite !app_length, Hlen; reflexivity|]. split.
      * intros j s' Hj. cbn [db_codes db_dict]. rewrite nth_error_snoc in Hj. rewrite nth_error_snoc, Hlen.
        destruct (j <? length vs)%nat; [apply Hcodes, Hj|].
        destruct (j =? length vs)%nat; [|discriminate]. inversion Hj; subst. exists c. auto.
      * intros j. cbn [db_nullpos]. rewrite Hnull, nth_error_snoc.
        destruct (Nat.ltb_spec j (length vs)); [reflexivity|].
        destruct (j =? length vs)%nat; split; intros H'; try discriminate;
          apply nth_error_Some in H' || (assert (Hx : nth_error vs j <> None) by congruence; apply nth_error_Some in Hx); lia.
    + split; [cbn [db_codes]; rewrite !app_length, Hlen; reflexivity|]. split.
      * intros j s' Hj. cbn [db_codes db_dict]. rewrite nth_error_snoc in Hj. rewrite nth_error_snoc, Hlen.
        destruct (j <? length vs)%nat.
        -- destruct (Hcodes j s' Hj) as (c & Hc1 & Hc2 & Hc3). exists c. split; [exact Hc1|]. split; [exact Hc2|].
           rewrite nth_error_app1; [exact Hc3|]. apply nth_error_Some. congruence.
        -- destruct (j =? length vs)%nat; [|discriminate]. inversion Hj; subst.
           exists (Z.of_nat (length (db_dict b))). split; [reflexivity|]. split; [lia|].
           rewrite Nat2Z.id, nth_error_app2, Nat.sub_diag by lia. reflexivity.
      * intros j. cbn [db_nullpos]. rewrite Hnull, nth_error_snoc.
        destruct (Nat.ltb_spec j (length vs)); [reflexivity|].
        destruct (j =? length vs)%nat; split; intros H'; try discriminate;
          (assert (Hx : nth_error vs j <> None) by congruence; apply nth_error_Some in Hx); lia.
  - unfold db_add_null. split; [cbn [db_codes]; rewrite !app_length, Hlen; reflexivity|]. split.
    + intros j s' Hj. cbn [db_codes db_dict]. rewrite nth_error_snoc in Hj. rewrite nth_error_snoc, Hlen.
      destruct (j <? length vs)%nat; [apply Hcodes, Hj|]. destruct (j =? length vs)%nat; discriminate.
    + intros j. cbn [db_nullpos]. rewrite in_app_iff, Hnull, nth_error_snoc, Hlen. cbn [In].
      destruct (Nat.ltb_spec j (length vs)) as [Hlt|Hge].
      * split; [intros [H'|[H'|[]]]; [exact H'|lia]|auto].
      * destruct (Nat.eqb_spec j (length vs)) as [->|Hne].
        -- split; [reflexivity|intros _; right; left; reflexivity].
        -- split; [intros [H'|[H'|[]]]; [|lia]|discriminate].
           assert (Hx : nth_error vs j <> None) by congruence. apply nth_error_Some in Hx. lia.
Qed.

Lemma db_fold_ok vs : forall b done, db_ok b done -> db_ok (fold_left db_add_optional vs b) (done ++ vs).
Proof.
  induction vs as [|o vs IH]; intros b done H; [rewrite app_nil_r; exact H|].
  cbn [fold_left]. replace (done ++ o :: vs) with ((done ++ [o]) ++ vs) by (rewrite <- app_assoc; reflexivity).
  apply IH, db_step_ok, H.
Qed.

Lemma nth_map_seq {A} (f : nat -> A) len w d : (w < len)%nat -> nth w (map f (seq 0 len)) d = f w.
Proof.
  intros H. rewrite (nth_indep _ d (f 0%nat)) by (rewrite map_length, seq_length; exact H).
  rewrite map_nth, seq_nth by exact H. reflexivity.
Qed.

Lemma null_bitmap_bit n nullpos i :
  0 <= i < Z.of_nat n ->
  (if i / 64 <? Z.of_nat (length (null_bitmap n nullpos))
   then negb (Z.land (nth (Z.to_nat (i / 64)) (null_bitmap n nullpos) 0) (Z.shiftl 1 (i mod 64)) =? 0)
   else false) = existsb (Z.eqb i) nullpos.
Proof.
  intros Hi. unfold null_bitmap. rewrite map_length, seq_length.
  assert (Hw : (Z.to_nat (i / 64) < (n + 63) / 64)%nat).
  { apply Nat2Z.inj_lt. rewrite Z2Nat.id by (Z.div_mod_to_equations; lia).
    rewrite Nat2Z.inj_div, Nat2Z.inj_add. change (Z.of_nat 63) with 63. change (Z.of_nat 64) with 64.
    Z.div_mod_to_equations; lia. }
  replace (i / 64 <? Z.of_nat ((n + 63) / 64)) with true by lia.
  rewrite nth_map_seq by exact Hw.
  rewrite land_bit_testbit by (Z.div_mod_to_equations; lia). rewrite negb_involutive.
  rewrite bools_word_testbit by (Z.div_mod_to_equations; lia).
  rewrite map_length, seq_length. change (Z.of_nat 64) with 64.
  replace (0 <=? i mod 64) with true by (Z.div_mod_to_equations; lia).
  replace (i mod 64 <? 0 + 64) with true by (Z.div_mod_to_equations; lia). cbn [andb].
  replace (i mod 64 - 0) with (i mod 64) by lia.
  set (j := Z.to_nat (i mod 64)). assert (Hj : (j < 64)%nat) by (subst j; Z.div_mod_to_equations; lia).
  rewrite nth_map_seq by exact Hj.
  replace (Z.of_nat (Z.to_nat (i / 64) * 64 + j)) with i; [reflexivity|].
  subst j. rewrite Nat2Z.inj_add, Nat2Z.inj_mul, !Z2Nat.id by (Z.div_mod_to_equations; lia).
  change (Z.of_nat 64) with 64. Z.div_mod_to_equations; lia.
Qed.

Lemma existsb_eqb_In i l : existsb (Z.eqb i) l = true <-> In i l.
Proof.
  rewrite existsb_exists. split.
  - intros [x [Hin He]]. apply Z.eqb_eq in He. subst. exact Hin.
  - intros H. exists i. split; [exact H|apply Z.eqb_refl].
Qed.

Lemma dict_roundtrip_l vs i : 0 <= i -> dc_get (dict_encode vs) i = flat (nth_error vs (Z.to_nat i)).
Proof.
  intros Hi. unfold dict_encode.
  assert (Hok : db_ok (fold_left db_add_optional vs db_new) vs).
  { apply (db_fold_ok vs db_new []). split; [reflexivity|]. split.
    - intros j s Hj. destruct j; discriminate.
    - intros j. cbn [db_new db_nullpos In]. split; [tauto|]. destruct j; discriminate. }
  set (b := fold_left db_add_optional vs db_new) in *.
  destruct Hok as (Hlen & Hcodes & Hnull).
  destruct (Z.ltb_spec i (Z.of_nat (length vs))) as [Hlt|Hge].
  2:{ (* out of range *)
    assert (Hn : nth_error vs (Z.to_nat i) = None) by (apply nth_error_None; lia). rewrite Hn. cbn [flat].
    unfold dc_get. destruct (dc_is_null (db_build b) i); [reflexivity|].
    cbn [db_build dc_codes]. assert (Hc : nth_error (db_codes b) (Z.to_nat i) = None) by (apply nth_error_None; lia).
    rewrite Hc. reflexivity. }
  assert (Hnullbit : dc_is_null (db_build b) i = existsb (Z.eqb i) (db_nullpos b)).
  { unfold dc_is_null, db_build. cbn [dc_nulls]. destruct (db_nullpos b) as [|p ps] eqn:Ep; [reflexivity|].
    rewrite <- Ep. apply null_bitmap_bit. lia. }
  unfold dc_get. rewrite Hnullbit.
  destruct (nth_error vs (Z.to_nat i)) as [[s|]|] eqn:En; cbn [flat].
  - assert (Hnot : existsb (Z.eqb i) (db_nullpos b) = false).
    { apply Bool.not_true_iff_false. rewrite existsb_eqb_In. rewrite <- (Z2Nat.id i) by lia. rewrite Hnull, En. discriminate. }
    rewrite Hnot. cbn [db_build dc_codes dc_dict].
    destruct (Hcodes _ _ En) as (c & Hc1 & Hc2 & Hc3). rewrite Hc1. exact Hc3.
  - assert (Hyes : existsb (Z.eqb i) (db_nullpos b) = true).
    { rewrite existsb_eqb_In. rewrite <- (Z2Nat.id i) by lia. apply Hnull. exact En. }
    rewrite Hyes. reflexivity.
  - apply nth_error_None in En. lia.
Qed.

(** * Bit vectors *)

Lemma bv_get_from_bools_l bs i : 0 <= i -> bv_get (bv_from_bools bs) i = nth_error bs (Z.to_nat i).
Proof.
  intros Hi. unfold bv_get, bv_from_bools. cbn [bv_len bv_data].
  destruct (Z.leb_spec (Z.of_nat (length bs)) i) as [Hge|Hlt].
  - symmetry. apply nth_error_None. lia.
  - assert (Hw : (Z.to_nat (i / 64) < (length bs + 63) / 64)%nat).
    { apply Nat2Z.inj_lt. rewrite Z2Nat.id by (Z.div_mod_to_equations; lia).
      rewrite Nat2Z.inj_div, Nat2Z.inj_add. change (Z.of_nat 63) with 63. change (Z.of_nat 64) with 64.
      Z.div_mod_to_equations; lia. }
    rewrite nth_map_seq by exact Hw.
    rewrite land_bit_testbit by (Z.div_mod_to_equations; lia). rewrite negb_involutive.
    rewrite bools_word_testbit by (Z.div_mod_to_equations; lia).
    set (chunk := firstn 64 (skipn (Z.to_nat (i / 64) * 64) bs)).
    set (j := Z.to_nat (i mod 64 - 0)).
    assert (Hij : Z.to_nat i = (Z.to_nat (i / 64) * 64 + j)%nat).
    { subst j. apply Nat2Z.inj. rewrite Nat2Z.inj_add, Nat2Z.inj_mul, !Z2Nat.id by (Z.div_mod_to_equations; lia).
      change (Z.of_nat 64) with 64. Z.div_mod_to_equations; lia. }
    assert (Hj : (j < 64)%nat) by (subst j; Z.div_mod_to_equations; lia).
    assert (Hjl : (j < length chunk)%nat).
    { subst chunk. rewrite firstn_length, skipn_length. lia. }
    replace (0 <=? i mod 64) with true by (Z.div_mod_to_equations; lia).
    replace (i mod 64 <? 0 + Z.of_nat (length chunk)) with true by (subst j; lia). cbn [andb].
    rewrite (nth_error_nth' bs false) by lia. f_equal.
    subst chunk. rewrite nth_firstn_lt by exact Hj. rewrite nth_skipn. f_equal. lia.
Qed.

Lemma map_nth_seq_bool (bs : list bool) : map (fun i => nth i bs false) (seq 0 (length bs)) = bs.
Proof.
  induction bs as [|b bs IH]; [reflexivity|].
  cbn [length seq map nth]. f_equal. rewrite <- seq_shift, map_map. exact IH.
Qed.

Lemma bv_to_bools_from_bools_l bs : bv_to_bools (bv_from_bools bs) = bs.
Proof.
  unfold bv_to_bools. replace (bv_len (bv_from_bools bs)) with (Z.of_nat (length bs)) by reflexivity.
  rewrite Nat2Z.id. transitivity (map (fun i => nth i bs false) (seq 0 (length bs))); [|apply map_nth_seq_bool].
  apply map_ext_in. intros i Hin. apply in_seq in Hin.
  rewrite bv_get_from_bools_l by lia. rewrite Nat2Z.id.
  rewrite (nth_error_nth' bs false) by lia. reflexivity.
Qed.

(** * byte-level round trips and the automatic codec *)

Lemma flat_map_le8_length (l : list Z) : length (flat_map (le_bytes 8) l) = (8 * length l)%nat.
Proof. induction l as [|x l IH]; [reflexivity|]. cbn [flat_map length]. rewrite app_length, le_bytes_length, IH. lia. Qed.

Lemma raw_roundtrip xs : Forall in_u64 xs ->
  read_u64s (length (flat_map (le_bytes 8) xs) / 8) (flat_map (le_bytes 8) xs) = xs.
Proof.
  intros H. rewrite flat_map_le8_length. replace (8 * length xs / 8)%nat with (length xs) by (rewrite Nat.mul_comm, Nat.div_mul; lia).
  rewrite <- (app_nil_r (flat_map (le_bytes 8) xs)). apply read_u64s_flat_map. exact H.
Qed.

Lemma digits_bound B vs : 0 < B -> Forall (fun v => 0 <= v < B) vs -> 0 <= digits B vs < B ^ Z.of_nat (length vs).
Proof.
  intros HB H. induction H as [|v vs Hv _ IH]; cbn [digits fold_right length]; [rewrite Z.pow_0_r; lia|].
  fold (digits B vs). rewrite Nat2Z.inj_succ, Z.pow_succ_r by lia. nia.
Qed.

Lemma pack_words_u64 bits vs : 1 <= bits <= 64 -> fits bits vs -> Forall in_u64 (pack_words bits vs).
Proof.
  intros Hb Hf. unfold pack_words. rewrite Forall_forall. intros x Hx.
  apply in_map_iff in Hx as [w [<- Hw]].
  set (vpw := Z.to_nat (64 / bits)).
  set (chunk := firstn vpw (skipn (w * vpw) vs)).
  assert (Hvb : 64 / bits * bits <= 64) by (Z.div_mod_to_equations; nia).
  assert (Hv1 : 1 <= 64 / bits) by (Z.div_mod_to_equations; nia).
  assert (Hch : Forall (fun v => 0 <= v < 2 ^ bits) chunk) by (apply Forall_firstn, Forall_skipn, Hf).
  assert (Hcl : (length chunk <= vpw)%nat) by (subst chunk; rewrite firstn_length; lia).
  rewrite pack_word_digits; try assumption; try lia.
  2:{ subst vpw. nia. }
  rewrite Z.pow_0_r, Z.mul_1_r.
  assert (Hpb : 0 < 2 ^ bits) by (apply Z.pow_pos_nonneg; lia).
  pose proof (digits_bound (2 ^ bits) chunk Hpb Hch) as Hd.
  rewrite <- Z.pow_mul_r in Hd by lia.
  assert (Hle : 2 ^ (bits * Z.of_nat (length chunk)) <= 2 ^ 64) by (apply Z.pow_le_mono_r; subst vpw; nia).
  unfold in_u64, two64. lia.
Qed.

Lemma pack_words_length bits vs : 1 <= bits <= 64 ->
  Z.of_nat (length (pack_words bits vs)) = (Z.of_nat (length vs) + 64 / bits - 1) / (64 / bits).
Proof.
  intros Hb. unfold pack_words. rewrite map_length, seq_length.
  assert (Hv1 : 1 <= 64 / bits) by (Z.div_mod_to_equations; nia).
  rewrite Nat2Z.inj_div, Nat2Z.inj_sub, Nat2Z.inj_add, Z2Nat.id by lia. reflexivity.
Qed.

Definition bp_wf (p : bitpacked) : Prop :=
  0 <= bp_bits p <= 64 /\ 0 <= bp_count p < 2 ^ 32 /\ Forall in_u64 (bp_data p) /\
  (if (bp_bits p =? 0) || (bp_count p =? 0) then bp_data p = []
   else Z.of_nat (length (bp_data p)) = (bp_count p + 64 / bp_bits p - 1) / (64 / bp_bits p)).

Lemma bp_bytes_roundtrip_l p rest : bp_wf p -> rest = [] -> bp_from_bytes (bp_to_bytes p ++ rest) = Ok (Some p).
Proof.
  destruct p as [data bits count]. unfold bp_wf. cbn [bp_bits bp_count bp_data]. intros (Hb & Hc & Hd & Hl) ->.
  rewrite app_nil_r. unfold bp_from_bytes, bp_to_bytes. cbn [bp_bits bp_count bp_data].
  rewrite !app_length, !le_bytes_length, flat_map_le8_length.
  replace (Z.of_nat (1 + (4 + 8 * length data)) <? 5) with false by lia.
  assert (Hb0 : nth 0 (le_bytes 1 bits ++ le_bytes 4 count ++ flat_map (le_bytes 8) data) 0 = bits).
  { cbn [le_bytes app nth]. Z.div_mod_to_equations; lia. }
  rewrite Hb0.
  assert (Hc0 : of_le_bytes (firstn 4 (skipn 1 (le_bytes 1 bits ++ le_bytes 4 count ++ flat_map (le_bytes 8) data))) = count).
  { rewrite skipn_exact by apply le_bytes_length. rewrite firstn_exact by apply le_bytes_length.
    apply of_le_bytes_le_bytes. change (256 ^ Z.of_nat 4) with (2 ^ 32). lia. }
  rewrite Hc0.
  destruct ((bits =? 0) || (count =? 0)) eqn:E0.
  - rewrite Hl. reflexivity.
  - apply orb_false_iff in E0 as [E1 E2].
    assert (Hv1 : 1 <= 64 / bits) by (Z.div_mod_to_equations; nia).
    replace (64 / bits =? 0) with false by lia.
    rewrite <- Hl.
    replace (Z.of_nat (1 + (4 + 8 * length data)) <? 5 + Z.of_nat (length data) * 8) with false by lia.
    rewrite Nat2Z.id.
    replace (skipn 5 (le_bytes 1 bits ++ le_bytes 4 count ++ flat_map (le_bytes 8) data)) with (flat_map (le_bytes 8) data ++ []).
    + rewrite read_u64s_flat_map by exact Hd. reflexivity.
    + rewrite app_nil_r, app_assoc. symmetry. apply skipn_exact. rewrite app_length, !le_bytes_length. reflexivity.
Qed.

Lemma pack_wf xs : Forall in_u64 xs -> Z.of_nat (length xs) < 2 ^ 32 -> bp_wf (pack xs).
Proof.
  intros Hx Hl. destruct (list_eq_dec Z.eq_dec xs []) as [->|Hne].
  - unfold bp_wf. cbn. repeat split; try lia. constructor.
  - destruct (pack_fits xs Hx Hne) as [Hb Hf]. rewrite pack_nonempty by exact Hne.
    unfold bp_wf. cbn [bp_bits bp_count bp_data]. split; [lia|]. split; [lia|]. split; [apply pack_words_u64; assumption|].
    replace (bits_needed (zlist_max xs) =? 0) with false by lia.
    replace (Z.of_nat (length xs) =? 0) with false by (destruct xs; [congruence|cbn [length]; lia]).
    cbn [orb]. apply pack_words_length. exact Hb.
Qed.

Lemma windows2_sub_eq xs : sortedb xs = true ->
  windows2 (fun a b => saturating_sub_u64 b a) xs = windows2 (fun a b => b - a) xs.
Proof.
  induction xs as [|a [|b r] IH]; intros Hs; try reflexivity.
  rewrite sortedb_cons, andb_true_iff in Hs. destruct Hs as [Hab Hs].
  cbn [windows2]. f_equal; [unfold saturating_sub_u64; destruct (b <? a) eqn:E; lia|apply IH, Hs].
Qed.

Lemma dbp_bytes_roundtrip_l xs : sortedb xs = true -> Forall in_u64 xs -> Z.of_nat (length xs) < 2 ^ 32 ->
  dbp_from_bytes (dbp_to_bytes (dbp_encode xs)) = Ok (Some (dbp_encode xs)).
Proof.
  intros Hs Hx Hl. unfold dbp_from_bytes, dbp_to_bytes.
  assert (Hwf : bp_wf (dbp_deltas (dbp_encode xs)) /\ in_u64 (dbp_base (dbp_encode xs))).
  { destruct xs as [|x0 r]; [split; [apply (pack_wf []); [constructor|cbn; lia]|unfold in_u64, two64; cbn; lia]|].
    inversion Hx as [|? ? Hx0 Hr]; subst. unfold dbp_encode. cbn [dbp_base dbp_deltas]. split; [|exact Hx0].
    pose proof (windows2_length (fun a b => saturating_sub_u64 b a) x0 r) as Hwl.
    pose proof (windows2_u64 x0 r Hs Hx) as Hwu.
    set (ds := windows2 (fun a b => saturating_sub_u64 b a) (x0 :: r)) in *.
    destruct ds as [|d0 dr] eqn:Ew.
    - unfold bp_wf. cbn. repeat split; try lia. constructor.
    - apply pack_wf; [exact Hwu|]. rewrite Hwl. cbn [length] in Hl. lia. }
  destruct Hwf as [Hwf Hbase].
  rewrite app_length, le_bytes_length.
  replace (Z.of_nat (8 + length (bp_to_bytes (dbp_deltas (dbp_encode xs)))) <? 8) with false by lia.
  rewrite skipn_exact by apply le_bytes_length.
  rewrite <- (app_nil_r (bp_to_bytes _)). rewrite bp_bytes_roundtrip_l by (exact Hwf || reflexivity).
  rewrite app_nil_r, firstn_exact by apply le_bytes_length.
  rewrite of_le_bytes_le_bytes by (unfold in_u64, two64 in Hbase; change (256 ^ Z.of_nat 8) with (2 ^ 64); lia).
  destruct (dbp_encode xs); reflexivity.
Qed.

(** run-length bytes *)
Fixpoint pairs_of (l : list Z) : list (Z * Z) := match l with a :: b :: r => (a, b) :: pairs_of r | _ => [] end.

Lemma rle_from_bytes_unfold bs :
  rle_from_bytes bs =
  (let len := Z.of_nat (length bs) in
   if len <? 8 then None else
   let n := of_le_bytes (firstn 8 bs) in
   if len <? 8 + n * 16 then None else
   let runs := pairs_of (read_u64s (Z.to_nat (2 * n)) (skipn 8 bs)) in
   Some {| rl_runs := runs; rl_total := fold_right Z.add 0 (map snd runs) |}).
Proof. reflexivity. Qed.

Lemma runs_bytes_read runs :
  Forall (fun r => in_u64 (fst r) /\ in_u64 (snd r)) runs ->
  pairs_of (read_u64s (2 * length runs) (flat_map (fun r => le_bytes 8 (fst r) ++ le_bytes 8 (snd r)) runs)) = runs.
Proof.
  induction runs as [|[v l] runs IH]; intros H; [reflexivity|].
  inversion H as [|? ? [Hv Hl] Hr]; subst. cbn [fst snd] in *.
  replace (2 * length ((v, l) :: runs))%nat with (S (S (2 * length runs))) by (cbn [length]; lia).
  cbn [flat_map fst snd read_u64s]. rewrite <- !app_assoc.
  rewrite firstn_exact, skipn_exact by apply le_bytes_length.
  rewrite firstn_exact, skipn_exact by apply le_bytes_length.
  rewrite !of_le_bytes_le_bytes by (unfold in_u64, two64 in *; change (256 ^ Z.of_nat 8) with (2 ^ 64); lia).
  cbn [pairs_of]. f_equal. apply IH, Hr.
Qed.

Lemma runs_body_length (runs : list (Z * Z)) :
  length (flat_map (fun r => le_bytes 8 (fst r) ++ le_bytes 8 (snd r)) runs) = (16 * length runs)%nat.
Proof.
  induction runs as [|r rs IH]; [reflexivity|]. cbn [flat_map length].
  rewrite !app_length, !le_bytes_length, IH. lia.
Qed.

Lemma rle_bytes_roundtrip_l e :
  Forall (fun r => in_u64 (fst r) /\ in_u64 (snd r)) (rl_runs e) ->
  Z.of_nat (length (rl_runs e)) < 2 ^ 64 ->
  option_map rle_decode (rle_from_bytes (rle_to_bytes e)) = Some (rle_decode e).
Proof.
  intros Hr Hn. rewrite rle_from_bytes_unfold. unfold rle_to_bytes. cbv zeta.
  set (body := flat_map (fun r => le_bytes 8 (fst r) ++ le_bytes 8 (snd r)) (rl_runs e)).
  assert (Hbl : length body = (16 * length (rl_runs e))%nat) by apply runs_body_length.
  rewrite app_length, le_bytes_length, Hbl.
  replace (Z.of_nat (8 + 16 * length (rl_runs e)) <? 8) with false by lia.
  rewrite firstn_exact by apply le_bytes_length.
  rewrite of_le_bytes_le_bytes by (change (256 ^ Z.of_nat 8) with (2 ^ 64); lia).
  replace (Z.of_nat (8 + 16 * length (rl_runs e)) <? 8 + Z.of_nat (length (rl_runs e)) * 16) with false by lia.
  rewrite skipn_exact by apply le_bytes_length.
  replace (Z.to_nat (2 * Z.of_nat (length (rl_runs e)))) with (2 * length (rl_runs e))%nat by lia.
  subst body. rewrite runs_bytes_read by exact Hr. reflexivity.
Qed.

Lemma rle_runs_u64 cur len xs : in_u64 cur -> Forall in_u64 xs -> 0 < len ->
  len + Z.of_nat (length xs) < 2 ^ 64 ->
  Forall (fun r => in_u64 (fst r) /\ in_u64 (snd r)) (rle_runs cur len xs).
Proof.
  revert cur len; induction xs as [|x xs IH]; intros cur len Hc Hx Hl Hb; cbn [rle_runs].
  - constructor; [|constructor]. cbn [fst snd]. split; [exact Hc|]. unfold in_u64, two64. cbn [length] in Hb. lia.
  - inversion Hx as [|? ? Hx0 Hxs]; subst. cbn [length] in Hb. destruct (x =? cur).
    + apply IH; try assumption; lia.
    + constructor; [cbn [fst snd]; split; [exact Hc|unfold in_u64, two64; lia]|]. apply IH; try assumption; lia.
Qed.

Lemma rle_runs_length cur len xs : (length (rle_runs cur len xs) <= S (length xs))%nat.
Proof.
  revert cur len; induction xs as [|x xs IH]; intros cur len; cbn [rle_runs length]; [lia|].
  destruct (x =? cur); [specialize (IH cur (len + 1)); lia|cbn [length]; specialize (IH x 1); lia].
Qed.

(** whatever codec the selector picks, decompressing the compressed bytes returns the input *)
Lemma codec_roundtrip_l c xs :
  Forall in_u64 xs -> Z.of_nat (length xs) < 2 ^ 32 ->
  (match c with CDbp _ => sortedb xs = true | _ => True end) ->
  decompress_as c (compress_as c xs) = Ok (Some xs).
Proof.
  intros Hx Hl Hs. destruct c as [|bits|bits|]; cbn [compress_as decompress_as].
  - rewrite raw_roundtrip by exact Hx. reflexivity.
  - rewrite dbp_bytes_roundtrip_l by assumption. cbn [rmap option_map]. rewrite dbp_rt_l by assumption. reflexivity.
  - rewrite <- (app_nil_r (bp_to_bytes _)). rewrite bp_bytes_roundtrip_l by (apply pack_wf; assumption) || reflexivity.
    cbn [rmap option_map]. rewrite unpack_pack_l by exact Hx. reflexivity.
  - rewrite rle_bytes_roundtrip_l.
    + rewrite rle_rt_l. reflexivity.
    + destruct xs as [|x r]; [constructor|]. inversion Hx; subst. cbn [rle_encode rl_runs].
      apply rle_runs_u64; try assumption; try lia. cbn [length] in Hl. lia.
    + destruct xs as [|x r]; [cbn; lia|]. cbn [rle_encode rl_runs]. pose proof (rle_runs_length x 1 r). cbn [length] in Hl. lia.
Qed.

Lemma select_dbp_sorted xs bits : select_for_integers xs = CDbp bits -> sortedb xs = true.
Proof.
  unfold select_for_integers. destruct (Z.of_nat (length xs) <? 8); [discriminate|].
  destruct ((2 * run_count xs <? Z.of_nat (length xs)) && (3 * run_count xs <? Z.of_nat (length xs))); [discriminate|].
  destruct (sortedb xs); [reflexivity|].
  destruct ((128 * run_count xs <? _) && _); [discriminate|]. destruct (_ <? 32); discriminate.
Qed.

Lemma auto_codec_roundtrip_l xs :
  Forall in_u64 xs -> Z.of_nat (length xs) < 2 ^ 32 ->
  decompress_as (fst (compress_integers xs)) (snd (compress_integers xs)) = Ok (Some xs).
Proof.
  intros Hx Hl. unfold compress_integers. cbn [fst snd]. apply codec_roundtrip_l; try assumption.
  destruct (select_for_integers xs) eqn:E; try exact I. eapply select_dbp_sorted, E.
Qed.
