(** C15 — comparison of implementation observations with the model (run by the check). *)
From GV Require Export Codec.Model.
Open Scope Z_scope.

Definition pair_eqb (a b : Z * Z) : bool := (fst a =? fst b) && (snd a =? snd b).
Definition oz_eqb := option_eqb Z.eqb.

(** zig-zag: implementation's encode of v (u), decode of w (d) *)
Definition chk_zigzag (v u w d : Z) : bool :=
  (zigzag_encode_bits v =? u) && (zigzag_encode v =? u)
  && (zigzag_decode_bits w =? d) && (zigzag_decode w =? d).

Inductive obs_delta := ObsDelta (base : Z) (deltas : list Z) (count : Z) (decoded bytes : list Z)
                                (reparsed : option (list Z)).

Definition delta_eqb (d : delta) (b : Z) (ds : list Z) (c : Z) : bool :=
  (d_base d =? b) && zlist_eqb (d_deltas d) ds && (d_count d =? c).

Definition chk_delta_u (m : mode) (xs : list Z) (o : res obs_delta) : bool :=
  match delta_encode m xs, o with
  | Panic, Panic => true
  | Ok d, Ok (ObsDelta b ds c dec bs rp) =>
      delta_eqb d b ds c && zlist_eqb (delta_decode d) dec && zlist_eqb (delta_to_bytes d) bs
      && option_eqb zlist_eqb (option_map delta_decode (delta_from_bytes bs)) rp
  | _, _ => false
  end.

(** signed: after F4 the encoder is total; [o = Panic] can only come from a tree without F4 *)
Definition chk_delta_s (xs : list Z) (o : res obs_delta) : bool :=
  match o with
  | Panic => false
  | Ok (ObsDelta b ds c dec bs rp) =>
      let d := delta_encode_signed xs in
      delta_eqb d b ds c && zlist_eqb (delta_decode_signed d) dec && zlist_eqb (delta_to_bytes d) bs
      && option_eqb zlist_eqb (option_map delta_decode_signed (delta_from_bytes bs)) rp
  end.
(** the same against the pre-repair transcription (used to confirm finding C15-F4 on old trees) *)
Definition chk_delta_s_pre (m : mode) (xs : list Z) (o : res obs_delta) : bool :=
  match delta_encode_signed_pre m xs, o with
  | Panic, Panic => true
  | Ok d, Ok (ObsDelta b ds c dec bs rp) =>
      delta_eqb d b ds c && res_eqb zlist_eqb (delta_decode_signed_pre m d) (Ok dec)
  | Ok d, Panic => match delta_decode_signed_pre m d with Panic => true | _ => false end
  | _, _ => false
  end.

Inductive obs_bp := ObsBp (bits : Z) (data : list Z) (count : Z) (unpacked : list Z)
                          (gets : list (Z * option Z)) (bytes : list Z).

Definition gets_ok (p : bitpacked) (gs : list (Z * option Z)) : bool :=
  forallb (fun g => oz_eqb (bp_get p (fst g)) (snd g)) gs.

Definition bp_eqb (p : bitpacked) (bits : Z) (data : list Z) (count : Z) : bool :=
  (bp_bits p =? bits) && zlist_eqb (bp_data p) data && (bp_count p =? count).

Definition chk_pack (xs : list Z) (o : obs_bp) : bool :=
  match o with ObsBp bits data count un gs bs =>
    let p := pack xs in
    bp_eqb p bits data count && zlist_eqb (unpack p) un && gets_ok p gs && zlist_eqb (bp_to_bytes p) bs
  end.

Definition chk_pack_with_bits (m : mode) (xs : list Z) (bits : Z) (o : res obs_bp) : bool :=
  match pack_with_bits m xs bits, o with
  | Panic, Panic => true
  | Ok p, Ok (ObsBp b data count un gs bs) =>
      bp_eqb p b data count && zlist_eqb (unpack p) un && gets_ok p gs && zlist_eqb (bp_to_bytes p) bs
  | _, _ => false
  end.

(** from_bytes on arbitrary bytes: Panic | Err (None) | Ok fields + unpack when consistent *)
Inductive obs_bpfb := FbPanic | FbErr | FbOk (bits : Z) (data : list Z) (count : Z).
Definition chk_bp_from_bytes (bs : list Z) (o : obs_bpfb) : bool :=
  match bp_from_bytes bs, o with
  | Panic, FbPanic => true
  | Ok None, FbErr => true
  | Ok (Some p), FbOk b d c => bp_eqb p b d c
  | _, _ => false
  end.

Inductive obs_dbp := ObsDbp (base bits : Z) (data : list Z) (dcount : Z) (decoded : list Z) (len : Z)
                            (bytes : list Z).
Definition chk_dbp (xs : list Z) (o : obs_dbp) : bool :=
  match o with ObsDbp base bits data dcount dec len bs =>
    let d := dbp_encode xs in
    (dbp_base d =? base) && bp_eqb (dbp_deltas d) bits data dcount
    && zlist_eqb (dbp_decode d) dec && (dbp_len d =? len) && zlist_eqb (dbp_to_bytes d) bs
  end.

Inductive obs_rle := ObsRle (runs : list (Z * Z)) (total : Z) (decoded : list Z)
                            (gets : list (Z * option Z)) (iter bytes : list Z).
Definition chk_rle (xs : list Z) (o : obs_rle) : bool :=
  match o with ObsRle runs total dec gs it bs =>
    let e := rle_encode xs in
    list_eqb pair_eqb (rl_runs e) runs && (rl_total e =? total) && zlist_eqb (rle_decode e) dec
    && forallb (fun g => oz_eqb (rle_get e (fst g)) (snd g)) gs
    && zlist_eqb (rle_decode e) it && zlist_eqb (rle_to_bytes e) bs
  end.
Definition chk_srle (xs : list Z) (runs : list (Z * Z)) (dec : list Z) : bool :=
  let e := srle_encode xs in
  list_eqb pair_eqb (rl_runs e) runs && zlist_eqb (srle_decode e) dec.

(** finding classes (K predicates) of C15, evaluated on the failing input *)
Definition k_dbp_single_zero (xs : list Z) : bool := zlist_eqb xs [0].
(** [BitPackedInts::from_bytes] with a width byte above 64 and a non-zero count *)
Definition k_bp_width_gt64 (bs : list Z) : bool :=
  (5 <=? Z.of_nat (length bs)) && (64 <? nth 0 bs 0)
  && negb (of_le_bytes (firstn 4 (skipn 1 bs)) =? 0).
