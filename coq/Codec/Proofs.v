(** C15 — proofs about the codec model. *)
From GV Require Import Base.Bits Base.BitsFacts Codec.Model.
From Coq Require Import ZArith Lia List ZifyBool.
Open Scope Z_scope.

(** * zig-zag *)

Lemma shiftr63_i64 v : in_i64 v -> Z.shiftr v 63 = if v <? 0 then -1 else 0.
Proof.
  intros H. rewrite Z.shiftr_div_pow2 by lia. unfold in_i64 in H. rewrite two63_val in H.
  change (2 ^ 63) with 9223372036854775808.
  destruct (v <? 0) eqn:E; Z.div_mod_to_equations; lia.
Qed.

Lemma lxor_m1 x : Z.lxor x (-1) = - x - 1.
Proof. rewrite Z.lxor_m1_r. unfold Z.lnot. lia. Qed.

Lemma zigzag_encode_bits_closed v : in_i64 v -> zigzag_encode_bits v = zigzag_encode v.
Proof.
  intros H. unfold zigzag_encode_bits, zigzag_encode.
  rewrite (shiftr63_i64 v H), Z.shiftl_mul_pow2 by lia. change (2 ^ 1) with 2.
  destruct (v <? 0) eqn:E.
  - rewrite lxor_m1.
    destruct (sint64_eqm (v * 2)) as [k Hk]. rewrite Hk.
    replace (- (v * 2 + k * two64) - 1) with ((- (v * 2) - 1) + (- k) * two64) by lia.
    rewrite wrap64_add_mul.
    rewrite wrap64_small; [lia|]. unfold in_u64, in_i64 in *. rewrite two64_val, two63_val in *. lia.
  - rewrite Z.lxor_0_r, wrap64_sint64. rewrite wrap64_small; [lia|].
    unfold in_u64, in_i64 in *. rewrite two64_val, two63_val in *. lia.
Qed.

Lemma zigzag_encode_range v : in_i64 v -> in_u64 (zigzag_encode v).
Proof.
  unfold zigzag_encode, in_i64, in_u64. rewrite two64_val, two63_val.
  destruct (v <? 0) eqn:E; lia.
Qed.

Lemma land1 u : Z.land u 1 = u mod 2.
Proof. change 1 with (Z.ones 1) at 1. rewrite Z.land_ones by lia. reflexivity. Qed.

Lemma even_cases u : (Z.even u = true /\ exists k, u = 2 * k) \/ (Z.even u = false /\ exists k, u = 2 * k + 1).
Proof.
  destruct (Z.even u) eqn:E.
  - left. split; [reflexivity|]. apply Z.even_spec in E. exact E.
  - right. split; [reflexivity|]. rewrite <- Z.negb_odd in E. apply Bool.negb_false_iff in E.
    apply Z.odd_spec in E. exact E.
Qed.

Lemma zigzag_decode_bits_closed u : in_u64 u -> zigzag_decode_bits u = zigzag_decode u.
Proof.
  intros H. unfold zigzag_decode_bits, zigzag_decode.
  rewrite Z.shiftr_div_pow2 by lia. change (2 ^ 1) with 2. rewrite land1.
  assert (Hh : in_i64 (u / 2)).
  { unfold in_u64, in_i64 in *. rewrite two64_val, two63_val in *. Z.div_mod_to_equations; lia. }
  rewrite (sint64_small (u / 2) Hh).
  destruct (even_cases u) as [[-> [k Hk]]|[-> [k Hk]]].
  - replace (u mod 2) with 0 by (Z.div_mod_to_equations; lia).
    change (sint64 0) with 0. change (sint64 (-0)) with 0. apply Z.lxor_0_r.
  - replace (u mod 2) with 1 by (Z.div_mod_to_equations; lia).
    change (sint64 1) with 1. change (sint64 (-(1))) with (-1). rewrite lxor_m1. lia.
Qed.

Lemma zigzag_decode_range u : in_u64 u -> in_i64 (zigzag_decode u).
Proof.
  unfold zigzag_decode, in_i64, in_u64. rewrite two64_val, two63_val. intros H.
  destruct (Z.even u); Z.div_mod_to_equations; lia.
Qed.

Lemma zigzag_rt v : zigzag_decode (zigzag_encode v) = v.
Proof.
  unfold zigzag_decode, zigzag_encode. destruct (v <? 0) eqn:E.
  - replace (-2 * v - 1) with (1 + 2 * (- v - 1)) by lia.
    rewrite Z.even_add_mul_2. simpl Z.even. cbv iota.
    replace ((1 + 2 * (- v - 1)) / 2) with (- v - 1) by (Z.div_mod_to_equations; lia). lia.
  - replace (2 * v) with (0 + 2 * v) by lia. rewrite Z.even_add_mul_2. simpl Z.even. cbv iota.
    Z.div_mod_to_equations; lia.
Qed.

Lemma zigzag_rt' u : 0 <= u -> zigzag_encode (zigzag_decode u) = u.
Proof.
  intros H. unfold zigzag_decode, zigzag_encode.
  destruct (even_cases u) as [[-> [k ->]]|[-> [k ->]]].
  - destruct (2 * k / 2 <? 0) eqn:E2; Z.div_mod_to_equations; lia.
  - destruct (- ((2 * k + 1) / 2) - 1 <? 0) eqn:E2; Z.div_mod_to_equations; lia.
Qed.

Lemma zigzag_bits_rt v : in_i64 v -> zigzag_decode_bits (zigzag_encode_bits v) = v.
Proof.
  intros H. rewrite zigzag_encode_bits_closed by assumption.
  rewrite zigzag_decode_bits_closed by (apply zigzag_encode_range; assumption).
  apply zigzag_rt.
Qed.

Lemma zigzag_bits_rt' u : in_u64 u -> zigzag_encode_bits (zigzag_decode_bits u) = u.
Proof.
  intros H. rewrite zigzag_decode_bits_closed by assumption.
  rewrite zigzag_encode_bits_closed by (apply zigzag_decode_range; assumption).
  apply zigzag_rt'. unfold in_u64 in H. lia.
Qed.

(** * DeltaEncoding *)

Lemma sortedb_cons a b r : sortedb (a :: b :: r) = (a <=? b) && sortedb (b :: r).
Proof. reflexivity. Qed.

Lemma windows2_length {A} (f : Z -> Z -> A) x r : length (windows2 f (x :: r)) = length r.
Proof. revert x; induction r as [|y r IH]; intros x; [reflexivity|]. cbn [windows2 length]. f_equal. apply IH. Qed.

Lemma prefix_sums_u64_windows x0 r :
  sortedb (x0 :: r) = true -> Forall in_u64 (x0 :: r) ->
  prefix_sums_u64 x0 (windows2 (fun a b => saturating_sub_u64 b a) (x0 :: r)) = r.
Proof.
  revert x0; induction r as [|y r IH]; intros x0 Hs Hr; [reflexivity|].
  rewrite sortedb_cons in Hs. apply andb_true_iff in Hs as [Hle Hs].
  inversion Hr as [|? ? Hx0 Hr']; subst. inversion Hr' as [|? ? Hy _]; subst.
  cbn [windows2 prefix_sums_u64].
  assert (E : wrapping_add_u64 x0 (saturating_sub_u64 y x0) = y).
  { unfold wrapping_add_u64, saturating_sub_u64. destruct (y <? x0) eqn:E; [lia|].
    replace (x0 + (y - x0)) with y by lia. apply wrap64_small, Hy. }
  rewrite E. f_equal. apply IH; assumption.
Qed.

Lemma delta_unsigned_rt_l m xs :
  sortedb xs = true -> Forall in_u64 xs ->
  exists d, delta_encode m xs = Ok d /\ delta_decode d = xs.
Proof.
  intros Hs Hr. destruct xs as [|x0 r].
  - eexists; split; reflexivity.
  - unfold delta_encode. rewrite Hs.
    eexists; split; [destruct m; reflexivity|].
    unfold delta_decode. cbn [d_count d_base d_deltas].
    replace (Z.of_nat (length (x0 :: r)) =? 0) with false by (cbn [length]; lia).
    f_equal. apply prefix_sums_u64_windows; assumption.
Qed.

Lemma delta_unsigned_guard_l xs : sortedb xs = false -> delta_encode Checked xs = Panic.
Proof. intros H. destruct xs as [|x r]; [discriminate|]. unfold delta_encode. rewrite H. reflexivity. Qed.

Lemma prefix_sums_i64_windows x0 r :
  Forall in_i64 r ->
  prefix_sums_i64 x0 (windows2 (fun a b => zigzag_encode (wrapping_sub_i64 b a)) (x0 :: r)) = r.
Proof.
  revert x0; induction r as [|y r IH]; intros x0 Hr; [reflexivity|].
  inversion Hr as [|? ? Hy Hr']; subst.
  cbn [windows2 prefix_sums_i64]. rewrite zigzag_rt.
  unfold wrapping_add_i64, wrapping_sub_i64. rewrite (sint64_add_sub x0 y Hy).
  f_equal. apply IH; assumption.
Qed.

Lemma delta_signed_rt_l xs : Forall in_i64 xs -> delta_decode_signed (delta_encode_signed xs) = xs.
Proof.
  intros Hr. destruct xs as [|x0 r]; [reflexivity|].
  unfold delta_encode_signed, delta_decode_signed. cbn [d_count d_base d_deltas].
  replace (Z.of_nat (length (x0 :: r)) =? 0) with false by (cbn [length]; lia).
  rewrite zigzag_rt. f_equal. inversion Hr; subst. apply prefix_sums_i64_windows; assumption.
Qed.

(** the pre-repair encoder panics on an in-range input (witness of fixed finding C15-F4) *)
Lemma delta_signed_pre_refuted_l :
  exists xs, Forall in_i64 xs /\ delta_encode_signed_pre Checked xs = Panic.
Proof.
  exists [- two63; two63 - 1]. split.
  - repeat constructor; unfold in_i64; rewrite two63_val; lia.
  - vm_compute. reflexivity.
Qed.

(** * little-endian bytes *)

Lemma of_le_bytes_le_bytes n z : 0 <= z < 256 ^ Z.of_nat n -> of_le_bytes (le_bytes n z) = z.
Proof.
  revert z; induction n as [|n IH]; intros z Hz.
  - cbn in *. lia.
  - cbn [le_bytes of_le_bytes]. rewrite IH.
    + Z.div_mod_to_equations; lia.
    + rewrite Nat2Z.inj_succ, Z.pow_succ_r in Hz by lia. Z.div_mod_to_equations; nia.
Qed.

Lemma le_bytes_length n z : length (le_bytes n z) = n.
Proof. revert z; induction n as [|n IH]; intros z; cbn [le_bytes length]; [reflexivity|]. f_equal. apply IH. Qed.

Lemma firstn_exact {A} (l r : list A) n : length l = n -> firstn n (l ++ r) = l.
Proof. intros <-. induction l as [|a l IH]; cbn [length firstn app]; [destruct r; reflexivity|]. f_equal. exact IH. Qed.
Lemma skipn_exact {A} (l r : list A) n : length l = n -> skipn n (l ++ r) = r.
Proof. intros <-. induction l as [|a l IH]; cbn [length skipn app]; [reflexivity|]. exact IH. Qed.

Lemma read_u64s_flat_map ds rest :
  Forall in_u64 ds -> read_u64s (length ds) (flat_map (le_bytes 8) ds ++ rest) = ds.
Proof.
  induction ds as [|d ds IH]; intros H; [reflexivity|].
  inversion H as [|? ? Hd Hds]; subst.
  cbn [length read_u64s flat_map]. rewrite <- app_assoc.
  rewrite firstn_exact, skipn_exact by apply le_bytes_length.
  rewrite of_le_bytes_le_bytes by (unfold in_u64 in Hd; rewrite two64_val in Hd; change (256 ^ Z.of_nat 8) with 18446744073709551616; lia).
  f_equal. apply IH, Hds.
Qed.

Definition delta_wf (d : delta) : Prop :=
  in_u64 (d_base d) /\ Forall in_u64 (d_deltas d) /\ 0 <= d_count d < 2 ^ 32 /\
  Z.of_nat (length (d_deltas d)) = (if d_count d =? 0 then 0 else d_count d - 1).

Lemma delta_bytes_rt_l d : delta_wf d -> delta_from_bytes (delta_to_bytes d) = Some d.
Proof.
  destruct d as [b ds c]. unfold delta_wf. cbn [d_base d_deltas d_count]. intros (Hb & Hds & Hc & Hl).
  unfold delta_from_bytes, delta_to_bytes. cbn [d_base d_deltas d_count].
  assert (Hfl : forall l, Z.of_nat (length (flat_map (le_bytes 8) l)) = 8 * Z.of_nat (length l)).
  { induction l as [|x l IH]; [reflexivity|]. cbn [flat_map length]. rewrite app_length, le_bytes_length. lia. }
  rewrite !app_length, !le_bytes_length.
  replace (Z.of_nat (8 + (4 + length (flat_map (le_bytes 8) ds)))%nat) with (12 + 8 * Z.of_nat (length ds))
    by (rewrite <- Hfl; lia).
  replace (12 + 8 * Z.of_nat (length ds) <? 12) with false by lia.
  rewrite firstn_exact by apply le_bytes_length.
  rewrite of_le_bytes_le_bytes by (unfold in_u64 in Hb; rewrite two64_val in Hb; change (256 ^ Z.of_nat 8) with 18446744073709551616; lia).
  rewrite skipn_exact by apply le_bytes_length.
  rewrite firstn_exact by apply le_bytes_length.
  rewrite of_le_bytes_le_bytes by (change (256 ^ Z.of_nat 4) with (2 ^ 32); lia).
  rewrite <- Hl.
  replace (12 + 8 * Z.of_nat (length ds) <? 12 + Z.of_nat (length ds) * 8) with false by lia.
  rewrite Nat2Z.id.
  replace (skipn 12 (le_bytes 8 b ++ le_bytes 4 c ++ flat_map (le_bytes 8) ds)) with (flat_map (le_bytes 8) ds ++ []).
  - rewrite read_u64s_flat_map by assumption. reflexivity.
  - rewrite app_nil_r, app_assoc. symmetry. apply skipn_exact.
    rewrite app_length, !le_bytes_length. reflexivity.
Qed.

(** * RunLengthEncoding *)

Lemma repeat_app_one (v : Z) n : repeat v n ++ [v] = v :: repeat v n.
Proof. induction n as [|n IH]; [reflexivity|]. cbn [repeat app]. f_equal. exact IH. Qed.

Lemma rle_runs_decode cur len xs :
  0 < len ->
  flat_map (fun r => repeat (fst r) (Z.to_nat (snd r))) (rle_runs cur len xs)
  = repeat cur (Z.to_nat len) ++ xs.
Proof.
  revert cur len; induction xs as [|x xs IH]; intros cur len Hl.
  - cbn [rle_runs flat_map fst snd]. rewrite !app_nil_r. reflexivity.
  - cbn [rle_runs]. destruct (Z.eqb_spec x cur) as [->|Hne].
    + rewrite IH by lia. replace (Z.to_nat (len + 1)) with (S (Z.to_nat len)) by lia.
      cbn [repeat]. rewrite <- repeat_app_one, <- app_assoc. reflexivity.
    + cbn [flat_map fst snd]. rewrite IH by lia. reflexivity.
Qed.

Lemma rle_rt_l xs : rle_decode (rle_encode xs) = xs.
Proof.
  destruct xs as [|x r]; [reflexivity|].
  unfold rle_decode, rle_encode. cbn [rl_runs]. rewrite rle_runs_decode by lia. reflexivity.
Qed.

Lemma rle_runs_pos cur len xs : 0 < len -> Forall (fun r => 0 < snd r) (rle_runs cur len xs).
Proof.
  revert cur len; induction xs as [|x xs IH]; intros cur len Hl; cbn [rle_runs].
  - constructor; [exact Hl|constructor].
  - destruct (x =? cur); [apply IH; lia|]. constructor; [exact Hl|apply IH; lia].
Qed.

(** random access agrees with full decoding, for any run list with positive lengths *)
Lemma rle_get_runs_spec runs off i :
  Forall (fun r => 0 < snd r) runs -> off <= i ->
  rle_get_runs runs off i
  = nth_error (flat_map (fun r => repeat (fst r) (Z.to_nat (snd r))) runs) (Z.to_nat (i - off)).
Proof.
  revert off; induction runs as [|[v l] runs IH]; intros off Hp Hi.
  - cbn. destruct (Z.to_nat (i - off)); reflexivity.
  - inversion Hp as [|? ? Hl Hp']; subst. cbn [snd] in Hl.
    cbn [rle_get_runs flat_map fst snd]. destruct (Z.ltb_spec i (off + l)) as [Hlt|Hge].
    + rewrite nth_error_app1 by (rewrite repeat_length; lia).
      symmetry. apply nth_error_repeat. lia.
    + rewrite nth_error_app2 by (rewrite repeat_length; lia). rewrite repeat_length.
      rewrite IH by (assumption || lia). f_equal. lia.
Qed.

Lemma rle_get_spec_l xs i : 0 <= i -> rle_get (rle_encode xs) i = nth_error xs (Z.to_nat i).
Proof.
  intros Hi. unfold rle_get. destruct xs as [|x r].
  - cbn [rle_encode rl_total rl_runs rle_get_runs]. destruct (0 <=? i); destruct (Z.to_nat i); reflexivity.
  - cbn [rle_encode rl_total rl_runs].
    destruct (Z.leb_spec (Z.of_nat (length (x :: r))) i) as [Hge|Hlt].
    + symmetry. apply nth_error_None. lia.
    + rewrite rle_get_runs_spec by (try apply rle_runs_pos; lia).
      rewrite rle_runs_decode by lia. replace (i - 0) with i by lia. reflexivity.
Qed.

Lemma srle_rt_l xs : srle_decode (srle_encode xs) = xs.
Proof.
  unfold srle_decode, srle_encode. rewrite rle_rt_l, map_map.
  rewrite <- (map_id xs) at 2. apply map_ext. intros a. apply zigzag_rt.
Qed.

(** * BitPackedInts *)

Definition digits (B : Z) (vs : list Z) : Z := fold_right (fun v acc => v + B * acc) 0 vs.

Lemma lor_disjoint a b n : 0 <= n -> 0 <= a < 2 ^ n -> Z.lor a (b * 2 ^ n) = a + b * 2 ^ n.
Proof.
  intros Hn Ha.
  assert (Hl : Z.land a (b * 2 ^ n) = 0).
  { apply Z.bits_inj'. intros m Hm. rewrite Z.land_spec, Z.bits_0.
    destruct (Z.lt_ge_cases m n) as [Hlt|Hge].
    - rewrite Z.mul_pow2_bits_low by lia. apply andb_false_r.
    - rewrite <- (Z.mod_small a (2 ^ n)) by lia.
      rewrite Z.mod_pow2_bits_high by lia. reflexivity. }
  rewrite <- Z.lxor_lor by exact Hl. symmetry. apply Z.add_nocarry_lxor. exact Hl.
Qed.

Lemma bp_mask_eq bits : 1 <= bits <= 64 -> bp_mask bits = 2 ^ bits - 1.
Proof.
  intros H. unfold bp_mask. destruct (Z.leb_spec 64 bits) as [Hge|Hlt]; [|reflexivity].
  replace bits with 64 by lia. reflexivity.
Qed.

Lemma land_mask v bits : 1 <= bits <= 64 -> 0 <= v < 2 ^ bits -> Z.land v (bp_mask bits) = v.
Proof.
  intros Hb Hv. rewrite bp_mask_eq by assumption.
  replace (2 ^ bits - 1) with (Z.ones bits) by (rewrite Z.ones_equiv; lia).
  rewrite Z.land_ones by lia. apply Z.mod_small. exact Hv.
Qed.

Lemma land_mask_mod v bits : 1 <= bits <= 64 -> Z.land v (bp_mask bits) = v mod 2 ^ bits.
Proof.
  intros Hb. rewrite bp_mask_eq by assumption.
  replace (2 ^ bits - 1) with (Z.ones bits) by (rewrite Z.ones_equiv; lia).
  apply Z.land_ones. lia.
Qed.

Lemma digits_nonneg B vs : 0 < B -> Forall (fun v => 0 <= v < B) vs -> 0 <= digits B vs.
Proof.
  intros HB H. induction H as [|v vs Hv _ IH]; cbn [digits fold_right]; [lia|].
  fold (digits B vs). nia.
Qed.

Lemma pack_word_digits bits vs off :
  1 <= bits <= 64 -> 0 <= off -> off + bits * Z.of_nat (length vs) <= 64 ->
  Forall (fun v => 0 <= v < 2 ^ bits) vs ->
  pack_word bits vs off = digits (2 ^ bits) vs * 2 ^ off.
Proof.
  intros Hb. revert off. induction vs as [|v vs IH]; intros off Ho Hlen Hvs.
  - reflexivity.
  - inversion Hvs as [|? ? Hv Hvs']; subst. cbn [length] in Hlen.
    cbn [pack_word digits fold_right]. fold (digits (2 ^ bits) vs).
    rewrite land_mask by assumption. rewrite Z.shiftl_mul_pow2 by lia.
    rewrite IH by (assumption || lia).
    assert (Hp : 0 < 2 ^ off) by (apply Z.pow_pos_nonneg; lia).
    assert (Hpb : 0 < 2 ^ bits) by (apply Z.pow_pos_nonneg; lia).
    assert (Hle : 2 ^ (off + bits) <= 2 ^ 64) by (apply Z.pow_le_mono_r; lia).
    assert (Hsum : 2 ^ (off + bits) = 2 ^ off * 2 ^ bits) by (apply Z.pow_add_r; lia).
    assert (Hlt : 0 <= v * 2 ^ off < 2 ^ (off + bits)) by (rewrite Hsum; nia).
    assert (Hu : in_u64 (v * 2 ^ off)) by (unfold in_u64, two64; lia).
    rewrite wrap64_small by exact Hu.
    rewrite lor_disjoint by (lia || exact Hlt).
    rewrite Hsum. ring.
Qed.

Lemma digits_nth B vs j :
  0 < B -> Forall (fun v => 0 <= v < B) vs -> (j < length vs)%nat ->
  (digits B vs / B ^ Z.of_nat j) mod B = nth j vs 0.
Proof.
  intros HB. revert j. induction vs as [|v vs IH]; intros j Hvs Hj; [cbn in Hj; lia|].
  inversion Hvs as [|? ? Hv Hvs']; subst.
  cbn [digits fold_right]. fold (digits B vs).
  destruct j as [|j].
  - cbn [nth Z.of_nat]. rewrite Z.pow_0_r, Z.div_1_r.
    replace (v + B * digits B vs) with (v + digits B vs * B) by ring.
    rewrite Z.mod_add by lia. apply Z.mod_small. exact Hv.
  - cbn [nth]. rewrite Nat2Z.inj_succ, Z.pow_succ_r by lia.
    rewrite <- Z.div_div by (try apply Z.pow_pos_nonneg; lia).
    replace ((v + B * digits B vs) / B) with (digits B vs).
    + apply IH; [assumption|cbn [length] in Hj; lia].
    + replace (v + B * digits B vs) with (v + digits B vs * B) by ring.
      rewrite Z.div_add by lia. rewrite Z.div_small by exact Hv. lia.
Qed.

Lemma nth_firstn_lt {A} (l : list A) n j d : (j < n)%nat -> nth j (firstn n l) d = nth j l d.
Proof.
  revert n j; induction l as [|a l IH]; intros n j H.
  - rewrite firstn_nil. reflexivity.
  - destruct n as [|n]; [lia|]. destruct j as [|j]; [reflexivity|]. cbn [firstn nth]. apply IH. lia.
Qed.

Lemma nth_skipn {A} (l : list A) k j d : nth j (skipn k l) d = nth (k + j) l d.
Proof.
  revert l; induction k as [|k IH]; intros l; [reflexivity|].
  destruct l as [|a l]; [destruct j; reflexivity|]. cbn [skipn plus nth]. apply IH.
Qed.

Lemma Forall_firstn {A} (P : A -> Prop) n l : Forall P l -> Forall P (firstn n l).
Proof.
  revert l; induction n as [|n IH]; intros l H; [constructor|].
  destruct H; cbn [firstn]; constructor; auto.
Qed.
Lemma Forall_skipn {A} (P : A -> Prop) n l : Forall P l -> Forall P (skipn n l).
Proof.
  revert l; induction n as [|n IH]; intros l H; [exact H|].
  destruct H; cbn [skipn]; [constructor|auto].
Qed.

(** random access into the packed words returns the i-th input value *)
Lemma get_raw_pack_words bits vs i :
  1 <= bits <= 64 -> Forall (fun v => 0 <= v < 2 ^ bits) vs ->
  (i < length vs)%nat ->
  bp_get_raw {| bp_data := pack_words bits vs; bp_bits := bits; bp_count := Z.of_nat (length vs) |} (Z.of_nat i)
  = nth i vs 0.
Proof.
  intros Hb Hvs Hi. unfold bp_get_raw, pack_words. cbn [bp_bits bp_data].
  set (vpwZ := 64 / bits).
  assert (Hvpw : 1 <= vpwZ <= 64) by (subst vpwZ; Z.div_mod_to_equations; nia).
  assert (Hvb : vpwZ * bits <= 64) by (subst vpwZ; Z.div_mod_to_equations; nia).
  clearbody vpwZ.
  pose proof (Z.mod_pos_bound (Z.of_nat i) vpwZ ltac:(lia)) as Hm.
  set (w := Z.to_nat (Z.of_nat i / vpwZ)).
  set (j := Z.to_nat (Z.of_nat i mod vpwZ)).
  set (vpw := Z.to_nat vpwZ).
  assert (Hi_eq : i = (w * vpw + j)%nat).
  { subst w j vpw. pose proof (Z.div_mod (Z.of_nat i) vpwZ ltac:(lia)) as Hdm.
    pose proof (Z.mod_pos_bound (Z.of_nat i) vpwZ ltac:(lia)).
    assert (0 <= Z.of_nat i / vpwZ) by (apply Z.div_pos; lia).
    apply Nat2Z.inj. rewrite Nat2Z.inj_add, Nat2Z.inj_mul, !Z2Nat.id by lia.
    rewrite (Z.mul_comm (Z.of_nat i / vpwZ)). exact Hdm. }
  assert (Hj : (j < vpw)%nat).
  { subst j vpw. pose proof (Z.mod_pos_bound (Z.of_nat i) vpwZ ltac:(lia)). lia. }
  fold vpw.
  set (nw := ((length vs + vpw - 1) / vpw)%nat).
  assert (Hw : (w < nw)%nat).
  { subst nw. assert (0 < vpw)%nat by (subst vpw; lia).
    apply Nat.div_le_lower_bound; [lia|]. nia. }
  set (f := fun w0 : nat => pack_word bits (firstn vpw (skipn (w0 * vpw) vs)) 0).
  rewrite (nth_indep _ 0 (f 0%nat)) by (rewrite map_length, seq_length; exact Hw).
  rewrite map_nth, seq_nth by exact Hw. cbn [plus]. subst f. cbv beta.
  set (chunk := firstn vpw (skipn (w * vpw) vs)).
  assert (Hch : Forall (fun v => 0 <= v < 2 ^ bits) chunk) by (apply Forall_firstn, Forall_skipn, Hvs).
  assert (Hcl : (length chunk <= vpw)%nat) by (subst chunk; rewrite firstn_length; lia).
  rewrite pack_word_digits; try assumption; try lia.
  2:{ subst vpw. nia. }
  rewrite Z.pow_0_r, Z.mul_1_r. rewrite Z.shiftr_div_pow2 by nia.
  rewrite land_mask_mod by assumption.
  replace (Z.of_nat i mod vpwZ * bits) with (bits * Z.of_nat j) by (subst j; rewrite Z2Nat.id by lia; ring).
  rewrite Z.pow_mul_r by lia.
  assert (Hjl : (j < length chunk)%nat).
  { subst chunk. rewrite firstn_length, skipn_length. lia. }
  rewrite digits_nth by (try apply Z.pow_pos_nonneg; try assumption; lia).
  subst chunk. rewrite nth_firstn_lt by exact Hj. rewrite nth_skipn. f_equal. lia.
Qed.

Lemma bits_needed_spec v : 0 <= v < 2 ^ 64 -> 1 <= bits_needed v <= 64 /\ v < 2 ^ bits_needed v.
Proof.
  intros Hv. unfold bits_needed. destruct (Z.eqb_spec v 0) as [->|Hne]; [split; [lia|reflexivity]|].
  assert (Hp : 0 < v) by lia.
  pose proof (Z.log2_spec v Hp) as [Hlo Hhi].
  pose proof (Z.log2_nonneg v).
  assert (Z.log2 v < 64) by (apply Z.log2_lt_pow2; lia).
  split; [lia|]. replace (Z.log2 v + 1) with (Z.succ (Z.log2 v)) by lia. exact Hhi.
Qed.

Lemma list_max_ge vs : Forall (fun v => v <= zlist_max vs) vs.
Proof.
  induction vs as [|v vs IH]; [constructor|]. cbn [zlist_max fold_right]. fold (zlist_max vs).
  constructor; [lia|]. eapply Forall_impl; [|exact IH]. cbv beta. intros a Ha. lia.
Qed.

Lemma list_max_range vs : Forall in_u64 vs -> 0 <= zlist_max vs < 2 ^ 64.
Proof.
  induction 1 as [|v vs Hv _ IH]; cbn [zlist_max fold_right]; [lia|]. fold (zlist_max vs).
  unfold in_u64, two64 in Hv. lia.
Qed.

Lemma map_nth_seq (vs : list Z) : map (fun i => nth i vs 0) (seq 0 (length vs)) = vs.
Proof.
  induction vs as [|v vs IH]; [reflexivity|].
  cbn [length seq map nth]. f_equal. rewrite <- seq_shift, map_map. exact IH.
Qed.

Definition fits (bits : Z) (vs : list Z) : Prop := Forall (fun v => 0 <= v < 2 ^ bits) vs.

Lemma pack_fits vs : Forall in_u64 vs -> vs <> [] ->
  1 <= bits_needed (zlist_max vs) <= 64 /\ fits (bits_needed (zlist_max vs)) vs.
Proof.
  intros Hvs Hne. pose proof (bits_needed_spec _ (list_max_range vs Hvs)) as [Hb Hlt].
  split; [exact Hb|]. unfold fits.
  pose proof (list_max_ge vs) as Hge. rewrite Forall_forall in *. intros x Hx.
  specialize (Hvs x Hx). specialize (Hge x Hx). unfold in_u64 in Hvs. cbv beta in Hge. lia.
Qed.

Lemma unpack_words bits vs :
  1 <= bits <= 64 -> fits bits vs -> vs <> [] ->
  unpack {| bp_data := pack_words bits vs; bp_bits := bits; bp_count := Z.of_nat (length vs) |} = vs.
Proof.
  intros Hb Hf Hne. unfold unpack. cbn [bp_count bp_bits].
  destruct vs as [|v0 r]; [congruence|].
  replace (Z.of_nat (length (v0 :: r)) =? 0) with false by (cbn [length]; lia).
  replace (bits =? 0) with false by lia. rewrite Nat2Z.id.
  rewrite <- (map_nth_seq (v0 :: r)) at 2. apply map_ext_in. intros i Hi. apply in_seq in Hi.
  apply get_raw_pack_words; [assumption|assumption|lia].
Qed.

Lemma get_words bits vs i :
  1 <= bits <= 64 -> fits bits vs -> 0 <= i ->
  bp_get {| bp_data := pack_words bits vs; bp_bits := bits; bp_count := Z.of_nat (length vs) |} i
  = nth_error vs (Z.to_nat i).
Proof.
  intros Hb Hf Hi. unfold bp_get. cbn [bp_count bp_bits].
  destruct (Z.leb_spec (Z.of_nat (length vs)) i) as [Hge|Hlt].
  - symmetry. apply nth_error_None. lia.
  - replace (bits =? 0) with false by lia.
    rewrite <- (Z2Nat.id i) at 1 by lia. rewrite get_raw_pack_words by (assumption || lia).
    symmetry. apply nth_error_nth'. lia.
Qed.

Lemma pack_nonempty vs : vs <> [] ->
  pack vs = {| bp_data := pack_words (bits_needed (zlist_max vs)) vs; bp_bits := bits_needed (zlist_max vs);
               bp_count := Z.of_nat (length vs) |}.
Proof. destruct vs; [congruence|reflexivity]. Qed.

Lemma unpack_pack_l vs : Forall in_u64 vs -> unpack (pack vs) = vs.
Proof.
  intros Hvs. destruct (list_eq_dec Z.eq_dec vs []) as [->|Hne]; [reflexivity|].
  destruct (pack_fits vs Hvs Hne) as [Hb Hf].
  rewrite pack_nonempty by assumption. apply unpack_words; assumption.
Qed.

Lemma get_pack_l vs i : Forall in_u64 vs -> 0 <= i -> bp_get (pack vs) i = nth_error vs (Z.to_nat i).
Proof.
  intros Hvs Hi. destruct (list_eq_dec Z.eq_dec vs []) as [->|Hne].
  - unfold bp_get. cbn [pack bp_count]. replace (0 <=? i) with true by lia. destruct (Z.to_nat i); reflexivity.
  - destruct (pack_fits vs Hvs Hne) as [Hb Hf].
    rewrite pack_nonempty by assumption. apply get_words; assumption.
Qed.

(** explicit width: any width in which every value fits *)
Lemma pack_with_bits_l m vs bits :
  1 <= bits <= 64 -> fits bits vs ->
  exists p, pack_with_bits m vs bits = Ok p /\ unpack p = vs /\
            forall i, 0 <= i -> bp_get p i = nth_error vs (Z.to_nat i).
Proof.
  intros Hb Hf. destruct (list_eq_dec Z.eq_dec vs []) as [->|Hne].
  - eexists; split; [reflexivity|]. split; [reflexivity|]. intros i Hi.
    unfold bp_get. cbn [bp_count]. destruct (0 <=? i) eqn:E0; [|lia]. destruct (Z.to_nat i); reflexivity.
  - assert (Hpw : pack_with_bits m vs bits =
                  if bits =? 0 then
                    match m, forallb (fun v => v =? 0) vs with
                    | Checked, false => Panic
                    | _, _ => Ok {| bp_data := []; bp_bits := 0; bp_count := Z.of_nat (length vs) |}
                    end
                  else
                    match m, forallb (fun v => v <=? bp_mask bits) vs with
                    | Checked, false => Panic
                    | _, _ => Ok {| bp_data := pack_words bits vs; bp_bits := bits; bp_count := Z.of_nat (length vs) |}
                    end) by (destruct vs; [congruence|reflexivity]).
    rewrite Hpw.
    replace (bits =? 0) with false by lia.
    assert (Hall : forallb (fun v => v <=? bp_mask bits) vs = true).
    { apply forallb_forall. intros x Hx. unfold fits in Hf. rewrite Forall_forall in Hf. specialize (Hf x Hx).
      rewrite bp_mask_eq by assumption. lia. }
    rewrite Hall. eexists. split; [destruct m; reflexivity|]. split.
    + apply unpack_words; assumption.
    + intros i Hi. apply get_words; assumption.
Qed.

(** * DeltaBitPacked *)

Lemma windows2_u64 x0 r : sortedb (x0 :: r) = true -> Forall in_u64 (x0 :: r) ->
  Forall in_u64 (windows2 (fun a b => saturating_sub_u64 b a) (x0 :: r)).
Proof.
  revert x0; induction r as [|y r IH]; intros x0 Hs Hr; [constructor|].
  rewrite sortedb_cons in Hs. apply andb_true_iff in Hs as [Hle Hs].
  inversion Hr as [|? ? Hx Hr']; subst. inversion Hr' as [|? ? Hy _]; subst.
  cbn [windows2]. constructor; [|apply IH; assumption].
  unfold saturating_sub_u64, in_u64 in *. destruct (y <? x0) eqn:E; lia.
Qed.

Lemma dbp_rt_l xs : sortedb xs = true -> Forall in_u64 xs -> dbp_decode (dbp_encode xs) = xs.
Proof.
  intros Hs Hr. destruct xs as [|x0 r]; [reflexivity|].
  unfold dbp_encode. destruct r as [|y r'] eqn:Er.
  - cbn [windows2]. unfold dbp_decode, dbp_is_empty. cbn [dbp_base dbp_deltas bp_count bp_bits].
    rewrite andb_false_r. reflexivity.
  - rewrite <- Er in *.
    set (ds := windows2 (fun a b => saturating_sub_u64 b a) (x0 :: r)).
    assert (Hds : ds <> []) by (subst ds; rewrite Er; cbn [windows2]; discriminate).
    assert (Hdu : Forall in_u64 ds) by (apply windows2_u64; assumption).
    assert (Hm : match ds with [] => {| bp_data := []; bp_bits := 1; bp_count := 0 |} | _ => pack ds end = pack ds)
      by (destruct ds; [congruence|reflexivity]).
    rewrite Hm.
    unfold dbp_decode, dbp_is_empty. cbn [dbp_base dbp_deltas].
    replace (bp_count (pack ds) =? 0) with false.
    2:{ rewrite pack_nonempty by assumption. cbn [bp_count]. destruct ds; [congruence|cbn [length]; lia]. }
    cbn [andb]. rewrite unpack_pack_l by assumption. f_equal. subst ds.
    apply prefix_sums_u64_windows; assumption.
Qed.

Lemma dbp_len_l xs : sortedb xs = true -> Forall in_u64 xs -> dbp_len (dbp_encode xs) = Z.of_nat (length xs).
Proof.
  intros Hs Hr. destruct xs as [|x0 r]; [reflexivity|].
  unfold dbp_encode, dbp_len, dbp_is_empty. cbn [dbp_base dbp_deltas].
  pose proof (windows2_length (fun a b => saturating_sub_u64 b a) x0 r) as Hl.
  destruct (windows2 (fun a b => saturating_sub_u64 b a) (x0 :: r)) as [|d0 dr] eqn:Eds.
  - cbn [bp_count bp_bits]. rewrite andb_false_r. cbn [length] in *. lia.
  - unfold pack. cbn [bp_count]. rewrite Hl.
    replace (Z.of_nat (length r) =? 0) with false by (cbn [length] in Hl; lia).
    cbn [andb length]. lia.
Qed.

(** the pre-repair codec loses the one-element sequence [0] (witness of the fixed finding) *)
Lemma dbp_pre_refuted_l : exists xs, sortedb xs = true /\ Forall in_u64 xs /\ dbp_decode_pre (dbp_encode_pre xs) <> xs.
Proof.
  exists [0]. split; [reflexivity|]. split; [repeat constructor; unfold in_u64, two64; lia|].
  vm_compute. discriminate.
Qed.
