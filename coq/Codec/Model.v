(** C15 — model of the storage codecs of grafeo-core/src/storage/{delta,bitpack,runlength}.rs.
    Definitions only.  All integers are [Z]; the 64-bit behaviour is explicit. *)
From GV Require Export Base.Bits.
Open Scope Z_scope.

(** * zig-zag (delta.rs / runlength.rs: the two copies are textually the same function) *)

(** bit-level definition, as written: [((v << 1) ^ (v >> 63)) as u64] on an i64 *)
Definition zigzag_encode_bits (v : Z) : Z :=
  wrap64 (Z.lxor (sint64 (Z.shiftl v 1)) (Z.shiftr v 63)).
(** [((u >> 1) as i64) ^ (-((u & 1) as i64))] on a u64 *)
Definition zigzag_decode_bits (u : Z) : Z :=
  Z.lxor (sint64 (Z.shiftr u 1)) (sint64 (- (sint64 (Z.land u 1)))).

(** closed forms (proved equal to the bit-level ones on the machine ranges) *)
Definition zigzag_encode (v : Z) : Z := if v <? 0 then - 2 * v - 1 else 2 * v.
Definition zigzag_decode (u : Z) : Z := if Z.even u then u / 2 else - (u / 2) - 1.

(** * DeltaEncoding *)

Record delta := { d_base : Z; d_deltas : list Z; d_count : Z }.

(** consecutive pairs: [values.windows(2)] *)
Fixpoint windows2 {A} (f : Z -> Z -> A) (l : list Z) : list A :=
  match l with
  | a :: ((b :: _) as r) => f a b :: windows2 f r
  | _ => []
  end.

Fixpoint sortedb (l : list Z) : bool :=
  match l with
  | a :: ((b :: _) as r) => (a <=? b) && sortedb r
  | _ => true
  end.

(** [DeltaEncoding::encode]: the [debug_assert!] on sortedness fires in [Checked] mode only *)
Definition delta_encode (m : mode) (xs : list Z) : res delta :=
  match xs with
  | [] => Ok {| d_base := 0; d_deltas := []; d_count := 0 |}
  | x0 :: _ =>
      match m, sortedb xs with
      | Checked, false => Panic
      | _, _ => Ok {| d_base := x0; d_deltas := windows2 (fun a b => saturating_sub_u64 b a) xs;
                      d_count := Z.of_nat (length xs) |}
      end
  end.

Fixpoint prefix_sums_u64 (cur : Z) (ds : list Z) : list Z :=
  match ds with
  | [] => []
  | d :: r => let c := wrapping_add_u64 cur d in c :: prefix_sums_u64 c r
  end.

Definition delta_decode (d : delta) : list Z :=
  if d_count d =? 0 then [] else d_base d :: prefix_sums_u64 (d_base d) (d_deltas d).

(** [encode_signed]/[decode_signed] after the repair F4 (wrapping_sub / wrapping_add):
    total in both build profiles.  The pre-repair transcription is kept as
    [delta_encode_signed_pre]/[delta_decode_signed_pre] for the refutation theorem. *)
Definition delta_encode_signed (xs : list Z) : delta :=
  match xs with
  | [] => {| d_base := 0; d_deltas := []; d_count := 0 |}
  | x0 :: _ => {| d_base := zigzag_encode x0;
                  d_deltas := windows2 (fun a b => zigzag_encode (wrapping_sub_i64 b a)) xs;
                  d_count := Z.of_nat (length xs) |}
  end.

Fixpoint prefix_sums_i64 (cur : Z) (ds : list Z) : list Z :=
  match ds with
  | [] => []
  | d :: r => let c := wrapping_add_i64 cur (zigzag_decode d) in c :: prefix_sums_i64 c r
  end.

Definition delta_decode_signed (d : delta) : list Z :=
  if d_count d =? 0 then []
  else let b := zigzag_decode (d_base d) in b :: prefix_sums_i64 b (d_deltas d).

(** pre-repair: [w[1] - w[0]] and [current += …] with the build's overflow behaviour *)
Fixpoint rsequence {A} (l : list (res A)) : res (list A) :=
  match l with
  | [] => Ok []
  | r :: t => rbind r (fun a => rmap (cons a) (rsequence t))
  end.

Definition delta_encode_signed_pre (m : mode) (xs : list Z) : res delta :=
  match xs with
  | [] => Ok {| d_base := 0; d_deltas := []; d_count := 0 |}
  | x0 :: _ =>
      rmap (fun ds => {| d_base := zigzag_encode x0; d_deltas := ds; d_count := Z.of_nat (length xs) |})
           (rsequence (windows2 (fun a b => rmap zigzag_encode (sub_i64 m b a)) xs))
  end.

Fixpoint prefix_sums_i64_pre (m : mode) (cur : Z) (ds : list Z) : res (list Z) :=
  match ds with
  | [] => Ok []
  | d :: r => rbind (add_i64 m cur (zigzag_decode d))
                    (fun c => rmap (cons c) (prefix_sums_i64_pre m c r))
  end.

Definition delta_decode_signed_pre (m : mode) (d : delta) : res (list Z) :=
  if d_count d =? 0 then Ok []
  else let b := zigzag_decode (d_base d) in rmap (cons b) (prefix_sums_i64_pre m b (d_deltas d)).

(** bytes: base u64 LE, count u32 LE, deltas u64 LE each *)
Definition delta_to_bytes (d : delta) : list Z :=
  le_bytes 8 (d_base d) ++ le_bytes 4 (d_count d) ++ flat_map (le_bytes 8) (d_deltas d).

Fixpoint read_u64s (n : nat) (bs : list Z) : list Z :=
  match n with
  | O => []
  | S k => of_le_bytes (firstn 8 bs) :: read_u64s k (skipn 8 bs)
  end.

Definition delta_from_bytes (bs : list Z) : option delta :=
  let len := Z.of_nat (length bs) in
  if len <? 12 then None else
  let base := of_le_bytes (firstn 8 bs) in
  let count := of_le_bytes (firstn 4 (skipn 8 bs)) in
  let nd := if count =? 0 then 0 else count - 1 in
  if len <? 12 + nd * 8 then None else
  Some {| d_base := base; d_deltas := read_u64s (Z.to_nat nd) (skipn 12 bs); d_count := count |}.

(** * BitPackedInts *)

Record bitpacked := { bp_data : list Z; bp_bits : Z; bp_count : Z }.

(** [64 - leading_zeros(v)], at least 1 *)
Definition bits_needed (v : Z) : Z := if v =? 0 then 1 else Z.log2 v + 1.

Definition bp_mask (bits : Z) : Z := if 64 <=? bits then two64 - 1 else 2 ^ bits - 1.

Definition zlist_max (l : list Z) : Z := fold_right Z.max 0 l.

(** one 64-bit word holding the values [vs] at bit offsets off, off+bits, … *)
Fixpoint pack_word (bits : Z) (vs : list Z) (off : Z) : Z :=
  match vs with
  | [] => 0
  | v :: r => Z.lor (wrap64 (Z.shiftl (Z.land v (bp_mask bits)) off)) (pack_word bits r (off + bits))
  end.

Definition pack_words (bits : Z) (vs : list Z) : list Z :=
  let vpw := Z.to_nat (64 / bits) in
  let n := length vs in
  let nw := ((n + vpw - 1) / vpw)%nat in
  map (fun w => pack_word bits (firstn vpw (skipn (w * vpw) vs)) 0) (seq 0 nw).

(** [pack_with_bits]; the debug assertions (value fits / all zero for width 0) panic in
    [Checked] mode; in [Wrapping] mode the values are silently masked *)
Definition pack_with_bits (m : mode) (vs : list Z) (bits : Z) : res bitpacked :=
  match vs with
  | [] => Ok {| bp_data := []; bp_bits := bits; bp_count := 0 |}
  | _ =>
      if bits =? 0 then
        match m, forallb (fun v => v =? 0) vs with
        | Checked, false => Panic
        | _, _ => Ok {| bp_data := []; bp_bits := 0; bp_count := Z.of_nat (length vs) |}
        end
      else
        match m, forallb (fun v => v <=? bp_mask bits) vs with
        | Checked, false => Panic
        | _, _ => Ok {| bp_data := pack_words bits vs; bp_bits := bits; bp_count := Z.of_nat (length vs) |}
        end
  end.

Definition pack (vs : list Z) : bitpacked :=
  match vs with
  | [] => {| bp_data := []; bp_bits := 0; bp_count := 0 |}
  | _ => let bits := bits_needed (zlist_max vs) in
         {| bp_data := pack_words bits vs; bp_bits := bits; bp_count := Z.of_nat (length vs) |}
  end.

Definition bp_get_raw (p : bitpacked) (i : Z) : Z :=
  let bits := bp_bits p in
  let vpw := 64 / bits in
  let w := nth (Z.to_nat (i / vpw)) (bp_data p) 0 in
  Z.land (Z.shiftr w ((i mod vpw) * bits)) (bp_mask bits).

Definition bp_get (p : bitpacked) (i : Z) : option Z :=
  if bp_count p <=? i then None
  else if bp_bits p =? 0 then Some 0
  else Some (bp_get_raw p i).

Definition unpack (p : bitpacked) : list Z :=
  if bp_count p =? 0 then []
  else if bp_bits p =? 0 then repeat 0 (Z.to_nat (bp_count p))
  else map (fun i => bp_get_raw p (Z.of_nat i)) (seq 0 (Z.to_nat (bp_count p))).

Definition bp_to_bytes (p : bitpacked) : list Z :=
  le_bytes 1 (bp_bits p) ++ le_bytes 4 (bp_count p) ++ flat_map (le_bytes 8) (bp_data p).

(** [from_bytes]; a width byte above 64 makes [64 / bits = 0] and the following division
    panics — an outcome of the model, cf. finding C15-K3 *)
Definition bp_from_bytes (bs : list Z) : res (option bitpacked) :=
  let len := Z.of_nat (length bs) in
  if len <? 5 then Ok None else
  let bits := nth 0 bs 0 in
  let count := of_le_bytes (firstn 4 (skipn 1 bs)) in
  if (bits =? 0) || (count =? 0) then
    Ok (Some {| bp_data := []; bp_bits := bits; bp_count := count |})
  else
    let vpw := 64 / bits in
    if vpw =? 0 then Panic else
    let nw := (count + vpw - 1) / vpw in
    if len <? 5 + nw * 8 then Ok None else
    Ok (Some {| bp_data := read_u64s (Z.to_nat nw) (skipn 5 bs); bp_bits := bits; bp_count := count |}).

(** * DeltaBitPacked *)

Record dbp := { dbp_base : Z; dbp_deltas : bitpacked }.

(** after the repair "DeltaBitPacked keeps a lone 0 distinct from the empty sequence": a
    one-element sequence stores an empty delta block of width 1, emptiness requires width 0 *)
Definition dbp_encode (xs : list Z) : dbp :=
  match xs with
  | [] => {| dbp_base := 0; dbp_deltas := pack [] |}
  | x0 :: _ =>
      let ds := windows2 (fun a b => saturating_sub_u64 b a) xs in
      {| dbp_base := x0;
         dbp_deltas := match ds with
                       | [] => {| bp_data := []; bp_bits := 1; bp_count := 0 |}
                       | _ => pack ds
                       end |}
  end.

Definition dbp_is_empty (d : dbp) : bool :=
  (bp_count (dbp_deltas d) =? 0) && (dbp_base d =? 0) && (bp_bits (dbp_deltas d) =? 0).

(** pre-repair transcription, kept for the refutation theorem of the fixed finding *)
Definition dbp_encode_pre (xs : list Z) : dbp :=
  match xs with
  | [] => {| dbp_base := 0; dbp_deltas := pack [] |}
  | x0 :: _ => {| dbp_base := x0; dbp_deltas := pack (windows2 (fun a b => saturating_sub_u64 b a) xs) |}
  end.
Definition dbp_is_empty_pre (d : dbp) : bool := (bp_count (dbp_deltas d) =? 0) && (dbp_base d =? 0).
Definition dbp_decode_pre (d : dbp) : list Z :=
  if dbp_is_empty_pre d then []
  else dbp_base d :: prefix_sums_u64 (dbp_base d) (unpack (dbp_deltas d)).

Definition dbp_decode (d : dbp) : list Z :=
  if dbp_is_empty d then []
  else dbp_base d :: prefix_sums_u64 (dbp_base d) (unpack (dbp_deltas d)).

Definition dbp_len (d : dbp) : Z := if dbp_is_empty d then 0 else bp_count (dbp_deltas d) + 1.

Definition dbp_to_bytes (d : dbp) : list Z := le_bytes 8 (dbp_base d) ++ bp_to_bytes (dbp_deltas d).

(** * RunLengthEncoding *)

Record rle := { rl_runs : list (Z * Z); rl_total : Z }.

Fixpoint rle_runs (cur len : Z) (xs : list Z) : list (Z * Z) :=
  match xs with
  | [] => [(cur, len)]
  | x :: r => if x =? cur then rle_runs cur (len + 1) r else (cur, len) :: rle_runs x 1 r
  end.

Definition rle_encode (xs : list Z) : rle :=
  match xs with
  | [] => {| rl_runs := []; rl_total := 0 |}
  | x :: r => {| rl_runs := rle_runs x 1 r; rl_total := Z.of_nat (length xs) |}
  end.

Definition rle_decode (e : rle) : list Z :=
  flat_map (fun r => repeat (fst r) (Z.to_nat (snd r))) (rl_runs e).

Fixpoint rle_get_runs (runs : list (Z * Z)) (off i : Z) : option Z :=
  match runs with
  | [] => None
  | (v, l) :: r => if i <? off + l then Some v else rle_get_runs r (off + l) i
  end.

Definition rle_get (e : rle) (i : Z) : option Z :=
  if rl_total e <=? i then None else rle_get_runs (rl_runs e) 0 i.

Definition rle_to_bytes (e : rle) : list Z :=
  le_bytes 8 (Z.of_nat (length (rl_runs e)))
  ++ flat_map (fun r => le_bytes 8 (fst r) ++ le_bytes 8 (snd r)) (rl_runs e).

Definition srle_encode (xs : list Z) : rle := rle_encode (map zigzag_encode xs).
Definition srle_decode (e : rle) : list Z := map zigzag_decode (rle_decode e).
