(** C12 — integer arithmetic and index arithmetic of
    crates/grafeo-core/src/execution/operators/filter.rs (model; no proofs).

    [arith]/[neg]: [eval_arithmetic] with [i64::checked_add/sub/mul/div], [eval_modulo] with the
    [b != 0] guard and [checked_rem], [eval_unary_op] Neg with [checked_neg] (after 8edf585).
    [arith_pre]/[neg_pre]: the plain operators [a + b], [a / b], [a % b], [-i] that were there before,
    under the arithmetic mode of the build.  A panic is the explicit outcome [APanic]; "no value"
    (the evaluator's [None], which filters the row / shows as NULL) is [AVal None]. *)
From GV Require Export Base.Bits.
Open Scope Z_scope.

Inductive aop := OAdd | OSub | OMul | ODiv | OMod.
Inductive ares := AVal (v : option Z) | APanic.

Definition i64_min : Z := - two63.
Definition i64_max : Z := two63 - 1.

(** the mathematical result of the operation (truncating division, as in Rust) *)
Definition math (op : aop) (a b : Z) : Z :=
  match op with
  | OAdd => a + b
  | OSub => a - b
  | OMul => a * b
  | ODiv => Z.quot a b
  | OMod => Z.rem a b
  end.

(** [i64::checked_*] *)
Definition checked (op : aop) (a b : Z) : option Z :=
  match op with
  | OAdd | OSub | OMul => let r := math op a b in if in_i64b r then Some r else None
  | ODiv | OMod =>
      if b =? 0 then None
      else if (a =? i64_min) && (b =? -1) then None
      else Some (math op a b)
  end.

(** the code as it is now *)
Definition arith (op : aop) (a b : Z) : ares :=
  match op with
  | OMod => if b =? 0 then AVal None else AVal (checked OMod a b)    (* the match guard [*b != 0], else the [_ => None] arm *)
  | _ => AVal (checked op a b)
  end.
Definition neg (a : Z) : ares := AVal (if a =? i64_min then None else Some (- a)).

(** the plain operators of Rust on [i64] *)
Definition plain (m : mode) (op : aop) (a b : Z) : ares :=
  match op with
  | OAdd | OSub | OMul =>
      let r := math op a b in
      match m with
      | Checked => if in_i64b r then AVal (Some r) else APanic        (* "attempt to add with overflow" *)
      | Wrapping => AVal (Some (sint64 r))
      end
  | ODiv | OMod =>
      if b =? 0 then APanic                                              (* division by zero: every profile *)
      else if (a =? i64_min) && (b =? -1) then APanic                   (* "attempt to divide with overflow": every profile *)
      else AVal (Some (math op a b))
  end.
(** the code before 8edf585 *)
Definition arith_pre (m : mode) (op : aop) (a b : Z) : ares :=
  match op with
  | OMod => if b =? 0 then AVal None else plain m OMod a b
  | _ => plain m op a b
  end.
Definition neg_pre (m : mode) (a : Z) : ares :=
  if a =? i64_min then match m with Checked => APanic | Wrapping => AVal (Some a) end
  else AVal (Some (- a)).

(** integer expressions: literals (an [Int64] or NULL), the five operators, unary minus.
    [eval_expr] evaluates both operands with [?], so a missing value propagates. *)
Inductive expr := ELit (v : option Z) | EBin (op : aop) (l r : expr) | ENeg (e : expr).

Section Eval.
  Variable bin : aop -> Z -> Z -> ares.
  Variable un : Z -> ares.
  Fixpoint eval_with (e : expr) : ares :=
    match e with
    | ELit v => AVal v
    | EBin op l r =>
        match eval_with l with
        | APanic => APanic
        | AVal None => AVal None
        | AVal (Some a) =>
            match eval_with r with
            | APanic => APanic
            | AVal None => AVal None
            | AVal (Some b) => bin op a b
            end
        end
    | ENeg x =>
        match eval_with x with
        | APanic => APanic
        | AVal None => AVal None
        | AVal (Some a) => un a
        end
    end.
End Eval.
Definition eval : expr -> ares := eval_with arith neg.
Definition eval_pre (m : mode) : expr -> ares := eval_with (arith_pre m) (neg_pre m).

(** ** integer SUM aggregate: aggregate.rs [AggregateState::SumInt] / [SumIntDistinct].
    Before a66b89b ([sum_int_pre]): [*sum += v] with the plain operator on [i64], in the order the rows arrive. *)
Fixpoint sum_int_pre (m : mode) (acc : Z) (vs : list Z) : res Z :=
  match vs with
  | [] => Ok acc
  | v :: r => rbind (add_i64 m acc v) (fun a => sum_int_pre m a r)
  end.
(** The code as it is now: [sum.checked_add(v)]; when a partial sum leaves the i64 range the state becomes a
    FLOAT sum — float arithmetic is not modelled, the outcome "a float" is [None]. *)
Fixpoint sum_int (acc : Z) (vs : list Z) : option Z :=
  match vs with
  | [] => Some acc
  | v :: r => if in_i64b (acc + v) then sum_int (acc + v) r else None
  end.
Fixpoint zsum (vs : list Z) : Z := match vs with [] => 0 | v :: r => v + zsum r end.
(** every partial sum, in arrival order, fits in an [i64] *)
Fixpoint prefixes_fit (acc : Z) (vs : list Z) : Prop :=
  match vs with [] => True | v :: r => in_i64 (acc + v) /\ prefixes_fit (acc + v) r end.

(** ** index and slice arithmetic ([IndexAccess], [SliceAccess]) *)

(** [x as usize] for an [i64] x: two's-complement reinterpretation *)
Definition as_usize (x : Z) : Z := wrap64 x.

(** list[i]:  [let idx = if i < 0 { (items.len() as i64 + i) as usize } else { i as usize }; items.get(idx)]
    result: the position of the element that is returned, or [None] *)
Definition list_index (m : mode) (len i : Z) : res (option Z) :=
  rbind (if i <? 0 then rmap as_usize (add_i64 m len i) else Ok (as_usize i))
        (fun idx => Ok (if idx <? len then Some idx else None)).

(** string[i]: the same with [s.len()] (BYTES) as the length and [s.chars().nth(idx)] (CHARACTERS) *)
Definition str_index (m : mode) (blen clen i : Z) : res (option Z) :=
  rbind (if i <? 0 then rmap as_usize (add_i64 m blen i) else Ok (as_usize i))
        (fun idx => Ok (if idx <? clen then Some idx else None)).

(** base[start..end]: [start as usize] (default 0), [end as usize] (default len),
    [items.get(start_idx..end_idx.min(len)).unwrap_or(&[])]; result = the range returned *)
Definition slice_range (len : Z) (st en : option Z) : Z * Z :=
  let a := match st with Some x => as_usize x | None => 0 end in
  let b := Z.min (match en with Some x => as_usize x | None => len end) len in
  if (a <=? b) then (a, b) else (0, 0).
