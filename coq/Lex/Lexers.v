(** C12 — the five lexers as cursor programs (model; no proofs).
    Token classes: 0 Eof, 1 word (identifier / keyword / prefixed name), 2 integer, 3 float/double,
    4 string, 5 quoted identifier, 6 parameter / variable, 7 punctuation / operator, 8 error,
    9 IRI, 10 blank-node label, 11 long / block string, 12 decimal.
    Where the Rust code reads [let ch = self.advance(); match ch { ... }] (Cypher, Gremlin,
    GraphQL) the program tests the current character and then advances — the same cursor
    movement.  Line/column bookkeeping and the text -> keyword tables are not modelled. *)
From GV Require Export Lex.Cursor.
Open Scope Z_scope.

Definition K_EOF := 0.  Definition K_WORD := 1.  Definition K_INT := 2.  Definition K_FLOAT := 3.
Definition K_STR := 4.  Definition K_QID := 5.   Definition K_PARAM := 6. Definition K_PUNCT := 7.
Definition K_ERR := 8.  Definition K_IRI := 9.   Definition K_BNODE := 10. Definition K_LSTR := 11.
Definition K_DEC := 12.

Definition c_e := CAny [101; 69].        (* 'e' | 'E' *)
Definition c_sign := CAny [43; 45].      (* '+' | '-' *)

(** ** GQL  (gql/lexer.rs, after 3b24ccf) *)
Definition gql_ws : prog -> prog :=
  While (If TEnd Break (If (TCur CWs) (AdvU Continue) Break)).      (* position += ch.len_utf8() *)
Definition gql_digits (k : prog) : prog :=
  While (If TEnd Break (If (TCur CDigit) (AdvG Continue) Break)) k.
Definition gql_idrest (k : prog) : prog :=
  While (If TEnd Break (If (TCur CAlnumU) (AdvG Continue) Break)) k.
Definition gql_scan_string : prog :=
  SetCur 0 (AdvG (While
    (If TEnd Break
    (If (TCurReg 0) (AdvG (Ret K_STR))
    (If (TCur (CEq 92)) (AdvG (AdvG Continue))
    (AdvG Continue))))
    (Ret K_ERR))).
Definition gql_scan_qid : prog :=
  AdvG (While
    (If TEnd Break
    (If (TCur (CEq 96))
        (If (TPeek (CEq 96)) (AdvG (AdvG Continue)) (AdvG (Ret K_QID)))
        (AdvG Continue)))
    (Ret K_ERR)).
Definition gql_scan_number : prog :=
  gql_digits
    (If (TCur (CEq 46))
        (If (TPeek CDigit) (AdvG (gql_digits (Ret K_FLOAT))) (Ret K_INT))
        (Ret K_INT)).
Definition gql_scan_param : prog :=
  AdvG (If TEnd (Ret K_ERR) (If (TCur CAlphaU) (gql_idrest (Ret K_PARAM)) (Ret K_ERR))).
Definition gql_next : prog :=
  gql_ws (Mark
  (If TEnd RetEof
  (If (TCur (CAny [40; 41; 91; 93; 123; 125; 58; 44; 46; 43; 42; 47; 37; 61])) (AdvG (Ret K_PUNCT))
  (If (TCur (CEq 60)) (AdvG (If (TCur (CAny [62; 61; 45])) (AdvG (Ret K_PUNCT)) (Ret K_PUNCT)))
  (If (TCur (CEq 62)) (AdvG (If (TCur (CEq 61)) (AdvG (Ret K_PUNCT)) (Ret K_PUNCT)))
  (If (TCur (CEq 45)) (AdvG (If (TCur (CAny [62; 45])) (AdvG (Ret K_PUNCT)) (Ret K_PUNCT)))
  (If (TCur (CEq 124)) (AdvG (If (TCur (CEq 124)) (AdvG (Ret K_PUNCT)) (Ret K_ERR)))
  (If (TCur (CAny [39; 34])) gql_scan_string
  (If (TCur (CEq 96)) gql_scan_qid
  (If (TCur (CEq 36)) gql_scan_param
  (If (TCur CDigit) gql_scan_number
  (If (TCur CAlphaU) (gql_idrest (Ret K_WORD))
  (AdvG (Ret K_ERR)))))))))))))).

(** the lexer before 3b24ccf: every advance was [position += 1] (its [peek_char], which sliced at
    [position + 1], is not transcribed separately) *)
Fixpoint to_pre (p : prog) : prog :=
  match p with
  | AdvG k | AdvU k => AdvByte (to_pre k)
  | AdvByte k => AdvByte (to_pre k)
  | If t a b => If t (to_pre a) (to_pre b)
  | SetR r v k => SetR r v (to_pre k)
  | SetCur r k => SetCur r (to_pre k)
  | Incr r k => Incr r (to_pre k)
  | Mark k => Mark (to_pre k)
  | Reset k => Reset (to_pre k)
  | While b k => While (to_pre b) (to_pre k)
  | x => x
  end.
Definition gql_next_pre : prog := to_pre gql_next.

(** ** Cypher  (cypher/lexer.rs): [advance] has no end-of-input guard *)
Definition cy_digits (k : prog) : prog := While (If (TCur CDigit) (AdvU Continue) Break) k.
Definition cy_exp_tail : prog :=       (* after 'e': optional sign, digits, Float *)
  AdvU (If (TCur c_sign) (AdvU (cy_digits (Ret K_FLOAT))) (cy_digits (Ret K_FLOAT))).
Definition cy_skip : prog -> prog :=
  While
    (If (TCur (CAny [32; 9; 13])) (AdvU Continue)
    (If (TCur (CEq 10)) (AdvU Continue)
    (If (TCur (CEq 47))
        (If (TPeek (CEq 47))
            (While (If TEnd Break (If (TCur (CEq 10)) Break (AdvU Continue))) Continue)
        (If (TPeek (CEq 42))
            (AdvU (AdvU (While
               (If TEnd Break
               (If (TCur (CEq 42))
                   (If (TPeek (CEq 47)) (AdvU (AdvU Break)) (AdvU Continue))
                   (AdvU Continue)))
               Continue)))
            Break))
        Break))).
Definition cy_scan_string : prog :=
  SetCur 0 (AdvU (While
    (If TEnd Break
    (If (TCurReg 0) (AdvU (Ret K_STR))
    (If (TCur (CEq 92)) (AdvU (If TEnd Continue (AdvU Continue)))
    (AdvU Continue))))
    (Ret K_ERR))).
Definition cy_scan_qid : prog :=
  AdvU (While (If TEnd Break (If (TCur (CEq 96)) Break (AdvU Continue)))
       (If TEnd (Ret K_ERR) (AdvU (Ret K_QID)))).
Definition cy_scan_number : prog :=
  AdvU (cy_digits
    (If (TCur (CEq 46))
        (If (TPeek CDigit)
            (AdvU (cy_digits (If (TCur c_e) cy_exp_tail (Ret K_FLOAT))))
            (If (TCur c_e) cy_exp_tail (Ret K_INT)))
        (If (TCur c_e) cy_exp_tail (Ret K_INT)))).
Definition cy_two (second : cls) : prog :=
  AdvU (If (TCur second) (AdvU (Ret K_PUNCT)) (Ret K_PUNCT)).
Definition cypher_next : prog :=
  cy_skip (Mark
  (If TEnd (Ret K_EOF)
  (If (TCur (CAny [40; 41; 91; 93; 123; 125; 58; 59; 44; 124; 36; 94; 37; 42; 47])) (AdvU (Ret K_PUNCT))
  (If (TCur (CEq 46)) (cy_two (CEq 46))
  (If (TCur (CEq 43)) (cy_two (CEq 61))
  (If (TCur (CEq 61)) (cy_two (CEq 126))
  (If (TCur (CEq 60)) (cy_two (CAny [62; 61; 45]))
  (If (TCur (CEq 62)) (cy_two (CEq 61))
  (If (TCur (CEq 45)) (cy_two (CAny [62; 45]))
  (If (TCur (CAny [39; 34])) cy_scan_string
  (If (TCur (CEq 96)) cy_scan_qid
  (If (TCur CDigit) cy_scan_number
  (If (TCur CAlphaU) (AdvU (While (If (TCur CAlnumU) (AdvU Continue) Break) (Ret K_WORD)))
  (AdvU (Ret K_ERR))))))))))))))).

(** ** SPARQL  (sparql/lexer.rs) *)
Definition pn_start := COr CAlphaU CNonAscii.
Definition pn_char := COr CAlnumU (COr (CEq 45) CNonAscii).
Definition sp_skip : prog -> prog :=
  While
    (If TEnd Break
    (If (TCur CWs) (AdvU Continue)
    (If (TCur (CEq 35))
        (While (If TEnd Break (If (TCur (CEq 10)) Break (AdvU Continue))) Continue)
        Break))).
Definition sp_escape : prog := AdvG (If TEnd Continue (AdvG Continue)).
Definition sp_pn_local : prog :=
  While
    (If TEnd Break
    (If (TCur (COr pn_char (CAny [46; 45])))
        (If (TCur (CEq 46))
            (If (TPeek (COr CWs (CEq 0))) Break (AdvG Continue))
            (AdvG Continue))
        Break))
    (Ret K_WORD).
Definition sp_ident : prog :=
  While (If TEnd Break (If (TCur pn_char) (AdvG Continue) Break))
        (If (TCur (CEq 58)) (AdvG sp_pn_local) (Ret K_WORD)).
Definition sp_var_rest : prog :=
  While (If TEnd Break (If (TCur CAlnumU) (AdvG Continue) Break)) (Ret K_PARAM).
Definition sp_scan_iri : prog :=
  AdvG (While
    (If TEnd Break
    (If (TCur (CEq 62)) (AdvG (Ret K_IRI))
    (If (TCur (CEq 92)) sp_escape
    (If (TCur (CAnd CWs (CNot (CEq 32)))) (Ret K_ERR)
    (AdvG Continue)))))
    (Ret K_ERR)).
Definition sp_long_string : prog :=
  SetR 1 0 (While
    (If TEnd Break
    (If (TCurReg 0)
        (Incr 1 (AdvG (If (TRegGe 1 3) (Ret K_LSTR) Continue)))
        (SetR 1 0 (If (TCur (CEq 92)) sp_escape (AdvG Continue)))))
    (Ret K_ERR)).
Definition sp_short_string : prog :=
  While
    (If TEnd Break
    (If (TCurReg 0) (AdvG (Ret K_STR))
    (If (TCur (CEq 92)) sp_escape
    (If (TCur (CEq 10)) (Ret K_ERR)
    (AdvG Continue)))))
    (Ret K_ERR).
Definition sp_scan_string : prog :=
  SetCur 0 (AdvG
    (If (TCurReg 0)
        (If (TPeekReg 0) (AdvG (AdvG sp_long_string)) sp_short_string)
        sp_short_string)).
Definition sp_num_e : prog :=     (* the [else if (ch == 'e' || ch == 'E') && !has_exponent] arm and the final [else] *)
  If (TCur c_e)
     (If (TRegEq 2 0) (SetR 2 1 (AdvG (If (TCur c_sign) (AdvG Continue) Continue))) Break)
     Break.
Definition sp_scan_number : prog :=
  SetR 1 0 (SetR 2 0 (While
    (If TEnd Break
    (If (TCur CDigit) (AdvG Continue)
    (If (TCur (CEq 46))
        (If (TRegEq 1 0)
            (If (TRegEq 2 0)
                (If (TPeek CDigit) (SetR 1 1 (AdvG Continue)) Break)
                sp_num_e)
            sp_num_e)
        sp_num_e)))
    (If (TRegEq 2 1) (Ret K_FLOAT) (If (TRegEq 1 1) (Ret K_DEC) (Ret K_INT))))).
Definition sp_two (second : cls) (no : Z) : prog :=
  AdvG (If (TCur second) (AdvG (Ret K_PUNCT)) (Ret no)).
Definition sparql_next : prog :=
  sp_skip (Mark
  (If TEnd RetEof
  (If (TCur (CAny [40; 41; 93; 123; 125; 46; 44; 59; 43; 45; 42; 47; 61; 64])) (AdvG (Ret K_PUNCT))
  (If (TCur (CEq 91)) (sp_two (CEq 93) K_PUNCT)
  (If (TCur (CEq 58)) (AdvG (If (TCur pn_char) sp_pn_local (Ret K_PUNCT)))
  (If (TCur (CEq 33)) (sp_two (CEq 61) K_PUNCT)
  (If (TCur (CEq 60))
      (AdvG (If (TCur (CEq 61)) (AdvG (Ret K_PUNCT))
            (If TEnd (Ret K_PUNCT)                                  (* is_iri_start: remaining non-empty *)
            (If (TCur (CAny [32; 10; 61])) (Ret K_PUNCT)
            (Reset sp_scan_iri)))))                                 (* self.position = start; scan_iri() *)
  (If (TCur (CEq 62)) (sp_two (CEq 61) K_PUNCT)
  (If (TCur (CEq 38)) (sp_two (CEq 38) K_ERR)
  (If (TCur (CEq 124)) (sp_two (CEq 124) K_PUNCT)
  (If (TCur (CEq 94)) (sp_two (CEq 94) K_PUNCT)
  (If (TCur (CEq 63)) (AdvG (If (TCur CAlnumU) sp_var_rest (Ret K_PUNCT)))
  (If (TCur (CEq 36)) (AdvG sp_var_rest)
  (If (TCur (CEq 95))
      (If (TPeek (CEq 58))
          (AdvG (AdvG (While (If TEnd Break
                             (If (TCur (COr CAlnumU (CAny [45; 46]))) (AdvG Continue) Break))
                             (Ret K_BNODE))))
          sp_ident)
  (If (TCur (CAny [39; 34])) sp_scan_string
  (If (TCur CDigit) sp_scan_number
  (If (TCur pn_start) sp_ident
  (AdvG (Ret K_ERR))))))))))))))))))).

(** ** Gremlin  (gremlin/lexer.rs): [chars] iterator, [position] counts characters, no slicing *)
Definition it_number : prog :=      (* read_number of Gremlin and GraphQL; r1 = is_float, r2 = value contains 'e'/'E' *)
  SetR 1 0 (SetR 2 0 (While
    (If TEnd Break
    (If (TCur CDigit) (AdvG Continue)
    (If (TCur (CEq 46))
        (If (TRegEq 1 0) (SetR 1 1 (AdvG Continue)) Break)
    (If (TCur c_e)
        (If (TRegEq 2 0)
            (SetR 1 1 (SetR 2 1 (AdvG (If (TCur c_sign) (AdvG Continue) Continue))))
            Break)
        Break))))
    (If (TRegEq 1 1) (Ret K_FLOAT) (Ret K_INT)))).
Definition it_idrest : prog :=
  While (If TEnd Break (If (TCur (COr CFAlnum (CEq 95))) (AdvG Continue) Break)) (Ret K_WORD).
Definition gr_string : prog :=
  SetCur 0 (AdvG (While
    (If TEnd Break
    (If (TCur (CEq 92)) (AdvG (AdvG Continue))
    (If (TCurReg 0) (AdvG Break)
    (AdvG Continue))))
    (Ret K_STR))).
Definition gremlin_next : prog :=
  While (If TEnd Break (If (TCur CFWs) (AdvG Continue) Break))
  (Mark
  (If TEnd (Ret K_EOF)
  (If (TCur (CAny [46; 44; 40; 41; 91; 93])) (AdvG (Ret K_PUNCT))
  (If (TCur (CEq 95))
      (AdvG (If TEnd it_idrest (If (TCur (CNot CFAlnum)) (Ret K_PUNCT) it_idrest)))
  (If (TCur (CAny [34; 39])) gr_string
  (If (TCur CDigit) (AdvG it_number)
  (If (TCur (CEq 45)) (If (TPeek CDigit) (AdvG it_number) (AdvG (Ret K_EOF)))
  (If (TCur CFAlpha) (AdvG it_idrest)
  (AdvG (Ret K_EOF)))))))))).

(** ** GraphQL  (graphql/lexer.rs): as Gremlin, plus [peek_next] = 2nd char of
    [self.source[self.position..]] with [position] a CHARACTER count ([TSl]) *)
Definition gq_skip : prog -> prog :=
  While
    (If TEnd Break
    (If (TCur (COr CFWs (CEq 44))) (AdvG Continue)
    (If (TCur (CEq 35))
        (While (If TEnd Break (If (TCur (CAny [10; 13])) Break (AdvG Continue))) Continue)
    (If (TCur (CEq 65279)) (AdvG Continue)
    Break)))).
Definition gq_string : prog :=
  While
    (If TEnd Break
    (If (TCur (CEq 92))
        (AdvG (If TEnd Continue
              (If (TCur (CEq 117)) (AdvG (AdvG (AdvG (AdvG (AdvG Continue))))) (AdvG Continue))))
    (If (TCur (CEq 34)) (AdvG Break)
    (AdvG Continue))))
    (Ret K_STR).
Definition gq_block : prog :=
  While
    (If TEnd Break
    (If (TCur (CEq 34))
        (If (TSl 1 (CEq 34))
            (If (TSl 0 (CEq 34)) (If (TSl 1 (CEq 34)) (If (TSl 2 (CEq 34))
                (AdvG (AdvG (AdvG Break)))
                (AdvG Continue)) (AdvG Continue)) (AdvG Continue))
            (AdvG Continue))
    (If (TCur (CEq 92))
        (AdvG (If (TCur (CEq 34))
                  (If (TSl 1 (CEq 34)) (AdvG (AdvG (AdvG Continue))) Continue)
                  Continue))
    (AdvG Continue))))
    (Ret K_LSTR).
Definition graphql_next_pre : prog :=
  gq_skip (Mark
  (If TEnd (Ret K_EOF)
  (If (TCur (CAny [33; 36; 38; 40; 41; 58; 61; 64; 91; 93; 123; 125; 124])) (AdvG (Ret K_PUNCT))
  (If (TCur (CEq 46))
      (AdvG (If (TCur (CEq 46))
                (If (TSl 1 (CEq 46)) (AdvG (AdvG (Ret K_PUNCT))) (Ret K_EOF))
                (Ret K_EOF)))
  (If (TCur (CEq 34))
      (AdvG (If (TCur (CEq 34))
                (If (TSl 1 (CEq 34)) (AdvG (AdvG gq_block)) gq_string)
                gq_string))
  (If (TCur (COr CDigit (CEq 45))) (AdvG it_number)
  (If (TCur (COr CFAlpha (CEq 95))) (AdvG it_idrest)
  (AdvG (Ret K_EOF))))))))).

(** the GraphQL lexer as it is now (after 9a1aff1): [peek_next] and the closing-quote test look ahead on a
    clone of the character iterator ([TAh]) instead of slicing the source at a character count ([TSl]);
    [graphql_next_pre] above is the code before that repair *)
Fixpoint repair_sl (p : prog) : prog :=
  match p with
  | AdvG k => AdvG (repair_sl k)
  | AdvU k => AdvU (repair_sl k)
  | AdvByte k => AdvByte (repair_sl k)
  | If (TSl i c) a b => If (TAh i c) (repair_sl a) (repair_sl b)
  | If t a b => If t (repair_sl a) (repair_sl b)
  | SetR r v k => SetR r v (repair_sl k)
  | SetCur r k => SetCur r (repair_sl k)
  | Incr r k => Incr r (repair_sl k)
  | Mark k => Mark (repair_sl k)
  | Reset k => Reset (repair_sl k)
  | While b k => While (repair_sl b) (repair_sl k)
  | x => x
  end.
Definition graphql_next : prog := repair_sl graphql_next_pre.

Definition lex_gql := lex Byte gql_next.
Definition lex_gql_pre := lex Byte gql_next_pre.
Definition lex_cypher := lex Byte cypher_next.
Definition lex_sparql := lex Byte sparql_next.
Definition lex_gremlin := lex Iter gremlin_next.
Definition lex_graphql_pre := lex Iter graphql_next_pre.
Definition lex_graphql := lex Iter graphql_next.
