(** C12 — a static checker for cursor programs (definitions only; soundness is proved in
    ProofsCursor.v).  [chk d ascii p a kb kc = true] means: started in any concrete state
    described by the abstract state [a], program [p]
      - never slices the source off a character boundary (no [Crash]),
      - every loop iteration that continues has moved the cursor (so [S (length s)] fuel suffices),
      - every token other than Eof is non-empty in the sense that the cursor moved since the
        token iteration began,
    and its [Break]/[Continue] exits satisfy [kb]/[kc]. *)
From GV Require Export Lex.Cursor.
Open Scope Z_scope.

Record abs := mkabs {
  a_av : nat;               (* at least this many characters in front of the cursor *)
  a_kc : option cls;        (* a class the current character (['\0'] at the end) satisfies *)
  a_mv : list bool;         (* innermost iteration first, the token itself last: moved since it began *)
  a_atm : bool;             (* the cursor is still at the mark (no advance since [Mark]) *)
  a_rst : bool;             (* no loop was entered since [Mark] *)
  a_mav : nat;              (* knowledge about the text at the mark *)
  a_mkc : option cls
}.

Definition abs0 : abs := mkabs 0 None [false] false false 0 None.

Fixpoint cls_eqb (a b : cls) : bool :=
  match a, b with
  | CEq x, CEq y => x =? y
  | CAny l, CAny m => zlist_eqb l m
  | CDigit, CDigit | CAlphaU, CAlphaU | CAlnumU, CAlnumU | CAsciiAlpha, CAsciiAlpha
  | CWs, CWs | CNonAscii, CNonAscii | CFAlpha, CFAlpha | CFAlnum, CFAlnum | CFWs, CFWs => true
  | CNot x, CNot y => cls_eqb x y
  | COr x1 x2, COr y1 y2 => cls_eqb x1 y1 && cls_eqb x2 y2
  | CAnd x1 x2, CAnd y1 y2 => cls_eqb x1 y1 && cls_eqb x2 y2
  | _, _ => false
  end.

(** classes that do not look at the flags: decidable from the code point alone *)
Fixpoint flagfree (c : cls) : bool :=
  match c with
  | CFAlpha | CFAlnum | CFWs => false
  | CNot a => flagfree a
  | COr a b | CAnd a b => flagfree a && flagfree b
  | _ => true
  end.

(** a few implications between classes (each proved semantically in ProofsCursor.v) *)
Fixpoint impl1 (k c : cls) : bool :=
  cls_eqb k c ||
  match k, c with
  | CAlphaU, CAlnumU => true
  | CDigit, CAlnumU => true
  | CFAlpha, CFAlnum => true
  | _, COr x y => impl1 k x || impl1 k y
  | _, _ => false
  end.
Fixpoint impl_ok (k c : cls) : bool :=
  match k with
  | COr k1 k2 => impl_ok k1 c && impl_ok k2 c
  | _ => impl1 k c
  end.

Definition decide_cur (a : abs) (c : cls) : option bool :=
  match a_kc a with
  | Some (CEq v) => if flagfree c then Some (ceval c (v, 0)) else None
  | Some k => if impl_ok k c then Some true else None
  | None => None
  end.

Definition learn_av (a : abs) (n : nat) : abs :=
  mkabs (Nat.max (a_av a) n) (a_kc a) (a_mv a) (a_atm a) (a_rst a)
        (if a_atm a then Nat.max (a_mav a) n else a_mav a) (a_mkc a).
Definition stronger (old : option cls) (c : cls) : option cls :=
  match old with Some (CEq v) => Some (CEq v) | _ => Some c end.
Definition learn_kc (a : abs) (c : cls) : abs :=
  mkabs (a_av a) (stronger (a_kc a) c) (a_mv a) (a_atm a) (a_rst a) (a_mav a)
        (if a_atm a then stronger (a_mkc a) c else a_mkc a).
(** a positive test on the current character: it satisfies [c]; if ['\0'] does not, we are not at the end *)
Definition learn_cur (a : abs) (c : cls) : abs :=
  let a1 := learn_kc a c in if ceval c nul then a1 else learn_av a1 1.
Definition learn_peek (a : abs) (c : cls) : abs := if ceval c nul then a else learn_av a 2.

Definition alltrue (l : list bool) : list bool := map (fun _ => true) l.
Definition allfalse (l : list bool) : list bool := map (fun _ => false) l.
Definition after_adv (a : abs) : abs :=
  mkabs (Nat.pred (a_av a)) None (if (1 <=? a_av a)%nat then alltrue (a_mv a) else a_mv a)
        false (a_rst a) (a_mav a) (a_mkc a).
Definition forget (a : abs) : abs := mkabs 0 None (a_mv a) false false 0 None.
Definition push (b : bool) (a : abs) : abs :=
  mkabs (a_av a) (a_kc a) (b :: a_mv a) (a_atm a) false (a_mav a) (a_mkc a).
Definition pop (a : abs) : abs :=
  mkabs (a_av a) (a_kc a) (tl (a_mv a)) (a_atm a) (a_rst a) (a_mav a) (a_mkc a).
Definition top (a : abs) : bool := hd false (a_mv a).
Definition tokmoved (a : abs) : bool := last (a_mv a) false.
Definition with_mv (a : abs) (m : list bool) : abs :=
  mkabs (a_av a) (a_kc a) m (a_atm a) (a_rst a) (a_mav a) (a_mkc a).

Section Chk.
  Variable d : disc.
  Variable ascii : bool.     (* the source is known to be pure ASCII (only used for [TSl]) *)

  (** abstract effect of a test: [None] = the program is rejected; otherwise the abstract
      states of the two branches, [None] for a branch that cannot be taken *)
  Definition chk_test (t : test) (a : abs) : option (option abs * option abs) :=
    match t with
    | TEnd =>
        if (1 <=? a_av a)%nat then Some (None, Some a)
        else Some (Some a, Some (learn_av a 1))
    | TCur c =>
        match decide_cur a c with
        | Some true => Some (Some (learn_cur a c), None)
        | Some false => Some (None, Some a)
        | None => Some (Some (learn_cur a c), Some a)
        end
    | TPeek c => Some (Some (learn_peek a c), Some a)
    | TCurReg _ | TPeekReg _ | TRegEq _ _ | TRegGe _ _ => Some (Some a, Some a)
    | TSl _ _ => match d with Iter => if ascii then Some (Some a, Some a) else None | Byte => Some (Some a, Some a) end
    | TAh _ _ => Some (Some a, Some a)
    end.

  Fixpoint chk (p : prog) (a : abs) (kb kc : abs -> bool) {struct p} : bool :=
    match p with
    | Ret k => (k =? 0) || tokmoved a
    | RetEof => true
    | AdvG k => chk k (after_adv a) kb kc
    | AdvU k =>
        match d with
        | Byte => (1 <=? a_av a)%nat && chk k (after_adv a) kb kc
        | Iter => false
        end
    | AdvByte _ => false
    | If t x y =>
        match chk_test t a with
        | None => false
        | Some (ox, oy) =>
            match ox with Some ax => chk x ax kb kc | None => true end
            && match oy with Some ay => chk y ay kb kc | None => true end
        end
    | SetR _ _ k | SetCur _ k | Incr _ k => chk k a kb kc
    | Mark k => chk k (mkabs (a_av a) (a_kc a) (a_mv a) true true (a_av a) (a_kc a)) kb kc
    | Reset k =>
        match d with
        | Byte => a_rst a && chk k (mkabs (a_mav a) (a_mkc a) (allfalse (a_mv a)) true true (a_mav a) (a_mkc a)) kb kc
        | Iter => false
        end
    | While body k =>
        let after := fun a' => chk k (pop a') kb kc in
        let later := chk body (push false (with_mv (forget a) (alltrue (a_mv a)))) after top in
        chk body (push false a) after (fun a' => top a' && later)
    | Continue => kc a
    | Break => kb a
    end.
End Chk.

Definition no_exit (_ : abs) : bool := false.
(** a token program is accepted *)
Definition accepts (d : disc) (ascii : bool) (p : prog) : bool := chk d ascii p abs0 no_exit no_exit.
