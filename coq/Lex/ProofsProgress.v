(** C12 — loop progress and recursion depth (proofs). *)
From GV Require Import Lex.Progress.
From Coq Require Import Lia List Bool Arith String.
Import ListNotations.
Open Scope Z_scope.

Lemma in_upto : forall n k, 0 <= k < Z.of_nat n -> In k (upto n).
Proof.
  induction n as [|n IH]; intros k H; [lia|]. cbn [upto]. apply in_or_app.
  destruct (Z.eq_dec k (Z.of_nat n)) as [->|Hne]; [right; left; reflexivity|left; apply IH; lia].
Qed.

Lemma step_ok_of : forall n l k, loop_ok n l = true -> 0 <= k < Z.of_nat n -> step_ok l k = true.
Proof. intros n l k H Hk. unfold loop_ok in H. rewrite forallb_forall in H. apply H. apply in_upto. assumption. Qed.

Lemma skipn_length_le : forall {A} n (l : list A), (List.length (skipn n l) <= List.length l)%nat.
Proof. intros A n l. rewrite skipn_length. lia. Qed.
Lemma Forall_skipn : forall {A} (P : A -> Prop) n l, Forall P l -> Forall P (skipn n l).
Proof.
  intros A P n. induction n as [|n IH]; intros l H; [exact H|]. destruct l; [constructor|].
  cbn [skipn]. apply IH. inversion H; assumption.
Qed.

(** a loop that passes the check never runs out of fuel: every iteration that continues has
    consumed a token *)
Lemma loops_progress_l : forall n l more, (1 <= n)%nat -> loop_ok n l = true ->
  forall fuel ts, Forall (fun k => 1 <= k < Z.of_nat n) ts -> (List.length ts < fuel)%nat ->
  run_loop fuel l more ts <> LNoFuel.
Proof.
  intros n l more Hn Hok. induction fuel as [|f IH]; intros ts Hts Hlen; [lia|].
  cbn [run_loop].
  assert (Hk : 0 <= hd EOF ts < Z.of_nat n).
  { destruct ts as [|k r]; cbn [hd]; [unfold EOF; lia|]. inversion Hts; subst. lia. }
  pose proof (step_ok_of n l _ Hok Hk) as Hs. unfold step_ok in Hs.
  destruct (enters (l_guard l) (hd EOF ts)) eqn:Een; [|discriminate]. cbn [negb orb] in Hs.
  assert (Hcons : hd EOF ts <> EOF ->
    match more (tl ts) with None => LErr | Some m => run_loop f l more (skipn m (tl ts)) end <> LNoFuel).
  { intro Hne. destruct (more (tl ts)) as [m|]; [|discriminate].
    destruct ts as [|k r]; [cbn [hd] in Hne; contradiction|]. cbn [tl]. apply IH.
    - apply Forall_skipn. inversion Hts; assumption.
    - pose proof (skipn_length_le m r). cbn [List.length] in Hlen. lia. }
  destruct (first_of l (hd EOF ts)) as [|ks| |].
  - apply Hcons. apply negb_true_iff in Hs. apply Z.eqb_neq in Hs. assumption.
  - destruct (mem (hd EOF ts) ks); [|discriminate]. cbn [negb orb] in Hs.
    apply Hcons. apply negb_true_iff in Hs. apply Z.eqb_neq in Hs. assumption.
  - discriminate.
  - discriminate.
Qed.

Lemma tables_ok_l :
  forallb (loop_ok Gql.N) Gql.loops = true /\
  forallb (loop_ok Cypher.N) Cypher.loops = true /\
  forallb (loop_ok Gremlin.N) Gremlin.loops = true /\
  forallb (loop_ok Graphql.N) Graphql.loops = true /\
  forallb (loop_ok Sparql.N) Sparql.other_loops = true.
Proof. vm_compute. repeat split; reflexivity. Qed.

(** the SPARQL group-graph-pattern loops stall on any token that cannot start a pattern element *)
Lemma sparql_group_stalls_l : forall nm fuel more,
  run_loop fuel (Sparql.group_loop_pre nm) more [Sparql.OTHER] = LNoFuel.
Proof. intros nm fuel more. induction fuel as [|f IH]; [reflexivity|]. cbn. exact IH. Qed.

Lemma sparql_group_not_ok_l : forall nm, loop_ok Sparql.N (Sparql.group_loop_pre nm) = false.
Proof. intro nm. reflexivity. Qed.

(** without the stalling kind the same loops do progress *)
Lemma sparql_group_progress_l : forall nm more fuel ts,
  Forall (fun k => 1 <= k < 5) ts -> (List.length ts < fuel)%nat ->
  run_loop fuel (Sparql.group_loop_pre nm) more ts <> LNoFuel.
Proof.
  intros nm more. induction fuel as [|f IH]; intros ts Hts Hlen; [lia|].
  destruct ts as [|k r].
  - cbn. discriminate.
  - inversion Hts as [|k' r' Hk Hr]; subst. cbn [run_loop hd tl].
    assert (Hc : k = 1 \/ k = 2 \/ k = 3 \/ k = 4) by lia.
    destruct Hc as [Hc|[Hc|[Hc|Hc]]]; subst k; cbn; try discriminate;
      (destruct (more r) as [m|]; [|discriminate]; apply IH;
       [apply Forall_skipn; assumption|pose proof (skipn_length_le m r); cbn [List.length] in Hlen; unfold kind in *; lia]).
Qed.

(** ** recursion depth *)
Lemma repeat_snoc : forall {A} (x : A) n r, repeat x (S n) ++ r = repeat x n ++ x :: r.
Proof.
  intros A x n r. induction n as [|n IH]; [reflexivity|].
  change (repeat x (S (S n))) with (x :: repeat x (S n)). cbn [app]. rewrite IH. reflexivity.
Qed.

Lemma descend_nested : forall n fuel d rest, (n < fuel)%nat ->
  descend fuel None d (repeat BOpen n ++ BAtom :: repeat BClose n ++ rest) = Some ((d + n)%nat, rest).
Proof.
  induction n as [|n IH]; intros fuel d rest Hf.
  - destruct fuel; [lia|]. cbn. f_equal. f_equal. lia.
  - destruct fuel as [|f]; [lia|]. cbn [repeat app descend].
    change (BClose :: repeat BClose n ++ rest) with (repeat BClose (S n) ++ rest).
    rewrite repeat_snoc. rewrite IH by lia. f_equal. f_equal. lia.
Qed.

Lemma rec_depth_nested_l : forall n, rec_depth (nested n) = Some n.
Proof.
  intro n. unfold rec_depth, nested.
  replace (repeat BOpen n ++ [BAtom] ++ repeat BClose n)
    with (repeat BOpen n ++ BAtom :: repeat BClose n ++ []) by (rewrite app_nil_r; reflexivity).
  rewrite descend_nested; [reflexivity|].
  rewrite app_length. cbn [List.length]. rewrite app_length, !repeat_length. cbn. lia.
Qed.

Lemma depth_limited_l : forall L fuel d ts m r,
  descend fuel (Some L) d ts = Some (m, r) -> (d <= L)%nat -> (m <= L)%nat.
Proof.
  intros L. induction fuel as [|f IH]; intros d ts m r H Hd; [discriminate|].
  cbn [descend] in H. destruct ts as [|[| |] t]; try discriminate.
  - destruct (L <=? d)%nat eqn:E; [discriminate|]. apply Nat.leb_gt in E.
    destruct (descend f (Some L) (S d) t) as [[m' [|[| |] r']]|] eqn:Ed; try discriminate.
    inversion H; subst. eapply IH; [eassumption|lia].
  - inversion H; subst. assumption.
Qed.
