(** C12 — token VALUES whose computation can panic (model; no proofs in this file).

    graphql/lexer.rs [read_block_string] accumulates the characters of a block string and hands
    them to [dedent_block_string], which computes the common indentation of the lines as a BYTE
    count ([line.len() - line.trim_start().len()], Unicode whitespace) and then slices every other
    line at that byte offset ([&line[indent..]] when [line.len() > indent]).  When the offset falls
    inside a multi-byte character of another line the slice panics.  Both functions are
    transcribed here; the value is compared with the real token's value on every run. *)
From GV Require Export Lex.Cursor Lex.Lexers.
Open Scope Z_scope.

(** [peek_next]: the 2nd character of [source[position..]], [position] being a CHARACTER count *)
Definition gq_peek_next (s : src) (p : Z) : out (option chr) :=
  match str_from s p with Ok l => Done (nth_error l 1) | Panic => Crash end.
(** [chars_copy]: the next three characters of [source[position..]] are all double quotes *)
Definition gq_copy3 (s : src) (p : Z) : out bool :=
  match str_from s p with
  | Ok (a :: b :: c :: _) => Done ((cp a =? 34) && (cp b =? 34) && (cp c =? 34))
  | Ok _ => Done false
  | Panic => Crash
  end.
Definition is_q (o : option chr) : bool := match o with Some c => cp c =? 34 | None => false end.
Definition quote : chr := (34, 0).

(** [read_block_string]: [p] = character count, [i] = what the [chars] iterator still holds;
    every iteration consumes at least one character, so [S (length i)] fuel suffices *)
Fixpoint read_block_pre (fuel : nat) (s : src) (p : Z) (i : src) (acc : src) : out src :=
  match fuel with
  | O => NoFuel
  | S f =>
      match i with
      | [] => Done (rev acc)                                   (* None => break *)
      | c :: r =>
          if cp c =? 34 then
            pn <- gq_peek_next s p ;;
            if is_q pn then
              c3 <- gq_copy3 s p ;;
              if c3 then Done (rev acc)                        (* three advances, break *)
              else read_block_pre f s (p + 1) r (c :: acc)
            else read_block_pre f s (p + 1) r (c :: acc)
          else if cp c =? 92 then
            (* advance(); if peek() and peek_next() are both a double quote: push three of them, advance x 3; else push the backslash *)
            match r with
            | q :: _ =>
                if cp q =? 34 then
                  pn <- gq_peek_next s (p + 1) ;;
                  if is_q pn
                  then read_block_pre f s (p + 1 + Z.of_nat (List.length (firstn 3 r))) (skipn 3 r) (quote :: quote :: quote :: acc)
                  else read_block_pre f s (p + 1) r (c :: acc)
                else read_block_pre f s (p + 1) r (c :: acc)
            | [] => read_block_pre f s (p + 1) r (c :: acc)
            end
          else read_block_pre f s (p + 1) r (c :: acc)
      end
  end.

(** [str::lines]: split at '\n'; a '\r' directly before the '\n' is removed; no final empty line *)
Definition strip_cr (rcur : src) : src :=
  match rcur with
  | c :: t => if cp c =? 13 then rev t else rev rcur
  | [] => []
  end.
Fixpoint split_lines (l : src) (rcur : src) : list src :=
  match l with
  | [] => match rcur with [] => [] | _ => [rev rcur] end
  | c :: r => if cp c =? 10 then strip_cr rcur :: split_lines r [] else split_lines r (c :: rcur)
  end.

Definition is_wsf (c : chr) : bool := Z.testbit (fl c) 2.          (* char::is_whitespace *)
Fixpoint take_ws (l : src) : src :=
  match l with c :: r => if is_wsf c then c :: take_ws r else [] | [] => [] end.
Definition indent_of (l : src) : Z := blen (take_ws l).             (* line.len() - line.trim_start().len() *)
Definition blank (l : src) : bool := forallb is_wsf l.              (* line.trim().is_empty() *)
Definition common_indent (ls : list src) : option Z :=
  fold_left (fun acc l =>
    if blank l then acc
    else Some (match acc with Some ci => Z.min ci (indent_of l) | None => indent_of l end)) ls None.

Definition newline : chr := (10, 4).
Fixpoint dedent_rest_pre (ci : option Z) (ls : list src) : out src :=
  match ls with
  | [] => Done []
  | l :: r =>
      x <- match ci with
           | Some n =>
               if n <? blen l
               then match str_from l n with Ok t => Done t | Panic => Crash end      (* &line[indent..] *)
               else Done []
           | None => Done l
           end ;;
      y <- dedent_rest_pre ci r ;;
      Done (newline :: x ++ y)
  end.
Fixpoint drop_nl (l : src) : src :=
  match l with c :: r => if cp c =? 10 then drop_nl r else l | [] => [] end.
Definition trim_nl (l : src) : src := rev (drop_nl (rev (drop_nl l))).      (* trim_matches('\n') *)

Definition dedent_pre (v : src) : out src :=
  match split_lines v [] with
  | [] => Done []
  | first :: rest =>
      y <- dedent_rest_pre (common_indent rest) rest ;;
      Done (trim_nl (first ++ y))
  end.

(** the values of the block-string tokens (class 11) of a token list, in order; token spans of
    the GraphQL lexer are character counts, the content starts after the opening three quotes *)
Fixpoint block_values_pre (s : src) (ts : list (Z * Z * Z)) : out (list (list Z)) :=
  match ts with
  | [] => Done []
  | t :: r =>
      if fst (fst t) =? K_LSTR then
        let p := snd (fst t) + 3 in
        let i := skipn (Z.to_nat p) s in
        v <- read_block_pre (S (List.length i)) s p i [] ;;
        d <- dedent_pre v ;;
        vs <- block_values_pre s r ;;
        Done (map cp d :: vs)
      else block_values_pre s r
  end.

(** ** the code as it is now (after 9a1aff1): [peek_next] and the closing-quote test look ahead on a clone
    of the character iterator; [dedent_block_string] uses [line.get(indent..)] and, where the offset is not
    a character boundary, removes the line's own leading white space ([trim_start]) *)
Definition q3 (i : src) : bool :=
  match i with a :: b :: c :: _ => (cp a =? 34) && (cp b =? 34) && (cp c =? 34) | _ => false end.
Fixpoint read_block (fuel : nat) (i : src) (acc : src) : out src :=
  match fuel with
  | O => NoFuel
  | S f =>
      match i with
      | [] => Done (rev acc)
      | c :: r =>
          if cp c =? 34 then
            if is_q (nth_error i 1) then
              if q3 i then Done (rev acc) else read_block f r (c :: acc)
            else read_block f r (c :: acc)
          else if cp c =? 92 then
            match r with
            | q :: _ =>
                if (cp q =? 34) && is_q (nth_error r 1)
                then read_block f (skipn 3 r) (quote :: quote :: quote :: acc)
                else read_block f r (c :: acc)
            | [] => read_block f r (c :: acc)
            end
          else read_block f r (c :: acc)
      end
  end.
Fixpoint drop_ws (l : src) : src :=
  match l with c :: r => if is_wsf c then drop_ws r else l | [] => [] end.      (* trim_start *)
Fixpoint dedent_rest (ci : option Z) (ls : list src) : src :=
  match ls with
  | [] => []
  | l :: r =>
      let x := match ci with
               | Some n =>
                   if n <? blen l
                   then match str_from l n with Ok t => t | Panic => drop_ws l end      (* line.get(indent..) *)
                   else []
               | None => l
               end in
      newline :: x ++ dedent_rest ci r
  end.
Definition dedent (v : src) : src :=
  match split_lines v [] with
  | [] => []
  | first :: rest => trim_nl (first ++ dedent_rest (common_indent rest) rest)
  end.
Fixpoint block_values (s : src) (ts : list (Z * Z * Z)) : out (list (list Z)) :=
  match ts with
  | [] => Done []
  | t :: r =>
      if fst (fst t) =? K_LSTR then
        let i := skipn (Z.to_nat (snd (fst t) + 3)) s in
        v <- read_block (S (List.length i)) i [] ;;
        vs <- block_values s r ;;
        Done (map cp (dedent v) :: vs)
      else block_values s r
  end.
Definition lex_graphql_full (s : src) : out (list (Z * Z * Z) * list (list Z)) :=
  ts <- lex_graphql s ;;
  vs <- block_values s ts ;;
  Done (ts, vs).

(** the GraphQL lexer before 9a1aff1, including the computation of block-string values *)
Definition lex_graphql_full_pre (s : src) : out (list (Z * Z * Z) * list (list Z)) :=
  ts <- lex_graphql_pre s ;;
  vs <- block_values_pre s ts ;;
  Done (ts, vs).
