(** C12 — arithmetic totality and index arithmetic (proofs). *)
From GV Require Import Lex.Arith Base.BitsFacts.
From Coq Require Import Lia ZArith List.
Import ListNotations.
Open Scope Z_scope.

Lemma arith_never_panics_l : forall op a b, arith op a b <> APanic.
Proof. intros op a b. unfold arith. destruct op; try discriminate. destruct (b =? 0); discriminate. Qed.

Lemma neg_never_panics_l : forall a, neg a <> APanic.
Proof. intro a. unfold neg. discriminate. Qed.

Lemma eval_never_panics_l : forall e, eval e <> APanic.
Proof.
  unfold eval. induction e as [v|op l IHl r IHr|x IHx]; cbn [eval_with].
  - discriminate.
  - destruct (eval_with arith neg l) as [[a|]|]; [|discriminate|contradiction].
    destruct (eval_with arith neg r) as [[b|]|]; [|discriminate|contradiction].
    apply arith_never_panics_l.
  - destruct (eval_with arith neg x) as [[a|]|]; [|discriminate|contradiction].
    apply neg_never_panics_l.
Qed.

(** the repair turns exactly the panics of the checked build into "no value" and changes nothing else *)
Lemma arith_repair_exact_l : forall op a b,
  arith op a b = match arith_pre Checked op a b with APanic => AVal None | r => r end.
Proof.
  intros op a b. unfold arith, arith_pre, plain, checked.
  destruct op; cbn [math];
    repeat match goal with |- context [if ?c then _ else _] => destruct c end; reflexivity.
Qed.
Lemma neg_repair_exact_l : forall a,
  neg a = match neg_pre Checked a with APanic => AVal None | r => r end.
Proof. intro a. unfold neg, neg_pre. destruct (a =? i64_min); reflexivity. Qed.

Lemma quot_range : forall a b, in_i64 a -> in_i64 b -> b <> 0 -> ~ (a = i64_min /\ b = -1) ->
  in_i64 (Z.quot a b).
Proof.
  unfold in_i64, i64_min, two63. intros a b Ha Hb Hb0 Hmin.
  pose proof (Z.quot_rem' a b) as Hq.
  assert (Hr : Z.abs (Z.rem a b) < Z.abs b) by (apply Z.rem_bound_abs; assumption).
  assert (Hs : 0 <= Z.rem a b * a) by (apply Z.rem_sign_mul; assumption).
  nia.
Qed.
Lemma rem_range : forall a b, in_i64 a -> in_i64 b -> b <> 0 -> in_i64 (Z.rem a b).
Proof.
  unfold in_i64, two63. intros a b Ha Hb Hb0.
  assert (Hr : Z.abs (Z.rem a b) < Z.abs b) by (apply Z.rem_bound_abs; assumption). lia.
Qed.

Lemma arith_value_l : forall op a b v, in_i64 a -> in_i64 b -> arith op a b = AVal (Some v) ->
  v = math op a b /\ in_i64 v.
Proof.
  intros op a b v Ha Hb H. unfold arith, checked in H.
  assert (Hin : forall r, in_i64b r = true -> in_i64 r).
  { intros r Hr. unfold in_i64b in Hr. apply andb_prop in Hr as [H1 H2].
    apply Z.leb_le in H1. apply Z.ltb_lt in H2. unfold in_i64. lia. }
  destruct op; cbn [math] in *.
  1-3: destruct (in_i64b _) eqn:E; inversion H; subst; split; [reflexivity|apply Hin; assumption].
  - destruct (b =? 0) eqn:E0; [discriminate|]. destruct ((a =? i64_min) && (b =? -1)) eqn:E1; [discriminate|].
    inversion H; subst. split; [reflexivity|]. apply Z.eqb_neq in E0. apply quot_range; auto.
    intros [Ea Eb]. subst. rewrite !Z.eqb_refl in E1. discriminate.
  - destruct (b =? 0) eqn:E0; [discriminate|]. destruct ((a =? i64_min) && (b =? -1)) eqn:E1; [discriminate|].
    inversion H; subst. split; [reflexivity|]. apply Z.eqb_neq in E0. apply rem_range; auto.
Qed.

Lemma arith_pre_refuted_l :
  arith_pre Checked OAdd i64_max 1 = APanic /\
  (forall m, arith_pre m ODiv 7 0 = APanic) /\
  (forall m, arith_pre m ODiv i64_min (-1) = APanic) /\
  (forall m, arith_pre m OMod i64_min (-1) = APanic) /\
  neg_pre Checked i64_min = APanic.
Proof. repeat split; try (intro m; destruct m); reflexivity. Qed.

Lemma eval_pre_refuted_l : exists e, eval_pre Checked e = APanic /\ eval e = AVal None.
Proof. exists (EBin OAdd (ELit (Some i64_max)) (ELit (Some 1))). split; reflexivity. Qed.

(** ** index arithmetic *)
Lemma wrap_small : forall z, 0 <= z < two64 -> wrap64 z = z.
Proof. intros z H. unfold wrap64. apply Z.mod_small. assumption. Qed.
Lemma wrap_neg : forall z, - two64 <= z < 0 -> wrap64 z = z + two64.
Proof.
  intros z H. unfold wrap64. replace z with (z + two64 + (-1) * two64) at 1 by lia.
  rewrite Z.mod_add by (unfold two64; lia). apply Z.mod_small. lia.
Qed.

Lemma index_sum_ok : forall m len i, 0 <= len < two63 -> in_i64 i -> i < 0 ->
  exists r, add_i64 m len i = Ok r /\ (m = Checked -> r = len + i).
Proof.
  intros m len i Hl Hi Hneg. unfold add_i64, in_i64 in *. destruct m.
  - assert (E : in_i64b (len + i) = true).
    { unfold in_i64b. apply andb_true_intro. split; [apply Z.leb_le|apply Z.ltb_lt]; lia. }
    rewrite E. eauto.
  - eexists. split; [reflexivity|discriminate].
Qed.

Lemma list_index_never_panics_l : forall m len i, 0 <= len < two63 -> in_i64 i -> list_index m len i <> Panic.
Proof.
  intros m len i Hl Hi. unfold list_index. destruct (i <? 0) eqn:E.
  - apply Z.ltb_lt in E. destruct (index_sum_ok m len i Hl Hi E) as (r & Hr & _). rewrite Hr. cbn. discriminate.
  - cbn. discriminate.
Qed.
Lemma str_index_never_panics_l : forall m bl cl i, 0 <= bl < two63 -> in_i64 i -> str_index m bl cl i <> Panic.
Proof.
  intros m bl cl i Hl Hi. unfold str_index. destruct (i <? 0) eqn:E.
  - apply Z.ltb_lt in E. destruct (index_sum_ok m bl i Hl Hi E) as (r & Hr & _). rewrite Hr. cbn. discriminate.
  - cbn. discriminate.
Qed.

Lemma sint_small : forall z, - two63 <= z < two63 -> sint64 z = z.
Proof.
  intros z H. unfold sint64. destruct (Z_lt_dec z 0).
  - rewrite wrap_neg by (unfold two63, two64 in *; lia).
    destruct (z + two64 <? two63) eqn:E; [apply Z.ltb_lt in E; unfold two63, two64 in *; lia|lia].
  - rewrite wrap_small by (unfold two63, two64 in *; lia).
    destruct (z <? two63) eqn:E; [reflexivity|apply Z.ltb_ge in E; lia].
Qed.

Lemma list_index_in_bounds_l : forall m len i k, 0 <= len < two63 -> in_i64 i ->
  list_index m len i = Ok (Some k) ->
  0 <= k < len /\ (0 <= i -> k = i) /\ (i < 0 -> k = len + i).
Proof.
  intros m len i k Hl Hi H. unfold list_index in H. unfold in_i64 in Hi.
  destruct (i <? 0) eqn:E.
  - apply Z.ltb_lt in E.
    assert (Hsum : add_i64 m len i = Ok (len + i)).
    { unfold add_i64. destruct m.
      - assert (E2 : in_i64b (len + i) = true).
        { unfold in_i64b. apply andb_true_intro. split; [apply Z.leb_le|apply Z.ltb_lt]; lia. }
        rewrite E2. reflexivity.
      - rewrite sint_small by lia. reflexivity. }
    rewrite Hsum in H. cbn [rmap rbind] in H. unfold as_usize in H.
    destruct (Z_lt_dec (len + i) 0).
    + rewrite wrap_neg in H by (unfold two63, two64 in *; lia).
      destruct (len + i + two64 <? len) eqn:E3; [apply Z.ltb_lt in E3; unfold two63, two64 in *; lia|discriminate].
    + rewrite wrap_small in H by (unfold two63, two64 in *; lia).
      destruct (len + i <? len) eqn:E3; inversion H; subst. apply Z.ltb_lt in E3. lia.
  - apply Z.ltb_ge in E. cbn [rbind] in H. unfold as_usize in H.
    rewrite wrap_small in H by (unfold two63, two64 in *; lia).
    destruct (i <? len) eqn:E3; inversion H; subst. apply Z.ltb_lt in E3. lia.
Qed.

Lemma slice_range_in_bounds_l : forall len st en, 0 <= len ->
  0 <= fst (slice_range len st en) <= snd (slice_range len st en) /\ snd (slice_range len st en) <= len.
Proof.
  intros len st en Hl. unfold slice_range.
  assert (Hw : forall x, 0 <= as_usize x).
  { intro x. unfold as_usize, wrap64. apply Z.mod_pos_bound. unfold two64. lia. }
  set (a := match st with Some x => as_usize x | None => 0 end).
  set (b := Z.min (match en with Some x => as_usize x | None => len end) len).
  assert (Ha : 0 <= a) by (unfold a; destruct st; [apply Hw|lia]).
  assert (Hb : b <= len) by (unfold b; lia).
  destruct (a <=? b) eqn:E; cbn [fst snd]; [apply Z.leb_le in E; lia|lia].
Qed.

(** ** the integer SUM aggregate *)
Lemma in_i64b_true : forall r, in_i64 r -> in_i64b r = true.
Proof. intros r H. apply in_i64b_spec. exact H. Qed.
Lemma sum_int_refuted_l : sum_int_pre Checked 0 [i64_max; 1] = Panic /\ sum_int_pre Checked 0 [i64_max; i64_max] = Panic /\
  sum_int_pre Checked 0 [i64_min; -1] = Panic /\ sum_int_pre Checked 0 [i64_max; 1; -5] = Panic.
Proof. repeat split. Qed.
Lemma sum_int_wrapping_total_l : forall vs acc, sum_int_pre Wrapping acc vs <> Panic.
Proof. induction vs as [|v r IH]; intro acc; cbn [sum_int_pre add_i64 rbind]; [discriminate|apply IH]. Qed.
Lemma sum_int_exact_l : forall m vs acc, prefixes_fit acc vs -> sum_int_pre m acc vs = Ok (acc + zsum vs).
Proof.
  intros m vs. induction vs as [|v r IH]; intros acc H; cbn [sum_int_pre zsum].
  - f_equal. lia.
  - destruct H as [Hv Hr]. unfold add_i64. destruct m.
    + rewrite (in_i64b_true _ Hv). cbn [rbind]. rewrite IH by assumption. f_equal. lia.
    + rewrite (sint64_small _ Hv). cbn [rbind]. rewrite IH by assumption. f_equal. lia.
Qed.
(** in the checked build the sum panics exactly when some partial sum does not fit *)
Lemma sum_int_checked_panics_iff_l : forall vs acc, sum_int_pre Checked acc vs = Panic <-> ~ prefixes_fit acc vs.
Proof.
  induction vs as [|v r IH]; intro acc; cbn [sum_int_pre prefixes_fit add_i64 rbind].
  - split; [discriminate|tauto].
  - destruct (in_i64b (acc + v)) eqn:E; cbn [rbind].
    + rewrite IH. assert (in_i64 (acc + v)).
      { unfold in_i64b in E. apply andb_prop in E as [H1 H2]. apply Z.leb_le in H1. apply Z.ltb_lt in H2. split; assumption. }
      tauto.
    + split; [|reflexivity]. intros _ [H _]. rewrite (in_i64b_true _ H) in E. discriminate.
Qed.

(** the repaired aggregate: an integer total exactly when every partial sum fits, otherwise a float *)
Lemma sum_repair_exact_l : forall vs acc,
  sum_int acc vs = match sum_int_pre Checked acc vs with Ok t => Some t | Panic => None end.
Proof.
  induction vs as [|v r IH]; intro acc; cbn [sum_int sum_int_pre add_i64 rbind]; [reflexivity|].
  destruct (in_i64b (acc + v)); cbn [rbind]; [apply IH|reflexivity].
Qed.
Lemma sum_int_exact_cur_l : forall vs acc, prefixes_fit acc vs -> sum_int acc vs = Some (acc + zsum vs).
Proof. intros vs acc H. rewrite sum_repair_exact_l, (sum_int_exact_l Checked vs acc H). reflexivity. Qed.
Lemma sum_int_float_iff_l : forall vs acc, sum_int acc vs = None <-> ~ prefixes_fit acc vs.
Proof.
  intros vs acc. rewrite sum_repair_exact_l, <- sum_int_checked_panics_iff_l.
  destruct (sum_int_pre Checked acc vs); split; intro H; try discriminate; reflexivity.
Qed.
