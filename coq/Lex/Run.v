(** C12 — comparison of implementation observations with the models (run by the check). *)
From GV Require Export Lex.Cursor Lex.Check Lex.Lexers Lex.Values.
Open Scope Z_scope.

(** *** lexers: token classes and spans, or a panic *)
Inductive lobs := LexOk (ts : list (Z * Z * Z)) | LexPanic | LexStuck.

Definition tok_eqb (a b : Z * Z * Z) : bool :=
  (fst (fst a) =? fst (fst b)) && (snd (fst a) =? snd (fst b)) && (snd a =? snd b).

Definition lex_of (lang : Z) (s : src) : out (list (Z * Z * Z)) :=
  if lang =? 0 then lex_gql s else if lang =? 1 then lex_cypher s else if lang =? 2 then lex_sparql s
  else if lang =? 3 then lex_gremlin s
  else if lang =? 4 then (r <- lex_graphql_full s ;; Done (fst r))      (* tokenize() also computes the block-string values *)
  else lex_gql_pre s.

Definition chk_lex (lang : Z) (s : src) (o : lobs) : bool :=
  match lex_of lang s, o with
  | Done ts, LexOk ts' => list_eqb tok_eqb ts ts'
  | Crash, LexPanic => true
  | NoFuel, LexStuck => true
  | _, _ => false
  end.

(** the values of the GraphQL block-string tokens (code points), [None] = the lexer panicked *)
Definition chk_gq_values (s : src) (o : option (list (list Z))) : bool :=
  match lex_graphql_full s, o with
  | Done (_, vs), Some ws => list_eqb zlist_eqb vs ws
  | Crash, None => true
  | _, _ => false
  end.

(** on ASCII text the repair 9a1aff1 of the GraphQL lexer changed nothing: the old and the new program agree *)
Definition chk_repair_agrees (s : src) : bool :=
  negb (forallb (fun c => width (cp c) =? 1) s) ||
  match lex_graphql_pre s, lex_graphql s with
  | Done ts, Done ts' => list_eqb tok_eqb ts ts'
  | _, _ => false
  end.

(** the whitespace table of the model against Rust's [char::is_whitespace] (flag bit 2) *)
Definition chk_ws (s : src) : bool := forallb (fun c => Bool.eqb (is_ws (cp c)) (Z.testbit (fl c) 2)) s.

(** finding class C12-K1: the GraphQL lexer slices [source] at a character count *)
Definition k_graphql_peek_next (s : src) : bool :=
  match lex_graphql_pre s with Crash => true | _ => false end.

(** finding class C12-K7: the lexer itself gets through, [dedent_block_string] slices a line of a
    block string inside a multi-byte character *)
Definition k_graphql_dedent (s : src) : bool :=
  match lex_graphql_pre s with
  | Done ts => match block_values_pre s ts with Crash => true | _ => false end
  | _ => false
  end.

(** *** arithmetic and index arithmetic of filter.rs *)
From GV Require Export Lex.Arith Lex.Progress.

Inductive aobs := ObsVal (v : option Z) | ObsPanic.
Definition ares_eqb (r : ares) (o : aobs) : bool :=
  match r, o with
  | AVal v, ObsVal w => option_eqb Z.eqb v w
  | APanic, ObsPanic => true
  | _, _ => false
  end.
Definition op_of (c : Z) : aop :=
  if c =? 0 then OAdd else if c =? 1 then OSub else if c =? 2 then OMul else if c =? 3 then ODiv else OMod.
Definition chk_arith (op a b : Z) (o : aobs) : bool := ares_eqb (arith (op_of op) a b) o.
Definition chk_neg (a : Z) (o : aobs) : bool := ares_eqb (neg a) o.
Definition chk_eval (e : expr) (o : aobs) : bool := ares_eqb (eval e) o.
(** against the pre-repair transcription (to confirm finding C12-F3 on old trees) *)
Definition chk_arith_pre (m : mode) (op a b : Z) (o : aobs) : bool := ares_eqb (arith_pre m (op_of op) a b) o.

(** SUM over Int64 values in arrival order: the implementation returns an integer total, a float (after an
    overflow of a partial sum), or panics *)
Inductive sobs := SumIsInt (v : Z) | SumIsFloat | SumPanics.
Definition chk_sum (vs : list Z) (o : sobs) : bool :=
  match sum_int 0 vs, o with
  | Some t, SumIsInt w => t =? w
  | None, SumIsFloat => true
  | _, _ => false
  end.
(** against the pre-repair transcription (to confirm finding C12-K8 on old trees) *)
Definition chk_sum_pre (m : mode) (vs : list Z) (o : sobs) : bool :=
  match sum_int_pre m 0 vs, o with
  | Ok t, SumIsInt w => t =? w
  | Panic, SumPanics => true
  | _, _ => false
  end.
(** finding class C12-K8: some partial sum, in arrival order, does not fit in an i64 *)
Definition k_sum_overflow (vs : list Z) : bool :=
  match sum_int_pre Checked 0 vs with Panic => true | Ok _ => false end.
(** ... and for failures of the search, where the summed values are not known: the text contains
    the word [sum] (1) — coarse *)
Definition k_sum_query (ks : list Z) : bool := existsb (Z.eqb 1) ks.

Definition iobs_eqb (r : res (option Z)) (o : option (option Z)) : bool :=
  match r, o with
  | Ok v, Some w => option_eqb Z.eqb v w
  | Panic, None => true
  | _, _ => false
  end.
(** list[i] on the list [0; 1; ...; len-1]: the implementation returns element k, NULL, or panics *)
Definition chk_index (m : mode) (len i : Z) (o : option (option Z)) : bool := iobs_eqb (list_index m len i) o.
Definition chk_str_index (m : mode) (bl cl i : Z) (o : option (option Z)) : bool := iobs_eqb (str_index m bl cl i) o.
(** base[st..en] on the same list: the implementation returns [count] elements starting with [first] *)
Definition chk_slice (len : Z) (st en : option Z) (count first : Z) : bool :=
  let r := slice_range len st en in
  (snd r - fst r =? count) && ((count =? 0) || (fst r =? first)).

(** *** classes of the findings of the search that lie outside every model (decidable on
    features of the failing input that the harness extracts with the real lexer) *)
(** C12-K4: Gremlin [range(a, b)] with [b < a] as [usize]: [end - start] underflows in the translator *)
Definition k_gremlin_range (args : list (Z * Z)) : bool :=
  existsb (fun p => wrap64 (snd p) <? wrap64 (fst p)) args.
(** C12-K5: Gremlin [hasLabel()] without a label: [conditions.pop().unwrap()] on an empty vector.
    kinds: 1 = hasLabel, 2 = '(', 3 = ')', 0 = anything else *)
Fixpoint k_gremlin_haslabel_empty (ks : list Z) : bool :=
  match ks with
  | 1 :: ((2 :: 3 :: _) as r) => true || k_gremlin_haslabel_empty r
  | _ :: r => k_gremlin_haslabel_empty r
  | [] => false
  end.
(** C12-K6: a SPARQL update (INSERT/DELETE) — a template or data position that resolves to a
    literal trips a [debug_assert!] in [Triple::new].  kinds: 1 = INSERT or DELETE keyword *)
Definition k_sparql_update (ks : list Z) : bool := existsb (Z.eqb 1) ks.
