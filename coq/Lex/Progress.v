(** C12 — parser loop skeletons and recursion depth (model; no proofs).

    The five parsers are hand-written recursive descents over a token stream.  Their loops are
    transcribed as skeletons over an ABSTRACT stream of token kinds: for each loop the guard
    (which kinds let the loop run once more) and, per kind, what the body does FIRST with the
    current token: consume it, expect one of some kinds (consume or fail), fail, or return
    without consuming anything ([FStall]).  What the body consumes afterwards is left to an
    arbitrary oracle.  A loop whose body can stall on a kind that also satisfies the guard runs
    for ever: that is outcome [LNoFuel].

    Kind 0 is end-of-input: the lexers return Eof again and again, so "consuming" it is no
    progress.  The stream is the list of the non-Eof kinds. *)
From GV Require Export Base.Bits.
From Coq Require Import String.
Open Scope string_scope.
Open Scope Z_scope.

Definition kind := Z.
Definition EOF : kind := 0.

Inductive first :=
| FConsume                   (* advance(): the current token is consumed whatever it is *)
| FExpect (ks : list kind)   (* consumed if it is one of [ks], an error otherwise *)
| FErr                       (* the body returns an error *)
| FStall.                    (* the body returns Ok and has consumed nothing *)

Inductive guard := GIn (ks : list kind) | GOut (ks : list kind).
Definition mem (k : kind) (ks : list kind) : bool := existsb (Z.eqb k) ks.
Definition enters (g : guard) (k : kind) : bool :=
  match g with GIn ks => mem k ks | GOut ks => negb (mem k ks) end.

Record loop := mkloop {
  l_name : string;
  l_guard : guard;
  l_first : list (kind * first);    (* per kind *)
  l_default : first                 (* every other kind *)
}.
Fixpoint lookup (k : kind) (t : list (kind * first)) (dflt : first) : first :=
  match t with
  | [] => dflt
  | (k', f) :: r => if k =? k' then f else lookup k r dflt
  end.
Definition first_of (l : loop) (k : kind) : first := lookup k (l_first l) (l_default l).

Inductive lout := LExit (rest : list kind) | LErr | LNoFuel.

(** [more rest]: how many further tokens the rest of the body consumes ([None] = error) *)
Fixpoint run_loop (fuel : nat) (l : loop) (more : list kind -> option nat) (ts : list kind) : lout :=
  match fuel with
  | O => LNoFuel
  | S f =>
      let k := hd EOF ts in
      if enters (l_guard l) k then
        let consume :=
          match more (tl ts) with
          | None => LErr
          | Some n => run_loop f l more (skipn n (tl ts))
          end in
        match first_of l k with
        | FConsume => consume
        | FExpect ks => if mem k ks then consume else LErr
        | FErr => LErr
        | FStall => run_loop f l more ts
        end
      else LExit ts
  end.

(** the decidable progress condition, for kinds [0 .. n) *)
Definition step_ok (l : loop) (k : kind) : bool :=
  negb (enters (l_guard l) k) ||
  match first_of l k with
  | FErr => true
  | FStall => false
  | FConsume => negb (k =? EOF)
  | FExpect ks => negb (mem k ks) || negb (k =? EOF)
  end.
Fixpoint upto (n : nat) : list kind :=
  match n with O => [] | S m => upto m ++ [Z.of_nat m] end.
Definition loop_ok (n : nat) (l : loop) : bool := forallb (step_ok l) (upto n).

(** ** The loops of the five parsers.
    One small kind alphabet per language: the kinds that occur in a guard, plus [OTHER]. *)
Definition wh (name : string) (ks : list kind) : loop :=      (* while current is one of ks { advance(); ... } *)
  mkloop name (GIn ks) [] FConsume.
Definition wh_expect (name : string) (ks : list kind) (t : list (kind * first)) : loop :=
  mkloop name (GIn ks) t FErr.

Module Gql.
  Definition N := 26%nat.
  Definition COMMA := 1. Definition COLON := 2. Definition OR := 3. Definition AND := 4.
  Definition WHEN := 5. Definition MATCH := 6. Definition OPTIONAL := 7. Definition UNWIND := 8.
  Definition MERGE := 9. Definition SET := 10. Definition REMOVE := 11. Definition CREATE := 12.
  Definition DELETE := 13. Definition DETACH := 14. Definition WITH := 15. Definition ON := 16.
  Definition ARROW := 17. Definition LEFTARROW := 18. Definition DOUBLEDASH := 19. Definition MINUS := 20.
  Definition PLUS := 21. Definition STAR := 22. Definition SLASH := 23. Definition PERCENT := 24.
  Definition OTHER := 25.
  Definition clauses (name : string) : loop :=
    wh_expect name [MATCH; OPTIONAL; UNWIND; MERGE]
      [(MATCH, FExpect [MATCH]); (OPTIONAL, FConsume); (UNWIND, FExpect [UNWIND]); (MERGE, FExpect [MERGE])].
  Definition loops : list loop := [
    clauses "parse_query: MATCH/OPTIONAL/UNWIND/MERGE clauses (l.170)";
    wh_expect "parse_query: SET clauses (l.194)" [SET] [(SET, FExpect [SET])];
    wh_expect "parse_query: REMOVE clauses (l.200)" [REMOVE] [(REMOVE, FExpect [REMOVE])];
    wh_expect "parse_query: CREATE clauses (l.205)" [CREATE] [(CREATE, FExpect [CREATE])];
    wh_expect "parse_query: DELETE clauses (l.210)" [DELETE; DETACH] [(DELETE, FExpect [DELETE]); (DETACH, FConsume)];
    wh_expect "parse_query: WITH clauses (l.216)" [WITH] [(WITH, FExpect [WITH])];
    clauses "parse_query: clauses after WITH (l.220)";
    wh "parse_set_clause: items separated by ',' (l.288)" [COMMA];
    wh "parse_set_clause: labels (l.300)" [COLON];
    wh "parse_remove_clause: items (l.353)" [COMMA];
    wh "parse_remove_clause: labels (l.365)" [COLON];
    wh "parse_merge_clause: ON CREATE / ON MATCH (l.438)" [ON];
    wh "parse_property_assignments (l.464)" [COMMA];
    wh "parse_match_clause: patterns (l.516)" [COMMA];
    wh "parse_with_clause: items (l.582)" [COMMA];
    wh "parse_pattern: edges (l.613)" [ARROW; LEFTARROW; DOUBLEDASH; MINUS];
    wh "parse_node_pattern: labels (l.642)" [COLON];
    wh "parse_edge_pattern: types, outgoing (l.705)" [COLON];
    wh "parse_edge_pattern: types, incoming (l.772)" [COLON];
    wh "parse_return_clause: items (l.935)" [COMMA];
    wh "parse_order_by: items (l.999)" [COMMA];
    wh "parse_or_expression (l.1032)" [OR];
    wh "parse_and_expression (l.1048)" [AND];
    wh "parse_additive_expression (l.1125)" [PLUS; MINUS];
    wh "parse_multiplicative_expression (l.1146)" [STAR; SLASH; PERCENT];
    wh "type(...) arguments (l.1263)" [COMMA];
    wh "function call arguments (l.1303)" [COMMA];
    wh "list literal (l.1329)" [COMMA];
    wh "parse_case_expression: WHEN (l.1372)" [WHEN];
    wh_expect "parse_exists_inner_query: MATCH clauses (l.1407)" [MATCH; OPTIONAL] [(MATCH, FExpect [MATCH]); (OPTIONAL, FConsume)];
    wh "parse_property_map (l.1452)" [COMMA];
    wh "parse_insert: patterns (l.1481)" [COMMA];
    wh "parse_create_as_insert: patterns (l.1499)" [COMMA];
    wh "parse_create_clause_in_query: patterns (l.1517)" [COMMA];
    wh "parse_delete_clause_in_query: variables (l.1546)" [COMMA];
    wh "parse_delete: variables (l.1579)" [COMMA];
    wh "parse_property_definitions (l.1734)" [COMMA]
  ].
End Gql.

Module Cypher.
  Definition N := 35%nat.
  Definition COMMA := 1. Definition COLON := 2. Definition OR := 3. Definition AND := 4. Definition XOR := 5.
  Definition WHEN := 6. Definition MATCH := 7. Definition OPTIONAL := 8. Definition WHERE := 9.
  Definition WITH := 10. Definition RETURN := 11. Definition UNWIND := 12. Definition CREATE := 13.
  Definition MERGE := 14. Definition DELETE := 15. Definition DETACH := 16. Definition SET := 17.
  Definition REMOVE := 18. Definition ORDER := 19. Definition SKIP := 20. Definition LIMIT := 21.
  Definition ON := 22. Definition ARROW := 23. Definition LEFTARROW := 24. Definition MINUS := 25.
  Definition PIPE := 26. Definition PLUS := 27. Definition STAR := 28. Definition SLASH := 29.
  Definition PERCENT := 30. Definition DOT := 31. Definition LBRACKET := 32. Definition OTHER := 33.
  Definition CMP := 34.   (* = <> < <= > >= IN STARTS ENDS CONTAINS =~ IS *)
  Definition loops : list loop := [
    wh_expect "parse_statement: clauses (l.46)"
      [MATCH; OPTIONAL; WHERE; WITH; RETURN; UNWIND; CREATE; MERGE; DELETE; DETACH; SET; REMOVE; ORDER; SKIP; LIMIT]
      [(MATCH, FExpect [MATCH]); (OPTIONAL, FConsume); (WHERE, FExpect [WHERE]); (WITH, FExpect [WITH]);
       (RETURN, FExpect [RETURN]); (UNWIND, FExpect [UNWIND]); (CREATE, FExpect [CREATE]); (MERGE, FExpect [MERGE]);
       (DELETE, FExpect [DELETE]); (DETACH, FConsume); (SET, FExpect [SET]); (REMOVE, FExpect [REMOVE]);
       (ORDER, FExpect [ORDER]); (SKIP, FConsume); (LIMIT, FConsume)];
    wh "parse_merge_clause: ON (l.210)" [ON];
    wh "parse_delete_clause: expressions (l.244)" [COMMA];
    wh "parse_set_clause: items (l.260)" [COMMA];
    wh "parse_set_item: labels (l.301)" [COLON];
    wh "parse_remove_clause: items (l.315)" [COMMA];
    wh "parse_remove_item: labels (l.334)" [COLON];
    wh "parse_return/with items (l.349)" [COMMA];
    wh "parse_order_by items (l.378)" [COMMA];
    wh "parse_pattern_list (l.402)" [COMMA];
    wh "parse_pattern: chain (l.434)" [ARROW; LEFTARROW; MINUS];
    wh "parse_inner_pattern: chain (l.486)" [ARROW; LEFTARROW; MINUS];
    wh "parse_node_pattern: labels (l.515)" [COLON];
    wh "parse_relationship_pattern: types (l.598)" [COLON];
    wh "parse_relationship_pattern: type alternatives (l.602)" [PIPE];
    wh "parse_property_map (l.689)" [COMMA];
    wh "parse_or_expression (l.713)" [OR];
    wh "parse_xor_expression (l.727)" [XOR];
    wh "parse_and_expression (l.741)" [AND];
    wh "parse_comparison_expression: every operator arm advances (l.769)" [CMP];
    wh "parse_additive_expression (l.846)" [PLUS; MINUS];
    wh "parse_multiplicative_expression (l.868)" [STAR; SLASH; PERCENT];
    wh "parse_postfix_expression (l.929)" [DOT; LBRACKET];
    wh "function arguments (l.1008)" [COMMA];
    wh "list literal (l.1036)" [COMMA];
    wh "map literal (l.1054)" [COMMA];
    wh "parse_aggregate_function arguments (l.1096)" [COMMA];
    wh "parse_case_expression: WHEN (l.1119)" [WHEN]
  ].
End Cypher.

Module Gremlin.
  Definition N := 6%nat.
  Definition DOT := 1. Definition COMMA := 2. Definition RPAREN := 3. Definition STRING := 4. Definition OTHER := 5.
  Definition loops : list loop := [
    wh "parse_statement: steps (l.46)" [DOT];
    wh "parse_sub_traversal: steps (l.795)" [DOT];
    wh "parse_string_list (l.806)" [STRING];
    (* loop { if check(RParen) break; parse_value() -> advance_token(): consumes (at the end: the Eof token, then Err) *)
    mkloop "parse_value_list (l.818)" (GOut [RPAREN]) [(EOF, FErr)] FConsume
  ].
End Gremlin.

Module Graphql.
  Definition N := 12%nat.
  Definition RPAREN := 1. Definition RBRACE := 2. Definition RBRACKET := 3. Definition AT := 4.
  Definition QUERY := 5. Definition MUTATION := 6. Definition SUBSCRIPTION := 7. Definition FRAGMENT := 8.
  Definition LBRACE := 9. Definition SPREAD := 10. Definition OTHER := 11.
  (* every body starts with advance_token()/expect(), which consume before they look *)
  Definition loops : list loop := [
    mkloop "parse_document (l.37)" (GOut [EOF])
      [(QUERY, FConsume); (MUTATION, FConsume); (SUBSCRIPTION, FConsume); (FRAGMENT, FConsume); (LBRACE, FConsume)] FErr;
    mkloop "parse_variable_definitions (l.150)" (GOut [RPAREN; EOF]) [] FConsume;
    mkloop "parse_selection_set (l.205)" (GOut [RBRACE; EOF]) [] FConsume;
    mkloop "parse_arguments (l.297)" (GOut [RPAREN; EOF]) [] FConsume;
    wh "parse_directives (l.316)" [AT];
    mkloop "parse_input_value: list (l.351)" (GOut [RBRACKET; EOF]) [] FConsume;
    mkloop "parse_input_value: object (l.359)" (GOut [RBRACE; EOF]) [] FConsume
  ].
End Graphql.

Module Sparql.
  (** kind classes shared with the harness (sparql_kind_code): *)
  Definition N := 6%nat.
  Definition LBRACE := 1. Definition RBRACE := 2.
  Definition TSTART := 3.     (* is_triple_start: Variable Iri PrefixedName BlankNodeLabel [ ( String LongString numbers true false *)
  Definition KW := 4.         (* OPTIONAL MINUS GRAPH SERVICE FILTER BIND VALUES SELECT *)
  Definition OTHER := 5.      (* everything else: . , ; ) ] * a WHERE UNION LIMIT ... and error tokens *)
  (** [parse_group_graph_pattern] (l.616) and [parse_group_or_subquery] (l.723):
        while current != '}' { if Eof -> Err; patterns.push(parse_graph_pattern_element()?) }
      and [parse_graph_pattern_element]'s last arm [_ => parse_triples_block()] returns
      [Ok(vec![])] without consuming when the current token cannot start a triple. *)
  Definition group_loop_pre (name : string) : loop :=
    mkloop name (GOut [RBRACE])
      [(EOF, FErr); (LBRACE, FConsume); (TSTART, FConsume); (KW, FConsume); (OTHER, FStall)] FStall.
  Definition group_loops_pre : list loop := [
    group_loop_pre "parse_group_graph_pattern (l.616)";
    group_loop_pre "parse_group_or_subquery (l.723)"
  ].
  (** after f74955f the default arm rejects a token that cannot start a triple (and the loops skip one
      optional '.' after an element): no kind stalls any more *)
  Definition group_loop (name : string) : loop :=
    mkloop name (GOut [RBRACE])
      [(EOF, FErr); (LBRACE, FConsume); (TSTART, FConsume); (KW, FConsume); (OTHER, FErr)] FErr.
  Definition group_loops : list loop := [
    group_loop "parse_group_graph_pattern";
    group_loop "parse_group_or_subquery"
  ].
  (** the other loops of the parser, over their own guard kinds *)
  Definition PREFIX := 1. Definition K2 := 2. Definition COMMA := 3. Definition PIPE := 4. Definition SLASH := 5.
  Definition other_loops : list loop := [
    wh "parse_prefixes (l.63)" [PREFIX];
    wh "parse_describe_resources: Variable|Iri|PrefixedName (l.182)" [K2];
    mkloop "parse_quads: while != '}' (l.325)" (GOut [K2]) [(EOF, FErr)] FConsume;
    mkloop "parse_quads: GRAPH block (l.336)" (GOut [K2]) [(EOF, FErr)] FConsume;
    wh "parse_using_clauses (l.374)" [K2];
    wh "parse_projection: Variable|( (l.538)" [K2];
    wh "parse_dataset_clause: FROM (l.579)" [K2];
    wh "parse_union_continuation (l.744)" [K2];
    wh "parse_inline_data: variables (l.774)" [K2];
    mkloop "parse_inline_data: rows (l.786)" (GOut [K2]) [(EOF, FErr)] FConsume;
    wh "parse_triples_block: is_triple_start (l.846)" [K2];
    wh "parse_property_list_not_empty: ';' then a verb (l.892)" [K2];
    wh "parse_object_list (l.940)" [COMMA];
    mkloop "parse_var_or_term: [ ... ] (l.1006)" (GOut [K2]) [(EOF, FErr)] FConsume;
    wh "parse_path_alternative (l.1047)" [PIPE];
    wh "parse_path_sequence (l.1062)" [SLASH];
    wh "parse_path_negation (l.1140)" [PIPE];
    mkloop "parse_construct_template (l.1160)" (GOut [K2]) [(EOF, FErr)] FConsume;
    wh "parse_group_by: Variable|( (l.1199)" [K2];
    wh "parse_order_by: ASC|DESC|Variable|( (l.1250)" [K2];
    wh "parse_conditional_or_expression (l.1315)" [K2];
    wh "parse_conditional_and_expression (l.1331)" [K2];
    wh "parse_additive_expression (l.1398)" [K2];
    wh "parse_multiplicative_expression (l.1419)" [K2];
    wh "parse_argument_list (l.1830)" [COMMA];
    wh "parse_expression_list (l.1845)" [COMMA]
  ].
End Sparql.

(** finding class C12-K2: a token of class OTHER inside a group graph pattern *)
Fixpoint stall_scan (depth : Z) (ks : list kind) : bool :=
  match ks with
  | [] => false
  | k :: r =>
      if k =? Sparql.LBRACE then stall_scan (depth + 1) r
      else if k =? Sparql.RBRACE then stall_scan (depth - 1) r
      else if (k =? Sparql.OTHER) && (1 <=? depth) then true
      else stall_scan depth r
  end.
Definition k_sparql_stall (ks : list kind) : bool := stall_scan 0 ks.

(** ** Recursion depth of the recursive descents.
    Every parser has a production of the shape  primary ::= OPEN expr CLOSE | atom  (parentheses,
    list literals, nested selection sets, group patterns, sub-traversals) that calls itself once
    per nesting level and counts nothing.  [descend] is that production; it reports the deepest
    level reached.  [limit = Some L] is the proposed repair: an error beyond depth L. *)
Inductive btok := BOpen | BClose | BAtom.
Fixpoint descend (fuel : nat) (limit : option nat) (depth : nat) (ts : list btok) : option (nat * list btok) :=
  match fuel with
  | O => None
  | S f =>
      match ts with
      | BAtom :: r => Some (depth, r)
      | BOpen :: r =>
          if match limit with Some L => (L <=? depth)%nat | None => false end then None
          else
            match descend f limit (S depth) r with
            | Some (m, BClose :: r') => Some (m, r')
            | _ => None
            end
      | _ => None
      end
  end.
Definition nested (n : nat) : list btok := repeat BOpen n ++ [BAtom] ++ repeat BClose n.
Definition rec_depth (ts : list btok) : option nat :=
  match descend (S (List.length ts)) None 0 ts with Some (m, []) => Some m | _ => None end.

(** the limit of the five parsers after 1e699be *)
Definition MAX_NESTING_DEPTH : nat := 128.
Definition rec_depth_cur (ts : list btok) : option nat :=
  match descend (S (List.length ts)) (Some MAX_NESTING_DEPTH) 0 ts with Some (m, []) => Some m | _ => None end.

(** finding class C12-K9 (what is left of C12-K3 after 1e699be): a CHAIN of binary operators longer than the
    length every run exercises in full; nesting constructs are excused no longer *)
Definition safe_depth (chain : bool) : Z := if chain then 4000 else 128.
Definition k_deep_nesting (chain : bool) (depth : Z) : bool := chain && (safe_depth chain <? depth).
