(** C12 — lexer cursors (model; no proofs in this file).

    Source text = list of scalar values ([chr] = code point + classification flags computed by
    Rust's own [char::is_alphabetic / is_numeric / is_whitespace]).  UTF-8 width is computed from
    the code point.  The five lexers of crates/grafeo-adapters/src/query/*/lexer.rs are
    transcribed as programs of one small cursor machine whose primitives are exactly the cursor
    operations the Rust code performs:

      byte discipline (GQL, Cypher, SPARQL):  [position]/[pos] is a BYTE offset;
          current_char() = self.input[pos..].chars().next().unwrap_or('\0')      (TCur)
          peek_char()    = second char of self.input[pos..]                        (TPeek)
          advance()      = if pos < len { pos += current_char().len_utf8() }       (AdvG)
          Cypher advance = pos += current_char().len_utf8()  (no guard; +1 at the end)  (AdvU)
          pre-repair GQL = if pos < len { pos += 1 }                               (AdvByte)
          token text     = self.input[start..pos]                                  (Ret)
      iterator discipline (Gremlin, GraphQL): a [chars] iterator plus [position] counted in
          CHARACTERS;  peek() = chars.peek() (TCur/TEnd), advance() = chars.next() (AdvG);
          GraphQL peek_next() = 2nd char of self.source[self.position..]  — the character count
          used as a BYTE index (TSl).

    Slicing a string at an offset that is not a character boundary (or beyond the end) panics
    in Rust: that is the explicit outcome [Crash].  Non-termination is the outcome [NoFuel]. *)
From GV Require Export Base.Bits.
Open Scope Z_scope.

(** ** Source text *)
Definition chr := (Z * Z)%type.            (* code point, flags *)
Definition cp (c : chr) : Z := fst c.
Definition fl (c : chr) : Z := snd c.
Definition src := list chr.

Definition width (z : Z) : Z :=
  if z <? 128 then 1 else if z <? 2048 then 2 else if z <? 65536 then 3 else 4.
Fixpoint blen (s : src) : Z :=
  match s with [] => 0 | c :: r => width (cp c) + blen r end.

(** [s[p..]] of Rust: panics unless [p] is a character boundary of [s] (the end included). *)
Fixpoint str_from (s : src) (p : Z) : res src :=
  if p =? 0 then Ok s else
  match s with
  | [] => Panic
  | c :: r => if p <? width (cp c) then Panic else str_from r (p - width (cp c))
  end.
(** [s[a..b]]: both ends must be boundaries and [a <= b]; the result is not needed, only
    whether the slice panics *)
Definition slice_ok (s : src) (a b : Z) : bool :=
  match str_from s a, str_from s b with
  | Ok _, Ok _ => a <=? b
  | _, _ => false
  end.

(** [p] is a character boundary of [s] (0 and the byte length included) *)
Definition boundary (s : src) (p : Z) : Prop := exists pre suf, s = pre ++ suf /\ blen pre = p.

(** ** Outcomes *)
Inductive out (A : Type) := Done (a : A) | Crash | NoFuel.
Arguments Done {A} _.
Arguments Crash {A}.
Arguments NoFuel {A}.
Definition obind {A B} (o : out A) (f : A -> out B) : out B :=
  match o with Done a => f a | Crash => Crash | NoFuel => NoFuel end.
Notation "x <- a ;; b" := (obind a (fun x => b)) (at level 61, a at next level, right associativity).

(** ** Character classes (first-order, so that programs are data) *)
Inductive cls :=
| CEq (v : Z)                 (* == 'c' *)
| CAny (l : list Z)           (* one of *)
| CDigit                      (* is_ascii_digit *)
| CAlphaU                     (* is_ascii_alphabetic() || == '_' *)
| CAlnumU                     (* is_ascii_alphanumeric() || == '_' *)
| CAsciiAlpha                 (* is_ascii_alphabetic *)
| CWs                         (* char::is_whitespace (Unicode White_Space) *)
| CNonAscii                   (* > '\u{7F}' *)
| CFAlpha                     (* char::is_alphabetic  — flag bit 0 *)
| CFAlnum                     (* char::is_alphanumeric — flag bits 0|1 *)
| CFWs                        (* char::is_whitespace as reported by Rust — flag bit 2 *)
| CNot (c : cls)
| COr (a b : cls)
| CAnd (a b : cls).

Definition is_ws (z : Z) : bool :=
  ((9 <=? z) && (z <=? 13)) || (z =? 32) || (z =? 133) || (z =? 160) || (z =? 5760)
  || ((8192 <=? z) && (z <=? 8202)) || (z =? 8232) || (z =? 8233) || (z =? 8239) || (z =? 8287)
  || (z =? 12288).
Definition is_digit (z : Z) : bool := (48 <=? z) && (z <=? 57).
Definition is_ascii_alpha (z : Z) : bool := ((65 <=? z) && (z <=? 90)) || ((97 <=? z) && (z <=? 122)).

Fixpoint ceval (c : cls) (x : chr) : bool :=
  let z := cp x in
  match c with
  | CEq v => z =? v
  | CAny l => existsb (Z.eqb z) l
  | CDigit => is_digit z
  | CAlphaU => is_ascii_alpha z || (z =? 95)
  | CAlnumU => is_ascii_alpha z || is_digit z || (z =? 95)
  | CAsciiAlpha => is_ascii_alpha z
  | CWs => is_ws z
  | CNonAscii => 127 <? z
  | CFAlpha => Z.testbit (fl x) 0
  | CFAlnum => Z.testbit (fl x) 0 || Z.testbit (fl x) 1
  | CFWs => Z.testbit (fl x) 2
  | CNot a => negb (ceval a x)
  | COr a b => ceval a x || ceval b x
  | CAnd a b => ceval a x && ceval b x
  end.

(** the "character" the Rust code sees at the end of input: ['\0'] / [None] *)
Definition nul : chr := (0, 0).

(** ** Programs *)
Inductive test :=
| TEnd                          (* pos >= len   /  peek() == None *)
| TCur (c : cls)                (* current_char() / peek() satisfies c *)
| TPeek (c : cls)               (* peek_char() (the character after the current one) satisfies c *)
| TCurReg (r : nat)             (* current_char() == register r (the opening quote) *)
| TPeekReg (r : nat)
| TRegEq (r : nat) (v : Z)
| TRegGe (r : nat) (v : Z)
| TSl (i : nat) (c : cls)       (* i-th char of source[position..] satisfies c — GraphQL peek_next *)
| TAh (i : nat) (c : cls).      (* i-th char of a CLONE of the character iterator satisfies c — the proposed repair of peek_next *)

Inductive prog :=
| Ret (kind : Z)                (* build the token: slices input[start..pos] *)
| RetEof                        (* Eof token of GQL/SPARQL: no slice *)
| AdvG (k : prog)
| AdvU (k : prog)
| AdvByte (k : prog)
| If (t : test) (a b : prog)
| SetR (r : nat) (v : Z) (k : prog)
| SetCur (r : nat) (k : prog)
| Incr (r : nat) (k : prog)
| Mark (k : prog)               (* let start = self.position *)
| Reset (k : prog)              (* self.position = start *)
| While (body k : prog)
| Continue
| Break.

Inductive disc := Byte | Iter.

Record state := mkst {
  pos : Z;                      (* byte offset (Byte) / character count (Iter) *)
  it : src;                     (* remaining characters of the [chars] iterator (Iter only) *)
  tstart : Z;                   (* start of the current token *)
  regs : list Z                 (* small register file: quote char, flags, counters *)
}.

Definition getr (st : state) (r : nat) : Z := nth r (regs st) 0.
Fixpoint set_nth (l : list Z) (n : nat) (v : Z) : list Z :=
  match n, l with
  | O, [] => [v]
  | O, _ :: t => v :: t
  | S k, [] => 0 :: set_nth [] k v
  | S k, h :: t => h :: set_nth t k v
  end.
Definition setr (st : state) (r : nat) (v : Z) : state :=
  mkst (pos st) (it st) (tstart st) (set_nth (regs st) r v).
Definition setpos (st : state) (p : Z) (i : src) : state := mkst p i (tstart st) (regs st).

Section Machine.
  Variable d : disc.
  Variable s : src.

  Definition at_end (st : state) : bool :=
    match d with Byte => blen s <=? pos st | Iter => match it st with [] => true | _ => false end end.

  (** the text in front of the cursor *)
  Definition ahead (st : state) : out src :=
    match d with
    | Byte => match str_from s (pos st) with Ok l => Done l | Panic => Crash end
    | Iter => Done (it st)
    end.
  Definition cur (st : state) : out chr :=
    l <- ahead st ;; Done (match l with [] => nul | c :: _ => c end).
  Definition peek (st : state) : out chr :=
    l <- ahead st ;; Done (match l with _ :: c :: _ => c | _ => nul end).
  (** source[position..] whatever the discipline (GraphQL uses it with a character count) *)
  Definition sl (st : state) (i : nat) : out (option chr) :=
    match str_from s (pos st) with Ok l => Done (nth_error l i) | Panic => Crash end.

  Definition eval_test (t : test) (st : state) : out bool :=
    match t with
    | TEnd => Done (at_end st)
    | TCur c => x <- cur st ;; Done (ceval c x)
    | TPeek c => x <- peek st ;; Done (ceval c x)
    | TCurReg r => x <- cur st ;; Done (cp x =? getr st r)
    | TPeekReg r => x <- peek st ;; Done (cp x =? getr st r)
    | TRegEq r v => Done (getr st r =? v)
    | TRegGe r v => Done (v <=? getr st r)
    | TSl i c => o <- sl st i ;; Done (match o with Some x => ceval c x | None => false end)
    | TAh i c => l <- ahead st ;; Done (match nth_error l i with Some x => ceval c x | None => false end)
    end.

  (** pos += current_char().len_utf8()  (Byte) / chars.next(), position += 1 (Iter) *)
  Definition step_raw (st : state) : out state :=
    match d with
    | Byte => x <- cur st ;; Done (setpos st (pos st + width (cp x)) (it st))
    | Iter => Done (match it st with [] => st | _ :: r => setpos st (pos st + 1) r end)
    end.
  Definition adv_g (st : state) : out state := if at_end st then Done st else step_raw st.
  Definition adv_u (st : state) : out state := step_raw st.
  Definition adv_byte (st : state) : out state :=
    if at_end st then Done st else Done (setpos st (pos st + 1) (it st)).

  Inductive sig := SRet (kind : Z) | SCont | SBrk.

  Definition ret (k : Z) (st : state) : out (sig * state) :=
    match d with
    | Byte => if slice_ok s (tstart st) (pos st) then Done (SRet k, st) else Crash
    | Iter => Done (SRet k, st)
    end.

  (** One unit of fuel per loop iteration that continues. *)
  Fixpoint run (fuel : nat) : prog -> state -> out (sig * state) :=
    fix go (p : prog) (st : state) {struct p} : out (sig * state) :=
      match p with
      | Ret k => ret k st
      | RetEof => Done (SRet 0, st)
      | AdvG k => st' <- adv_g st ;; go k st'
      | AdvU k => st' <- adv_u st ;; go k st'
      | AdvByte k => st' <- adv_byte st ;; go k st'
      | If t a b => v <- eval_test t st ;; if v then go a st else go b st
      | SetR r v k => go k (setr st r v)
      | SetCur r k => x <- cur st ;; go k (setr st r (cp x))
      | Incr r k => go k (setr st r (getr st r + 1))
      | Mark k => go k (mkst (pos st) (it st) (pos st) (regs st))
      | Reset k =>
          match d with
          | Byte => go k (setpos st (tstart st) (it st))
          | Iter => Crash            (* no iterator lexer moves backwards *)
          end
      | While body k =>
          r <- go body st ;;
          match r with
          | (SRet kd, st') => Done (SRet kd, st')
          | (SBrk, st') => go k st'
          | (SCont, st') =>
              match fuel with
              | O => NoFuel
              | S f => run f (While body k) st'
              end
          end
      | Continue => Done (SCont, st)
      | Break => Done (SBrk, st)
      end.

  (** tokens: (class, start, end) *)
  Definition tok := (Z * Z * Z)%type.
  Definition init_state (p : Z) (i : src) : state := mkst p i p [].

  Definition next_token (next : prog) (p : Z) (i : src) : out (tok * state) :=
    r <- run (length s) next (init_state p i) ;;
    match r with
    | (SRet k, st) => Done ((k, tstart st, pos st), st)
    | _ => Crash                  (* a token program never ends in Break/Continue *)
    end.

  (** "call next_token until Eof" — what the parsers (or [tokenize]) do *)
  Fixpoint tokenize (next : prog) (fuel : nat) (p : Z) (i : src) : out (list tok) :=
    match fuel with
    | O => NoFuel
    | S f =>
        r <- next_token next p i ;;
        let '(t, st) := r in
        if fst (fst t) =? 0 then Done [t]
        else ts <- tokenize next f (pos st) (it st) ;; Done (t :: ts)
    end.
End Machine.

Definition lex (d : disc) (next : prog) (s : src) : out (list (Z * Z * Z)) :=
  tokenize d s next (S (length s)) 0 s.

(** every token span lies on character boundaries of the source *)
Definition spans_on_boundaries (s : src) (ts : list (Z * Z * Z)) : Prop :=
  Forall (fun t => boundary s (snd (fst t)) /\ boundary s (snd t) /\ snd (fst t) <= snd t /\ snd t <= blen s) ts.
