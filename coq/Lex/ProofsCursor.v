(** C12 — soundness of the cursor-program checker ([Check.chk]) with respect to the cursor machine
    ([Cursor.run]): an accepted program never slices off a character boundary, its loops never
    run out of fuel, and every non-Eof token consumes at least one character. *)
From GV Require Import Lex.Cursor Lex.Check.
From Coq Require Import Lia List Bool Arith.
Import ListNotations.
Open Scope Z_scope.

(** ** UTF-8 widths, byte lengths, slicing *)
Lemma width_range : forall z, 1 <= width z <= 4.
Proof. intro z. unfold width. repeat (destruct (_ <? _)); lia. Qed.

Lemma blen_nonneg : forall s, 0 <= blen s.
Proof. induction s as [|c r IH]; cbn [blen]; [lia|]. pose proof (width_range (cp c)). lia. Qed.

Lemma blen_app : forall a b, blen (a ++ b) = blen a + blen b.
Proof. induction a as [|c r IH]; intro b; cbn [blen app]; [lia|]. rewrite IH. lia. Qed.

Lemma blen_zero_nil : forall s, blen s <= 0 -> s = [].
Proof.
  destruct s as [|c r]; [reflexivity|]. cbn [blen]. intro H.
  pose proof (width_range (cp c)). pose proof (blen_nonneg r). lia.
Qed.

Lemma str_from_app : forall pre suf, str_from (pre ++ suf) (blen pre) = Ok suf.
Proof.
  induction pre as [|c r IH]; intro suf.
  - cbn [blen app]. destruct suf; reflexivity.
  - cbn [blen app str_from]. pose proof (width_range (cp c)). pose proof (blen_nonneg r).
    destruct (width (cp c) + blen r =? 0) eqn:E; [lia|].
    destruct (width (cp c) + blen r <? width (cp c)) eqn:E2; [lia|].
    replace (width (cp c) + blen r - width (cp c)) with (blen r) by lia. apply IH.
Qed.


Lemma slice_ok_boundaries : forall s a b, boundary s a -> boundary s b -> a <= b -> slice_ok s a b = true.
Proof.
  intros s a b (p1 & s1 & E1 & B1) (p2 & s2 & E2 & B2) Hle. unfold slice_ok.
  rewrite E1 at 1. rewrite <- B1, str_from_app. rewrite E2. rewrite <- B2, str_from_app.
  apply Z.leb_le. lia.
Qed.

Lemma blen_ascii : forall s, Forall (fun c => width (cp c) = 1) s -> blen s = Z.of_nat (length s).
Proof.
  induction 1 as [|c r Hc Hr IH]; [reflexivity|]. cbn [blen length]. rewrite Hc, IH. lia.
Qed.

(** ** Character classes *)
Lemma flagfree_ceval : forall c x y, flagfree c = true -> cp x = cp y -> ceval c x = ceval c y.
Proof.
  induction c; intros x y Hf Hxy; cbn [ceval flagfree] in *; try rewrite Hxy; try reflexivity; try discriminate.
  - f_equal. apply IHc; assumption.
  - apply andb_true_iff in Hf as [H1 H2]. f_equal; auto.
  - apply andb_true_iff in Hf as [H1 H2]. f_equal; auto.
Qed.

Lemma cls_eqb_eq : forall a b, cls_eqb a b = true -> a = b.
Proof.
  induction a; destruct b; cbn [cls_eqb]; intro H; try discriminate; try reflexivity.
  - apply Z.eqb_eq in H. congruence.
  - f_equal. revert l0 H. induction l as [|x l IH]; destruct l0 as [|y l0]; cbn; intro H; try discriminate; auto.
    apply andb_true_iff in H as [H1 H2]. apply Z.eqb_eq in H1. f_equal; auto.
  - f_equal; auto.
  - apply andb_true_iff in H as [H1 H2]. f_equal; auto.
  - apply andb_true_iff in H as [H1 H2]. f_equal; auto.
Qed.

Lemma impl1_sound : forall c k x, impl1 k c = true -> ceval k x = true -> ceval c x = true.
Proof.
  induction c; intros k x H Hk; cbn [impl1] in H; apply orb_true_iff in H as [H|H];
    try (apply cls_eqb_eq in H; subst; assumption).
  all: try (destruct k; discriminate).
  - (* CAlnumU *) destruct k; try discriminate; cbn [ceval] in *.
    + rewrite Hk. rewrite orb_true_r. reflexivity.
    + apply orb_true_iff in Hk as [Hk|Hk]; rewrite Hk; rewrite ?orb_true_r; reflexivity.
  - (* CFAlnum *) destruct k; try discriminate; cbn [ceval] in *. rewrite Hk. reflexivity.
  - (* COr *) cbn [ceval]. apply orb_true_iff.
    assert (Hd : impl1 k c1 || impl1 k c2 = true) by (destruct k; assumption).
    apply orb_true_iff in Hd as [Hd|Hd]; [left; eapply IHc1|right; eapply IHc2]; eassumption.
Qed.

Lemma impl_ok_sound : forall k c x, impl_ok k c = true -> ceval k x = true -> ceval c x = true.
Proof.
  induction k; intros c x H Hk; cbn [impl_ok] in H; try (eapply impl1_sound; eassumption).
  apply andb_true_iff in H as [H1 H2]. cbn [ceval] in Hk. apply orb_true_iff in Hk as [Hk|Hk]; eauto.
Qed.

(** ** The invariant tying an abstract state to a machine state *)
Section Sound.
  Variable d : disc.
  Variable ascii : bool.
  Variable lenient : bool.       (* a [Crash] is tolerated (termination-only reading) *)
  Variable s : src.
  Hypothesis Hmode : ascii = true -> lenient = true \/ Forall (fun c => width (cp c) = 1) s.

  Definition at_ (pre suf : src) (st : state) : Prop :=
    s = pre ++ suf /\
    match d with
    | Byte => pos st = blen pre
    | Iter => pos st = Z.of_nat (length pre) /\ it st = suf
    end.

  Definition flags_ok (n : nat) (mv : list bool) (starts : list nat) : Prop :=
    Forall2 (fun b z => (z <= n)%nat /\ (b = true -> (z < n)%nat)) mv starts.
  Fixpoint sorted_ge (l : list nat) : Prop :=
    match l with
    | a :: r => match r with b :: _ => (b <= a)%nat | [] => True end /\ sorted_ge r
    | [] => True
    end.

  Definition inv_at (fuel : nat) (a : abs) (st : state) (starts : list nat) (pre suf mpre msuf : src) : Prop :=
    at_ pre suf st /\
    s = mpre ++ msuf /\
    (d = Byte -> tstart st = blen mpre /\ tstart st <= pos st) /\
    (a_av a <= length suf)%nat /\
    (forall c, a_kc a = Some c -> ceval c (hd nul suf) = true) /\
    (a_mav a <= length msuf)%nat /\
    (forall c, a_mkc a = Some c -> ceval c (hd nul msuf) = true) /\
    (a_atm a = true -> mpre = pre /\ msuf = suf) /\
    (a_rst a = true -> (length msuf <= fuel)%nat /\ Forall (fun z => (z <= length mpre)%nat) starts) /\
    flags_ok (length pre) (a_mv a) starts /\
    sorted_ge starts /\
    (length suf <= fuel)%nat.
  Definition inv (fuel : nat) (a : abs) (st : state) (starts : list nat) : Prop :=
    exists pre suf mpre msuf, inv_at fuel a st starts pre suf mpre msuf.

  (** ** The machine primitives on a well-placed cursor *)
  Lemma ahead_ok : forall pre suf st, at_ pre suf st -> ahead d s st = Done suf.
  Proof.
    intros pre suf st [E H]. unfold ahead. destruct d.
    - rewrite H, E, str_from_app. reflexivity.
    - destruct H as [_ H]. rewrite H. reflexivity.
  Qed.
  Lemma cur_ok : forall pre suf st, at_ pre suf st -> cur d s st = Done (hd nul suf).
  Proof. intros pre suf st H. unfold cur. rewrite (ahead_ok _ _ _ H). destruct suf; reflexivity. Qed.
  Lemma peek_ok : forall pre suf st, at_ pre suf st ->
    peek d s st = Done (match suf with _ :: c :: _ => c | _ => nul end).
  Proof. intros pre suf st H. unfold peek. rewrite (ahead_ok _ _ _ H). reflexivity. Qed.
  Lemma at_end_ok : forall pre suf st, at_ pre suf st ->
    at_end d s st = match suf with [] => true | _ => false end.
  Proof.
    intros pre suf st [E H]. unfold at_end. destruct d.
    - rewrite H, E, blen_app. destruct suf as [|c r].
      + apply Z.leb_le. cbn [blen]. lia.
      + apply Z.leb_gt. cbn [blen]. pose proof (width_range (cp c)). pose proof (blen_nonneg r). lia.
    - destruct H as [_ H]. rewrite H. reflexivity.
  Qed.
  Lemma step_ok : forall pre c r st, at_ pre (c :: r) st ->
    exists st', step_raw d s st = Done st' /\ at_ (pre ++ [c]) r st' /\
                tstart st' = tstart st /\ pos st < pos st'.
  Proof.
    intros pre c r st H. pose proof (cur_ok _ _ _ H) as Hc. destruct H as [E H].
    unfold step_raw, at_, cur in *. pose proof (width_range (cp c)).
    destruct d.
    - rewrite Hc. cbn [obind hd]. eexists. split; [reflexivity|]. unfold setpos. cbn [pos tstart].
      repeat split; try lia.
      + rewrite E, <- app_assoc. reflexivity.
      + rewrite blen_app. cbn [blen]. lia.
    - destruct H as [H1 H2]. rewrite H2. eexists. split; [reflexivity|]. unfold setpos. cbn [pos tstart it].
      repeat split; try lia.
      + rewrite E, <- app_assoc. reflexivity.
      + rewrite app_length. cbn [length]. lia.
  Qed.
  Lemma sl_ok : forall pre suf st i, at_ pre suf st ->
    d = Byte \/ Forall (fun c => width (cp c) = 1) s -> sl s st i = Done (nth_error suf i).
  Proof.
    intros pre suf st i [E H] Hd. unfold sl.
    assert (Hp : pos st = blen pre).
    { destruct d; [exact H|]. destruct H as [H _]. destruct Hd as [Hd|Hd]; [discriminate|].
      rewrite H. symmetry. apply blen_ascii. rewrite E in Hd. apply Forall_app in Hd. tauto. }
    rewrite Hp, E, str_from_app. reflexivity.
  Qed.

  (** ** Flag lists *)
  Lemma flags_ok_mono : forall n m mv starts, (n <= m)%nat -> flags_ok n mv starts -> flags_ok m mv starts.
  Proof.
    intros n m mv starts Hnm H. induction H as [|b z mv' st' [H1 H2] _ IH]; constructor; auto.
    split; [lia|]. intro Hb. specialize (H2 Hb). lia.
  Qed.
  Lemma flags_ok_alltrue : forall n m mv starts, (n < m)%nat -> flags_ok n mv starts -> flags_ok m (alltrue mv) starts.
  Proof.
    intros n m mv starts Hnm H. induction H as [|b z mv' st' [H1 H2] _ IH]; cbn [alltrue map]; constructor; auto.
    split; lia.
  Qed.
  Lemma flags_ok_allfalse : forall n mv starts, length mv = length starts ->
    Forall (fun z => (z <= n)%nat) starts -> flags_ok n (allfalse mv) starts.
  Proof.
    intros n mv. induction mv as [|b mv IH]; destruct starts as [|z st']; cbn [length allfalse map]; intros HL HF;
      try discriminate; constructor.
    - inversion HF; subst. split; [assumption|discriminate].
    - apply IH; [lia|]. inversion HF; assumption.
  Qed.
  Lemma flags_ok_length : forall n mv starts, flags_ok n mv starts -> length mv = length starts.
  Proof. intros n mv starts H. induction H; cbn [length]; auto. Qed.
  Lemma flags_ok_last : forall n mv starts, flags_ok n mv starts -> last mv false = true ->
    (last starts n < n)%nat.
  Proof.
    intros n mv starts H. induction H as [|b z mv' st' [H1 H2] HF IH]; cbn [last]; [discriminate|].
    destruct HF as [|b' z' mv'' st'' Hh HF'].
    - intro Hb. auto.
    - intro Hb. apply IH. exact Hb.
  Qed.
  Lemma sorted_all_lt : forall z starts n, sorted_ge (z :: starts) -> (z < n)%nat ->
    Forall (fun y => (y < n)%nat) starts.
  Proof.
    intros z starts. revert z. induction starts as [|y r IH]; intros z n Hs Hz; constructor.
    - cbn in Hs. lia.
    - apply (IH y); [|cbn in Hs; lia]. cbn in Hs. cbn. tauto.
  Qed.
  Lemma flags_ok_of_lt : forall n mv starts, length mv = length starts ->
    Forall (fun y => (y < n)%nat) starts -> flags_ok n (alltrue mv) starts.
  Proof.
    intros n mv. induction mv as [|b mv IH]; destruct starts as [|z st']; cbn [length alltrue map]; intros HL HF;
      try discriminate; constructor.
    - inversion HF; subst. split; lia.
    - apply IH; [lia|]. inversion HF; assumption.
  Qed.

  (** ** Preservation of the invariant by the abstract operations *)
  Ltac inv_intro H :=
    destruct H as (Hat & Hm & Hts & Hav & Hkc & Hmav & Hmkc & Hatm & Hrst & Hfl & Hso & Hfu).
  Ltac inv_split :=
    refine (conj _ (conj _ (conj _ (conj _ (conj _ (conj _ (conj _ (conj _ (conj _ (conj _ (conj _ _))))))))))).

  Lemma inv_fuel_mono : forall f g a st starts, (f <= g)%nat -> inv f a st starts -> inv g a st starts.
  Proof.
    intros f g a st starts Hfg (pre & suf & mpre & msuf & H). exists pre, suf, mpre, msuf.
    unfold inv_at in *. inv_intro H. inv_split; try assumption; try lia.
    intro Hr. destruct (Hrst Hr). split; [lia|assumption].
  Qed.

  Lemma inv_regs : forall fuel a st starts rg,
    inv fuel a st starts -> inv fuel a (mkst (pos st) (it st) (tstart st) rg) starts.
  Proof.
    intros fuel a st starts rg (pre & suf & mpre & msuf & H). exists pre, suf, mpre, msuf.
    unfold inv_at, at_ in *. cbn [pos it tstart]. exact H.
  Qed.

  Lemma inv_learn_av : forall fuel a st starts pre suf mpre msuf n,
    inv_at fuel a st starts pre suf mpre msuf -> (n <= length suf)%nat ->
    inv_at fuel (learn_av a n) st starts pre suf mpre msuf.
  Proof.
    intros fuel a st starts pre suf mpre msuf n H Hn. unfold inv_at in *. inv_intro H.
    unfold learn_av. cbn [a_av a_kc a_mv a_atm a_rst a_mav a_mkc].
    inv_split; try assumption; try lia.
    destruct (a_atm a) eqn:Ea; [|assumption]. destruct (Hatm eq_refl) as [_ Hs]. subst msuf. lia.
  Qed.

  Lemma stronger_ok : forall old c x,
    (forall k, old = Some k -> ceval k x = true) -> ceval c x = true ->
    forall k, stronger old c = Some k -> ceval k x = true.
  Proof.
    intros old c x Hold Hc k Hk. unfold stronger in Hk.
    destruct old as [o|]; [|inversion Hk; subst; assumption].
    destruct o; inversion Hk; subst; try assumption; apply Hold; reflexivity.
  Qed.

  Lemma inv_learn_kc : forall fuel a st starts pre suf mpre msuf c,
    inv_at fuel a st starts pre suf mpre msuf -> ceval c (hd nul suf) = true ->
    inv_at fuel (learn_kc a c) st starts pre suf mpre msuf.
  Proof.
    intros fuel a st starts pre suf mpre msuf c H Hc. unfold inv_at in *. inv_intro H.
    unfold learn_kc. cbn [a_av a_kc a_mv a_atm a_rst a_mav a_mkc].
    inv_split; try assumption.
    - apply stronger_ok; assumption.
    - destruct (a_atm a) eqn:Ea; [|assumption]. destruct (Hatm eq_refl) as [_ Hs]. subst msuf.
      apply stronger_ok; assumption.
  Qed.

  Lemma inv_learn_cur : forall fuel a st starts pre suf mpre msuf c,
    inv_at fuel a st starts pre suf mpre msuf -> ceval c (hd nul suf) = true ->
    inv_at fuel (learn_cur a c) st starts pre suf mpre msuf.
  Proof.
    intros fuel a st starts pre suf mpre msuf c H Hc. unfold learn_cur.
    pose proof (inv_learn_kc _ _ _ _ _ _ _ _ c H Hc) as H1.
    destruct (ceval c nul) eqn:En; [assumption|].
    apply inv_learn_av; [assumption|]. destruct suf; cbn [hd] in Hc; [congruence|cbn [length]; lia].
  Qed.

  Lemma inv_learn_peek : forall fuel a st starts pre suf mpre msuf c,
    inv_at fuel a st starts pre suf mpre msuf ->
    ceval c (match suf with _ :: x :: _ => x | _ => nul end) = true ->
    inv_at fuel (learn_peek a c) st starts pre suf mpre msuf.
  Proof.
    intros fuel a st starts pre suf mpre msuf c H Hc. unfold learn_peek.
    destruct (ceval c nul) eqn:En; [assumption|].
    apply inv_learn_av; [assumption|].
    destruct suf as [|x [|y r]]; try congruence. cbn [length]. lia.
  Qed.

  Lemma inv_step : forall fuel a st starts pre c r mpre msuf,
    inv_at fuel a st starts pre (c :: r) mpre msuf ->
    exists st', step_raw d s st = Done st' /\ inv fuel (after_adv a) st' starts.
  Proof.
    intros fuel a st starts pre c r mpre msuf H. unfold inv_at in H. inv_intro H.
    destruct (step_ok _ _ _ _ Hat) as (st' & Hs & Hat' & Hts' & Hpos).
    exists st'. split; [assumption|]. exists (pre ++ [c]), r, mpre, msuf.
    unfold inv_at, after_adv. cbn [a_av a_kc a_mv a_atm a_rst a_mav a_mkc].
    cbn [length] in *. inv_split; try assumption; try discriminate.
    - intro Hd. destruct (Hts Hd). rewrite Hts'. split; [assumption|lia].
    - lia.
    - rewrite app_length. cbn [length].
      destruct (1 <=? a_av a)%nat.
      + eapply flags_ok_alltrue; [|eassumption]. lia.
      + eapply flags_ok_mono; [|eassumption]. lia.
    - lia.
  Qed.

  Lemma inv_adv_g : forall fuel a st starts, inv fuel a st starts ->
    exists st', adv_g d s st = Done st' /\ inv fuel (after_adv a) st' starts.
  Proof.
    intros fuel a st starts (pre & suf & mpre & msuf & H).
    assert (Hat0 : at_ pre suf st) by (destruct H; assumption).
    unfold adv_g. rewrite (at_end_ok _ _ _ Hat0). clear Hat0. destruct suf as [|c r].
    - exists st. split; [reflexivity|]. exists pre, [], mpre, msuf.
      unfold inv_at in *. inv_intro H. unfold after_adv. cbn [a_av a_kc a_mv a_atm a_rst a_mav a_mkc].
      cbn [length] in *. inv_split; try assumption; try discriminate.
      + lia.
      + replace (a_av a) with 0%nat by lia. exact Hfl.
    - eapply inv_step; eassumption.
  Qed.

  Lemma inv_adv_u : forall fuel a st starts, inv fuel a st starts -> (1 <= a_av a)%nat ->
    exists st', adv_u d s st = Done st' /\ inv fuel (after_adv a) st' starts.
  Proof.
    intros fuel a st starts (pre & suf & mpre & msuf & H) Hav1.
    destruct suf as [|c r].
    - unfold inv_at in H. inv_intro H. cbn [length] in Hav. lia.
    - unfold adv_u. eapply inv_step; eassumption.
  Qed.

  Lemma inv_mark : forall fuel a st starts, inv fuel a st starts ->
    inv fuel (mkabs (a_av a) (a_kc a) (a_mv a) true true (a_av a) (a_kc a))
        (mkst (pos st) (it st) (pos st) (regs st)) starts.
  Proof.
    intros fuel a st starts (pre & suf & mpre & msuf & H). exists pre, suf, pre, suf.
    unfold inv_at in *. inv_intro H. cbn [a_av a_kc a_mv a_atm a_rst a_mav a_mkc pos tstart].
    assert (Hat' : at_ pre suf (mkst (pos st) (it st) (pos st) (regs st))).
    { unfold at_ in *. cbn [pos it]. exact Hat. }
    inv_split; try assumption; try (intros; tauto).
    - destruct Hat; assumption.
    - intro Hd. unfold at_ in Hat. destruct Hat as [_ Hp]. rewrite Hd in Hp. split; [exact Hp|lia].
    - intros _. split; [assumption|].
      apply flags_ok_length in Hfl as HL. clear - Hfl. induction Hfl as [|b z l l' [Hz _] _ IH]; constructor; auto.
  Qed.

  Lemma inv_reset : forall fuel a st starts, d = Byte -> inv fuel a st starts -> a_rst a = true ->
    inv fuel (mkabs (a_mav a) (a_mkc a) (allfalse (a_mv a)) true true (a_mav a) (a_mkc a))
        (setpos st (tstart st) (it st)) starts.
  Proof.
    intros fuel a st starts Hd (pre & suf & mpre & msuf & H) Hr. exists mpre, msuf, mpre, msuf.
    unfold inv_at in *. inv_intro H. cbn [a_av a_kc a_mv a_atm a_rst a_mav a_mkc].
    destruct (Hrst Hr) as [Hf HF]. destruct (Hts Hd) as [Ht1 Ht2].
    unfold setpos. cbn [pos tstart it].
    inv_split; try assumption; try (intros; tauto).
    - unfold at_. rewrite Hd. cbn [pos]. split; assumption.
    - intros _. split; [assumption|lia].
    - apply flags_ok_allfalse; [eapply flags_ok_length; eassumption|assumption].
  Qed.

  Lemma sorted_push : forall n starts, sorted_ge starts -> Forall (fun z => (z <= n)%nat) starts ->
    sorted_ge (n :: starts).
  Proof.
    intros n starts Hs HF. cbn [sorted_ge]. split; [|assumption].
    destruct starts; [exact I|]. inversion HF; assumption.
  Qed.

  Lemma inv_push : forall fuel a st starts pre suf mpre msuf,
    inv_at fuel a st starts pre suf mpre msuf ->
    inv_at fuel (push false a) st (length pre :: starts) pre suf mpre msuf.
  Proof.
    intros fuel a st starts pre suf mpre msuf H. unfold inv_at in *. inv_intro H.
    unfold push. cbn [a_av a_kc a_mv a_atm a_rst a_mav a_mkc].
    inv_split; try assumption; try discriminate.
    - constructor; [split; [lia|discriminate]|assumption].
    - apply sorted_push; [assumption|].
      clear - Hfl. induction Hfl as [|b z l l' [Hz _] _ IH]; constructor; auto.
  Qed.

  Lemma inv_pop : forall fuel a st z starts, inv fuel a st (z :: starts) -> inv fuel (pop a) st starts.
  Proof.
    intros fuel a st z starts (pre & suf & mpre & msuf & H). exists pre, suf, mpre, msuf.
    unfold inv_at in *. inv_intro H. unfold pop. cbn [a_av a_kc a_mv a_atm a_rst a_mav a_mkc].
    inv_split; try assumption.
    - intro Hr. destruct (Hrst Hr) as [Hf HF]. split; [assumption|]. inversion HF; assumption.
    - inversion Hfl; subst. cbn [tl]. assumption.
    - cbn [sorted_ge] in Hso. tauto.
  Qed.

  (** ** Tests *)
  Lemma decide_cur_sound : forall fuel a st starts pre suf mpre msuf c b,
    inv_at fuel a st starts pre suf mpre msuf -> decide_cur a c = Some b ->
    ceval c (hd nul suf) = b.
  Proof.
    intros fuel a st starts pre suf mpre msuf c b H Hd. unfold inv_at in H. inv_intro H.
    unfold decide_cur in Hd. destruct (a_kc a) as [k|] eqn:Ek; [|discriminate].
    specialize (Hkc k eq_refl).
    destruct k;
      try (destruct (impl_ok _ c) eqn:Ei; [inversion Hd; subst; eapply impl_ok_sound; eassumption|discriminate]).
    destruct (flagfree c) eqn:Ef; [|discriminate]. inversion Hd; subst.
    apply flagfree_ceval; [assumption|]. cbn [ceval] in Hkc. apply Z.eqb_eq in Hkc. cbn [cp fst]. exact Hkc.
  Qed.

  Definition test_post (fuel : nat) (st : state) (starts : list nat) (ox oy : option abs) (o : out bool) : Prop :=
    match o with
    | Crash => lenient = true
    | NoFuel => False
    | Done true => exists ax, ox = Some ax /\ inv fuel ax st starts
    | Done false => exists ay, oy = Some ay /\ inv fuel ay st starts
    end.

  Lemma test_sound : forall fuel t a st starts ox oy,
    chk_test d ascii t a = Some (ox, oy) -> inv fuel a st starts ->
    test_post fuel st starts ox oy (eval_test d s t st).
  Proof.
    intros fuel t a st starts ox oy Hc (pre & suf & mpre & msuf & H).
    assert (Hat0 : at_ pre suf st) by (destruct H; assumption).
    assert (Hinv : inv fuel a st starts) by (exists pre, suf, mpre, msuf; assumption).
    destruct t; cbn [chk_test eval_test] in *.
    - (* TEnd *)
      rewrite (at_end_ok _ _ _ Hat0). destruct (1 <=? a_av a)%nat eqn:E1; inversion Hc; subst; clear Hc.
      + apply Nat.leb_le in E1. destruct suf as [|x r].
        * exfalso. unfold inv_at in H. inv_intro H. cbn [length] in Hav. lia.
        * cbn. eauto.
      + destruct suf as [|x r]; cbn; [eauto|].
        eexists. split; [reflexivity|]. exists pre, (x :: r), mpre, msuf. apply inv_learn_av; [assumption|].
        cbn [length]. lia.
    - (* TCur *)
      rewrite (cur_ok _ _ _ Hat0). cbn [obind].
      destruct (decide_cur a c) as [[|]|] eqn:Ed; inversion Hc; subst; clear Hc.
      + rewrite (decide_cur_sound _ _ _ _ _ _ _ _ _ _ H Ed). cbn.
        eexists. split; [reflexivity|]. exists pre, suf, mpre, msuf. apply inv_learn_cur; [assumption|].
        eapply decide_cur_sound; eassumption.
      + rewrite (decide_cur_sound _ _ _ _ _ _ _ _ _ _ H Ed). cbn. eauto.
      + destruct (ceval c (hd nul suf)) eqn:Ec; cbn; [|eauto].
        eexists. split; [reflexivity|]. exists pre, suf, mpre, msuf. apply inv_learn_cur; assumption.
    - (* TPeek *)
      rewrite (peek_ok _ _ _ Hat0). cbn [obind]. inversion Hc; subst; clear Hc.
      destruct (ceval c _) eqn:Ec; cbn; [|eauto].
      eexists. split; [reflexivity|]. exists pre, suf, mpre, msuf. apply inv_learn_peek; assumption.
    - rewrite (cur_ok _ _ _ Hat0). cbn [obind]. inversion Hc; subst. destruct (_ =? _); cbn; eauto.
    - rewrite (peek_ok _ _ _ Hat0). cbn [obind]. inversion Hc; subst. destruct (_ =? _); cbn; eauto.
    - inversion Hc; subst. destruct (_ =? _); cbn; eauto.
    - inversion Hc; subst. destruct (_ <=? _); cbn; eauto.
    - (* TSl *)
      assert (Hgood : d = Byte \/ Forall (fun c => width (cp c) = 1) s ->
                      test_post fuel st starts (Some a) (Some a)
                        (o <- sl s st i;; Done match o with Some x => ceval c x | None => false end)).
      { intro Hg. rewrite (sl_ok _ _ _ i Hat0 Hg). cbn [obind]. destruct (match nth_error suf i with Some x => ceval c x | None => false end); cbn; eauto. }
      assert (Hlen : lenient = true ->
                      test_post fuel st starts (Some a) (Some a)
                        (o <- sl s st i;; Done match o with Some x => ceval c x | None => false end)).
      { intro Hl. unfold sl. destruct (str_from s (pos st)); cbn [obind]; [|exact Hl].
        destruct (match nth_error a0 i with Some x => ceval c x | None => false end); cbn; eauto. }
      destruct d eqn:Ed.
      + inversion Hc; subst. apply Hgood. left. reflexivity.
      + destruct ascii eqn:Ea; [|discriminate]. inversion Hc; subst.
        destruct (Hmode eq_refl) as [Hl|Hf]; [apply Hlen; assumption|apply Hgood; right; assumption].
    - (* TAh *)
      rewrite (ahead_ok _ _ _ Hat0). cbn [obind]. inversion Hc; subst; clear Hc.
      destruct (match nth_error suf i with Some x => ceval c x | None => false end); cbn; eauto.
  Qed.

  (** ** The main soundness theorem *)
  Lemma run_unfold : forall fuel p st,
    run d s fuel p st =
    match p with
    | Ret k => ret d s k st
    | RetEof => Done (SRet 0, st)
    | AdvG k => st' <- adv_g d s st ;; run d s fuel k st'
    | AdvU k => st' <- adv_u d s st ;; run d s fuel k st'
    | AdvByte k => st' <- adv_byte d s st ;; run d s fuel k st'
    | If t a b => v <- eval_test d s t st ;; if v then run d s fuel a st else run d s fuel b st
    | SetR r v k => run d s fuel k (setr st r v)
    | SetCur r k => x <- cur d s st ;; run d s fuel k (setr st r (cp x))
    | Incr r k => run d s fuel k (setr st r (getr st r + 1))
    | Mark k => run d s fuel k (mkst (pos st) (it st) (pos st) (regs st))
    | Reset k => match d with Byte => run d s fuel k (setpos st (tstart st) (it st)) | Iter => Crash end
    | While body k =>
        r <- run d s fuel body st ;;
        match r with
        | (SRet kd, st') => Done (SRet kd, st')
        | (SBrk, st') => run d s fuel k st'
        | (SCont, st') => match fuel with O => NoFuel | S f => run d s f (While body k) st' end
        end
    | Continue => Done (SCont, st)
    | Break => Done (SBrk, st)
    end.
  Proof. destruct fuel; destruct p; reflexivity. Qed.

  Lemma chk_ext : forall p a kb kb' kc kc',
    (forall x, kb x = kb' x) -> (forall x, kc x = kc' x) ->
    chk d ascii p a kb kc = chk d ascii p a kb' kc'.
  Proof.
    induction p; intros a kb kb' kc kc' Hb Hc; cbn [chk]; auto.
    - destruct d; [f_equal; auto|reflexivity].
    - destruct (chk_test d ascii t a) as [[ox oy]|]; [|reflexivity].
      f_equal; [destruct ox|destruct oy]; auto.
    - destruct d; [f_equal; auto|reflexivity].
    - assert (Hafter : forall x, chk d ascii p2 (pop x) kb kc = chk d ascii p2 (pop x) kb' kc') by (intro; auto).
      apply IHp1; [assumption|]. intro x. f_equal. apply IHp1; auto.
  Qed.

  Definition ret_post (k : Z) (st' : state) (starts : list nat) : Prop :=
    exists pre suf, at_ pre suf st' /\
      (d = Byte -> boundary s (tstart st') /\ tstart st' <= pos st') /\
      (k <> 0 -> (last starts 0 < length pre)%nat).
  Definition outcome_ok (fuel : nat) (kb kcn : abs -> bool) (starts : list nat) (o : out (sig * state)) : Prop :=
    match o with
    | Crash => lenient = true
    | NoFuel => False
    | Done (SRet k, st') => ret_post k st' starts
    | Done (SBrk, st') => exists a', kb a' = true /\ inv fuel a' st' starts
    | Done (SCont, st') => exists a', kcn a' = true /\ inv fuel a' st' starts
    end.

  Lemma outcome_mono : forall f g kb kcn starts o, (f <= g)%nat ->
    outcome_ok f kb kcn starts o -> outcome_ok g kb kcn starts o.
  Proof.
    intros f g kb kcn starts o Hfg H. destruct o as [[sg st']| |]; cbn in *; auto.
    destruct sg; auto; destruct H as (a' & H1 & H2); exists a'; split; auto; eapply inv_fuel_mono; eassumption.
  Qed.

  Lemma flags_ok_last0 : forall n mv starts, flags_ok n mv starts -> last mv false = true ->
    (last starts 0 < n)%nat.
  Proof.
    intros n mv starts H. induction H as [|b z mv' st' [H1 H2] HF IH]; cbn [last]; [discriminate|].
    destruct HF as [|b' z' mv'' st'' Hh HF'].
    - intro Hb. auto.
    - intro Hb. apply IH. exact Hb.
  Qed.

  Lemma last_cons_lt : forall z starts n, (last (z :: starts) 0 < n)%nat -> (last starts 0 < n)%nat.
  Proof. intros z starts n H. destruct starts; cbn [last] in *; [lia|exact H]. Qed.

  Lemma obind_outcome : forall {A} (o : out A) (f : A -> out (sig * state)) fuel kb kcn starts
      (P : A -> Prop),
    match o with Crash => lenient = true | NoFuel => False | Done x => P x end ->
    (forall x, P x -> outcome_ok fuel kb kcn starts (f x)) ->
    outcome_ok fuel kb kcn starts (obind o f).
  Proof. intros A o f fuel kb kcn starts P Ho Hf. destruct o; cbn in *; auto. Qed.

  Lemma later_state_eq : forall a,
    push false (with_mv (forget (with_mv (forget a) (alltrue (a_mv a))))
                        (alltrue (a_mv (with_mv (forget a) (alltrue (a_mv a))))))
    = push false (with_mv (forget a) (alltrue (a_mv a))).
  Proof.
    intro a. unfold push, with_mv, forget, alltrue. cbn [a_av a_kc a_mv a_atm a_rst a_mav a_mkc].
    rewrite map_map. reflexivity.
  Qed.

  Lemma disc_dec : forall x : disc, x = Byte \/ x = Iter.
  Proof. destruct x; auto. Qed.

  Theorem chk_sound : forall fuel p a kb kcn st starts,
    chk d ascii p a kb kcn = true -> inv fuel a st starts ->
    outcome_ok fuel kb kcn starts (run d s fuel p st).
  Proof.
    induction fuel as [fuel IHf] using lt_wf_ind.
    induction p; intros a kb kcn st starts Hc Hi; rewrite run_unfold; cbn [chk] in Hc.
    - (* Ret *)
      destruct Hi as (pre & suf & mpre & msuf & H). unfold inv_at in H. inv_intro H.
      assert (Hpost : ret_post kind st starts).
      { exists pre, suf. split; [assumption|]. split.
        - intro Hd. destruct (Hts Hd) as [H1 H2]. split; [|assumption]. exists mpre, msuf. auto.
        - intro Hk. apply orb_true_iff in Hc as [Hc|Hc]; [apply Z.eqb_eq in Hc; contradiction|].
          eapply flags_ok_last0; eassumption. }
      unfold ret. destruct (disc_dec d) as [Ed|Ed]; rewrite Ed at 1; [|exact Hpost].
      destruct (Hts Ed) as [H1 H2].
      rewrite slice_ok_boundaries; [exact Hpost| | |assumption].
      + exists mpre, msuf. auto.
      + exists pre, suf. unfold at_ in Hat. rewrite Ed in Hat. destruct Hat; auto.
    - (* RetEof *)
      destruct Hi as (pre & suf & mpre & msuf & H). unfold inv_at in H. inv_intro H.
      exists pre, suf. split; [assumption|]. split.
      + intro Hd. destruct (Hts Hd) as [H1 H2]. split; [|assumption]. exists mpre, msuf. auto.
      + intro Hk. contradiction Hk. reflexivity.
    - (* AdvG *)
      destruct (inv_adv_g _ _ _ _ Hi) as (st' & Hs & Hi'). rewrite Hs. cbn [obind]. eapply IHp; eassumption.
    - (* AdvU *)
      assert (Ed : d = Byte) by (destruct d; [reflexivity|discriminate]).
      rewrite Ed in Hc. apply andb_true_iff in Hc as [Hc1 Hc2]. apply Nat.leb_le in Hc1. rewrite <- Ed in Hc2.
      destruct (inv_adv_u _ _ _ _ Hi Hc1) as (st' & Hs & Hi'). rewrite Hs. cbn [obind]. eapply IHp; eassumption.
    - discriminate.
    - (* If *)
      destruct (chk_test d ascii t a) as [[ox oy]|] eqn:Et; [|discriminate].
      apply andb_true_iff in Hc as [Hc1 Hc2].
      pose proof (test_sound _ _ _ _ _ _ _ Et Hi) as Ht.
      destruct (eval_test d s t st) as [[|]| |]; cbn [obind test_post] in *; try assumption.
      + destruct Ht as (ax & -> & Hax). eapply IHp1; eassumption.
      + destruct Ht as (ay & -> & Hay). eapply IHp2; eassumption.
    - (* SetR *) eapply IHp; [eassumption|]. unfold setr. apply inv_regs. assumption.
    - (* SetCur *)
      destruct Hi as (pre & suf & mpre & msuf & H).
      assert (Hat0 : at_ pre suf st) by (destruct H; assumption).
      rewrite (cur_ok _ _ _ Hat0). cbn [obind]. eapply IHp; [eassumption|]. unfold setr. apply inv_regs.
      exists pre, suf, mpre, msuf. assumption.
    - (* Incr *) eapply IHp; [eassumption|]. unfold setr. apply inv_regs. assumption.
    - (* Mark *) eapply IHp; [eassumption|]. apply inv_mark. assumption.
    - (* Reset *)
      assert (Ed : d = Byte) by (destruct d; [reflexivity|discriminate]).
      rewrite Ed in Hc. apply andb_true_iff in Hc as [Hc1 Hc2]. rewrite <- Ed in Hc2. rewrite Ed at 1.
      eapply IHp; [eassumption|]. apply inv_reset; auto.
    - (* While *)
      set (after := fun a' => chk d ascii p2 (pop a') kb kcn) in *.
      set (a2 := with_mv (forget a) (alltrue (a_mv a))) in *.
      set (later := chk d ascii p1 (push false a2) after top) in *.
      destruct Hi as (pre & suf & mpre & msuf & H).
      pose proof (inv_push _ _ _ _ _ _ _ _ H) as Hpush.
      assert (Hbody : outcome_ok fuel after (fun a' => top a' && later) (length pre :: starts)
                                 (run d s fuel p1 st)).
      { eapply IHp1; [exact Hc|]. exists pre, suf, mpre, msuf. exact Hpush. }
      destruct (run d s fuel p1 st) as [[sg st']| |]; cbn [obind outcome_ok] in *; try assumption.
      destruct sg as [kd| |].
      + (* the body returned a token *)
        destruct Hbody as (pre' & suf' & Hat' & Hb' & Hl'). exists pre', suf'.
        split; [assumption|]. split; [assumption|]. intro Hk. eapply last_cons_lt. apply Hl'. assumption.
      + (* Continue *)
        destruct Hbody as (a' & Ha' & (pre' & suf' & mpre' & msuf' & H')).
        apply andb_true_iff in Ha' as [Htop Hlater].
        unfold inv_at in H, H'.
        destruct H as (Hat & Hm & Hts & Hav & Hkc & Hmav & Hmkc & Hatm & Hrst & Hfl & Hso & Hfu).
        destruct H' as (Hat' & Hm' & Hts' & Hav' & Hkc' & Hmav' & Hmkc' & Hatm' & Hrst' & Hfl' & Hso' & Hfu').
        (* the cursor moved: fewer characters remain *)
        assert (Hz : (length pre < length pre')%nat).
        { inversion Hfl' as [|b z mv' st'' [Hz1 Hz2] HF' Emv]; subst. apply Hz2.
          unfold top in Htop. rewrite <- Emv in Htop. exact Htop. }
        assert (Hlen : (length pre + length suf = length pre' + length suf')%nat).
        { destruct Hat as [E _]. destruct Hat' as [E' _]. rewrite <- !app_length. congruence. }
        destruct fuel as [|f]; [lia|].
        assert (Hi2 : inv f a2 st' starts).
        { exists pre', suf', mpre', msuf'. unfold inv_at, a2, with_mv, forget.
          cbn [a_av a_kc a_mv a_atm a_rst a_mav a_mkc].
          inv_split; try assumption; try discriminate; try lia.
          apply flags_ok_of_lt; [eapply flags_ok_length; eassumption|].
          eapply sorted_all_lt; eassumption. }
        assert (Hc2 : chk d ascii (While p1 p2) a2 kb kcn = true).
        { assert (Heq : push false (with_mv (forget a2) (alltrue (a_mv a2))) = push false a2)
            by apply later_state_eq.
          cbn [chk]. rewrite Heq. fold after. fold later.
          rewrite (chk_ext p1 (push false a2) after after (fun a' => top a' && later) top);
            [exact Hlater|reflexivity|]. intro x. rewrite Hlater. apply andb_true_r. }
        eapply outcome_mono; [|eapply (IHf f); [lia|exact Hc2|exact Hi2]]. lia.
      + (* Break *)
        destruct Hbody as (a' & Ha' & Hi'). unfold after in Ha'.
        eapply IHp2; [exact Ha'|]. eapply inv_pop. eassumption.
    - (* Continue *) exists a. auto.
    - (* Break *) exists a. auto.
  Qed.

  (** ** Tokens and token streams *)
  Definition at0 (pre suf : src) (p : Z) (i : src) : Prop :=
    s = pre ++ suf /\
    match d with Byte => p = blen pre | Iter => p = Z.of_nat (length pre) /\ i = suf end.

  Definition span_ok (t : Z * Z * Z) : Prop :=
    d = Byte -> boundary s (snd (fst t)) /\ boundary s (snd t) /\ snd (fst t) <= snd t.

  Lemma next_token_ok : forall next pre suf p i,
    accepts d ascii next = true -> at0 pre suf p i ->
    match next_token d s next p i with
    | NoFuel => False
    | Crash => lenient = true
    | Done (t, st') =>
        span_ok t /\ exists pre' suf', at0 pre' suf' (pos st') (it st') /\
          (fst (fst t) <> 0 -> (length pre < length pre')%nat)
    end.
  Proof.
    intros next pre suf p i Hacc [E H0]. unfold next_token.
    assert (Hi : inv (length s) abs0 (init_state p i) [length pre]).
    { exists pre, suf, pre, suf. unfold inv_at, abs0, init_state, at_. cbn [a_av a_kc a_mv a_atm a_rst a_mav a_mkc pos it tstart].
      inv_split; try assumption; try discriminate; try (cbn [length]; lia).
      - split; assumption.
      - intro Hd. rewrite Hd in H0. split; [assumption|lia].
      - constructor; [|constructor]. split; [lia|discriminate].
      - cbn. auto.
      - rewrite E, app_length. lia. }
    pose proof (chk_sound _ _ _ _ _ _ _ Hacc Hi) as Hs.
    destruct (run d s (length s) next (init_state p i)) as [[sg st']| |]; cbn [obind outcome_ok] in *; try assumption.
    destruct sg as [k| |].
    - destruct Hs as (pre' & suf' & Hat' & Hb' & Hl'). split.
      + unfold span_ok. cbn [fst snd]. intro Hd. destruct (Hb' Hd) as [B1 B2]. split; [assumption|]. split; [|assumption].
        exists pre', suf'. unfold at_ in Hat'. rewrite Hd in Hat'. destruct Hat'; auto.
      + exists pre', suf'. split.
        * unfold at0, at_ in *. destruct Hat' as [E' H']. split; [assumption|]. destruct d; [assumption|]. destruct H'; auto.
        * cbn [fst]. intro Hk. apply Hl' in Hk. cbn [last] in Hk. exact Hk.
    - destruct Hs as (a' & Hf & _). discriminate.
    - destruct Hs as (a' & Hf & _). discriminate.
  Qed.

  Lemma tokenize_ok : forall next, accepts d ascii next = true ->
    forall fuel pre suf p i, at0 pre suf p i -> (length suf < fuel)%nat ->
    match tokenize d s next fuel p i with
    | NoFuel => False
    | Crash => lenient = true
    | Done ts => Forall span_ok ts
    end.
  Proof.
    intros next Hacc. induction fuel as [|f IH]; intros pre suf p i H0 Hf; [lia|].
    cbn [tokenize]. pose proof (next_token_ok next pre suf p i Hacc H0) as Hn.
    destruct (next_token d s next p i) as [[t st']| |]; cbn [obind] in *; try assumption.
    destruct Hn as (Hsp & pre' & suf' & H0' & Hl).
    destruct (fst (fst t) =? 0) eqn:Ek.
    - constructor; [assumption|constructor].
    - apply Z.eqb_neq in Ek. specialize (Hl Ek).
      assert (Hlen : (length pre + length suf = length pre' + length suf')%nat).
      { destruct H0 as [E _]. destruct H0' as [E' _]. rewrite <- !app_length. congruence. }
      specialize (IH pre' suf' (pos st') (it st') H0').
      destruct (tokenize d s next f (pos st') (it st')) as [ts| |]; cbn [obind]; try (apply IH; lia).
      constructor; [assumption|]. apply IH. lia.
  Qed.

  Lemma lex_sound : forall next, accepts d ascii next = true ->
    match lex d next s with
    | NoFuel => False
    | Crash => lenient = true
    | Done ts => Forall span_ok ts
    end.
  Proof.
    intros next Hacc. unfold lex. apply (tokenize_ok next Hacc (S (length s)) [] s 0 s); [|lia].
    unfold at0. split; [reflexivity|]. destruct d; cbn; auto.
  Qed.
End Sound.

(** ** The theorems used by Props_C12 *)

Lemma boundary_le : forall s p, boundary s p -> 0 <= p <= blen s.
Proof.
  intros s p (pre & suf & E & B). subst. rewrite blen_app. pose proof (blen_nonneg pre). pose proof (blen_nonneg suf). lia.
Qed.

(** byte-cursor lexers: lexing any text succeeds, every span lies on character boundaries *)
Theorem byte_lexer_safe : forall next, accepts Byte false next = true ->
  forall s, exists ts, lex Byte next s = Done ts /\ spans_on_boundaries s ts.
Proof.
  intros next Hacc s.
  pose proof (lex_sound Byte false false s (fun H => ltac:(discriminate)) next Hacc) as H.
  destruct (lex Byte next s) as [ts| |]; [|discriminate|contradiction].
  exists ts. split; [reflexivity|]. unfold spans_on_boundaries. eapply Forall_impl; [|exact H].
  intros t Ht. destruct (Ht eq_refl) as (B1 & B2 & Hle). repeat split; auto. apply (boundary_le _ _ B2).
Qed.

(** iterator lexers that never slice: lexing any text succeeds *)
Theorem iter_lexer_safe : forall next, accepts Iter false next = true ->
  forall s, exists ts, lex Iter next s = Done ts.
Proof.
  intros next Hacc s.
  pose proof (lex_sound Iter false false s (fun H => ltac:(discriminate)) next Hacc) as H.
  destruct (lex Iter next s) as [ts| |]; [|discriminate|contradiction]. eauto.
Qed.

(** a lexer accepted only under the ASCII assumption: safe on pure-ASCII text ... *)
Theorem iter_lexer_ascii_safe : forall next, accepts Iter true next = true ->
  forall s, Forall (fun c => width (cp c) = 1) s -> exists ts, lex Iter next s = Done ts.
Proof.
  intros next Hacc s Hs.
  pose proof (lex_sound Iter true false s (fun _ => or_intror Hs) next Hacc) as H.
  destruct (lex Iter next s) as [ts| |]; [|discriminate|contradiction]. eauto.
Qed.

(** ... and terminating on every text (it may crash, it cannot loop) *)
Theorem lexer_terminates : forall d next, accepts d true next = true ->
  forall s, lex d next s <> NoFuel.
Proof.
  intros d next Hacc s.
  pose proof (lex_sound d true true s (fun _ => or_introl eq_refl) next Hacc) as H.
  intro E. rewrite E in H. exact H.
Qed.
