(** C12 — when can the GraphQL block-string value computation ([Values.v]) crash?
    [dedent_pre] crashes only when some WHITE-SPACE character of the value is wider than one byte;
    on pure ASCII documents neither [read_block_pre] (whose [peek_next] slices the source at a
    character count) nor [dedent_pre] crashes, and [read_block_pre] never runs out of fuel. *)
From GV Require Import Lex.Cursor Lex.Lexers Lex.Values Lex.ProofsCursor.
From Coq Require Import Lia List Bool Arith.
Import ListNotations.
Open Scope Z_scope.

Definition w1 (c : chr) : Prop := width (cp c) = 1.
(** every white-space character (as classified by Rust) is one byte wide *)
Definition ws_narrow (v : src) : Prop := forall c, In c v -> is_wsf c = true -> w1 c.

Lemma In_firstn : forall (n : nat) (l : src) c, In c (firstn n l) -> In c l.
Proof.
  induction n as [|n IH]; intros [|a l] c H; cbn [firstn] in H; try contradiction.
  destruct H as [H|H]; [left; exact H|right; apply IH; exact H].
Qed.
Lemma In_skipn : forall (n : nat) (l : src) c, In c (skipn n l) -> In c l.
Proof.
  induction n as [|n IH]; intros [|a l] c H; cbn [skipn] in H; try contradiction; try exact H.
  right. apply IH. exact H.
Qed.

(** slicing inside a one-byte-wide prefix is always on a boundary *)
Lemma str_from_in_narrow_prefix : forall pre suf n, Forall w1 pre -> 0 <= n <= Z.of_nat (length pre) ->
  exists t, str_from (pre ++ suf) n = Ok t.
Proof.
  intros pre suf n Hpre Hn.
  assert (Hb : blen (firstn (Z.to_nat n) pre) = n).
  { rewrite blen_ascii.
    - rewrite firstn_length. lia.
    - apply Forall_forall. intros c Hc. rewrite Forall_forall in Hpre. apply Hpre.
      eapply In_firstn. exact Hc. }
  rewrite <- (firstn_skipn (Z.to_nat n) pre), <- app_assoc.
  remember (firstn (Z.to_nat n) pre) as a eqn:Ea. remember (skipn (Z.to_nat n) pre ++ suf) as b eqn:Eb.
  rewrite <- Hb. rewrite str_from_app. eexists. reflexivity.
Qed.

(** ** lines *)
Lemma strip_cr_In : forall rcur c, In c (strip_cr rcur) -> In c rcur.
Proof.
  intros [|a t] c H; cbn [strip_cr] in H; [contradiction|].
  destruct (cp a =? 13).
  - right. apply in_rev. exact H.
  - apply in_rev. exact H.
Qed.
Lemma split_lines_In : forall l rcur line c, In line (split_lines l rcur) -> In c line -> In c l \/ In c rcur.
Proof.
  induction l as [|a r IH]; intros rcur line c HL Hc; cbn [split_lines] in HL.
  - destruct rcur as [|x t]; [contradiction|]. destruct HL as [<-|[]]. right. apply in_rev. exact Hc.
  - destruct (cp a =? 10).
    + destruct HL as [<-|HL].
      * right. apply strip_cr_In. exact Hc.
      * destruct (IH [] line c HL Hc) as [H|[]]. left. right. exact H.
    + destruct (IH (a :: rcur) line c HL Hc) as [H|[H|H]].
      * left. right. exact H.
      * left. left. exact H.
      * right. exact H.
Qed.

(** ** indentation *)
Lemma take_ws_split : forall l, exists rest, l = take_ws l ++ rest.
Proof.
  induction l as [|c r [rest IH]]; [exists []; reflexivity|]. cbn [take_ws].
  destruct (is_wsf c).
  - exists rest. cbn [app]. rewrite <- IH. reflexivity.
  - exists (c :: r). reflexivity.
Qed.
Lemma take_ws_ws : forall l c, In c (take_ws l) -> is_wsf c = true /\ In c l.
Proof.
  induction l as [|a r IH]; intros c H; cbn [take_ws] in H; [contradiction|].
  destruct (is_wsf a) eqn:E; [|contradiction].
  destruct H as [<-|H]; [split; [exact E|left; reflexivity]|].
  destruct (IH c H) as [H1 H2]. split; [exact H1|right; exact H2].
Qed.
Lemma indent_nonneg : forall l, 0 <= indent_of l.
Proof. intro l. unfold indent_of. apply blen_nonneg. Qed.

Definition ci_step (acc : option Z) (l : src) : option Z :=
  if blank l then acc
  else Some (match acc with Some ci => Z.min ci (indent_of l) | None => indent_of l end).
Lemma common_indent_fold : forall ls, common_indent ls = fold_left ci_step ls None.
Proof. reflexivity. Qed.
Lemma ci_spec : forall ls acc n,
  fold_left ci_step ls acc = Some n ->
  (forall a, acc = Some a -> 0 <= a) ->
  0 <= n /\ (forall l, In l ls -> blank l = false -> n <= indent_of l) /\ (forall a, acc = Some a -> n <= a).
Proof.
  induction ls as [|l r IH]; intros acc n H Hacc; cbn [fold_left] in H.
  - subst acc. split; [apply Hacc; reflexivity|]. split; [intros l []|]. intros a E. injection E as <-. lia.
  - pose proof (indent_nonneg l) as Hi.
    assert (Hacc' : forall a, ci_step acc l = Some a -> 0 <= a).
    { unfold ci_step. destruct (blank l); [exact Hacc|]. intros a E. injection E as <-.
      destruct acc as [ci|]; [|exact Hi]. specialize (Hacc ci eq_refl). lia. }
    destruct (IH _ _ H Hacc') as (H0 & HL & HA). split; [exact H0|]. split.
    + intros l' [<-|Hin] Hb; [|apply HL; assumption].
      unfold ci_step in HA. rewrite Hb in HA.
      destruct acc as [ci|]; specialize (HA _ eq_refl); lia.
    + intros a E. subst acc. unfold ci_step in HA. destruct (blank l); specialize (HA _ eq_refl); lia.
Qed.

(** ** [dedent_pre] crashes only on wide white space *)
Lemma blank_all_ws : forall l, blank l = true -> forall c, In c l -> is_wsf c = true.
Proof. intros l H. unfold blank in H. rewrite forallb_forall in H. exact H. Qed.

Lemma line_slice_ok : forall l n, ws_narrow l -> 0 <= n ->
  (blank l = false -> n <= indent_of l) -> n < blen l -> exists t, str_from l n = Ok t.
Proof.
  intros l n Hws Hn Hind Hlt. destruct (blank l) eqn:Hb.
  - (* all white space, hence all one byte wide *)
    assert (Hall : Forall w1 l).
    { apply Forall_forall. intros c Hc. apply Hws; [exact Hc|]. eapply blank_all_ws; eassumption. }
    rewrite <- (app_nil_r l). apply str_from_in_narrow_prefix; [exact Hall|].
    rewrite <- (blen_ascii l Hall). lia.
  - specialize (Hind eq_refl). destruct (take_ws_split l) as [rest E].
    assert (Hall : Forall w1 (take_ws l)).
    { apply Forall_forall. intros c Hc. destruct (take_ws_ws _ _ Hc) as [H1 H2]. apply Hws; assumption. }
    rewrite E. apply str_from_in_narrow_prefix; [exact Hall|].
    unfold indent_of in Hind. rewrite (blen_ascii _ Hall) in Hind. lia.
Qed.

Lemma dedent_rest_total : forall ci ls,
  (forall l, In l ls -> ws_narrow l) ->
  (forall n, ci = Some n -> 0 <= n /\ forall l, In l ls -> blank l = false -> n <= indent_of l) ->
  exists y, dedent_rest_pre ci ls = Done y.
Proof.
  intros ci ls. induction ls as [|l r IH]; intros Hws Hci; cbn [dedent_rest_pre]; [eexists; reflexivity|].
  assert (Hx : exists x, match ci with
                         | Some n => if n <? blen l then match str_from l n with Ok t => Done t | Panic => Crash end else Done []
                         | None => Done l end = Done x).
  { destruct ci as [n|]; [|eexists; reflexivity].
    destruct (n <? blen l) eqn:E; [|eexists; reflexivity]. apply Z.ltb_lt in E.
    destruct (Hci n eq_refl) as [H0 HL].
    destruct (line_slice_ok l n (Hws l (or_introl eq_refl)) H0) as [t Ht]; [|exact E|].
    - intro Hb. apply HL; [left; reflexivity|exact Hb].
    - rewrite Ht. eexists. reflexivity. }
  destruct Hx as [x ->]. cbn [obind].
  destruct IH as [y ->].
  - intros l' Hl'. apply Hws. right. exact Hl'.
  - intros n E. destruct (Hci n E) as [H0 HL]. split; [exact H0|]. intros l' Hl'. apply HL. right. exact Hl'.
  - cbn [obind]. eexists. reflexivity.
Qed.

Theorem dedent_total_l : forall v, ws_narrow v -> exists r, dedent_pre v = Done r.
Proof.
  intros v Hws. unfold dedent_pre. destruct (split_lines v []) as [|first rest] eqn:E; [eexists; reflexivity|].
  destruct (dedent_rest_total (common_indent rest) rest) as [y ->].
  - intros l Hl c Hc Hw. apply Hws; [|exact Hw].
    destruct (split_lines_In v [] l c) as [H|[]]; [rewrite E; right; exact Hl|exact Hc|exact H].
  - intros n En. rewrite common_indent_fold in En.
    destruct (ci_spec rest None n En) as (H0 & HL & _); [intros a Ea; discriminate|]. split; assumption.
  - cbn [obind]. eexists. reflexivity.
Qed.

(** ** [read_block_pre] on ASCII documents *)
Lemma str_from_ascii_at : forall pre suf, Forall w1 (pre ++ suf) ->
  str_from (pre ++ suf) (Z.of_nat (length pre)) = Ok suf.
Proof.
  intros pre suf H. apply Forall_app in H. destruct H as [Hp _].
  rewrite <- (blen_ascii pre Hp). apply str_from_app.
Qed.

Lemma read_block_total : forall fuel s pre i acc,
  s = pre ++ i -> Forall w1 s -> (length i < fuel)%nat ->
  exists v, read_block_pre fuel s (Z.of_nat (length pre)) i acc = Done v /\
            forall c, In c v -> In c s \/ c = quote \/ In c acc.
Proof.
  induction fuel as [|f IH]; intros s pre i acc E Hs Hf; [lia|].
  assert (Hstep : forall c r acc', i = c :: r ->
            exists v, read_block_pre f s (Z.of_nat (length pre) + 1) r acc' = Done v /\
                      forall x, In x v -> In x s \/ x = quote \/ In x acc').
  { intros c r acc' Ei. subst i.
    replace (Z.of_nat (length pre) + 1) with (Z.of_nat (length (pre ++ [c]))) by (rewrite app_length; cbn [length]; lia).
    apply IH; [rewrite <- app_assoc; exact E|exact Hs|cbn [length] in Hf; lia]. }
  assert (Hin : forall c r, i = c :: r -> In c s).
  { intros c r Ei. rewrite E, Ei. apply in_or_app. right. left. reflexivity. }
  assert (Hpush : forall c r, i = c :: r ->
            exists v, read_block_pre f s (Z.of_nat (length pre) + 1) r (c :: acc) = Done v /\
                      forall x, In x v -> In x s \/ x = quote \/ In x acc).
  { intros c r Ei. destruct (Hstep c r (c :: acc) Ei) as (v & Hv & Hsub). exists v. split; [exact Hv|].
    intros x Hx. destruct (Hsub x Hx) as [H|[H|[<-|H]]]; auto. left. eapply Hin. exact Ei. }
  assert (Hsf : str_from s (Z.of_nat (length pre)) = Ok i).
  { rewrite E. apply str_from_ascii_at. rewrite <- E. exact Hs. }
  cbn [read_block_pre]. destruct i as [|c r].
  - exists (rev acc). split; [reflexivity|]. intros x Hx. right. right. apply in_rev. exact Hx.
  - destruct (cp c =? 34) eqn:Eq.
    + unfold gq_peek_next, gq_copy3. rewrite Hsf. cbn [obind].
      destruct (is_q (nth_error (c :: r) 1)).
      * destruct r as [|b [|c3 r3]]; cbn [obind]; try (apply (Hpush c _ eq_refl)).
        destruct ((cp c =? 34) && (cp b =? 34) && (cp c3 =? 34)).
        -- exists (rev acc). split; [reflexivity|]. intros x Hx. right. right. apply in_rev. exact Hx.
        -- apply (Hpush c _ eq_refl).
      * apply (Hpush c _ eq_refl).
    + destruct (cp c =? 92) eqn:Eb; [|apply (Hpush c _ eq_refl)].
      destruct r as [|q r']; [apply (Hpush c _ eq_refl)|].
      destruct (cp q =? 34); [|apply (Hpush c _ eq_refl)].
      unfold gq_peek_next.
      assert (Hsf1 : str_from s (Z.of_nat (length pre) + 1) = Ok (q :: r')).
      { replace (Z.of_nat (length pre) + 1) with (Z.of_nat (length (pre ++ [c]))) by (rewrite app_length; cbn [length]; lia).
        rewrite E. replace (pre ++ c :: q :: r') with ((pre ++ [c]) ++ q :: r') by (rewrite <- app_assoc; reflexivity).
        apply str_from_ascii_at. rewrite <- app_assoc. cbn [app]. rewrite <- E. exact Hs. }
      rewrite Hsf1. cbn [obind].
      destruct (is_q (nth_error (q :: r') 1)); [|apply (Hpush c _ eq_refl)].
      (* three advances *)
      set (k := firstn 3 (q :: r')).
      replace (Z.of_nat (length pre) + 1 + Z.of_nat (length k)) with (Z.of_nat (length ((pre ++ [c]) ++ k)))
        by (rewrite !app_length; cbn [length]; lia).
      destruct (IH s ((pre ++ [c]) ++ k) (skipn 3 (q :: r')) (quote :: quote :: quote :: acc)) as (v & Hv & Hsub).
      * rewrite <- !app_assoc. unfold k. rewrite (firstn_skipn 3 (q :: r')). exact E.
      * exact Hs.
      * pose proof (skipn_length 3 (q :: r')) as HL. cbn [length] in Hf, HL |- *. lia.
      * exists v. split; [exact Hv|]. intros x Hx.
        destruct (Hsub x Hx) as [H|[H|[<-|[<-|[<-|H]]]]]; auto.
Qed.

(** ** the values of all block strings of a token list *)
Theorem block_values_ascii_l : forall s ts, Forall w1 s ->
  Forall (fun t => 0 <= snd (fst t)) ts -> exists vs, block_values_pre s ts = Done vs.
Proof.
  intros s ts Hs Hts. induction Hts as [|t r Ht _ IH]; cbn [block_values_pre]; [eexists; reflexivity|].
  destruct IH as [vs IH]. destruct (fst (fst t) =? K_LSTR); [|exists vs; exact IH].
  set (p := snd (fst t) + 3). set (i := skipn (Z.to_nat p) s).
  assert (Hv : exists v, read_block_pre (S (length i)) s p i [] = Done v /\ forall c, In c v -> In c s \/ c = quote \/ In c []).
  { destruct (Nat.le_gt_cases (Z.to_nat p) (length s)) as [Hle|Hgt].
    - replace p with (Z.of_nat (length (firstn (Z.to_nat p) s))) by (rewrite firstn_length; unfold p in *; lia).
      apply read_block_total; [symmetry; apply firstn_skipn|exact Hs|lia].
    - assert (Ei : i = []) by (unfold i; apply skipn_all2; lia). rewrite Ei.
      exists []. split; [reflexivity|]. intros c []. }
  destruct Hv as (v & -> & Hsub). cbn [obind].
  destruct (dedent_total_l v) as [d ->].
  - intros c Hc Hw. destruct (Hsub c Hc) as [H|[->|[]]].
    + rewrite Forall_forall in Hs. apply Hs. exact H.
    + discriminate.
  - cbn [obind]. rewrite IH. cbn [obind]. eexists. reflexivity.
Qed.

(** ** iterator lexers: positions and token starts are character counts, hence not negative *)
Definition nn (st : state) : Prop := 0 <= pos st /\ 0 <= tstart st.

Lemma iter_step_nn : forall s st st1, nn st -> step_raw Iter s st = Done st1 -> nn st1.
Proof.
  intros s st st1 [H1 H2] H. unfold step_raw in H. injection H as <-.
  destruct (it st); unfold nn, setpos; cbn [pos tstart]; lia.
Qed.
Lemma iter_adv_g_nn : forall s st st1, nn st -> adv_g Iter s st = Done st1 -> nn st1.
Proof.
  intros s st st1 Hn H. unfold adv_g in H. destruct (at_end Iter s st).
  - injection H as <-. exact Hn.
  - eapply iter_step_nn; eassumption.
Qed.
Lemma iter_adv_byte_nn : forall s st st1, nn st -> adv_byte Iter s st = Done st1 -> nn st1.
Proof.
  intros s st st1 [H1 H2] H. unfold adv_byte in H. destruct (at_end Iter s st); injection H as <-.
  - split; assumption.
  - unfold nn, setpos; cbn [pos tstart]; lia.
Qed.

Lemma iter_run_nn : forall s fuel p st rr st', nn st -> run Iter s fuel p st = Done (rr, st') -> nn st'.
Proof.
  intro s. induction fuel as [fuel IHf] using lt_wf_ind.
  induction p; intros st rr st' Hn H; rewrite run_unfold in H.
  - unfold ret in H. injection H as _ <-. exact Hn.
  - injection H as _ <-. exact Hn.
  - destruct (adv_g Iter s st) as [st1| |] eqn:E; cbn [obind] in H; try discriminate.
    eapply IHp; [|exact H]. eapply iter_adv_g_nn; eassumption.
  - destruct (adv_u Iter s st) as [st1| |] eqn:E; cbn [obind] in H; try discriminate.
    eapply IHp; [|exact H]. unfold adv_u in E. eapply iter_step_nn; eassumption.
  - destruct (adv_byte Iter s st) as [st1| |] eqn:E; cbn [obind] in H; try discriminate.
    eapply IHp; [|exact H]. eapply iter_adv_byte_nn; eassumption.
  - destruct (eval_test Iter s t st) as [[|]| |]; cbn [obind] in H; try discriminate.
    + eapply IHp1; eassumption.
    + eapply IHp2; eassumption.
  - eapply IHp; [|exact H]. exact Hn.
  - destruct (cur Iter s st) as [x| |]; cbn [obind] in H; try discriminate.
    eapply IHp; [|exact H]. exact Hn.
  - eapply IHp; [|exact H]. exact Hn.
  - eapply IHp; [|exact H]. destruct Hn as [H1 H2]. split; cbn [pos tstart]; assumption.
  - discriminate.
  - destruct (run Iter s fuel p1 st) as [[sg st1]| |] eqn:E; cbn [obind] in H; try discriminate.
    assert (Hn1 : nn st1) by (eapply IHp1; eassumption).
    destruct sg as [kd| |].
    + injection H as _ <-. exact Hn1.
    + destruct fuel as [|f]; [discriminate|]. eapply (IHf f); [lia|exact Hn1|exact H].
    + eapply IHp2; eassumption.
  - injection H as _ <-. exact Hn.
  - injection H as _ <-. exact Hn.
Qed.

Lemma iter_tokenize_starts : forall s next fuel p i ts, 0 <= p ->
  tokenize Iter s next fuel p i = Done ts -> Forall (fun t : Z * Z * Z => 0 <= snd (fst t)) ts.
Proof.
  intros s next. induction fuel as [|f IH]; intros p i ts Hp H; cbn [tokenize] in H; [discriminate|].
  unfold next_token in H.
  destruct (run Iter s (length s) next (init_state p i)) as [[sg st]| |] eqn:E; cbn [obind] in H; try discriminate.
  assert (Hn : nn st).
  { eapply iter_run_nn; [|exact E]. unfold nn, init_state. cbn [pos tstart]. lia. }
  destruct sg as [k| |]; cbn [obind] in H; try discriminate.
  cbn [fst] in H. destruct (k =? 0).
  - injection H as <-. constructor; [cbn [fst snd]; apply Hn|constructor].
  - destruct (tokenize Iter s next f (pos st) (it st)) as [ts'| |] eqn:E2; cbn [obind] in H; try discriminate.
    injection H as <-. constructor; [cbn [fst snd]; apply Hn|].
    eapply IH; [|exact E2]. apply Hn.
Qed.

(** on ASCII documents the GraphQL lexer, the computation of its block-string values included,
    neither crashes nor runs out of fuel *)
Theorem graphql_full_ascii_l : forall s, Forall w1 s -> exists r, lex_graphql_full_pre s = Done r.
Proof.
  intros s Hs. unfold lex_graphql_full_pre.
  destruct (iter_lexer_ascii_safe graphql_next_pre eq_refl s Hs) as [ts Hts].
  unfold lex_graphql_pre. rewrite Hts. cbn [obind].
  destruct (block_values_ascii_l s ts Hs) as [vs ->].
  - unfold lex in Hts. eapply iter_tokenize_starts; [|exact Hts]. lia.
  - cbn [obind]. eexists. reflexivity.
Qed.

(** ** the code as it is now: no slicing of the source, no unchecked slicing of a line *)
Lemma read_block_done : forall fuel i acc, (length i < fuel)%nat -> exists v, read_block fuel i acc = Done v.
Proof.
  induction fuel as [|f IH]; intros i acc Hf; [lia|]. cbn [read_block].
  destruct i as [|c r]; [eexists; reflexivity|]. cbn [length] in Hf.
  assert (Hr : forall acc', exists v, read_block f r acc' = Done v) by (intro; apply IH; lia).
  destruct (cp c =? 34).
  - destruct (is_q (nth_error (c :: r) 1)); [|apply Hr]. destruct (q3 (c :: r)); [eexists; reflexivity|apply Hr].
  - destruct (cp c =? 92); [|apply Hr]. destruct r as [|q r']; [apply Hr|].
    destruct ((cp q =? 34) && is_q (nth_error (q :: r') 1)); [|apply Hr].
    apply IH. pose proof (skipn_length 3 (q :: r')). cbn [length] in *. lia.
Qed.

Lemma block_values_total_l : forall s ts, exists vs, block_values s ts = Done vs.
Proof.
  intros s ts. induction ts as [|t r [vs IH]]; cbn [block_values]; [eexists; reflexivity|].
  destruct (fst (fst t) =? K_LSTR); [|exists vs; exact IH].
  destruct (read_block_done (S (length (skipn (Z.to_nat (snd (fst t) + 3)) s))) (skipn (Z.to_nat (snd (fst t) + 3)) s) []) as [v ->]; [lia|].
  cbn [obind]. rewrite IH. cbn [obind]. eexists. reflexivity.
Qed.

(** on EVERY document the GraphQL lexer, the computation of its block-string values included, neither
    crashes nor runs out of fuel *)
Theorem graphql_full_total_l : forall s, exists r, lex_graphql_full s = Done r.
Proof.
  intro s. unfold lex_graphql_full.
  destruct (iter_lexer_safe graphql_next eq_refl s) as [ts Hts].
  unfold lex_graphql. rewrite Hts. cbn [obind].
  destruct (block_values_total_l s ts) as [vs ->]. cbn [obind]. eexists. reflexivity.
Qed.
