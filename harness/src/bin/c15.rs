//! C15 — codecs: runs the real encoders/decoders on generated inputs and emits, per case,
//! the Coq term comparing the implementation's observable output with the model
//! (GV.Codec.Run) plus the round-trip oracle evaluated on the implementation itself.
use grafeo_core::storage::{
    BitPackedInts, DeltaBitPacked, DeltaEncoding, RunLengthEncoding, SignedRunLengthEncoding,
    zigzag_decode, zigzag_encode,
};
use gv_harness::*;

const U_BOUND: [u64; 14] = [
    0, 1, 2, 3, 255, 256, 65535, 1 << 31, (1 << 32) - 1, 1 << 32, (1 << 53) + 1, (1 << 63) - 1, 1 << 63, u64::MAX,
];
const I_BOUND: [i64; 13] = [
    0, 1, -1, 2, -2, 127, -128, i64::MAX, i64::MIN, i64::MAX - 1, i64::MIN + 1, 1 << 53, -(1 << 62),
];

fn mode() -> &'static str {
    if cfg!(debug_assertions) { "Checked" } else { "Wrapping" }
}

fn gen_u64(r: &mut Rng) -> u64 {
    match r.below(6) {
        0 => *r.pick(&U_BOUND),
        1 => r.below(16),
        2 => r.below(1 << 20),
        3 => {
            let w = r.below(65);
            if w == 0 { 0 } else if w == 64 { r.next() } else { r.next() & ((1u64 << w) - 1) }
        }
        4 => u64::MAX - r.below(4),
        _ => r.next(),
    }
}
fn gen_i64(r: &mut Rng) -> i64 {
    match r.below(5) {
        0 => *r.pick(&I_BOUND),
        1 => r.range(-8, 8),
        2 => r.range(-100000, 100000),
        3 => i64::MIN + r.below(4) as i64,
        _ => r.next() as i64,
    }
}
fn gen_len(r: &mut Rng) -> usize {
    match r.below(10) {
        0 => 0,
        1 => 1,
        2 => 2,
        3 => *r.pick(&[63usize, 64, 65, 127, 128, 129]),
        4 | 5 => r.below(8) as usize,
        _ => r.below(40) as usize,
    }
}
fn gen_u_list(r: &mut Rng) -> (Vec<u64>, &'static str) {
    let n = gen_len(r);
    match r.below(7) {
        0 => {
            let v = gen_u64(r);
            (vec![v; n], "all-equal")
        }
        1 => {
            // strictly increasing small steps
            let mut c = gen_u64(r) >> 1;
            let mut v = Vec::new();
            for _ in 0..n {
                v.push(c);
                c = c.saturating_add(1 + r.below(5));
            }
            (v, "increasing")
        }
        2 => {
            // bounded width
            let w = 1 + r.below(64);
            let m = if w == 64 { u64::MAX } else { (1u64 << w) - 1 };
            ((0..n).map(|_| r.next() & m).collect(), "width")
        }
        3 => {
            let mut v: Vec<u64> = (0..n).map(|_| gen_u64(r)).collect();
            v.sort();
            (v, "sorted")
        }
        4 => {
            // runs
            let mut v = Vec::new();
            while v.len() < n {
                let x = r.below(4);
                let l = 1 + r.below(5) as usize;
                for _ in 0..l {
                    v.push(x);
                }
            }
            v.truncate(n);
            (v, "runs")
        }
        5 => ((0..n).map(|_| *r.pick(&U_BOUND)).collect(), "boundary"),
        _ => ((0..n).map(|_| gen_u64(r)).collect(), "random"),
    }
}
fn gen_i_list(r: &mut Rng) -> (Vec<i64>, &'static str) {
    let n = gen_len(r);
    match r.below(5) {
        0 => ((0..n).map(|_| *r.pick(&I_BOUND)).collect(), "boundary"),
        1 => ((0..n).map(|_| r.range(-5, 5)).collect(), "small"),
        2 => {
            let v = gen_i64(r);
            (vec![v; n], "all-equal")
        }
        3 => ((0..n).map(|_| if r.chance(1, 2) { i64::MIN + r.below(3) as i64 } else { i64::MAX - r.below(3) as i64 }).collect(), "extremes"),
        _ => ((0..n).map(|_| gen_i64(r)).collect(), "random"),
    }
}

fn nontrivial_u(xs: &[u64]) -> bool {
    (xs.len() >= 2 && xs.iter().any(|&x| x != xs[0])) || xs.iter().any(|x| U_BOUND.contains(x) && *x > 3)
}
fn nontrivial_i(xs: &[i64]) -> bool {
    (xs.len() >= 2 && xs.iter().any(|&x| x != xs[0])) || xs.iter().any(|x| I_BOUND.contains(x) && x.unsigned_abs() > 2)
}

fn obs_delta(e: &DeltaEncoding, dec: String) -> String {
    let bytes = e.to_bytes();
    format!(
        "(ObsDelta {} {} {} {} {}",
        coq::zu(e.base()),
        coq::zlist_u64(e.deltas()),
        coq::z(e.len() as i64),
        dec,
        coq::bytes(&bytes)
    )
}

fn case_zigzag(r: &mut Rng, out: &mut Out) {
    let v = gen_i64(r);
    let w = gen_u64(r);
    let u = zigzag_encode(v);
    let d = zigzag_decode(w);
    let ok = zigzag_decode(u) == v && zigzag_encode(d) == w;
    out.emit(&Case {
        kind: "zigzag".into(),
        input: format!("v={} w={}", v, w),
        coq: Some(format!("chk_zigzag {} {} {} {}", coq::z(v), coq::zu(u), coq::zu(w), coq::z(d))),
        oracle: if ok { Oracle::Ok } else { Oracle::Fail },
        msg: if ok { String::new() } else { "zigzag round trip".into() },
        nontrivial: v != 0 || w != 0,
        imp: format!("enc={} dec={}", u, d),
        ..Default::default()
    });
}

fn case_delta_u(r: &mut Rng, out: &mut Out) {
    let (xs, tag) = gen_u_list(r);
    let sorted = xs.windows(2).all(|w| w[0] <= w[1]);
    let x2 = xs.clone();
    let res = catch(move || {
        let e = DeltaEncoding::encode(&x2);
        let dec = e.decode();
        (e, dec)
    });
    let (o, oracle, msg, imp) = match &res {
        Err(_) => ("Panic".to_string(), Oracle::Na, String::new(), "panic".to_string()),
        Ok((e, dec)) => {
            let bytes = e.to_bytes();
            let rp = match DeltaEncoding::from_bytes(&bytes) {
                Ok(e2) => Some(coq::zlist_u64(&e2.decode())),
                Err(_) => None,
            };
            let rt = !sorted || (*dec == xs && rp.as_deref() == Some(&coq::zlist_u64(&xs)));
            (
                format!("(Ok {} {}))", obs_delta(e, coq::zlist_u64(dec)), coq::opt(rp)),
                if rt { Oracle::Ok } else { Oracle::Fail },
                if rt { String::new() } else { "decode(encode(xs)) != xs on sorted input, or bytes round trip".into() },
                format!("decoded={:?}", dec),
            )
        }
    };
    // a panic on sorted input is a property failure
    let (oracle, msg) = if res.is_err() && sorted { (Oracle::Fail, "panic on sorted input".to_string()) } else { (oracle, msg) };
    out.emit(&Case {
        kind: "delta_u".into(),
        input: format!("{:?}", xs),
        coq: Some(format!("chk_delta_u {} {} {}", mode(), coq::zlist_u64(&xs), o)),
        oracle,
        msg,
        nontrivial: nontrivial_u(&xs),
        imp,
        tags: vec![format!("u:{}", tag), format!("len:{}", len_bucket(xs.len()))],
        ..Default::default()
    });
}

fn len_bucket(n: usize) -> &'static str {
    match n {
        0 => "0",
        1 => "1",
        2..=8 => "2-8",
        9..=62 => "9-62",
        63..=65 => "63-65",
        _ => "66+",
    }
}

fn case_delta_s(r: &mut Rng, out: &mut Out, forced: Option<Vec<i64>>) {
    let (xs, tag) = match forced {
        Some(v) => (v, "corpus"),
        None => gen_i_list(r),
    };
    let x2 = xs.clone();
    let res = catch(move || {
        let e = DeltaEncoding::encode_signed(&x2);
        let dec = e.decode_signed();
        (e, dec)
    });
    let (o, oracle, msg, imp) = match &res {
        Err(m) => ("Panic".to_string(), Oracle::Fail, format!("panic: {}", m), "panic".to_string()),
        Ok((e, dec)) => {
            let bytes = e.to_bytes();
            let rp = match DeltaEncoding::from_bytes(&bytes) {
                Ok(e2) => catch(move || e2.decode_signed()).ok().map(|d| coq::zlist_i64(&d)),
                Err(_) => None,
            };
            let rt = *dec == xs && rp.as_deref() == Some(&coq::zlist_i64(&xs));
            (
                format!("(Ok {} {}))", obs_delta(e, coq::zlist_i64(dec)), coq::opt(rp)),
                if rt { Oracle::Ok } else { Oracle::Fail },
                if rt { String::new() } else { "decode_signed(encode_signed(xs)) != xs".into() },
                format!("decoded={:?}", dec),
            )
        }
    };
    out.emit(&Case {
        kind: "delta_s".into(),
        input: format!("{:?}", xs),
        coq: Some(format!("chk_delta_s {} {}", coq::zlist_i64(&xs), o)),
        show: Some(format!("delta_decode_signed (delta_encode_signed {})", coq::zlist_i64(&xs))),
        oracle,
        msg,
        nontrivial: nontrivial_i(&xs),
        imp,
        tags: vec![format!("i:{}", tag), format!("len:{}", len_bucket(xs.len()))],
        ..Default::default()
    });
}

fn gets_of(n: usize, r: &mut Rng, f: &dyn Fn(usize) -> Option<u64>) -> (String, Vec<(usize, Option<u64>)>) {
    let mut idx: Vec<usize> = vec![0, n.saturating_sub(1), n, n + 1];
    for _ in 0..6 {
        idx.push(r.below(n as u64 + 2) as usize);
    }
    if n <= 70 {
        idx.extend(0..n);
    }
    let gs: Vec<(usize, Option<u64>)> = idx.iter().map(|&i| (i, f(i))).collect();
    let s = coq::list(gs.iter().map(|(i, v)| coq::pair(&coq::z(*i as i64), &coq::opt(v.map(coq::zu)))));
    (s, gs)
}

fn obs_bp(p: &BitPackedInts, r: &mut Rng, xs: &[u64]) -> (String, bool) {
    let un = p.unpack();
    let (gs, gv) = gets_of(p.len(), r, &|i| p.get(i));
    let bytes = p.to_bytes();
    let mut ok = un == xs;
    for (i, v) in &gv {
        if *v != xs.get(*i).copied() {
            ok = false;
        }
    }
    match BitPackedInts::from_bytes(&bytes) {
        Ok(q) => {
            if q.unpack() != xs {
                ok = false
            }
        }
        Err(_) => ok = false,
    }
    (
        format!(
            "(ObsBp {} {} {} {} {} {})",
            coq::z(p.bits_per_value() as i64),
            coq::zlist_u64(p.data()),
            coq::z(p.len() as i64),
            coq::zlist_u64(&un),
            gs,
            coq::bytes(&bytes)
        ),
        ok,
    )
}

fn case_pack(r: &mut Rng, out: &mut Out) {
    let (xs, tag) = gen_u_list(r);
    let p = BitPackedInts::pack(&xs);
    let (o, ok) = obs_bp(&p, r, &xs);
    out.emit(&Case {
        kind: "pack".into(),
        input: format!("{:?}", xs),
        coq: Some(format!("chk_pack {} {}", coq::zlist_u64(&xs), o)),
        show: Some(format!("unpack (pack {})", coq::zlist_u64(&xs))),
        oracle: if ok { Oracle::Ok } else { Oracle::Fail },
        msg: if ok { String::new() } else { "unpack/get/from_bytes after pack differ from input".into() },
        nontrivial: nontrivial_u(&xs),
        imp: format!("bits={} unpacked={:?}", p.bits_per_value(), p.unpack()),
        tags: vec![format!("u:{}", tag), format!("bits:{}", p.bits_per_value()), format!("len:{}", len_bucket(xs.len()))],
        ..Default::default()
    });
}

fn case_pack_with_bits(r: &mut Rng, out: &mut Out) {
    let (xs, tag) = gen_u_list(r);
    let need = xs.iter().copied().max().map(BitPackedInts::bits_needed).unwrap_or(1);
    let bits: u8 = match r.below(4) {
        0 => need,
        1 => (need as u64 + r.below(65 - need as u64)) as u8,
        2 => r.below(65) as u8,
        _ => 64,
    };
    let fits = xs.is_empty() || (bits >= need) || (bits == 0 && xs.iter().all(|&v| v == 0));
    let x2 = xs.clone();
    let res = catch(move || BitPackedInts::pack_with_bits(&x2, bits));
    let (o, oracle, msg, imp) = match &res {
        Err(m) => (
            "Panic".to_string(),
            if fits { Oracle::Fail } else { Oracle::Na },
            if fits { format!("panic although values fit: {}", m) } else { String::new() },
            "panic".to_string(),
        ),
        Ok(p) => {
            let (o, ok) = obs_bp(p, r, &xs);
            let ok = ok || !fits;
            (
                format!("(Ok {})", o),
                if ok { Oracle::Ok } else { Oracle::Fail },
                if ok { String::new() } else { "round trip with explicit width".into() },
                format!("unpacked={:?}", p.unpack()),
            )
        }
    };
    out.emit(&Case {
        kind: "pack_with_bits".into(),
        input: format!("{:?} bits={}", xs, bits),
        coq: Some(format!("chk_pack_with_bits {} {} {} {}", mode(), coq::zlist_u64(&xs), coq::z(bits as i64), o)),
        oracle,
        msg,
        nontrivial: nontrivial_u(&xs),
        imp,
        tags: vec![format!("u:{}", tag), format!("wbits:{}", bits), if fits { "fits".into() } else { "nofit".into() }],
        ..Default::default()
    });
}

fn case_bp_from_bytes(r: &mut Rng, out: &mut Out) {
    // mostly-valid bytes with a mutated header / truncation
    let (xs, _) = gen_u_list(r);
    let mut bytes = BitPackedInts::pack(&xs).to_bytes();
    let tag;
    match r.below(5) {
        0 => {
            tag = "valid";
        }
        1 => {
            let n = r.below(bytes.len() as u64 + 1) as usize;
            bytes.truncate(n);
            tag = "truncated";
        }
        2 => {
            if !bytes.is_empty() {
                bytes[0] = r.below(256) as u8;
            }
            tag = "width-byte";
        }
        3 => {
            if !bytes.is_empty() {
                let i = r.below(bytes.len().min(6) as u64) as usize;
                bytes[i] ^= 1 << r.below(8);
            }
            tag = "header-flip";
        }
        _ => {
            bytes = (0..r.below(30)).map(|_| r.below(256) as u8).collect();
            if bytes.len() >= 5 && r.chance(1, 2) {
                bytes[2] = 0;
                bytes[3] = 0;
                bytes[4] = 0;
            }
            tag = "random";
        }
    }
    // keep counts small so that the model side stays cheap
    if bytes.len() >= 5 {
        bytes[3] = 0;
        bytes[4] = 0;
    }
    let b2 = bytes.clone();
    let res = catch(move || BitPackedInts::from_bytes(&b2).map(|p| (p.bits_per_value(), p.data().to_vec(), p.len())));
    let (o, oracle, msg, kcoq, kid, imp) = match &res {
        // a panic on bytes that no encoder produces is an observation (modelled), not a
        // failure of the round-trip property
        Err(m) => ("FbPanic".to_string(), Oracle::Na, format!("from_bytes panics: {}", m), None, None, "panic".to_string()),
        Ok(Err(_)) => ("FbErr".to_string(), Oracle::Ok, String::new(), None, None, "Err".to_string()),
        Ok(Ok((b, d, c))) => (
            format!("(FbOk {} {} {})", coq::z(*b as i64), coq::zlist_u64(d), coq::z(*c as i64)),
            Oracle::Ok,
            String::new(),
            None,
            None,
            format!("Ok bits={} count={}", b, c),
        ),
    };
    out.emit(&Case {
        kind: "bp_from_bytes".into(),
        input: format!("{:?}", bytes),
        coq: Some(format!("chk_bp_from_bytes {} {}", coq::bytes(&bytes), o)),
        oracle,
        msg,
        kcoq,
        kid,
        nontrivial: bytes.len() >= 5,
        imp,
        tags: vec![format!("fb:{}", tag)],
        ..Default::default()
    });
}

fn case_dbp(r: &mut Rng, out: &mut Out, forced: Option<Vec<u64>>) {
    let (xs, tag) = match forced {
        Some(v) => (v, "corpus"),
        None => {
            let (mut v, t) = gen_u_list(r);
            v.sort();
            if r.chance(1, 12) {
                v = vec![r.below(3)];
            }
            (v, t)
        }
    };
    let e = DeltaBitPacked::encode(&xs);
    let dec = e.decode();
    let bytes = e.to_bytes();
    let mut ok = dec == xs && e.len() == xs.len();
    match DeltaBitPacked::from_bytes(&bytes) {
        Ok(e2) => {
            if e2.decode() != xs {
                ok = false
            }
        }
        Err(_) => ok = false,
    }
    // the packed deltas are not exposed: recover them through the byte form (base 8 bytes, then BitPackedInts bytes)
    let inner = BitPackedInts::from_bytes(&bytes[8..]).expect("inner");
    let o = format!(
        "(ObsDbp {} {} {} {} {} {} {})",
        coq::zu(e.base()),
        coq::z(e.bits_per_delta() as i64),
        coq::zlist_u64(inner.data()),
        coq::z(inner.len() as i64),
        coq::zlist_u64(&dec),
        coq::z(e.len() as i64),
        coq::bytes(&bytes)
    );
    out.emit(&Case {
        kind: "dbp".into(),
        input: format!("{:?}", xs),
        coq: Some(format!("chk_dbp {} {}", coq::zlist_u64(&xs), o)),
        show: Some(format!("dbp_decode (dbp_encode {})", coq::zlist_u64(&xs))),
        oracle: if ok { Oracle::Ok } else { Oracle::Fail },
        msg: if ok { String::new() } else { "DeltaBitPacked decode/len/from_bytes differ from the sorted input".into() },
        kcoq: if ok { None } else { Some(format!("k_dbp_single_zero {}", coq::zlist_u64(&xs))) },
        kid: if ok { None } else { Some("C15-K1".into()) },
        nontrivial: nontrivial_u(&xs),
        imp: format!("decoded={:?} len={}", dec, e.len()),
        tags: vec![format!("u:{}", tag), format!("len:{}", len_bucket(xs.len()))],
        ..Default::default()
    });
}

fn case_rle(r: &mut Rng, out: &mut Out) {
    let (xs, tag) = gen_u_list(r);
    let e = RunLengthEncoding::encode(&xs);
    let dec = e.decode();
    let (gs, gv) = gets_of(xs.len(), r, &|i| e.get(i));
    let it: Vec<u64> = e.iter().collect();
    let bytes = e.to_bytes();
    let mut ok = dec == xs && it == xs && e.total_count() == xs.len();
    for (i, v) in &gv {
        if *v != xs.get(*i).copied() {
            ok = false;
        }
    }
    match RunLengthEncoding::from_bytes(&bytes) {
        Ok(e2) => {
            if e2.decode() != xs {
                ok = false
            }
        }
        Err(_) => ok = false,
    }
    let runs = coq::list(e.runs().iter().map(|r| coq::pair(&coq::zu(r.value), &coq::zu(r.length))));
    let o = format!(
        "(ObsRle {} {} {} {} {} {})",
        runs,
        coq::z(e.total_count() as i64),
        coq::zlist_u64(&dec),
        gs,
        coq::zlist_u64(&it),
        coq::bytes(&bytes)
    );
    out.emit(&Case {
        kind: "rle".into(),
        input: format!("{:?}", xs),
        coq: Some(format!("chk_rle {} {}", coq::zlist_u64(&xs), o)),
        oracle: if ok { Oracle::Ok } else { Oracle::Fail },
        msg: if ok { String::new() } else { "RLE decode/get/iter/from_bytes differ from input".into() },
        nontrivial: nontrivial_u(&xs),
        imp: format!("runs={} decoded={:?}", e.run_count(), dec),
        tags: vec![format!("u:{}", tag), format!("len:{}", len_bucket(xs.len()))],
        ..Default::default()
    });
}

fn case_srle(r: &mut Rng, out: &mut Out) {
    let (xs, tag) = gen_i_list(r);
    let e = SignedRunLengthEncoding::encode(&xs);
    let dec = e.decode();
    let bytes = e.to_bytes();
    let inner = RunLengthEncoding::from_bytes(&bytes).expect("inner rle");
    let mut ok = dec == xs;
    match SignedRunLengthEncoding::from_bytes(&bytes) {
        Ok(e2) => {
            if e2.decode() != xs {
                ok = false
            }
        }
        Err(_) => ok = false,
    }
    let runs = coq::list(inner.runs().iter().map(|r| coq::pair(&coq::zu(r.value), &coq::zu(r.length))));
    out.emit(&Case {
        kind: "srle".into(),
        input: format!("{:?}", xs),
        coq: Some(format!("chk_srle {} {} {}", coq::zlist_i64(&xs), runs, coq::zlist_i64(&dec))),
        oracle: if ok { Oracle::Ok } else { Oracle::Fail },
        msg: if ok { String::new() } else { "signed RLE round trip".into() },
        nontrivial: nontrivial_i(&xs),
        imp: format!("decoded={:?}", dec),
        tags: vec![format!("i:{}", tag)],
        ..Default::default()
    });
}

fn main() {
    let a = parse_args();
    quiet_panics();
    let mut out = Out::create(a.out.as_deref());
    let mut r = Rng::new(a.seed);
    // corpus first: the witnesses of the findings and earlier minimised failures
    case_delta_s(&mut r, &mut out, Some(vec![i64::MIN, i64::MAX]));
    case_delta_s(&mut r, &mut out, Some(vec![i64::MAX, i64::MIN]));
    case_delta_s(&mut r, &mut out, Some(vec![0, i64::MIN]));
    case_delta_s(&mut r, &mut out, Some(vec![-2, i64::MAX, -1]));
    case_dbp(&mut r, &mut out, Some(vec![0]));
    case_dbp(&mut r, &mut out, Some(vec![0, 0]));
    case_dbp(&mut r, &mut out, Some(vec![1]));
    case_dbp(&mut r, &mut out, Some(vec![]));
    for i in 0..a.cases {
        match i % 9 {
            0 => case_zigzag(&mut r, &mut out),
            1 => case_delta_u(&mut r, &mut out),
            2 => case_delta_s(&mut r, &mut out, None),
            3 => case_pack(&mut r, &mut out),
            4 => case_pack_with_bits(&mut r, &mut out),
            5 => case_dbp(&mut r, &mut out, None),
            6 => case_rle(&mut r, &mut out),
            7 => case_srle(&mut r, &mut out),
            _ => case_bp_from_bytes(&mut r, &mut out),
        }
    }
    out.finish();
}
