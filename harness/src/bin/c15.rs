//! C15 — codecs: runs the real encoders/decoders on generated inputs and emits, per case,
//! the Coq term comparing the implementation's observable output with the model
//! (GV.Codec.Run) plus the round-trip oracle evaluated on the implementation itself.
use grafeo_common::types::{EdgeId, NodeId, PropertyKey, Value};
use grafeo_core::graph::lpg::PropertyStorage;
use grafeo_core::index::ChunkedAdjacency;
use grafeo_core::storage::{EliasFano, SuccinctBitVector, WaveletTree};
use grafeo_core::storage::{
    BitPackedInts, BitVector, CompressionCodec, DeltaBitPacked, DeltaEncoding, DictionaryBuilder,
    RunLengthEncoding, SignedRunLengthEncoding, TypeSpecificCompressor, zigzag_decode, zigzag_encode,
};
use gv_harness::*;

const U_BOUND: [u64; 14] = [
    0, 1, 2, 3, 255, 256, 65535, 1 << 31, (1 << 32) - 1, 1 << 32, (1 << 53) + 1, (1 << 63) - 1, 1 << 63, u64::MAX,
];
const I_BOUND: [i64; 13] = [
    0, 1, -1, 2, -2, 127, -128, i64::MAX, i64::MIN, i64::MAX - 1, i64::MIN + 1, 1 << 53, -(1 << 62),
];

fn mode() -> &'static str {
    if cfg!(debug_assertions) { "Checked" } else { "Wrapping" }
}

fn gen_u64(r: &mut Rng) -> u64 {
    match r.below(6) {
        0 => *r.pick(&U_BOUND),
        1 => r.below(16),
        2 => r.below(1 << 20),
        3 => {
            let w = r.below(65);
            if w == 0 { 0 } else if w == 64 { r.next() } else { r.next() & ((1u64 << w) - 1) }
        }
        4 => u64::MAX - r.below(4),
        _ => r.next(),
    }
}
fn gen_i64(r: &mut Rng) -> i64 {
    match r.below(5) {
        0 => *r.pick(&I_BOUND),
        1 => r.range(-8, 8),
        2 => r.range(-100000, 100000),
        3 => i64::MIN + r.below(4) as i64,
        _ => r.next() as i64,
    }
}
fn gen_len(r: &mut Rng) -> usize {
    match r.below(10) {
        0 => 0,
        1 => 1,
        2 => 2,
        3 => *r.pick(&[63usize, 64, 65, 127, 128, 129]),
        4 | 5 => r.below(8) as usize,
        _ => r.below(40) as usize,
    }
}
fn gen_u_list(r: &mut Rng) -> (Vec<u64>, &'static str) {
    let n = gen_len(r);
    match r.below(8) {
        7 => {
            // almost sorted: a sorted sequence with ONE element out of place, most often the
            // first or the last (boundary of every windowed comparison)
            let n = n.max(3) + if r.chance(1, 2) { 8 } else { 0 };
            let mut v: Vec<u64> = Vec::with_capacity(n);
            let mut c = r.below(1000);
            for _ in 0..n {
                v.push(c);
                c += 1 + r.below(4);
            }
            let pos = match r.below(4) {
                0 => 0,
                1 | 2 => n - 1,
                _ => r.below(n as u64) as usize,
            };
            v[pos] = if pos == 0 { v[n - 1] + 1 + r.below(3) } else { v[pos - 1].saturating_sub(1 + r.below(3)) };
            (v, "almost-sorted")
        }
        0 => {
            let v = gen_u64(r);
            (vec![v; n], "all-equal")
        }
        1 => {
            // strictly increasing small steps
            let mut c = gen_u64(r) >> 1;
            let mut v = Vec::new();
            for _ in 0..n {
                v.push(c);
                c = c.saturating_add(1 + r.below(5));
            }
            (v, "increasing")
        }
        2 => {
            // bounded width
            let w = 1 + r.below(64);
            let m = if w == 64 { u64::MAX } else { (1u64 << w) - 1 };
            ((0..n).map(|_| r.next() & m).collect(), "width")
        }
        3 => {
            let mut v: Vec<u64> = (0..n).map(|_| gen_u64(r)).collect();
            v.sort();
            (v, "sorted")
        }
        4 => {
            // runs
            let mut v = Vec::new();
            while v.len() < n {
                let x = r.below(4);
                let l = 1 + r.below(5) as usize;
                for _ in 0..l {
                    v.push(x);
                }
            }
            v.truncate(n);
            (v, "runs")
        }
        5 => ((0..n).map(|_| *r.pick(&U_BOUND)).collect(), "boundary"),
        _ => ((0..n).map(|_| gen_u64(r)).collect(), "random"),
    }
}
fn gen_i_list(r: &mut Rng) -> (Vec<i64>, &'static str) {
    let n = gen_len(r);
    match r.below(5) {
        0 => ((0..n).map(|_| *r.pick(&I_BOUND)).collect(), "boundary"),
        1 => ((0..n).map(|_| r.range(-5, 5)).collect(), "small"),
        2 => {
            let v = gen_i64(r);
            (vec![v; n], "all-equal")
        }
        3 => ((0..n).map(|_| if r.chance(1, 2) { i64::MIN + r.below(3) as i64 } else { i64::MAX - r.below(3) as i64 }).collect(), "extremes"),
        _ => ((0..n).map(|_| gen_i64(r)).collect(), "random"),
    }
}

fn nontrivial_u(xs: &[u64]) -> bool {
    (xs.len() >= 2 && xs.iter().any(|&x| x != xs[0])) || xs.iter().any(|x| U_BOUND.contains(x) && *x > 3)
}
fn nontrivial_i(xs: &[i64]) -> bool {
    (xs.len() >= 2 && xs.iter().any(|&x| x != xs[0])) || xs.iter().any(|x| I_BOUND.contains(x) && x.unsigned_abs() > 2)
}

fn obs_delta(e: &DeltaEncoding, dec: String) -> String {
    let bytes = e.to_bytes();
    format!(
        "(ObsDelta {} {} {} {} {}",
        coq::zu(e.base()),
        coq::zlist_u64(e.deltas()),
        coq::z(e.len() as i64),
        dec,
        coq::bytes(&bytes)
    )
}

fn case_zigzag(r: &mut Rng, out: &mut Out) {
    let v = gen_i64(r);
    let w = gen_u64(r);
    let u = zigzag_encode(v);
    let d = zigzag_decode(w);
    let ok = zigzag_decode(u) == v && zigzag_encode(d) == w;
    out.emit(&Case {
        kind: "zigzag".into(),
        input: format!("v={} w={}", v, w),
        coq: Some(format!("chk_zigzag {} {} {} {}", coq::z(v), coq::zu(u), coq::zu(w), coq::z(d))),
        oracle: if ok { Oracle::Ok } else { Oracle::Fail },
        msg: if ok { String::new() } else { "zigzag round trip".into() },
        nontrivial: v != 0 || w != 0,
        imp: format!("enc={} dec={}", u, d),
        ..Default::default()
    });
}

fn case_delta_u(r: &mut Rng, out: &mut Out) {
    let (xs, tag) = gen_u_list(r);
    let sorted = xs.windows(2).all(|w| w[0] <= w[1]);
    let x2 = xs.clone();
    let res = catch(move || {
        let e = DeltaEncoding::encode(&x2);
        let dec = e.decode();
        (e, dec)
    });
    let (o, oracle, msg, imp) = match &res {
        Err(_) => ("Panic".to_string(), Oracle::Na, String::new(), "panic".to_string()),
        Ok((e, dec)) => {
            let bytes = e.to_bytes();
            let rp = match DeltaEncoding::from_bytes(&bytes) {
                Ok(e2) => Some(coq::zlist_u64(&e2.decode())),
                Err(_) => None,
            };
            let rt = !sorted || (*dec == xs && rp.as_deref() == Some(&coq::zlist_u64(&xs)));
            (
                format!("(Ok {} {}))", obs_delta(e, coq::zlist_u64(dec)), coq::opt(rp)),
                if rt { Oracle::Ok } else { Oracle::Fail },
                if rt { String::new() } else { "decode(encode(xs)) != xs on sorted input, or bytes round trip".into() },
                format!("decoded={:?}", dec),
            )
        }
    };
    // a panic on sorted input is a property failure
    let (oracle, msg) = if res.is_err() && sorted { (Oracle::Fail, "panic on sorted input".to_string()) } else { (oracle, msg) };
    out.emit(&Case {
        kind: "delta_u".into(),
        input: format!("{:?}", xs),
        coq: Some(format!("chk_delta_u {} {} {}", mode(), coq::zlist_u64(&xs), o)),
        oracle,
        msg,
        nontrivial: nontrivial_u(&xs),
        imp,
        tags: vec![format!("u:{}", tag), format!("len:{}", len_bucket(xs.len()))],
        ..Default::default()
    });
}

fn len_bucket(n: usize) -> &'static str {
    match n {
        0 => "0",
        1 => "1",
        2..=8 => "2-8",
        9..=62 => "9-62",
        63..=65 => "63-65",
        _ => "66+",
    }
}

fn case_delta_s(r: &mut Rng, out: &mut Out, forced: Option<Vec<i64>>) {
    let (xs, tag) = match forced {
        Some(v) => (v, "corpus"),
        None => gen_i_list(r),
    };
    let x2 = xs.clone();
    let res = catch(move || {
        let e = DeltaEncoding::encode_signed(&x2);
        let dec = e.decode_signed();
        (e, dec)
    });
    let (o, oracle, msg, imp) = match &res {
        Err(m) => ("Panic".to_string(), Oracle::Fail, format!("panic: {}", m), "panic".to_string()),
        Ok((e, dec)) => {
            let bytes = e.to_bytes();
            let rp = match DeltaEncoding::from_bytes(&bytes) {
                Ok(e2) => catch(move || e2.decode_signed()).ok().map(|d| coq::zlist_i64(&d)),
                Err(_) => None,
            };
            let rt = *dec == xs && rp.as_deref() == Some(&coq::zlist_i64(&xs));
            (
                format!("(Ok {} {}))", obs_delta(e, coq::zlist_i64(dec)), coq::opt(rp)),
                if rt { Oracle::Ok } else { Oracle::Fail },
                if rt { String::new() } else { "decode_signed(encode_signed(xs)) != xs".into() },
                format!("decoded={:?}", dec),
            )
        }
    };
    out.emit(&Case {
        kind: "delta_s".into(),
        input: format!("{:?}", xs),
        coq: Some(format!("chk_delta_s {} {}", coq::zlist_i64(&xs), o)),
        show: Some(format!("delta_decode_signed (delta_encode_signed {})", coq::zlist_i64(&xs))),
        oracle,
        msg,
        nontrivial: nontrivial_i(&xs),
        imp,
        tags: vec![format!("i:{}", tag), format!("len:{}", len_bucket(xs.len()))],
        ..Default::default()
    });
}

fn gets_of(n: usize, r: &mut Rng, f: &dyn Fn(usize) -> Option<u64>) -> (String, Vec<(usize, Option<u64>)>) {
    let mut idx: Vec<usize> = vec![0, n.saturating_sub(1), n, n + 1];
    for _ in 0..6 {
        idx.push(r.below(n as u64 + 2) as usize);
    }
    if n <= 70 {
        idx.extend(0..n);
    }
    let gs: Vec<(usize, Option<u64>)> = idx.iter().map(|&i| (i, f(i))).collect();
    let s = coq::list(gs.iter().map(|(i, v)| coq::pair(&coq::z(*i as i64), &coq::opt(v.map(coq::zu)))));
    (s, gs)
}

fn obs_bp(p: &BitPackedInts, r: &mut Rng, xs: &[u64]) -> (String, bool) {
    let un = p.unpack();
    let (gs, gv) = gets_of(p.len(), r, &|i| p.get(i));
    let bytes = p.to_bytes();
    let mut ok = un == xs;
    for (i, v) in &gv {
        if *v != xs.get(*i).copied() {
            ok = false;
        }
    }
    match BitPackedInts::from_bytes(&bytes) {
        Ok(q) => {
            if q.unpack() != xs {
                ok = false
            }
        }
        Err(_) => ok = false,
    }
    (
        format!(
            "(ObsBp {} {} {} {} {} {})",
            coq::z(p.bits_per_value() as i64),
            coq::zlist_u64(p.data()),
            coq::z(p.len() as i64),
            coq::zlist_u64(&un),
            gs,
            coq::bytes(&bytes)
        ),
        ok,
    )
}

fn case_pack(r: &mut Rng, out: &mut Out) {
    let (xs, tag) = gen_u_list(r);
    let p = BitPackedInts::pack(&xs);
    let (o, ok) = obs_bp(&p, r, &xs);
    out.emit(&Case {
        kind: "pack".into(),
        input: format!("{:?}", xs),
        coq: Some(format!("chk_pack {} {}", coq::zlist_u64(&xs), o)),
        show: Some(format!("unpack (pack {})", coq::zlist_u64(&xs))),
        oracle: if ok { Oracle::Ok } else { Oracle::Fail },
        msg: if ok { String::new() } else { "unpack/get/from_bytes after pack differ from input".into() },
        nontrivial: nontrivial_u(&xs),
        imp: format!("bits={} unpacked={:?}", p.bits_per_value(), p.unpack()),
        tags: vec![format!("u:{}", tag), format!("bits:{}", p.bits_per_value()), format!("len:{}", len_bucket(xs.len()))],
        ..Default::default()
    });
}

fn case_pack_with_bits(r: &mut Rng, out: &mut Out) {
    let (xs, tag) = gen_u_list(r);
    let need = xs.iter().copied().max().map(BitPackedInts::bits_needed).unwrap_or(1);
    let bits: u8 = match r.below(4) {
        0 => need,
        1 => (need as u64 + r.below(65 - need as u64)) as u8,
        2 => r.below(65) as u8,
        _ => 64,
    };
    let fits = xs.is_empty() || (bits >= need) || (bits == 0 && xs.iter().all(|&v| v == 0));
    let x2 = xs.clone();
    let res = catch(move || BitPackedInts::pack_with_bits(&x2, bits));
    let (o, oracle, msg, imp) = match &res {
        Err(m) => (
            "Panic".to_string(),
            if fits { Oracle::Fail } else { Oracle::Na },
            if fits { format!("panic although values fit: {}", m) } else { String::new() },
            "panic".to_string(),
        ),
        Ok(p) => {
            let (o, ok) = obs_bp(p, r, &xs);
            let ok = ok || !fits;
            (
                format!("(Ok {})", o),
                if ok { Oracle::Ok } else { Oracle::Fail },
                if ok { String::new() } else { "round trip with explicit width".into() },
                format!("unpacked={:?}", p.unpack()),
            )
        }
    };
    out.emit(&Case {
        kind: "pack_with_bits".into(),
        input: format!("{:?} bits={}", xs, bits),
        coq: Some(format!("chk_pack_with_bits {} {} {} {}", mode(), coq::zlist_u64(&xs), coq::z(bits as i64), o)),
        oracle,
        msg,
        nontrivial: nontrivial_u(&xs),
        imp,
        tags: vec![format!("u:{}", tag), format!("wbits:{}", bits), if fits { "fits".into() } else { "nofit".into() }],
        ..Default::default()
    });
}

fn case_bp_from_bytes(r: &mut Rng, out: &mut Out) {
    // mostly-valid bytes with a mutated header / truncation
    let (xs, _) = gen_u_list(r);
    let mut bytes = BitPackedInts::pack(&xs).to_bytes();
    let tag;
    match r.below(5) {
        0 => {
            tag = "valid";
        }
        1 => {
            let n = r.below(bytes.len() as u64 + 1) as usize;
            bytes.truncate(n);
            tag = "truncated";
        }
        2 => {
            if !bytes.is_empty() {
                bytes[0] = r.below(256) as u8;
            }
            tag = "width-byte";
        }
        3 => {
            if !bytes.is_empty() {
                let i = r.below(bytes.len().min(6) as u64) as usize;
                bytes[i] ^= 1 << r.below(8);
            }
            tag = "header-flip";
        }
        _ => {
            bytes = (0..r.below(30)).map(|_| r.below(256) as u8).collect();
            if bytes.len() >= 5 && r.chance(1, 2) {
                bytes[2] = 0;
                bytes[3] = 0;
                bytes[4] = 0;
            }
            tag = "random";
        }
    }
    // keep counts small so that the model side stays cheap
    if bytes.len() >= 5 {
        bytes[3] = 0;
        bytes[4] = 0;
    }
    let b2 = bytes.clone();
    let res = catch(move || BitPackedInts::from_bytes(&b2).map(|p| (p.bits_per_value(), p.data().to_vec(), p.len())));
    let (o, oracle, msg, kcoq, kid, imp) = match &res {
        // a panic on bytes that no encoder produces is an observation (modelled), not a
        // failure of the round-trip property
        Err(m) => ("FbPanic".to_string(), Oracle::Na, format!("from_bytes panics: {}", m), None, None, "panic".to_string()),
        Ok(Err(_)) => ("FbErr".to_string(), Oracle::Ok, String::new(), None, None, "Err".to_string()),
        Ok(Ok((b, d, c))) => (
            format!("(FbOk {} {} {})", coq::z(*b as i64), coq::zlist_u64(d), coq::z(*c as i64)),
            Oracle::Ok,
            String::new(),
            None,
            None,
            format!("Ok bits={} count={}", b, c),
        ),
    };
    out.emit(&Case {
        kind: "bp_from_bytes".into(),
        input: format!("{:?}", bytes),
        coq: Some(format!("chk_bp_from_bytes {} {}", coq::bytes(&bytes), o)),
        oracle,
        msg,
        kcoq,
        kid,
        nontrivial: bytes.len() >= 5,
        imp,
        tags: vec![format!("fb:{}", tag)],
        ..Default::default()
    });
}

fn case_dbp(r: &mut Rng, out: &mut Out, forced: Option<Vec<u64>>) {
    let (xs, tag) = match forced {
        Some(v) => (v, "corpus"),
        None => {
            let (mut v, t) = gen_u_list(r);
            v.sort();
            if r.chance(1, 12) {
                v = vec![r.below(3)];
            }
            (v, t)
        }
    };
    let e = DeltaBitPacked::encode(&xs);
    let dec = e.decode();
    let bytes = e.to_bytes();
    let mut ok = dec == xs && e.len() == xs.len();
    match DeltaBitPacked::from_bytes(&bytes) {
        Ok(e2) => {
            if e2.decode() != xs {
                ok = false
            }
        }
        Err(_) => ok = false,
    }
    // the packed deltas are not exposed: recover them through the byte form (base 8 bytes, then BitPackedInts bytes)
    let inner = BitPackedInts::from_bytes(&bytes[8..]).expect("inner");
    let o = format!(
        "(ObsDbp {} {} {} {} {} {} {})",
        coq::zu(e.base()),
        coq::z(e.bits_per_delta() as i64),
        coq::zlist_u64(inner.data()),
        coq::z(inner.len() as i64),
        coq::zlist_u64(&dec),
        coq::z(e.len() as i64),
        coq::bytes(&bytes)
    );
    out.emit(&Case {
        kind: "dbp".into(),
        input: format!("{:?}", xs),
        coq: Some(format!("chk_dbp {} {}", coq::zlist_u64(&xs), o)),
        show: Some(format!("dbp_decode (dbp_encode {})", coq::zlist_u64(&xs))),
        oracle: if ok { Oracle::Ok } else { Oracle::Fail },
        msg: if ok { String::new() } else { "DeltaBitPacked decode/len/from_bytes differ from the sorted input".into() },
        kcoq: if ok { None } else { Some(format!("k_dbp_single_zero {}", coq::zlist_u64(&xs))) },
        kid: if ok { None } else { Some("C15-K1".into()) },
        nontrivial: nontrivial_u(&xs),
        imp: format!("decoded={:?} len={}", dec, e.len()),
        tags: vec![format!("u:{}", tag), format!("len:{}", len_bucket(xs.len()))],
        ..Default::default()
    });
}

fn case_rle(r: &mut Rng, out: &mut Out) {
    let (xs, tag) = gen_u_list(r);
    let e = RunLengthEncoding::encode(&xs);
    let dec = e.decode();
    let (gs, gv) = gets_of(xs.len(), r, &|i| e.get(i));
    let it: Vec<u64> = e.iter().collect();
    let bytes = e.to_bytes();
    let mut ok = dec == xs && it == xs && e.total_count() == xs.len();
    for (i, v) in &gv {
        if *v != xs.get(*i).copied() {
            ok = false;
        }
    }
    match RunLengthEncoding::from_bytes(&bytes) {
        Ok(e2) => {
            if e2.decode() != xs {
                ok = false
            }
        }
        Err(_) => ok = false,
    }
    let runs = coq::list(e.runs().iter().map(|r| coq::pair(&coq::zu(r.value), &coq::zu(r.length))));
    let o = format!(
        "(ObsRle {} {} {} {} {} {})",
        runs,
        coq::z(e.total_count() as i64),
        coq::zlist_u64(&dec),
        gs,
        coq::zlist_u64(&it),
        coq::bytes(&bytes)
    );
    out.emit(&Case {
        kind: "rle".into(),
        input: format!("{:?}", xs),
        coq: Some(format!("chk_rle {} {}", coq::zlist_u64(&xs), o)),
        oracle: if ok { Oracle::Ok } else { Oracle::Fail },
        msg: if ok { String::new() } else { "RLE decode/get/iter/from_bytes differ from input".into() },
        nontrivial: nontrivial_u(&xs),
        imp: format!("runs={} decoded={:?}", e.run_count(), dec),
        tags: vec![format!("u:{}", tag), format!("len:{}", len_bucket(xs.len()))],
        ..Default::default()
    });
}

fn case_srle(r: &mut Rng, out: &mut Out) {
    let (xs, tag) = gen_i_list(r);
    let e = SignedRunLengthEncoding::encode(&xs);
    let dec = e.decode();
    let bytes = e.to_bytes();
    let inner = RunLengthEncoding::from_bytes(&bytes).expect("inner rle");
    let mut ok = dec == xs;
    match SignedRunLengthEncoding::from_bytes(&bytes) {
        Ok(e2) => {
            if e2.decode() != xs {
                ok = false
            }
        }
        Err(_) => ok = false,
    }
    let runs = coq::list(inner.runs().iter().map(|r| coq::pair(&coq::zu(r.value), &coq::zu(r.length))));
    out.emit(&Case {
        kind: "srle".into(),
        input: format!("{:?}", xs),
        coq: Some(format!("chk_srle {} {} {}", coq::zlist_i64(&xs), runs, coq::zlist_i64(&dec))),
        oracle: if ok { Oracle::Ok } else { Oracle::Fail },
        msg: if ok { String::new() } else { "signed RLE round trip".into() },
        nontrivial: nontrivial_i(&xs),
        imp: format!("decoded={:?}", dec),
        tags: vec![format!("i:{}", tag)],
        ..Default::default()
    });
}


// ---------------------------------------------------------------- second part (Model2 / Run2)

fn coq_bools(bs: &[bool]) -> String {
    coq::list(bs.iter().map(|&b| coq::b(b)))
}

fn case_bitvec(r: &mut Rng, out: &mut Out) {
    let n = match r.below(8) {
        0 => 0,
        1 => 1,
        2 => *r.pick(&[63usize, 64, 65, 127, 128, 129, 191, 192, 193]),
        _ => r.below(200) as usize,
    };
    let dens = r.below(4);
    let bs: Vec<bool> = (0..n)
        .map(|_| match dens {
            0 => false,
            1 => true,
            2 => r.chance(1, 8),
            _ => r.chance(1, 2),
        })
        .collect();
    let v = BitVector::from_bools(&bs);
    let mut idx: Vec<usize> = vec![0, n.saturating_sub(1), n, n + 1, 63, 64, 65];
    for _ in 0..8 {
        idx.push(r.below(n as u64 + 2) as usize);
    }
    let gets: Vec<(usize, Option<bool>)> = idx.iter().map(|&i| (i, v.get(i))).collect();
    let bools = v.to_bools();
    let ones = v.count_ones();
    let bytes = v.to_bytes();
    let rp = BitVector::from_bytes(&bytes).ok().map(|x| x.to_bools());
    let mut pv = BitVector::new();
    for &b in &bs {
        pv.push(b);
    }
    let mut ok = bools == bs && ones == bs.iter().filter(|&&b| b).count() && rp.as_deref() == Some(&bs[..]);
    ok &= pv.to_bools() == bs && pv.count_ones() == ones && v.count_zeros() == n - ones;
    ok &= v.iter().collect::<Vec<_>>() == bs;
    ok &= v.ones_iter().collect::<Vec<_>>() == (0..n).filter(|&i| bs[i]).collect::<Vec<_>>();
    ok &= v.not().not().to_bools() == bs;
    for (i, g) in &gets {
        if *g != bs.get(*i).copied() {
            ok = false;
        }
    }
    let o = format!(
        "(ObsBv {} {} {} {} {} {} {} {})",
        coq::zlist_u64(v.data()),
        coq::z(v.len() as i64),
        coq::list(gets.iter().map(|(i, g)| coq::pair(&coq::z(*i as i64), &coq::opt(g.map(coq::b))))),
        coq_bools(&bools),
        coq::z(ones as i64),
        coq::bytes(&bytes),
        coq::opt(rp.as_ref().map(|b| coq_bools(b))),
        coq::zlist_u64(pv.data())
    );
    out.emit(&Case {
        kind: "bitvec".into(),
        input: format!("{:?}", bs.iter().map(|&b| if b { '1' } else { '0' }).collect::<String>()),
        coq: Some(format!("chk_bitvec {} {}", coq_bools(&bs), o)),
        oracle: if ok { Oracle::Ok } else { Oracle::Fail },
        msg: if ok { String::new() } else { "bit vector get/to_bools/count/bytes/push differ from the input".into() },
        nontrivial: n >= 2 && bs.iter().any(|&b| b) && bs.iter().any(|&b| !b),
        imp: format!("len={} ones={}", v.len(), ones),
        tags: vec![format!("bv-len:{}", len_bucket(n))],
        ..Default::default()
    });
}

fn gen_str(r: &mut Rng) -> String {
    match r.below(6) {
        0 => String::new(),
        1 => "é→".to_string(),
        2 => format!("k{}", r.below(3)),
        3 => format!("val{}", r.below(6)),
        4 => "a".repeat(r.below(5) as usize),
        _ => format!("s{}", r.below(50)),
    }
}

fn case_dict(r: &mut Rng, out: &mut Out) {
    let n = match r.below(6) {
        0 => 0,
        1 => 1,
        2 => *r.pick(&[63usize, 64, 65, 128, 129]),
        _ => r.below(40) as usize,
    };
    let nulls = r.below(3);
    let vs: Vec<Option<String>> = (0..n)
        .map(|_| if nulls > 0 && r.chance(nulls, 6) { None } else { Some(gen_str(r)) })
        .collect();
    let mut b = DictionaryBuilder::new();
    for v in &vs {
        b.add_optional(v.as_deref());
    }
    let d = b.build();
    let mut idx: Vec<usize> = (0..n.min(70)).collect();
    idx.extend([n, n + 1, 63, 64, 65]);
    for _ in 0..6 {
        idx.push(r.below(n as u64 + 2) as usize);
    }
    let gets: Vec<(usize, Option<String>)> = idx.iter().map(|&i| (i, d.get(i).map(|s| s.to_string()))).collect();
    let mut ok = d.len() == n;
    for (i, g) in &gets {
        let want = vs.get(*i).cloned().flatten();
        if *g != want {
            ok = false;
        }
    }
    let it: Vec<Option<String>> = d.iter().map(|o| o.map(|s| s.to_string())).collect();
    ok &= it == vs;
    let o = format!(
        "(ObsDict {} {} {})",
        coq::list(d.dictionary().iter().map(|s| coq::str_bytes(s))),
        coq::list(d.codes().iter().map(|&c| coq::z(c as i64))),
        coq::list(gets.iter().map(|(i, g)| coq::pair(&coq::z(*i as i64), &coq::opt(g.as_ref().map(|s| coq::str_bytes(s))))))
    );
    out.emit(&Case {
        kind: "dict".into(),
        input: format!("{:?}", vs),
        coq: Some(format!("chk_dict {} {}", coq::list(vs.iter().map(|v| coq::opt(v.as_ref().map(|s| coq::str_bytes(s))))), o)),
        oracle: if ok { Oracle::Ok } else { Oracle::Fail },
        msg: if ok { String::new() } else { "dictionary get/iter differ from the input".into() },
        nontrivial: n >= 2 && vs.iter().any(|v| v != &vs[0]),
        imp: format!("dict_size={} len={}", d.dictionary_size(), d.len()),
        tags: vec![format!("dict-nulls:{}", nulls)],
        ..Default::default()
    });
}

fn codec_coq(c: &CompressionCodec) -> String {
    match c {
        CompressionCodec::None => "CNone".into(),
        CompressionCodec::DeltaBitPacked { bits } => format!("(CDbp {})", coq::z(*bits as i64)),
        CompressionCodec::BitPacked { bits } => format!("(CBp {})", coq::z(*bits as i64)),
        CompressionCodec::RunLength => "CRle".into(),
        other => format!("(* unexpected {:?} *) CNone", other),
    }
}

fn case_compress(r: &mut Rng, out: &mut Out) {
    let (mut xs, tag) = gen_u_list(r);
    // the selector needs >= 8 values to do anything: pad some cases
    if xs.len() < 8 && r.chance(2, 3) {
        let extra = 8 + r.below(30) as usize;
        let base = xs.clone();
        while xs.len() < extra {
            let v = if base.is_empty() { r.below(5) } else { *r.pick(&base) };
            xs.push(v);
        }
        if r.chance(1, 2) {
            xs.sort();
        }
    }
    let x2 = xs.clone();
    let res = catch(move || {
        let c = TypeSpecificCompressor::compress_integers(&x2);
        let d = TypeSpecificCompressor::decompress_integers(&c).ok();
        (c.codec, c.data.clone(), d)
    });
    let (coqt, oracle, msg, imp, ctag) = match &res {
        Err(m) => ("false".to_string(), Oracle::Fail, format!("compress_integers panics: {}", m), "panic".to_string(), "panic".to_string()),
        Ok((codec, data, dec)) => {
            let ok = dec.as_deref() == Some(&xs[..]);
            (
                format!(
                    "chk_compress {} {} {} {}",
                    coq::zlist_u64(&xs),
                    codec_coq(codec),
                    coq::bytes(data),
                    coq::opt(dec.as_ref().map(|d| coq::zlist_u64(d)))
                ),
                if ok { Oracle::Ok } else { Oracle::Fail },
                if ok { String::new() } else { "decompress_integers(compress_integers(xs)) != xs".into() },
                format!("codec={:?} decoded={:?}", codec, dec),
                codec.name().to_string(),
            )
        }
    };
    out.emit(&Case {
        kind: "compress".into(),
        input: format!("{:?}", xs),
        coq: Some(coqt),
        oracle,
        msg,
        nontrivial: xs.len() >= 8,
        imp,
        tags: vec![format!("u:{}", tag), format!("codec:{}", ctag)],
        ..Default::default()
    });
    // signed path (zig-zag then the same selector): oracle only
    let (ys, _) = gen_i_list(r);
    let y2 = ys.clone();
    let res = catch(move || {
        let c = TypeSpecificCompressor::compress_signed_integers(&y2);
        TypeSpecificCompressor::decompress_integers(&c).ok().map(|v| v.into_iter().map(zigzag_decode).collect::<Vec<i64>>())
    });
    let ok = matches!(&res, Ok(Some(d)) if *d == ys);
    out.emit(&Case {
        kind: "compress_signed".into(),
        input: format!("{:?}", ys),
        oracle: if ok { Oracle::Ok } else { Oracle::Fail },
        msg: if ok { String::new() } else { "signed compress round trip".into() },
        nontrivial: nontrivial_i(&ys),
        imp: format!("{:?}", res),
        ..Default::default()
    });
    // booleans
    let bs: Vec<bool> = (0..gen_len(r)).map(|_| r.chance(1, 2)).collect();
    let c = TypeSpecificCompressor::compress_booleans(&bs);
    let ok = TypeSpecificCompressor::decompress_booleans(&c).ok().as_deref() == Some(&bs[..]);
    out.emit(&Case {
        kind: "compress_bool".into(),
        input: format!("{} bools", bs.len()),
        oracle: if ok { Oracle::Ok } else { Oracle::Fail },
        msg: if ok { String::new() } else { "boolean compress round trip".into() },
        nontrivial: bs.len() >= 2,
        imp: String::new(),
        ..Default::default()
    });
}

fn case_chunk(r: &mut Rng, out: &mut Out) {
    // one source node, all entries in ONE chunk: add -> compact -> freeze_all -> edges_from
    let n = match r.below(6) {
        0 => 1,
        1 => 2,
        2 => *r.pick(&[63usize, 64]),
        _ => 1 + r.below(40) as usize,
    };
    let dst_mode = r.below(4);
    let entries: Vec<(u64, u64)> = (0..n)
        .map(|i| {
            let d = match dst_mode {
                0 => r.below(4),
                1 => r.below(1 << 20),
                2 => 0,
                _ => gen_u64(r) >> r.below(3),
            };
            let e = if r.chance(1, 10) { gen_u64(r) } else { i as u64 * (1 + r.below(3)) };
            (d, e)
        })
        .collect();
    let adj = ChunkedAdjacency::with_chunk_capacity(64);
    let src = NodeId::new(7);
    for (d, e) in &entries {
        adj.add_edge(src, NodeId::new(*d), EdgeId::new(*e));
    }
    let before: Vec<(u64, u64)> = adj.edges_from(src).into_iter().map(|(d, e)| (d.as_u64(), e.as_u64())).collect();
    adj.compact();
    adj.freeze_all();
    let after: Vec<(u64, u64)> = adj.edges_from(src).into_iter().map(|(d, e)| (d.as_u64(), e.as_u64())).collect();
    let mut a = before.clone();
    let mut b = after.clone();
    a.sort();
    b.sort();
    let ok = a == b && before == entries && adj.out_degree(src) == n;
    let pl = |v: &Vec<(u64, u64)>| coq::list(v.iter().map(|(d, e)| coq::pair(&coq::zu(*d), &coq::zu(*e))));
    out.emit(&Case {
        kind: "adj_chunk".into(),
        input: format!("{:?}", entries),
        coq: Some(format!("chk_chunk {} {}", pl(&entries), pl(&after))),
        oracle: if ok { Oracle::Ok } else { Oracle::Fail },
        msg: if ok { String::new() } else { "neighbour list changed as a multiset when its chunk was compressed".into() },
        nontrivial: n >= 2,
        imp: format!("after={:?}", after),
        tags: vec![format!("chunk-n:{}", len_bucket(n)), format!("dst-mode:{}", dst_mode)],
        ..Default::default()
    });
    // several chunks incl. hot->cold migration and deletions: oracle only (multiset preserved)
    let adj = ChunkedAdjacency::with_chunk_capacity(4 + r.below(6) as usize);
    let m = 20 + r.below(120) as usize;
    let mut live: Vec<(u64, u64)> = Vec::new();
    for i in 0..m {
        let d = r.below(6);
        adj.add_edge(src, NodeId::new(d), EdgeId::new(i as u64));
        live.push((d, i as u64));
        if r.chance(1, 9) {
            adj.compact();
        }
        if r.chance(1, 15) && !live.is_empty() {
            let k = r.below(live.len() as u64) as usize;
            let (_, e) = live.remove(k);
            adj.mark_deleted(src, EdgeId::new(e));
        }
        if r.chance(1, 40) {
            adj.freeze_all();
        }
    }
    adj.compact();
    adj.freeze_all();
    let mut got: Vec<(u64, u64)> = adj.edges_from(src).into_iter().map(|(d, e)| (d.as_u64(), e.as_u64())).collect();
    got.sort();
    live.sort();
    let ok = got == live && adj.out_degree(src) == live.len();
    out.emit(&Case {
        kind: "adj_multi".into(),
        input: format!("{} adds", m),
        oracle: if ok { Oracle::Ok } else { Oracle::Fail },
        msg: if ok { String::new() } else { format!("live edges {:?} but edges_from gives {:?}", live, got) },
        nontrivial: true,
        imp: format!("{} live", live.len()),
        ..Default::default()
    });
}

fn pval_coq(v: &Value) -> String {
    match v {
        Value::Int64(i) => format!("(PInt {})", coq::z(*i)),
        Value::String(s) => format!("(PStr {})", coq::str_bytes(s.as_ref())),
        Value::Bool(b) => format!("(PBool {})", coq::b(*b)),
        Value::Null => "(POther 0)".into(),
        Value::Float64(f) => format!("(POther {})", coq::zu(f.to_bits())),
        _ => "(POther 1)".into(),
    }
}

fn case_column(r: &mut Rng, out: &mut Out) {
    let st: PropertyStorage<NodeId> = PropertyStorage::new();
    let key = PropertyKey::new("p");
    let nids = 12 + r.below(30);
    let dominant = r.below(4); // 0 int, 1 str, 2 bool, 3 mixed
    let nops = 30 + r.below(90) as usize;
    let mut ops: Vec<String> = Vec::new();
    let mut shadow: std::collections::HashMap<u64, Value> = std::collections::HashMap::new();
    let mut ok = true;
    let mut why = String::new();
    let mut compressions = 0;
    let gen_val = |r: &mut Rng| -> Value {
        let k = if r.chance(5, 6) { dominant } else { r.below(4) };
        match k {
            0 => Value::Int64(if r.chance(1, 8) { gen_i64(r) } else { r.range(0, 40) }),
            1 => Value::String(gen_str(r).as_str().into()),
            2 => Value::Bool(r.chance(1, 2)),
            _ => match r.below(3) {
                0 => Value::Int64(r.range(-3, 3)),
                1 => Value::Float64(r.below(5) as f64),
                _ => Value::Null,
            },
        }
    };
    let is_comp = |st: &PropertyStorage<NodeId>| st.compression_stats().get(&key).and_then(|s| s.codec).is_some();
    for step in 0..nops {
        let id = r.below(nids);
        match if step < 14 { 0 } else { r.below(10) } {
            0..=3 => {
                let v = gen_val(r);
                st.set(NodeId::new(id), key.clone(), v.clone());
                ops.push(format!("OSet {} {}", coq::zu(id), pval_coq(&v)));
                shadow.insert(id, v);
            }
            4..=6 => {
                let g = st.get(NodeId::new(id), &key);
                ops.push(format!("OGet {} {}", coq::zu(id), coq::opt(g.as_ref().map(pval_coq))));
                let want = shadow.get(&id).cloned();
                if g.as_ref().map(pval_coq) != want.as_ref().map(pval_coq) {
                    ok = false;
                    why = format!("get({}) = {:?} but the value set last is {:?} (compressions so far: {})", id, g, want, compressions);
                }
            }
            7 => {
                let g = st.remove(NodeId::new(id), &key);
                ops.push(format!("ORemove {} {}", coq::zu(id), coq::opt(g.as_ref().map(pval_coq))));
                let want = shadow.remove(&id);
                if g.as_ref().map(pval_coq) != want.as_ref().map(pval_coq) {
                    ok = false;
                    why = format!("remove({}) = {:?} but the value set last is {:?}", id, g, want);
                }
            }
            _ => {
                let before = is_comp(&st);
                st.force_compress_all();
                let after = is_comp(&st);
                let took = if !before && after {
                    compressions += 1;
                    let codec = st.compression_stats().get(&key).and_then(|s| s.codec).unwrap();
                    Some(match codec {
                        CompressionCodec::Dictionary => "KStr",
                        CompressionCodec::BitVector => "KBool",
                        _ => "KInt",
                    })
                } else {
                    None
                };
                ops.push(format!("OCompress {}", coq::opt(took.map(|s| s.to_string()))));
            }
        }
    }
    // final sweep: every id reads back the value set last
    for id in 0..nids {
        let g = st.get(NodeId::new(id), &key);
        ops.push(format!("OGet {} {}", coq::zu(id), coq::opt(g.as_ref().map(pval_coq))));
        let want = shadow.get(&id).cloned();
        if g.as_ref().map(pval_coq) != want.as_ref().map(pval_coq) {
            ok = false;
            why = format!("final get({}) = {:?} but the value set last is {:?}", id, g, want);
        }
    }
    out.emit(&Case {
        kind: "column".into(),
        input: format!("[{}]", ops.join("; ")),
        coq: Some(format!("chk_column {}", coq::list(ops.iter().map(|o| format!("({})", o))))),
        oracle: if ok { Oracle::Ok } else { Oracle::Fail },
        msg: why,
        nontrivial: compressions > 0,
        imp: format!("compressions={}", compressions),
        tags: vec![format!("col-dominant:{}", dominant), format!("col-compressions:{}", compressions.min(3))],
        ..Default::default()
    });
}

// ---------------------------------------------------------------- succinct structures (oracle only)

fn case_succinct(r: &mut Rng, out: &mut Out) {
    let mut fails: Vec<String> = Vec::new();
    // Elias-Fano over a sorted sequence (duplicates allowed)
    let n = match r.below(6) {
        0 => 0,
        1 => 1,
        2 => *r.pick(&[63usize, 64, 65, 127, 128, 129, 511, 512, 513]),
        _ => r.below(80) as usize,
    };
    let span = match r.below(4) {
        0 => 4,
        1 => 1 << 10,
        2 => 1 << 33,
        _ => u64::MAX >> r.below(8),
    };
    let mut xs: Vec<u64> = (0..n).map(|_| r.below(span)).collect();
    xs.sort();
    xs.dedup(); // EliasFano::new requires a strictly increasing sequence
    let x2 = xs.clone();
    match catch(move || {
        let ef = EliasFano::new(&x2);
        let got: Vec<u64> = (0..ef.len()).map(|i| ef.get(i)).collect();
        let it: Vec<u64> = ef.iter().collect();
        let probes: Vec<u64> = x2.iter().flat_map(|&v| [v, v.wrapping_add(1), v.wrapping_sub(1)]).chain([0, u64::MAX]).collect();
        let cont: Vec<(u64, bool, Option<usize>, Option<usize>)> =
            probes.iter().map(|&v| (v, ef.contains(v), ef.predecessor(v), ef.successor(v))).collect();
        (ef.len(), got, it, cont)
    }) {
        Err(m) => fails.push(format!("EliasFano panics: {}", m)),
        Ok((len, got, it, cont)) => {
            if len != xs.len() || got != xs || it != xs {
                fails.push(format!("EliasFano get/iter differ: {:?} vs {:?}", got, xs));
            }
            for (v, c, p, s_) in cont {
                if c != xs.contains(&v) {
                    fails.push(format!("EliasFano contains({}) = {}", v, c));
                }
                // predecessor: index of the largest element <= v ; successor: smallest element >= v
                let pe = p.map(|i| xs[i]);
                let want_p = xs.iter().copied().filter(|&x| x <= v).max();
                if pe != want_p {
                    fails.push(format!("EliasFano predecessor({}) = {:?} want value {:?}", v, pe, want_p));
                }
                let se = s_.map(|i| xs[i]);
                let want_s = xs.iter().copied().filter(|&x| x >= v).min();
                if se != want_s {
                    fails.push(format!("EliasFano successor({}) = {:?} want value {:?}", v, se, want_s));
                }
            }
        }
    }
    // rank/select bit vector
    let m = match r.below(6) {
        0 => 0,
        1 => 1,
        2 => *r.pick(&[63usize, 64, 65, 511, 512, 513, 1023, 1024, 1025]),
        _ => r.below(1500) as usize,
    };
    let dens = 1 + r.below(7);
    let bs: Vec<bool> = (0..m).map(|_| r.chance(dens, 8)).collect();
    let b2 = bs.clone();
    match catch(move || {
        let sb = SuccinctBitVector::from_bools(&b2);
        let ranks: Vec<(usize, usize)> = (0..=b2.len() + 1).map(|p| (sb.rank1(p), sb.rank0(p))).collect();
        let ones = b2.iter().filter(|&&b| b).count();
        let s1: Vec<Option<usize>> = (0..=ones + 1).map(|k| sb.select1(k)).collect();
        let s0: Vec<Option<usize>> = (0..=b2.len() - ones + 1).map(|k| sb.select0(k)).collect();
        let gets: Vec<Option<bool>> = (0..=b2.len()).map(|i| sb.get(i)).collect();
        (ranks, s1, s0, gets, sb.count_ones())
    }) {
        Err(msg) => fails.push(format!("SuccinctBitVector panics: {}", msg)),
        Ok((ranks, s1, s0, gets, ones)) => {
            let mut c1 = 0usize;
            for p in 0..ranks.len() {
                let lim = p.min(m);
                let _ = lim;
                if p > 0 && p - 1 < m && bs[p - 1] {
                    c1 += 1;
                }
                let c0 = p.min(m) - c1;
                if ranks[p] != (c1, c0) {
                    fails.push(format!("rank at {} = {:?} want ({}, {})", p, ranks[p], c1, c0));
                    break;
                }
            }
            let pos1: Vec<usize> = (0..m).filter(|&i| bs[i]).collect();
            let pos0: Vec<usize> = (0..m).filter(|&i| !bs[i]).collect();
            for (k, g) in s1.iter().enumerate() {
                if *g != pos1.get(k).copied() {
                    fails.push(format!("select1({}) = {:?} want {:?}", k, g, pos1.get(k)));
                    break;
                }
            }
            for (k, g) in s0.iter().enumerate() {
                if *g != pos0.get(k).copied() {
                    fails.push(format!("select0({}) = {:?} want {:?}", k, g, pos0.get(k)));
                    break;
                }
            }
            for (i, g) in gets.iter().enumerate() {
                if *g != bs.get(i).copied() {
                    fails.push(format!("succinct get({}) = {:?}", i, g));
                    break;
                }
            }
            if ones != pos1.len() {
                fails.push("count_ones".into());
            }
        }
    }
    // wavelet tree
    let l = match r.below(5) {
        0 => 0,
        1 => 1,
        _ => r.below(120) as usize,
    };
    let sigma = *r.pick(&[1u64, 2, 3, 4, 5, 8, 9, 255, 256, 1 << 20]);
    let seq: Vec<u64> = (0..l).map(|_| r.below(sigma)).collect();
    let s2 = seq.clone();
    match catch(move || {
        let wt = WaveletTree::new(&s2);
        let acc: Vec<u64> = (0..s2.len()).map(|i| wt.access(i)).collect();
        let mut syms: Vec<u64> = s2.clone();
        syms.sort();
        syms.dedup();
        syms.push(sigma + 1);
        let rk: Vec<(u64, Vec<usize>)> = syms.iter().map(|&c| (c, (0..=s2.len()).map(|i| wt.rank(c, i)).collect())).collect();
        let sl: Vec<(u64, Vec<Option<usize>>)> = syms.iter().map(|&c| (c, (0..=s2.len()).map(|k| wt.select(c, k)).collect())).collect();
        let cnt: Vec<(u64, usize)> = syms.iter().map(|&c| (c, wt.count(c))).collect();
        (acc, rk, sl, cnt, wt.len())
    }) {
        Err(msg) => fails.push(format!("WaveletTree panics: {}", msg)),
        Ok((acc, rk, sl, cnt, len)) => {
            if acc != seq || len != seq.len() {
                fails.push(format!("wavelet access differs: {:?} vs {:?}", acc, seq));
            }
            for (c, v) in rk {
                for (i, g) in v.iter().enumerate() {
                    let want = seq[..i].iter().filter(|&&x| x == c).count();
                    if *g != want {
                        fails.push(format!("wavelet rank({}, {}) = {} want {}", c, i, g, want));
                        break;
                    }
                }
            }
            for (c, v) in sl {
                let pos: Vec<usize> = (0..seq.len()).filter(|&i| seq[i] == c).collect();
                for (k, g) in v.iter().enumerate() {
                    if *g != pos.get(k).copied() {
                        fails.push(format!("wavelet select({}, {}) = {:?} want {:?}", c, k, g, pos.get(k)));
                        break;
                    }
                }
            }
            for (c, g) in cnt {
                if g != seq.iter().filter(|&&x| x == c).count() {
                    fails.push(format!("wavelet count({})", c));
                }
            }
        }
    }
    out.emit(&Case {
        kind: "succinct".into(),
        input: format!("ef={:?} bits={} wavelet={:?}", xs, bs.iter().map(|&b| if b { '1' } else { '0' }).collect::<String>(), seq),
        oracle: if fails.is_empty() { Oracle::Ok } else { Oracle::Fail },
        msg: fails.join("; "),
        nontrivial: n >= 2 || m >= 2 || l >= 2,
        imp: String::new(),
        tags: vec![format!("ef-n:{}", len_bucket(n))],
        ..Default::default()
    });
}

fn main() {
    let a = parse_args();
    quiet_panics();
    let mut out = Out::create(a.out.as_deref());
    let mut r = Rng::new(a.seed);
    // corpus first: the witnesses of the findings and earlier minimised failures
    case_delta_s(&mut r, &mut out, Some(vec![i64::MIN, i64::MAX]));
    case_delta_s(&mut r, &mut out, Some(vec![i64::MAX, i64::MIN]));
    case_delta_s(&mut r, &mut out, Some(vec![0, i64::MIN]));
    case_delta_s(&mut r, &mut out, Some(vec![-2, i64::MAX, -1]));
    case_dbp(&mut r, &mut out, Some(vec![0]));
    case_dbp(&mut r, &mut out, Some(vec![0, 0]));
    case_dbp(&mut r, &mut out, Some(vec![1]));
    case_dbp(&mut r, &mut out, Some(vec![]));
    for i in 0..a.cases {
        match i % 15 {
            14 => case_succinct(&mut r, &mut out),
            9 => case_bitvec(&mut r, &mut out),
            10 => case_dict(&mut r, &mut out),
            11 => case_compress(&mut r, &mut out),
            12 => case_chunk(&mut r, &mut out),
            13 => case_column(&mut r, &mut out),
            0 => case_zigzag(&mut r, &mut out),
            1 => case_delta_u(&mut r, &mut out),
            2 => case_delta_s(&mut r, &mut out, None),
            3 => case_pack(&mut r, &mut out),
            4 => case_pack_with_bits(&mut r, &mut out),
            5 => case_dbp(&mut r, &mut out, None),
            6 => case_rle(&mut r, &mut out),
            7 => case_srle(&mut r, &mut out),
            _ => case_bp_from_bytes(&mut r, &mut out),
        }
    }
    out.finish();
}
